//! op `py_inventory`: the same inventory observed through the Python API (embedded CPython).
use crate::inv::{make_config, materialise, scratch_dir};
use pyo3::prelude::*;
use pyo3::types::PyDict;
use reclass_rs::verif::Config;
use reclass_rs::Reclass;
use serde_json::{json, Value as J};
use std::ffi::CString;

const SCRIPT: &str = r#"
import json, math

def canon(o):
    # typed canonical form: bool before int (bool is a subclass of int)
    if o is None:
        return None
    if isinstance(o, bool):
        return {"bool": o}
    if isinstance(o, int):
        return {"int": str(o)}
    if isinstance(o, float):
        return {"float": repr(o)}
    if isinstance(o, str):
        return o
    if isinstance(o, (list, tuple)):
        return [canon(x) for x in o]
    if isinstance(o, dict):
        return {"dict": [[canon(k), canon(v)] for k, v in o.items()]}
    return {"other": type(o).__name__}

def exc(e):
    return {"exc": type(e).__name__, "msg": str(e)}

out = {}
r = None
try:
    cfg = Config.from_dict(root, options)
    out["config"] = {"ok": {"nodes_path": cfg.nodes_path, "classes_path": cfg.classes_path, "ignore": cfg.ignore_class_notfound,
                             "compose": cfg.compose_node_name, "patterns": list(cfg.ignore_class_notfound_regexp)}}
    r = Reclass.from_config(cfg)
except BaseException as e:
    out["ctor"] = exc(e)
if r is not None:
    out["nodes"] = {}
    for n in sorted(r.nodes.keys()):
        try:
            ni = r.nodeinfo(n)
            d = ni.as_dict()
            rec = d["__reclass__"]
            out["nodes"][n] = {"ok": {
                "parameters": canon(ni.parameters), "classes": canon(ni.classes), "applications": canon(ni.applications),
                "exports": canon(ni.exports),
                "meta": {"node": ni.__reclass__.node, "name": ni.__reclass__.name, "uri": ni.__reclass__.uri, "environment": ni.__reclass__.environment},
                "as_dict_same": (canon(d["parameters"]) == canon(ni.parameters) and canon(d["classes"]) == canon(ni.classes)
                                 and canon(d["applications"]) == canon(ni.applications) and canon(d["exports"]) == canon(ni.exports)
                                 and d["environment"] == ni.__reclass__.environment and rec["node"] == ni.__reclass__.node
                                 and rec["name"] == ni.__reclass__.name and rec["uri"] == ni.__reclass__.uri),
                "as_dict_keys": sorted(d.keys()),
            }}
        except BaseException as e:
            out["nodes"][n] = exc(e)
    try:
        inv = r.inventory()
        d = inv.as_dict()
        same = (canon(d["classes"]) == canon(inv.classes) and canon(d["applications"]) == canon(inv.applications) and sorted(d["nodes"].keys()) == sorted(inv.nodes.keys())
                and all(canon(d["nodes"][k]["parameters"]) == canon(inv.nodes[k].parameters) for k in d["nodes"]))
        out["inventory"] = {"ok": {"classes": canon(dict(sorted(inv.classes.items()))), "applications": canon(dict(sorted(inv.applications.items()))),
                                   "nodes": sorted(inv.nodes.keys()), "as_dict_same": same, "as_dict_keys": sorted(d.keys())}}
    except BaseException as e:
        out["inventory"] = exc(e)
    try:
        r.nodeinfo("no-such-node-xyz")
        out["unknown"] = "no exception"
    except BaseException as e:
        out["unknown"] = exc(e)
# construction entry points aimed at things that are not there: each either works or raises ValueError
import os
probes = [
    ("file_missing", lambda: Reclass.from_config_file(root, "no-such-config.yml")),
    ("file_missing_verbose", lambda: Reclass.from_config_file(root, "no-such-config.yml", True)),
    ("file_missing_verbose_kw", lambda: Reclass.from_config_file(root, "sub/none.yml", verbose=True)),
    ("root_missing", lambda: Reclass.from_config_file(os.path.join(root, "no-such-dir"), "reclass-config.yml")),
    ("root_missing_verbose", lambda: Reclass.from_config_file(os.path.join(root, "no-such-dir"), "reclass-config.yml", True)),
    ("file_is_dir", lambda: Reclass.from_config_file(root, "nodes")),
    ("file_is_dir_verbose", lambda: Reclass.from_config_file(root, "nodes", True)),
    ("ctor_root_missing", lambda: Reclass(inventory_path=os.path.join(root, "no-such-dir"))),
    ("ctor_root_is_file", lambda: Reclass(inventory_path=os.path.join(root, "nodes", "probe-file"))),
    ("dict_root_missing", lambda: Reclass.from_config(Config.from_dict(os.path.join(root, "no-such-dir"), {}))),
    ("dict_bad_type", lambda: Config.from_dict(root, {"ignore_class_notfound_regexp": 5})),
]
out["ctor_probes"] = []
for label, fn in probes:
    try:
        fn()
        out["ctor_probes"].append([label, "ok"])
    except BaseException as e:
        out["ctor_probes"].append([label, exc(e)])
result = json.dumps(out)
"#;

fn py_options(py: Python<'_>, cfg: &J) -> PyResult<Py<PyDict>> {
    let d = PyDict::new(py);
    if let Some(b) = cfg.get("compose_node_name").and_then(J::as_bool) {
        d.set_item("compose_node_name", b)?;
    }
    if let Some(b) = cfg.get("ignore_class_notfound").and_then(J::as_bool) {
        d.set_item("ignore_class_notfound", b)?;
    }
    if let Some(ps) = cfg.get("patterns").and_then(J::as_array) {
        let v: Vec<String> = ps.iter().filter_map(|p| p.as_str().map(str::to_string)).collect();
        d.set_item("ignore_class_notfound_regexp", v)?;
    }
    if cfg.get("literal_dots").and_then(J::as_bool) == Some(true) {
        d.set_item("reclass_rs_compat_flags", vec!["compose-node-name-literal-dots"])?;
    }
    if let Some(extra) = cfg.get("py_extra").and_then(J::as_object) {
        for (k, v) in extra {
            match v {
                J::Bool(b) => d.set_item(k, *b)?,
                J::String(s) => d.set_item(k, s)?,
                J::Number(n) => d.set_item(k, n.as_i64().unwrap_or(0))?,
                J::Null => d.set_item(k, py.None())?,
                J::Array(a) => d.set_item(k, a.iter().map(|x| x.as_str().unwrap_or("").to_string()).collect::<Vec<_>>())?,
                J::Object(_) => d.set_item(k, PyDict::new(py))?,
            }
        }
    }
    Ok(d.unbind())
}

pub fn run(req: &mut J) -> Result<J, String> {
    let scratch = scratch_dir();
    let root = scratch.0.clone();
    {
        let files = req.get_mut("files").and_then(J::as_array_mut).ok_or("missing files")?;
        materialise(&root, files)?;
    }
    std::fs::create_dir_all(root.join("nodes")).ok();
    std::fs::create_dir_all(root.join("classes")).ok();
    // the Rust-side twin of the same request gives the model its listing and the Rust observation
    let mut twin = req.clone();
    twin["op"] = json!("inventory");
    let cfgj = req.get("config").cloned().unwrap_or(json!({}));
    let _ = make_config(&root, &cfgj);
    let rootstr = root.to_str().unwrap().to_string();
    let res: Result<String, String> = Python::with_gil(|py| {
        let locals = PyDict::new(py);
        locals.set_item("Reclass", py.get_type::<Reclass>()).map_err(|e| e.to_string())?;
        locals.set_item("Config", py.get_type::<Config>()).map_err(|e| e.to_string())?;
        locals.set_item("root", &rootstr).map_err(|e| e.to_string())?;
        locals.set_item("options", py_options(py, &cfgj).map_err(|e| e.to_string())?).map_err(|e| e.to_string())?;
        py.run(&CString::new(SCRIPT).unwrap(), Some(&locals), Some(&locals)).map_err(|e| format!("python harness script failed: {e}"))?;
        let r = locals.get_item("result").map_err(|e| e.to_string())?.ok_or("no result")?;
        r.extract::<String>().map_err(|e| e.to_string())
    });
    let text = res?;
    let text = text.replace(&rootstr, "<ROOT>");
    let py: J = serde_json::from_str(&text).map_err(|e| e.to_string())?;
    // also produce the listing for the model by running the Rust-side inventory op on a copy
    let rust_obs = crate::inv::run(&mut twin)?;
    if let Some(l) = twin.get("listing") {
        req.as_object_mut().unwrap().insert("listing".into(), l.clone());
    }
    if let Some(f) = twin.get("files") {
        req.as_object_mut().unwrap().insert("files".into(), f.clone());
    }
    Ok(json!({"py": py, "rust": rust_obs}))
}


const CFG_SCRIPT: &str = r#"
import json

def exc(e):
    return {"exc": type(e).__name__, "msg": str(e)}

def fields(cfg):
    return {"nodes_path": cfg.nodes_path, "classes_path": cfg.classes_path, "ignore": cfg.ignore_class_notfound,
            "compose": cfg.compose_node_name, "patterns": list(cfg.ignore_class_notfound_regexp),
            "literal_dots": len(cfg.compatflags) > 0}

out = {}
opts = json.loads(options_json)
try:
    out["dict"] = {"ok": fields(Config.from_dict(root, opts))}
except BaseException as e:
    out["dict"] = exc(e)
try:
    r = Reclass.from_config_file(root, "reclass-config.yml")
    out["file"] = {"ok": fields(r.config)}
except BaseException as e:
    out["file"] = exc(e)
try:
    r = Reclass(inventory_path=root, nodes_path=ctor.get("nodes"), classes_path=ctor.get("classes"), ignore_class_notfound=ctor.get("ignore"))
    out["ctor"] = {"ok": fields(r.config)}
except BaseException as e:
    out["ctor"] = exc(e)
result = json.dumps(out)
"#;

/// op `py_config`: the same options through `Config.from_dict`, `Reclass.from_config_file`
/// and the constructor, all from Python.
pub fn run_config(req: &mut J) -> Result<J, String> {
    let scratch = scratch_dir();
    let root = scratch.0.join("inv");
    std::fs::create_dir_all(root.join("nodes")).map_err(|e| e.to_string())?;
    std::fs::create_dir_all(root.join("classes")).map_err(|e| e.to_string())?;
    let opts = req.get("py_options").cloned().unwrap_or(json!({}));
    // directories named by the options must exist for the file route to construct an instance
    for k in ["nodes_uri", "classes_uri"] {
        if let Some(p) = opts.get(k).and_then(J::as_str) {
            if !p.starts_with('/') && !p.contains("..") {
                let _ = std::fs::create_dir_all(root.join(p));
            }
        }
    }
    let ctor = req.get("ctor").cloned().unwrap_or(json!({}));
    for k in ["nodes", "classes"] {
        if let Some(p) = ctor.get(k).and_then(J::as_str) {
            if !p.starts_with('/') && !p.contains("..") {
                let _ = std::fs::create_dir_all(root.join(p));
            }
        }
    }
    // the file route reads YAML: JSON is YAML
    std::fs::write(root.join("reclass-config.yml"), serde_json::to_string(&opts).unwrap()).map_err(|e| e.to_string())?;
    let rootstr = root.to_str().unwrap().to_string();
    let res: Result<String, String> = Python::with_gil(|py| {
        let locals = PyDict::new(py);
        locals.set_item("Reclass", py.get_type::<Reclass>()).map_err(|e| e.to_string())?;
        locals.set_item("Config", py.get_type::<Config>()).map_err(|e| e.to_string())?;
        locals.set_item("root", &rootstr).map_err(|e| e.to_string())?;
        locals.set_item("options_json", opts.to_string()).map_err(|e| e.to_string())?;
        let c = PyDict::new(py);
        for k in ["nodes", "classes"] {
            match ctor.get(k).and_then(J::as_str) {
                Some(v) => c.set_item(k, v).map_err(|e| e.to_string())?,
                None => c.set_item(k, py.None()).map_err(|e| e.to_string())?,
            }
        }
        match ctor.get("ignore").and_then(J::as_bool) {
            Some(v) => c.set_item("ignore", v).map_err(|e| e.to_string())?,
            None => c.set_item("ignore", py.None()).map_err(|e| e.to_string())?,
        }
        locals.set_item("ctor", c).map_err(|e| e.to_string())?;
        py.run(&CString::new(CFG_SCRIPT).unwrap(), Some(&locals), Some(&locals)).map_err(|e| format!("python harness script failed: {e}"))?;
        let r = locals.get_item("result").map_err(|e| e.to_string())?.ok_or("no result")?;
        r.extract::<String>().map_err(|e| e.to_string())
    });
    let text = res?.replace(scratch.0.to_str().unwrap(), "<ROOT>");
    serde_json::from_str(&text).map_err(|e| e.to_string())
}
