//! Implementation side of each protocol operation.
use crate::codec::*;
use reclass_rs::types::{Mapping, Value};
use reclass_rs::verif::{self, List, RemovableList, Token, UniqueList};
use serde_json::{json, Value as J};

fn err_json(e: &anyhow::Error) -> J {
    json!({"err": format!("{e}")})
}

fn str_lists(req: &J) -> Result<Vec<Vec<String>>, String> {
    req.get("lists")
        .and_then(J::as_array)
        .ok_or("missing lists")?
        .iter()
        .map(|l| {
            l.as_array()
                .ok_or("bad list".to_string())?
                .iter()
                .map(|s| s.as_str().map(str::to_string).ok_or("bad str".to_string()))
                .collect()
        })
        .collect()
}

fn token_to_json(t: &Token) -> J {
    match t {
        Token::Literal(s) => json!({"lit": s}),
        Token::Ref(ps) => json!({"ref": ps.iter().map(token_to_json).collect::<Vec<_>>()}),
        Token::Combined(ps) => json!({"combined": ps.iter().map(token_to_json).collect::<Vec<_>>()}),
    }
}

/// Normalise a protocol YAML value in place (float texts) and return the serde_yaml value.
fn take_yaml(j: &mut J) -> Result<serde_yaml::Value, String> {
    let y = yaml_of_json(j)?;
    *j = json_of_yaml(&y);
    Ok(y)
}

fn result_mapping(r: &anyhow::Result<Mapping>) -> J {
    match r {
        Ok(m) => json!({"ok": mapping_to_json(m)}),
        Err(e) => err_json(e),
    }
}

pub fn run(req: &mut J) -> Result<J, String> {
    let op = req.get("op").and_then(J::as_str).ok_or("missing op")?.to_string();
    match op.as_str() {
        "lists" => {
            let ls = str_lists(req)?;
            let mut acc = RemovableList::new();
            for l in ls {
                acc.merge(RemovableList::from(l));
            }
            let (items, negs) = acc.verif_parts();
            Ok(json!({"ok": {"items": items, "negs": negs}}))
        }
        "ulists" => {
            let ls = str_lists(req)?;
            let mut acc = UniqueList::new();
            for l in ls {
                acc.merge(UniqueList::from(l));
            }
            let items: Vec<String> = acc.into();
            Ok(json!({"ok": {"items": items}}))
        }
        "parse" => {
            let s = req.get("s").and_then(J::as_str).ok_or("missing s")?;
            Ok(match verif::parse_token(s) {
                Ok(None) => json!({"ok": null}),
                Ok(Some(t)) => json!({"ok": token_to_json(&t)}),
                Err(e) => err_json(&e),
            })
        }
        "params" => {
            let layers = req.get_mut("layers").and_then(J::as_array_mut).ok_or("missing layers")?;
            let mut ys = vec![];
            for l in layers.iter_mut() {
                match take_yaml(l)? {
                    serde_yaml::Value::Mapping(m) => ys.push(m),
                    _ => return Err("layer is not a mapping".into()),
                }
            }
            // merged: fold Mapping::merge over Mapping::from(layer)
            let merged: anyhow::Result<Mapping> = (|| {
                let mut acc = Mapping::new();
                for y in ys {
                    // the conversion the parsing entry points use (fallible)
                    let m = verif::mapping_try_from_yaml(y)?;
                    acc.merge(&m)?;
                }
                Ok(acc)
            })();
            let rendered: anyhow::Result<Mapping> = match &merged {
                Err(e) => Err(anyhow::anyhow!("{e}")),
                Ok(m) => {
                    let mut v = Value::Mapping(m.clone());
                    v.render_with_self().and_then(|()| match v {
                        Value::Mapping(m) => Ok(m),
                        _ => Err(anyhow::anyhow!("not a mapping")),
                    })
                }
            };
            // implementation-only oracle (C07): rendering the rendered parameters again
            // leaves them unchanged
            let rerender = match &rendered {
                Ok(m) => {
                    let mut v = Value::Mapping(m.clone());
                    match v.render_with_self() {
                        Ok(()) => json!({"ok": value_to_json(&v)}),
                        Err(e) => err_json(&e),
                    }
                }
                Err(_) => J::Null,
            };
            Ok(json!({"merged": result_mapping(&merged), "rendered": result_mapping(&rendered), "rerender": rerender}))
        }
        "abs" => {
            let cls = req.get("cls").and_then(J::as_str).ok_or("missing cls")?;
            let loc = match req.get("loc") {
                Some(J::Array(a)) => {
                    let mut p = std::path::PathBuf::new();
                    for s in a {
                        p.push(s.as_str().ok_or("bad seg")?);
                    }
                    Some(p)
                }
                _ => None,
            };
            Ok(match verif::Node::verif_abs_class_name(loc, cls) {
                Ok(s) => json!({"ok": s}),
                Err(e) => err_json(&e),
            })
        }
        "inventory" => crate::inv::run(req),
        "config" => crate::cfg::run(req),
        "crash" => crate::inv::run_crash(req),
        "py_inventory" => crate::py::run(req),
        "py_config" => crate::py::run_config(req),
        _ => Err(format!("unknown op {op}")),
    }
}
