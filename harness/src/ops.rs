//! Implementation side of each protocol operation.
use crate::codec::*;
use reclass_rs::types::{Mapping, Value};
use reclass_rs::verif::{self, List, RemovableList, Token, UniqueList};
use serde_json::{json, Value as J};

fn err_json(e: &anyhow::Error) -> J {
    json!({"err": format!("{e}")})
}

fn str_lists(req: &J) -> Result<Vec<Vec<String>>, String> {
    req.get("lists")
        .and_then(J::as_array)
        .ok_or("missing lists")?
        .iter()
        .map(|l| {
            l.as_array()
                .ok_or("bad list".to_string())?
                .iter()
                .map(|s| s.as_str().map(str::to_string).ok_or("bad str".to_string()))
                .collect()
        })
        .collect()
}

fn token_to_json(t: &Token) -> J {
    match t {
        Token::Literal(s) => json!({"lit": s}),
        Token::Ref(ps) => json!({"ref": ps.iter().map(token_to_json).collect::<Vec<_>>()}),
        Token::Combined(ps) => json!({"combined": ps.iter().map(token_to_json).collect::<Vec<_>>()}),
    }
}

/// Normalise a protocol YAML value in place (float texts) and return the serde_yaml value.
fn take_yaml(j: &mut J) -> Result<serde_yaml::Value, String> {
    let y = yaml_of_json(j)?;
    *j = json_of_yaml(&y);
    Ok(y)
}

fn result_mapping(r: &anyhow::Result<Mapping>) -> J {
    match r {
        Ok(m) => json!({"ok": mapping_to_json(m)}),
        Err(e) => err_json(e),
    }
}

/// A rendered value as plain YAML (strings of either kind become YAML strings).
fn value_to_yaml(v: &Value) -> Result<serde_yaml::Value, String> {
    use serde_yaml::Value as Y;
    Ok(match v {
        Value::Null => Y::Null,
        Value::Bool(b) => Y::Bool(*b),
        Value::Number(n) => Y::Number(n.clone()),
        Value::String(s) | Value::Literal(s) => Y::String(s.clone()),
        Value::Sequence(l) => Y::Sequence(l.iter().map(value_to_yaml).collect::<Result<Vec<_>, _>>()?),
        Value::ValueList(_) => return Err("layer list".into()),
        Value::Mapping(m) => {
            let mut out = serde_yaml::Mapping::new();
            for (k, x) in m {
                out.insert(value_to_yaml(k)?, value_to_yaml(x)?);
            }
            Y::Mapping(out)
        }
    })
}

fn render_json(mut v: Value) -> J {
    match v.render_with_self() {
        Ok(()) => json!({"ok": value_to_json(&v)}),
        Err(e) => err_json(&e),
    }
}

/// `edit` = {"path": [segments], "value": protocol value}: the value at `path` of the rendered mapping is replaced
/// through `Value::get_mut`; `inplace` renders that very object again, `fresh` renders the same data rebuilt from YAML.
fn edit_and_render(rendered: &Mapping, e: &J) -> J {
    let mut v = Value::Mapping(rendered.clone());
    let path: Vec<String> = e.get("path").and_then(J::as_array).map(|a| a.iter().filter_map(|x| x.as_str().map(str::to_string)).collect()).unwrap_or_default();
    let newv = match e.get("value").map(yaml_of_json) {
        Some(Ok(y)) => {
            // converted by the parsing entry point, wrapped in a one-entry mapping
            let mut w = serde_yaml::Mapping::new();
            w.insert(serde_yaml::Value::String("v".into()), y);
            match verif::mapping_try_from_yaml(w) {
                Ok(mm) => match mm.get(&Value::from("v")) {
                    Some(x) => x.clone(),
                    None => return json!({"bad": "conversion lost the value"}),
                },
                Err(err) => return json!({"bad": format!("{err}")}),
            }
        }
        _ => return json!({"bad": "no value"}),
    };
    {
        let mut cur: &mut Value = &mut v;
        for seg in &path {
            cur = match cur.get_mut(&Value::from(seg.as_str())) {
                Ok(Some(x)) => x,
                _ => return json!({"bad": "path not found"}),
            };
        }
        *cur = newv;
    }
    let fresh = match value_to_yaml(&v) {
        Ok(serde_yaml::Value::Mapping(m)) => match verif::mapping_try_from_yaml(m) {
            Ok(mm) => render_json(Value::Mapping(mm)),
            Err(err) => json!({"bad": format!("{err}")}),
        },
        Ok(_) => json!({"bad": "not a mapping"}),
        Err(err) => json!({"bad": err}),
    };
    let inplace = render_json(v);
    json!({"inplace": inplace, "fresh": fresh})
}

pub fn run(req: &mut J) -> Result<J, String> {
    let op = req.get("op").and_then(J::as_str).ok_or("missing op")?.to_string();
    match op.as_str() {
        "lists" => {
            let ls = str_lists(req)?;
            let mut acc = RemovableList::new();
            for l in ls {
                acc.merge(RemovableList::from(l));
            }
            let (items, negs) = acc.verif_parts();
            Ok(json!({"ok": {"items": items, "negs": negs}}))
        }
        "ulists" => {
            let ls = str_lists(req)?;
            let mut acc = UniqueList::new();
            for l in ls {
                acc.merge(UniqueList::from(l));
            }
            let items: Vec<String> = acc.into();
            Ok(json!({"ok": {"items": items}}))
        }
        "parse" => {
            let s = req.get("s").and_then(J::as_str).ok_or("missing s")?;
            Ok(match verif::parse_token(s) {
                Ok(None) => json!({"ok": null}),
                Ok(Some(t)) => json!({"ok": token_to_json(&t)}),
                Err(e) => err_json(&e),
            })
        }
        "params" => {
            let layers = req.get_mut("layers").and_then(J::as_array_mut).ok_or("missing layers")?;
            let mut ys = vec![];
            for l in layers.iter_mut() {
                match take_yaml(l)? {
                    serde_yaml::Value::Mapping(m) => ys.push(m),
                    _ => return Err("layer is not a mapping".into()),
                }
            }
            // merged: fold Mapping::merge over Mapping::from(layer)
            let merged: anyhow::Result<Mapping> = (|| {
                let mut acc = Mapping::new();
                for y in ys {
                    // the conversion the parsing entry points use (fallible)
                    let m = verif::mapping_try_from_yaml(y)?;
                    acc.merge(&m)?;
                }
                Ok(acc)
            })();
            let rendered: anyhow::Result<Mapping> = match &merged {
                Err(e) => Err(anyhow::anyhow!("{e}")),
                Ok(m) => {
                    let mut v = Value::Mapping(m.clone());
                    v.render_with_self().and_then(|()| match v {
                        Value::Mapping(m) => Ok(m),
                        _ => Err(anyhow::anyhow!("not a mapping")),
                    })
                }
            };
            // implementation-only oracle (C07): rendering the rendered parameters again
            // leaves them unchanged
            let rerender = match &rendered {
                Ok(m) => {
                    let mut v = Value::Mapping(m.clone());
                    match v.render_with_self() {
                        Ok(()) => json!({"ok": value_to_json(&v)}),
                        Err(e) => err_json(&e),
                    }
                }
                Err(_) => J::Null,
            };
            // optional (C07): edit the RENDERED parameters in place through the public mutable accessors
            // (Value::get_mut), render them again, and compare with the same edited data built from scratch
            let edit = match (&rendered, req.get("edit")) {
                (Ok(m), Some(e)) => edit_and_render(m, e),
                _ => J::Null,
            };
            Ok(json!({"merged": result_mapping(&merged), "rendered": result_mapping(&rendered), "rerender": rerender, "edit": edit}))
        }
        "abs" => {
            let cls = req.get("cls").and_then(J::as_str).ok_or("missing cls")?;
            let loc = match req.get("loc") {
                Some(J::Array(a)) => {
                    let mut p = std::path::PathBuf::new();
                    for s in a {
                        p.push(s.as_str().ok_or("bad seg")?);
                    }
                    Some(p)
                }
                _ => None,
            };
            Ok(match verif::Node::verif_abs_class_name(loc, cls) {
                Ok(s) => json!({"ok": s}),
                Err(e) => err_json(&e),
            })
        }
        "inventory" => crate::inv::run(req),
        "config" => crate::cfg::run(req),
        "crash" => crate::inv::run_crash(req),
        "py_inventory" => crate::py::run(req),
        "py_config" => crate::py::run_config(req),
        _ => Err(format!("unknown op {op}")),
    }
}
