//! op `config`: configuration entry points and live setter histories.
use crate::codec::*;
use crate::inv::scratch_dir;
use reclass_rs::verif::{CompatFlag, Config};
use reclass_rs::Reclass;
use serde_json::{json, Value as J};
use std::path::Path;

fn rel(root: &Path, s: &str) -> String {
    s.replace(root.to_str().unwrap(), "<ROOT>")
}

fn observe(root: &Path, c: &Config, probes: &[String]) -> J {
    json!({
        "nodes_path": rel(root, &c.nodes_path),
        "classes_path": rel(root, &c.classes_path),
        "ignore": c.ignore_class_notfound,
        "compose": c.compose_node_name,
        "patterns": c.get_ignore_class_notfound_regexp(),
        "literal_dots": c.compatflags.contains(&CompatFlag::ComposeNodeNameLiteralDots),
        "probes": probes.iter().map(|p| c.verif_is_class_ignored(p)).collect::<Vec<_>>(),
    })
}

pub fn run(req: &mut J) -> Result<J, String> {
    let scratch = scratch_dir();
    let root = scratch.0.clone();
    let inv = root.join("inv");
    std::fs::create_dir_all(inv.join("nodes")).map_err(|e| e.to_string())?;
    std::fs::create_dir_all(inv.join("classes")).map_err(|e| e.to_string())?;
    let invs = inv.to_str().unwrap().to_string();
    let route = req.get("route").and_then(J::as_str).unwrap_or("opts").to_string();
    let probes: Vec<String> = req.get("probes").and_then(J::as_array).map(|a| a.iter().filter_map(|x| x.as_str().map(str::to_string)).collect()).unwrap_or_default();
    // normalise options: [key, yaml, vstr]
    let mut opts: Vec<(String, serde_yaml::Value)> = vec![];
    if let Some(arr) = req.get_mut("options").and_then(J::as_array_mut) {
        for o in arr.iter_mut() {
            let a = o.as_array_mut().ok_or("bad option")?;
            let k = a[0].as_str().ok_or("bad key")?.to_string();
            let y = yaml_of_json(&a[1])?;
            a[1] = json_of_yaml(&y);
            let vstr = serde_yaml::to_string(&y).map_err(|e| e.to_string())?.trim().to_string();
            if a.len() < 3 {
                a.push(json!(vstr));
            } else {
                a[2] = json!(vstr);
            }
            opts.push((k, y));
        }
    }
    let built: anyhow::Result<Config> = (|| match route.as_str() {
        "file" => {
            let mut m = serde_yaml::Mapping::new();
            for (k, v) in &opts {
                m.insert(serde_yaml::Value::String(k.clone()), v.clone());
            }
            std::fs::write(inv.join("reclass-config.yml"), serde_yaml::to_string(&serde_yaml::Value::Mapping(m))?)?;
            let mut c = Config::new(Some(&invs), None, None, None)?;
            c.load_from_file("reclass-config.yml", false)?;
            Ok(c)
        }
        "ctor" => {
            let ct = req.get("ctor").cloned().unwrap_or(json!({}));
            Config::new(Some(&invs), ct.get("nodes").and_then(J::as_str), ct.get("classes").and_then(J::as_str), ct.get("ignore").and_then(J::as_bool))
        }
        _ => {
            let mut c = Config::new(Some(&invs), None, None, None)?;
            let cfg_path = inv.join("dummy");
            for (k, v) in &opts {
                c.verif_set_option(&cfg_path, k, v)?;
            }
            c.verif_compile()?;
            Ok(c)
        }
    })();
    let c = match built {
        Ok(c) => c,
        Err(e) => return Ok(json!({"build": {"err": rel(&root, &format!("{e}"))}})),
    };
    let mut out = serde_json::Map::new();
    out.insert("build".into(), json!({"ok": observe(&root, &c, &probes)}));
    // a live instance for the setter history
    for p in [&c.nodes_path, &c.classes_path] {
        if p.starts_with(root.to_str().unwrap()) {
            let _ = std::fs::create_dir_all(p);
        }
    }
    let steps = req.get("steps").and_then(J::as_array).cloned().unwrap_or_default();
    match Reclass::new_from_config(c) {
        Err(e) => {
            out.insert("instance".into(), json!({"err": rel(&root, &format!("{e}"))}));
        }
        Ok(mut r) => {
            let mut hist = vec![];
            for s in steps {
                let a = s.as_array().ok_or("bad step")?;
                let name = a[0].as_str().unwrap_or("");
                let ok = match name {
                    "set_patterns" => {
                        let ps: Vec<String> = a[1].as_array().map(|x| x.iter().filter_map(|p| p.as_str().map(str::to_string)).collect()).unwrap_or_default();
                        r.config.set_ignore_class_notfound_regexp(ps).is_ok()
                    }
                    "set_flag" => {
                        r.set_compat_flag(CompatFlag::ComposeNodeNameLiteralDots);
                        true
                    }
                    "unset_flag" => {
                        r.unset_compat_flag(&CompatFlag::ComposeNodeNameLiteralDots);
                        true
                    }
                    "clear_flags" => {
                        r.clear_compat_flags();
                        true
                    }
                    _ => return Err(format!("unknown step {name}")),
                };
                hist.push(json!({"ok": ok, "state": observe(&root, &r.config, &probes)}));
            }
            out.insert("history".into(), J::Array(hist));
        }
    }
    Ok(J::Object(out))
}
