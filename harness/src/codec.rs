//! JSON codec of the line protocol (see lean/Reclass/Driver/Codec.lean for the format).
use reclass_rs::types::{Mapping, Value};
use serde_json::{json, Value as J};

/// Decode the protocol's YAML encoding into a `serde_yaml::Value`.
pub fn yaml_of_json(j: &J) -> Result<serde_yaml::Value, String> {
    use serde_yaml::Value as Y;
    Ok(match j {
        J::Null => Y::Null,
        J::Bool(b) => Y::Bool(*b),
        J::String(s) => Y::String(s.clone()),
        J::Array(a) => Y::Sequence(a.iter().map(yaml_of_json).collect::<Result<Vec<_>, _>>()?),
        J::Number(_) => return Err("bare JSON number".into()),
        J::Object(o) => {
            if let Some(J::String(t)) = o.get("i") {
                if let Ok(i) = t.parse::<i64>() {
                    Y::Number(i.into())
                } else if let Ok(u) = t.parse::<u64>() {
                    Y::Number(u.into())
                } else {
                    return Err(format!("int out of range {t}"));
                }
            } else if let Some(J::Array(f)) = o.get("f") {
                // floats travel as their YAML text; parse it back with serde_yaml
                let t = f[0].as_str().ok_or("bad float")?;
                let y: Y = serde_yaml::from_str(t).map_err(|e| e.to_string())?;
                if !matches!(&y, Y::Number(n) if n.is_f64()) {
                    return Err(format!("not a float: {t}"));
                }
                y
            } else if let Some(J::Array(es)) = o.get("m") {
                let mut m = serde_yaml::Mapping::new();
                for e in es {
                    let kv = e.as_array().ok_or("bad entry")?;
                    m.insert(yaml_of_json(&kv[0])?, yaml_of_json(&kv[1])?);
                }
                Y::Mapping(m)
            } else if let Some(J::Array(tv)) = o.get("t") {
                let tag = tv[0].as_str().ok_or("bad tag")?;
                Y::Tagged(Box::new(serde_yaml::value::TaggedValue {
                    tag: serde_yaml::value::Tag::new(tag),
                    value: yaml_of_json(&tv[1])?,
                }))
            } else {
                return Err(format!("bad yaml json {j}"));
            }
        }
    })
}

/// Text of a float as the protocol carries it: `[yamlText, jsonText]`.
pub fn float_texts(n: &serde_yaml::Number) -> (String, String) {
    let y = n.to_string();
    let f = n.as_f64().unwrap_or(f64::NAN);
    let j = if f.is_nan() || f.is_infinite() {
        serde_json::to_string(&J::String(y.clone())).unwrap()
    } else {
        serde_json::Number::from_f64(f).map(|x| x.to_string()).unwrap_or_default()
    };
    (y, j)
}

pub fn num_to_json(n: &serde_yaml::Number) -> J {
    if let Some(i) = n.as_i64() {
        json!({"i": i.to_string()})
    } else if let Some(u) = n.as_u64() {
        json!({"i": u.to_string()})
    } else {
        let (y, j) = float_texts(n);
        json!({"f": [y, j]})
    }
}

/// Encode an implementation `Value` (with mapping flags through the hook).
pub fn value_to_json(v: &Value) -> J {
    match v {
        Value::Null => J::Null,
        Value::Bool(b) => J::Bool(*b),
        Value::Number(n) => num_to_json(n),
        Value::String(s) => json!({"s": s}),
        Value::Literal(s) => J::String(s.clone()),
        Value::Sequence(l) => J::Array(l.iter().map(value_to_json).collect()),
        Value::ValueList(l) => json!({"vl": l.iter().map(value_to_json).collect::<Vec<_>>()}),
        Value::Mapping(m) => mapping_to_json(m),
    }
}

pub fn mapping_to_json(m: &Mapping) -> J {
    let (c, o) = m.verif_flags();
    json!({
        "m": m.iter().map(|(k, v)| json!([value_to_json(k), value_to_json(v)])).collect::<Vec<_>>(),
        "c": c.iter().map(value_to_json).collect::<Vec<_>>(),
        "o": o.iter().map(value_to_json).collect::<Vec<_>>(),
    })
}

/// Re-encode a `serde_yaml::Value` in the protocol's YAML encoding (floats get their texts).
pub fn json_of_yaml(y: &serde_yaml::Value) -> J {
    use serde_yaml::Value as Y;
    match y {
        Y::Null => J::Null,
        Y::Bool(b) => J::Bool(*b),
        Y::Number(n) => num_to_json(n),
        Y::String(s) => J::String(s.clone()),
        Y::Sequence(l) => J::Array(l.iter().map(json_of_yaml).collect()),
        Y::Mapping(m) => json!({"m": m.iter().map(|(k, v)| json!([json_of_yaml(k), json_of_yaml(v)])).collect::<Vec<_>>()}),
        Y::Tagged(t) => json!({"t": [t.tag.to_string(), json_of_yaml(&t.value)]}),
    }
}
