//! Inventory-level operations (filled in below).
use serde_json::Value as J;
pub fn run(_req: &mut J) -> Result<J, String> {
    Err("inventory op not built yet".into())
}
