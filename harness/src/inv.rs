//! Inventory-level operation: build a real directory tree, construct `Reclass`, discover,
//! render every node and the whole inventory.  Also produces what the model needs: the
//! directory listing (own walk, following symlinks) and the post-YAML content of every file.
use crate::codec::*;
use reclass_rs::verif::{self, CompatFlag, Config};
use reclass_rs::Reclass;
use serde_json::{json, Map, Value as J};
use std::collections::BTreeMap;
use std::path::{Path, PathBuf};
use std::sync::atomic::{AtomicU64, Ordering};

static COUNTER: AtomicU64 = AtomicU64::new(0);

pub struct Scratch(pub PathBuf);
impl Drop for Scratch {
    fn drop(&mut self) {
        let _ = std::fs::remove_dir_all(&self.0);
    }
}

pub fn scratch_dir() -> Scratch {
    let base = std::env::var("RVH_TMP").map(PathBuf::from).unwrap_or_else(|_| std::env::temp_dir());
    let n = COUNTER.fetch_add(1, Ordering::SeqCst);
    let p = base.join(format!("rvh-{}-{}", std::process::id(), n));
    let _ = std::fs::remove_dir_all(&p);
    std::fs::create_dir_all(&p).expect("scratch dir");
    // resolve symlinks in the temp location so that lexical and canonical paths agree
    Scratch(p.canonicalize().expect("canonicalize scratch"))
}

fn yaml_text_of_content(c: &mut J) -> Result<String, String> {
    // structured content: {"classes":[..],"applications":[..],"parameters":<yaml map>}; any part optional
    let mut doc = serde_yaml::Mapping::new();
    if let Some(cl) = c.get("classes") {
        doc.insert("classes".into(), serde_yaml::to_value(cl).map_err(|e| e.to_string())?);
    }
    if let Some(ap) = c.get("applications") {
        doc.insert("applications".into(), serde_yaml::to_value(ap).map_err(|e| e.to_string())?);
    }
    if let Some(p) = c.get_mut("parameters") {
        let y = yaml_of_json(p)?;
        *p = json_of_yaml(&y);
        doc.insert("parameters".into(), y);
    }
    serde_yaml::to_string(&serde_yaml::Value::Mapping(doc)).map_err(|e| e.to_string())
}

/// Write the request's files below `root`.
pub fn materialise(root: &Path, files: &mut [J]) -> Result<(), String> {
    for f in files.iter_mut() {
        let rel = f.get("path").and_then(J::as_str).ok_or("file without path")?.to_string();
        let p = root.join(&rel);
        let kind = f.get("kind").and_then(J::as_str).unwrap_or("file").to_string();
        if let Some(parent) = p.parent() {
            std::fs::create_dir_all(parent).map_err(|e| format!("mkdir {rel}: {e}"))?;
        }
        match kind.as_str() {
            "dir" => std::fs::create_dir_all(&p).map_err(|e| format!("mkdir {rel}: {e}"))?,
            "fifo" => {
                let st = std::process::Command::new("mkfifo").arg(&p).status().map_err(|e| format!("mkfifo {rel}: {e}"))?;
                if !st.success() {
                    return Err(format!("mkfifo {rel} failed"));
                }
            }
            "socket" => {
                std::os::unix::net::UnixListener::bind(&p).map_err(|e| format!("socket {rel}: {e}"))?;
            }
            "symlink" => {
                let t = f.get("target").and_then(J::as_str).ok_or("symlink without target")?;
                std::os::unix::fs::symlink(t, &p).map_err(|e| format!("symlink {rel}: {e}"))?;
            }
            _ => {
                let text = if let Some(raw) = f.get("raw").and_then(J::as_str) {
                    raw.to_string()
                } else if let Some(c) = f.get_mut("content") {
                    yaml_text_of_content(c)?
                } else {
                    String::new()
                };
                if let Some(b) = f.get("raw_bytes").and_then(J::as_array) {
                    let bytes: Vec<u8> = b.iter().map(|x| x.as_u64().unwrap_or(0) as u8).collect();
                    std::fs::write(&p, bytes).map_err(|e| format!("write {rel}: {e}"))?;
                } else {
                    std::fs::write(&p, text).map_err(|e| format!("write {rel}: {e}"))?;
                }
            }
        }
    }
    Ok(())
}

/// Own directory walk, following symlinks (with a depth guard), sorted by name.
fn list_dir(root: &Path, rel: &mut Vec<String>, out: &mut Vec<(Vec<String>, bool)>, depth: usize) {
    if depth > 80 {
        return;
    }
    let dir = rel.iter().fold(root.to_path_buf(), |p, s| p.join(s));
    let Ok(rd) = std::fs::read_dir(&dir) else { return };
    let mut names: Vec<String> = rd.filter_map(|e| e.ok()).filter_map(|e| e.file_name().into_string().ok()).collect();
    names.sort();
    for n in names {
        rel.push(n);
        let p = rel.iter().fold(root.to_path_buf(), |p, s| p.join(s));
        match std::fs::metadata(&p) {
            Ok(md) if md.is_dir() => {
                out.push((rel.clone(), false));
                list_dir(root, rel, out, depth + 1);
            }
            Ok(md) if md.is_file() => out.push((rel.clone(), true)),
            // FIFOs, sockets, devices: neither a file nor a directory (never read by this walk)
            Ok(_) => out.push((rel.clone(), false)),
            Err(_) => {}
        }
        rel.pop();
    }
}

/// The document shape the implementation deserialises a class/node file into (serde_yaml is a
/// library below the model): string lists keep the source text of plain scalars (`1.10`, `True`).
#[derive(serde::Deserialize)]
struct FileDoc {
    #[serde(default)]
    applications: Vec<String>,
    #[serde(default)]
    classes: Vec<String>,
    #[serde(default)]
    parameters: serde_yaml::Mapping,
}

/// Post-YAML content of a class/node file as the model consumes it, or `{"bad": why}`.
fn parsed_content(p: &Path) -> J {
    let Ok(text) = std::fs::read_to_string(p) else { return json!({"bad": "unreadable"}) };
    let doc: FileDoc = match serde_yaml::from_str(&text) {
        Ok(d) => d,
        Err(e) => return json!({"bad": format!("invalid document: {e}")}),
    };
    let merged = match yaml_merge_keys::merge_keys_serde(serde_yaml::Value::Mapping(doc.parameters)) {
        Ok(v) => v,
        Err(_) => return json!({"bad": "merge keys"}),
    };
    json!({"apps": doc.applications, "classes": doc.classes, "params": json_of_yaml(&merged)})
}

fn listing_json(root: &Path) -> J {
    let mut out = vec![];
    list_dir(root, &mut vec![], &mut out, 0);
    let mut arr = vec![];
    for (rel, is_file) in out {
        let mut e = Map::new();
        e.insert("rel".into(), json!(rel));
        e.insert("file".into(), json!(is_file));
        let name = rel.last().unwrap();
        let ext = Path::new(name).extension().and_then(|x| x.to_str()).unwrap_or("");
        if is_file && (ext == "yml" || ext == "yaml") {
            let p = rel.iter().fold(root.to_path_buf(), |p, s| p.join(s));
            e.insert("parsed".into(), parsed_content(&p));
        }
        arr.push(J::Object(e));
    }
    J::Array(arr)
}

pub fn make_config(root: &Path, cfg: &J) -> anyhow::Result<Config> {
    // the same directory under another spelling (doubled separator, interior `.`, trailing separator, a detour
    // through a sub-directory): the configured path is normalised lexically, so nothing observable may change
    let spelled: Option<String> = cfg.get("root_spelling").and_then(J::as_str).and_then(|sp| {
        let parent = root.parent()?.to_str()?.to_string();
        let name = root.file_name()?.to_str()?.to_string();
        match sp {
            "double_slash" => Some(format!("{parent}//{name}")),
            "dot" => Some(format!("{parent}/./{name}")),
            "trailing" => Some(format!("{parent}/{name}/")),
            "detour" => Some(format!("{parent}/{name}/nodes/../../{name}")),
            "triple" => Some(format!("{parent}///{name}//")),
            _ => None,
        }
    });
    let inv = match &spelled {
        Some(s) => s.as_str(),
        None => cfg.get("inventory_path").and_then(J::as_str).unwrap_or_else(|| root.to_str().unwrap()),
    };
    if let Some(opts) = cfg.get("file_options").and_then(J::as_array) {
        // the same settings through a config file whose keys are written in the given order
        let mut m = serde_yaml::Mapping::new();
        for kv in opts {
            let k = kv.get(0).and_then(J::as_str).unwrap_or("");
            let v: serde_yaml::Value = serde_json::from_value(kv.get(1).cloned().unwrap_or(J::Null))?;
            m.insert(serde_yaml::Value::String(k.to_string()), v);
        }
        std::fs::write(Path::new(inv).join("reclass-config.yml"), serde_yaml::to_string(&serde_yaml::Value::Mapping(m))?)?;
        let mut c = Config::new(Some(inv), None, None, None)?;
        c.load_from_file("reclass-config.yml", false)?;
        return Ok(c);
    }
    let ignore = cfg.get("ignore_class_notfound").and_then(J::as_bool);
    let mut c = Config::new(Some(inv), None, None, ignore)?;
    if let Some(b) = cfg.get("compose_node_name").and_then(J::as_bool) {
        c.compose_node_name = b;
    }
    if cfg.get("literal_dots").and_then(J::as_bool) == Some(true) {
        c.compatflags.insert(CompatFlag::ComposeNodeNameLiteralDots);
    }
    if let Some(ps) = cfg.get("patterns").and_then(J::as_array) {
        let ps: Vec<String> = ps.iter().filter_map(|p| p.as_str().map(str::to_string)).collect();
        c.set_ignore_class_notfound_regexp(ps)?;
    }
    Ok(c)
}

fn rel_str(root: &Path, s: &str) -> String {
    // (with a working-directory-relative inventory the implementation names files as ./nodes/.. and ./classes/..)
    let s = s.replace(root.to_str().unwrap(), "<ROOT>");
    let s = replace_at_path_start(&s, "./nodes/", "<ROOT>/nodes/");
    replace_at_path_start(&s, "./classes/", "<ROOT>/classes/")
}

/// Replace `pat` by `with` where `pat` starts a path (start of the text, or after a character that cannot be part of
/// a path): `<ROOT>/./nodes/x` and `a/../nodes/x` are left alone.
fn replace_at_path_start(s: &str, pat: &str, with: &str) -> String {
    let mut out = String::with_capacity(s.len());
    let mut rest = s;
    let mut prev: Option<char> = None;
    while let Some(i) = rest.find(pat) {
        let before = rest[..i].chars().last().or(if i == 0 { prev } else { None });
        let inside_path = matches!(before, Some(c) if c.is_alphanumeric() || "_./>-~".contains(c));
        out.push_str(&rest[..i]);
        if inside_path {
            out.push_str(pat);
        } else {
            out.push_str(with);
        }
        prev = pat.chars().last();
        rest = &rest[i + pat.len()..];
    }
    out.push_str(rest);
    out
}

fn entities_json(v: Vec<(String, PathBuf, PathBuf)>) -> J {
    let mut m = BTreeMap::new();
    for (k, p, l) in v {
        m.insert(k, json!([p.to_string_lossy(), l.to_string_lossy()]));
    }
    json!(m)
}

pub fn nodeinfo_json(root: &Path, n: &verif::NodeInfo) -> J {
    json!({
        "apps": n.applications,
        "classes": n.classes,
        "params": mapping_to_json(&n.parameters),
        "meta": {"node": n.reclass.node, "name": n.reclass.name, "uri": rel_str(root, &n.reclass.uri), "environment": n.reclass.environment},
    })
}

static CWD_LOCK: std::sync::Mutex<()> = std::sync::Mutex::new(());

/// op `inventory`. With `watchdog_s` the work runs on its own thread and a result that does not arrive in
/// time is reported as `{"hang": seconds}` (FIFOs of the request are then opened for writing so that the
/// blocked reader is released). With `cwd_relative` the process changes into the scratch inventory and the
/// implementation is given the relative path "." (serialised by a lock; all other cases use absolute paths).
pub fn run(req: &mut J) -> Result<J, String> {
    let scratch = scratch_dir();
    let root = scratch.0.clone();
    let cwd_guard = if req.get("cwd_relative").and_then(J::as_bool) == Some(true) {
        let g = CWD_LOCK.lock().unwrap_or_else(|e| e.into_inner());
        let prev = std::env::current_dir().ok();
        // materialise first (absolute paths), then move in
        std::fs::create_dir_all(&root).ok();
        Some((g, prev))
    } else {
        None
    };
    let res = if let Some(secs) = req.get("watchdog_s").and_then(J::as_u64) {
        let mut owned = req.clone();
        let r2 = root.clone();
        let (tx, rx) = std::sync::mpsc::channel();
        std::thread::Builder::new()
            .stack_size(64 << 20)
            .spawn(move || {
                let out = std::panic::catch_unwind(std::panic::AssertUnwindSafe(|| run_in(&mut owned, &r2)));
                let _ = tx.send((out, owned));
            })
            .map_err(|e| e.to_string())?;
        match rx.recv_timeout(std::time::Duration::from_secs(secs)) {
            Ok((Ok(out), owned)) => {
                *req = owned;
                out
            }
            Ok((Err(p), owned)) => {
                *req = owned;
                let msg = p.downcast_ref::<String>().cloned().or_else(|| p.downcast_ref::<&str>().map(|s| s.to_string())).unwrap_or_default();
                Ok(json!({"panic": msg}))
            }
            Err(_) => {
                // release readers blocked on FIFOs, give the thread a moment, report the hang
                if let Some(files) = req.get("files").and_then(J::as_array) {
                    for f in files {
                        if f.get("kind").and_then(J::as_str) == Some("fifo") {
                            if let Some(rel) = f.get("path").and_then(J::as_str) {
                                use std::os::unix::fs::OpenOptionsExt;
                                for _ in 0..50 {
                                    let _ = std::fs::OpenOptions::new().write(true).custom_flags(0o4000).open(root.join(rel));
                                    if rx.recv_timeout(std::time::Duration::from_millis(100)).is_ok() {
                                        break;
                                    }
                                }
                            }
                        }
                    }
                }
                Ok(json!({"hang": secs}))
            }
        }
    } else {
        run_in(req, &root)
    };
    if let Some((_g, prev)) = cwd_guard {
        if let Some(p) = prev {
            let _ = std::env::set_current_dir(p);
        }
    }
    res
}

fn run_in(req: &mut J, root_ref: &Path) -> Result<J, String> {
    let root = root_ref.to_path_buf();
    {
        let files = req.get_mut("files").and_then(J::as_array_mut).ok_or("missing files")?;
        materialise(&root, files)?;
    }
    std::fs::create_dir_all(root.join("nodes")).ok();
    std::fs::create_dir_all(root.join("classes")).ok();
    let listing = json!({"nodes": listing_json(&root.join("nodes")), "classes": listing_json(&root.join("classes"))});
    req.as_object_mut().unwrap().insert("listing".into(), listing);
    let mut cfgj = req.get("config").cloned().unwrap_or(json!({}));
    if req.get("cwd_relative").and_then(J::as_bool) == Some(true) {
        std::env::set_current_dir(&root).map_err(|e| format!("chdir: {e}"))?;
        cfgj.as_object_mut().unwrap().insert("inventory_path".into(), json!("."));
    }
    let mut obs = Map::new();
    // `inventory_link`: the inventory is reached through a symlink (root/<link> -> root/<target>), so that a `..`
    // in nodes_uri/classes_uri resolves differently for the OS than for a textual normalisation
    if let Some(l) = cfgj.get("inventory_link").and_then(J::as_array).cloned() {
        let (link, target) = (l[0].as_str().unwrap_or("current"), l[1].as_str().unwrap_or("real/inv"));
        std::fs::create_dir_all(root.join(target)).map_err(|e| e.to_string())?;
        let depth = link.matches('/').count();
        let rel_target = format!("{}{}", "../".repeat(depth), target);
        if let Some(parent) = root.join(link).parent() {
            std::fs::create_dir_all(parent).map_err(|e| e.to_string())?;
        }
        let _ = std::os::unix::fs::symlink(rel_target, root.join(link));
        let ip = root.join(link);
        cfgj.as_object_mut().unwrap().insert("inventory_path".into(), json!(ip.to_str().unwrap()));
    }
    let cfg = match make_config(&root, &cfgj) {
        Ok(c) => c,
        Err(e) => {
            obs.insert("config".into(), json!({"err": rel_str(&root, &format!("{e}"))}));
            return Ok(J::Object(obs));
        }
    };
    if cfgj.get("inventory_link").is_some() {
        // the model's view of "the nodes/classes directory": what the OS finds at the configured paths
        let listing = json!({"nodes": listing_json(Path::new(&cfg.nodes_path)), "classes": listing_json(Path::new(&cfg.classes_path))});
        req.as_object_mut().unwrap().insert("listing".into(), listing);
    }
    let mut r = match Reclass::new_from_config(cfg) {
        Ok(r) => r,
        Err(e) => {
            obs.insert("discover".into(), json!({"err": rel_str(&root, &format!("{e}"))}));
            return Ok(J::Object(obs));
        }
    };
    obs.insert(
        "discover".into(),
        json!({"ok": {"nodes": entities_json(verif::entities(&r, true)), "classes": entities_json(verif::entities(&r, false))}}),
    );
    // every node alone
    let mut names: Vec<String> = r.nodes().map_err(|e| e.to_string())?.keys().cloned().collect();
    names.sort();
    let mut per = Map::new();
    let mut singles = BTreeMap::new();
    for n in &names {
        let res = r.render_node(n);
        let j = match &res {
            Ok(info) => json!({"ok": nodeinfo_json(&root, info)}),
            Err(e) => json!({"err": rel_str(&root, &format!("{e}"))}),
        };
        singles.insert(n.clone(), j.clone());
        per.insert(n.clone(), j);
    }
    obs.insert("nodes".into(), J::Object(per));
    // the whole inventory
    let inv = r.render_inventory();
    let invj = match &inv {
        Ok(inv) => {
            let (apps, classes, nodes) = inv.verif_parts();
            let mut same = true;
            let mut nn = BTreeMap::new();
            for (k, v) in nodes {
                let j = json!({"ok": nodeinfo_json(&root, v)});
                if singles.get(k) != Some(&j) {
                    same = false;
                }
                nn.insert(k.clone(), j);
            }
            let a: BTreeMap<_, _> = apps.iter().collect();
            let c: BTreeMap<_, _> = classes.iter().collect();
            json!({"ok": {"apps": a, "classes": c, "nodes": nn.keys().collect::<Vec<_>>(), "entries_equal_single": same}})
        }
        Err(e) => json!({"err": rel_str(&root, &format!("{e}"))}),
    };
    obs.insert("inventory".into(), invj);
    // repetition / order independence on this one instance (C12): render nodes again in
    // shuffled orders, interleaved with whole-inventory renders, and compare with the first results
    if let Some(rounds) = req.get("repeat").and_then(J::as_u64) {
        let mut state: u64 = req.get("repeat_seed").and_then(J::as_u64).unwrap_or(1) | 1;
        let mut next = || {
            state ^= state << 13;
            state ^= state >> 7;
            state ^= state << 17;
            state
        };
        let mut unstable: Vec<String> = vec![];
        for round in 0..rounds {
            let mut order = names.clone();
            for i in (1..order.len()).rev() {
                let j = (next() % (i as u64 + 1)) as usize;
                order.swap(i, j);
            }
            for (k, n) in order.iter().enumerate() {
                let j = match r.render_node(n) {
                    Ok(info) => json!({"ok": nodeinfo_json(&root, &info)}),
                    Err(e) => json!({"err": rel_str(&root, &format!("{e}"))}),
                };
                if singles.get(n) != Some(&j) {
                    unstable.push(format!("round {round}: node {n} rendered differently on repetition"));
                }
                if k == order.len() / 2 {
                    if let Ok(inv2) = r.render_inventory() {
                        let (_, _, nodes2) = inv2.verif_parts();
                        for (k2, v2) in nodes2 {
                            if singles.get(k2) != Some(&json!({"ok": nodeinfo_json(&root, v2)})) {
                                unstable.push(format!("round {round}: inventory entry {k2} differs from the single render"));
                            }
                        }
                    }
                }
            }
        }
        obs.insert("repeat".into(), json!({"stable": unstable.is_empty(), "diffs": unstable.into_iter().take(3).collect::<Vec<_>>()}));
    }
    // unknown node
    if let Err(e) = r.render_node("no-such-node-xyz") {
        obs.insert("unknown".into(), json!({"err": format!("{e}")}));
    }
    if let Some(steps) = req.get("lifecycle").and_then(J::as_array).cloned() {
        let j = lifecycle(&root, &cfgj, &mut r, &names, &singles, &steps);
        obs.insert("lifecycle".into(), j);
    }
    Ok(J::Object(obs))
}

/// Reconfiguration steps of the `lifecycle` part: applied to a live instance through the public
/// methods, and to a fresh `Config` before construction.
fn apply_steps_live(root: &Path, r: &mut Reclass, steps: &[J]) -> Vec<J> {
    let mut out = vec![];
    for s in steps {
        if let Some(f) = s.get("set_flag").and_then(J::as_str) {
            match CompatFlag::try_from(f) {
                Ok(fl) => {
                    r.set_compat_flag(fl);
                    out.push(json!("ok"));
                }
                Err(e) => out.push(json!({"err": format!("{e}")})),
            }
        } else if let Some(f) = s.get("unset_flag").and_then(J::as_str) {
            match CompatFlag::try_from(f) {
                Ok(fl) => {
                    r.unset_compat_flag(&fl);
                    out.push(json!("ok"));
                }
                Err(e) => out.push(json!({"err": format!("{e}")})),
            }
        } else if s.get("clear_flags").is_some() {
            r.clear_compat_flags();
            out.push(json!("ok"));
        } else if let Some(ps) = s.get("patterns").and_then(J::as_array) {
            let ps: Vec<String> = ps.iter().filter_map(|p| p.as_str().map(str::to_string)).collect();
            match r.set_ignore_class_notfound_regexp(ps) {
                Ok(()) => out.push(json!("ok")),
                Err(e) => out.push(json!({"err": format!("{e}")})),
            }
        } else if let Some(w) = s.get("rewrite") {
            // a file is edited in place between two renders of the same instance
            let mut files = vec![w.clone()];
            match materialise(root, &mut files) {
                Ok(()) => out.push(json!("ok")),
                Err(e) => out.push(json!({"err": e})),
            }
        } else if let Some(n) = s.get("render").and_then(J::as_str) {
            let _ = r.render_node(n);
            out.push(json!("ok"));
        } else if s.get("render_inventory").is_some() {
            let _ = r.render_inventory();
            out.push(json!("ok"));
        } else {
            out.push(json!({"err": "unknown step"}));
        }
    }
    out
}

fn apply_steps_config(c: &mut Config, steps: &[J]) {
    for s in steps {
        if let Some(f) = s.get("set_flag").and_then(J::as_str) {
            if let Ok(fl) = CompatFlag::try_from(f) {
                c.compatflags.insert(fl);
            }
        } else if let Some(f) = s.get("unset_flag").and_then(J::as_str) {
            if let Ok(fl) = CompatFlag::try_from(f) {
                c.compatflags.remove(&fl);
            }
        } else if s.get("clear_flags").is_some() {
            c.compatflags.clear();
        } else if let Some(ps) = s.get("patterns").and_then(J::as_array) {
            let ps: Vec<String> = ps.iter().filter_map(|p| p.as_str().map(str::to_string)).collect();
            // a failed call leaves the previous patterns in place, on the live instance as well
            let _ = c.set_ignore_class_notfound_regexp(ps);
        }
    }
}

fn render_all(root: &Path, r: &Reclass, names: &[String]) -> BTreeMap<String, J> {
    let mut m = BTreeMap::new();
    for n in names {
        let j = match r.render_node(n) {
            Ok(info) => json!({"ok": nodeinfo_json(root, &info)}),
            Err(e) => json!({"err": rel_str(root, &format!("{e}"))}),
        };
        m.insert(n.clone(), j);
    }
    m
}

/// C12/C18/C20: an instance that has rendered, is then reconfigured through its public methods and
/// renders again must behave like a fresh instance built with the final configuration; a clone
/// taken before the reconfiguration must keep behaving like the original.
fn lifecycle(root: &Path, cfgj: &J, live: &mut Reclass, names: &[String], singles: &BTreeMap<String, J>, steps: &[J]) -> J {
    let before_clone = live.clone();
    let step_results = apply_steps_live(root, live, steps);
    let after = render_all(root, live, names);
    let fresh = match make_config(root, cfgj) {
        Ok(mut c) => {
            apply_steps_config(&mut c, steps);
            match Reclass::new_from_config(c) {
                Ok(f) => Some(render_all(root, &f, names)),
                Err(_) => None,
            }
        }
        Err(_) => None,
    };
    let mut diffs: Vec<String> = vec![];
    match &fresh {
        Some(f) => {
            for n in names {
                if after.get(n) != f.get(n) {
                    diffs.push(format!(
                        "node {n}: the reconfigured instance gives {} but a fresh instance with the same settings gives {}",
                        after.get(n).map(|j| j.to_string()).unwrap_or_default().chars().take(300).collect::<String>(),
                        f.get(n).map(|j| j.to_string()).unwrap_or_default().chars().take(300).collect::<String>()
                    ));
                }
            }
        }
        None => diffs.push("could not build the fresh instance".into()),
    }
    // the clone taken before the steps still has the old settings; render it after the live one. What it must
    // give is what a fresh instance with the ORIGINAL settings gives on the files as they are now (a step may
    // have rewritten a file); without rewrites that is the first pass.
    let again = render_all(root, &before_clone, names);
    let fresh0 = make_config(root, cfgj).ok().and_then(|c| Reclass::new_from_config(c).ok()).map(|f| render_all(root, &f, names));
    let expect0 = fresh0.as_ref().unwrap_or(singles);
    let mut clone_diffs: Vec<String> = vec![];
    for n in names {
        if again.get(n) != expect0.get(n) {
            clone_diffs.push(format!("node {n}: a clone taken before the reconfiguration renders differently after the other instance was reconfigured and rendered"));
        }
    }
    // and the live one once more (after the clone rendered)
    let after2 = render_all(root, live, names);
    for n in names {
        if after2.get(n) != after.get(n) {
            clone_diffs.push(format!("node {n}: the reconfigured instance renders differently after its sibling clone rendered"));
        }
    }
    let reported = json!({"patterns": live.config.get_ignore_class_notfound_regexp(), "literal_dots": live.config.compatflags.contains(&CompatFlag::ComposeNodeNameLiteralDots)});
    json!({"steps": step_results, "after_eq_fresh": diffs.is_empty(), "diffs": diffs.into_iter().take(3).collect::<Vec<_>>(),
           "clone_stable": clone_diffs.is_empty(), "clone_diffs": clone_diffs.into_iter().take(3).collect::<Vec<_>>(), "reported": reported})
}


/// op `crash`: construct, apply filesystem faults, render everything; only the outcome class
/// is reported (value / error counts). Panics are caught by the caller; aborts kill the
/// process and are detected by the orchestrator.
pub fn run_crash(req: &mut J) -> Result<J, String> {
    let scratch = scratch_dir();
    let root = scratch.0.clone();
    {
        let files = req.get_mut("files").and_then(J::as_array_mut).ok_or("missing files")?;
        materialise(&root, files)?;
    }
    // generated bulk content (long include chains) is created here to keep requests small
    if let Some(n) = req.get("chain").and_then(J::as_u64) {
        for i in 0..n {
            let body = if i + 1 < n { format!("classes: [c{}]\n", i + 1) } else { "parameters: {end: true}\n".to_string() };
            std::fs::create_dir_all(root.join("classes")).ok();
            std::fs::write(root.join(format!("classes/c{i}.yml")), body).map_err(|e| e.to_string())?;
        }
        std::fs::create_dir_all(root.join("nodes")).ok();
        std::fs::write(root.join("nodes/chain.yml"), "classes: [c0]\n").map_err(|e| e.to_string())?;
    }
    if let Some(n) = req.get("nest").and_then(J::as_u64) {
        let s = format!("parameters:\n  a: a\n  deep: \"{}a{}\"\n", "${".repeat(n as usize), "}".repeat(n as usize));
        std::fs::create_dir_all(root.join("nodes")).ok();
        std::fs::write(root.join("nodes/nest.yml"), s).map_err(|e| e.to_string())?;
    }
    std::fs::create_dir_all(root.join("nodes")).ok();
    std::fs::create_dir_all(root.join("classes")).ok();
    let cfgj = req.get("config").cloned().unwrap_or(json!({}));
    let cfg = match make_config(&root, &cfgj) {
        Ok(c) => c,
        Err(_) => return Ok(json!({"constructed": "err-config"})),
    };
    let r = match Reclass::new_from_config(cfg) {
        Ok(r) => r,
        Err(_) => return Ok(json!({"constructed": "err"})),
    };
    // faults between discovery and rendering
    if let Some(faults) = req.get("faults").and_then(J::as_array) {
        for f in faults {
            let p = root.join(f.get("path").and_then(J::as_str).unwrap_or(""));
            match f.get("kind").and_then(J::as_str).unwrap_or("") {
                "delete" => {
                    let _ = std::fs::remove_file(&p);
                }
                "truncate" => {
                    let _ = std::fs::write(&p, "");
                }
                "garbage" => {
                    let _ = std::fs::write(&p, "{{{: [unclosed\n\t- x");
                }
                "nonutf8" => {
                    let _ = std::fs::write(&p, [0xff, 0xfe, 0x00, 0xc3, 0x28, b'a', b':', b' ', 0xff]);
                }
                "chmod" => {
                    use std::os::unix::fs::PermissionsExt;
                    let _ = std::fs::set_permissions(&p, std::fs::Permissions::from_mode(0o000));
                }
                "dir" => {
                    let _ = std::fs::remove_file(&p);
                    let _ = std::fs::create_dir_all(&p);
                }
                "rmdir" => {
                    let _ = std::fs::remove_dir_all(&p);
                }
                _ => {}
            }
        }
    }
    // reconfiguration of the live instance between construction and rendering; calls may fail (a config file that is
    // rejected half-way, a pattern list that does not compile) and the instance is used afterwards all the same
    let mut r = r;
    let mut reconf: Vec<J> = vec![];
    if let Some(steps) = req.get("reconfigure").and_then(J::as_array) {
        for (i, s) in steps.iter().enumerate() {
            if let Some(opts) = s.get("load_options").and_then(J::as_array) {
                // written as YAML text, one option per line in the given order (JSON values are YAML)
                let mut text = String::new();
                for o in opts {
                    if let (Some(k), Some(v)) = (o.get(0).and_then(J::as_str), o.get(1)) {
                        text.push_str(&format!("{}: {}\n", serde_json::to_string(k).unwrap(), v));
                    }
                }
                let name = format!("reclass-config-{i}.yml");
                let _ = std::fs::write(root.join(&name), text);
                reconf.push(json!(r.config.load_from_file(&name, false).is_ok()));
            } else if let Some(ps) = s.get("patterns").and_then(J::as_array) {
                let ps: Vec<String> = ps.iter().filter_map(|p| p.as_str().map(str::to_string)).collect();
                reconf.push(json!(r.set_ignore_class_notfound_regexp(ps).is_ok()));
            } else if s.get("clone").is_some() {
                r = r.clone();
                reconf.push(json!(true));
            } else if s.get("render_inventory").is_some() {
                reconf.push(json!(r.render_inventory().is_ok()));
            }
        }
    }
    let names: Vec<String> = r.nodes().map_err(|e| e.to_string())?.keys().cloned().collect();
    let mut ok = 0;
    let mut err = 0;
    for n in &names {
        match r.render_node(n) {
            Ok(_) => ok += 1,
            Err(_) => err += 1,
        }
    }
    let inv_ok = r.render_inventory().is_ok();
    // restore permissions so the scratch directory can be removed
    if let Some(faults) = req.get("faults").and_then(J::as_array) {
        for f in faults {
            if f.get("kind").and_then(J::as_str) == Some("chmod") {
                use std::os::unix::fs::PermissionsExt;
                let p = root.join(f.get("path").and_then(J::as_str).unwrap_or(""));
                let _ = std::fs::set_permissions(&p, std::fs::Permissions::from_mode(0o644));
            }
        }
    }
    Ok(json!({"constructed": "ok", "nodes_ok": ok, "nodes_err": err, "inventory_ok": inv_ok, "reconfigure": reconf}))
}
