//! rvh — runs the real reclass-rs implementation on protocol requests.
//!
//! `rvh run`  : reads one JSON request per line on stdin, runs the implementation in-process
//!              (each case under `catch_unwind`), and writes the request back with an `impl`
//!              field (the raw observation) and with float tokens normalised.
//! `rvh child <op-json>` : runs one request in this process and prints the result (used for
//!              crash search, where a panic/abort/stack overflow must not kill the driver).
mod codec;
mod inv;
mod cfg;
mod py;
mod ops;

use rayon::prelude::*;
use serde_json::{json, Value as J};
use std::io::{BufRead, Write};

fn run_one(mut req: J) -> J {
    let res = std::panic::catch_unwind(std::panic::AssertUnwindSafe(|| ops::run(&mut req)));
    let obs = match res {
        Ok(Ok(o)) => o,
        Ok(Err(e)) => json!({"bad": e}),
        Err(p) => {
            let msg = if let Some(s) = p.downcast_ref::<String>() {
                s.clone()
            } else if let Some(s) = p.downcast_ref::<&str>() {
                (*s).to_string()
            } else {
                "?".to_string()
            };
            json!({"panic": msg})
        }
    };
    req.as_object_mut().unwrap().insert("impl".into(), obs);
    req
}

fn main() {
    let args: Vec<String> = std::env::args().collect();
    std::panic::set_hook(Box::new(|_| {}));
    match args.get(1).map(String::as_str) {
        Some("run") => {
            let stdin = std::io::stdin();
            let lines: Vec<String> = stdin.lock().lines().map(|l| l.unwrap()).filter(|l| !l.trim().is_empty()).collect();
            let serial = std::env::var("RVH_SERIAL").is_ok();
            let outs: Vec<String> = if serial {
                lines.iter().map(|l| process_line(l)).collect()
            } else {
                // cases that change the process's working directory run one after the other on this thread,
                // after the parallel batch (inside the pool a worker waiting for its own inner tasks may pick up
                // another such case and block on the lock it already holds)
                let is_cwd = |l: &String| l.contains("\"cwd_relative\"");
                let mut outs: Vec<Option<String>> = lines.par_iter().map(|l| if is_cwd(l) { None } else { Some(process_line(l)) }).collect();
                for (i, l) in lines.iter().enumerate() {
                    if outs[i].is_none() {
                        outs[i] = Some(process_line(l));
                    }
                }
                outs.into_iter().map(|o| o.unwrap()).collect()
            };
            let stdout = std::io::stdout();
            let mut w = std::io::BufWriter::new(stdout.lock());
            for o in outs {
                writeln!(w, "{o}").unwrap();
            }
        }
        Some("child") => {
            // no catch_unwind and default hook: a panic aborts with a message on stderr
            let _ = std::panic::take_hook();
            let mut req: J = serde_json::from_str(&args[2]).expect("bad json");
            let obs = ops::run(&mut req).unwrap_or_else(|e| json!({"bad": e}));
            println!("{obs}");
        }
        _ => {
            eprintln!("usage: rvh run | rvh child <json>");
            std::process::exit(2);
        }
    }
}

fn process_line(l: &str) -> String {
    match serde_json::from_str::<J>(l) {
        Ok(req) if req.is_object() => run_one(req).to_string(),
        _ => json!({"bad": "json"}).to_string(),
    }
}
