/-
  JSON codec for the line protocol.  Values travel as

    null | true | false | {"i":"<decimal>"} | {"f":[yamlText,jsonText]}
    | "literal text"            (Value::Literal / a YAML string on input)
    | {"s":"unparsed string"}   (Value::String, output only)
    | [v, …]                    (sequence)
    | {"m":[[k,v],…],"c":[k…],"o":[k…]}   (mapping; c/o = constant / pending-override keys)
    | {"vl":[v,…]}              (layer list, output only)
    | {"t":[tag, v]}            (tagged YAML, input only)

  On input a plain JSON string is a YAML string.
-/
import Lean.Data.Json
import Reclass.Model.Eval
import Reclass.Model.Lists
namespace Reclass.Codec
open Lean Reclass

def s2j (s : Str) : Json := .str (String.ofList s)
def j2s (j : Json) : Except String Str := do
  let s ← j.getStr?
  pure s.toList

def numToJson : Num → Json
  | .int i => Json.mkObj [("i", .str (toString i))]
  | .float y j => Json.mkObj [("f", .arr #[s2j y, s2j j])]

partial def yamlOfJson (j : Json) : Except String Yaml :=
  match j with
  | .null => pure .null
  | .bool b => pure (.bool b)
  | .str s => pure (.str s.toList)
  | .arr a => do
    let l ← a.toList.mapM yamlOfJson
    pure (.seq l)
  | .num _ => throw "bare JSON numbers are not used by the protocol"
  | .obj _ =>
    match j.getObjVal? "i" with
    | .ok (.str t) =>
      match t.toInt? with
      | some i => pure (.num (.int i))
      | none => throw s!"bad int {t}"
    | _ =>
    match j.getObjVal? "f" with
    | .ok (.arr #[y, jt]) => do pure (.num (.float (← j2s y) (← j2s jt)))
    | _ =>
    match j.getObjVal? "m" with
    | .ok (.arr es) => do
      let l ← es.toList.mapM fun e =>
        match e with
        | .arr #[k, v] => do pure ((← yamlOfJson k), (← yamlOfJson v))
        | _ => throw "bad map entry"
      pure (.map l)
    | _ =>
    match j.getObjVal? "t" with
    | .ok (.arr #[t, v]) => do pure (.tagged (← j2s t) (← yamlOfJson v))
    | _ => throw s!"bad yaml json {j.compress}"

def keyToJson : Key → Json
  | .str s => Json.mkObj [("s", s2j s)]
  | .lit s => s2j s
  | .bool b => .bool b
  | .num n => numToJson n
  | .null => .null

mutual
partial def valueToJson : Value → Json
  | .null => .null
  | .bool b => .bool b
  | .num n => numToJson n
  | .str s => Json.mkObj [("s", s2j s)]
  | .lit s => s2j s
  | .seq l => .arr (l.map valueToJson).toArray
  | .vl l => Json.mkObj [("vl", .arr (l.map valueToJson).toArray)]
  | .map es ck ok => Json.mkObj [
      ("m", .arr (es.map fun (k, v) => Json.arr #[keyToJson k, valueToJson v]).toArray),
      ("c", .arr (ck.map keyToJson).toArray),
      ("o", .arr (ok.map keyToJson).toArray)]
end

def mappingToJson (m : Mapping) : Json := valueToJson m.toValue

def panicName : PanicSite → String
  | .mergeTargetStr => "mergeTargetStr" | .mergeTargetVl => "mergeTargetVl"
  | .jsonVl => "jsonVl" | .jsonKey => "jsonKey" | .resolveNewvStrVl => "resolveNewvStrVl"
  | .pushMappingKey => "pushMappingKey" | .parseTrailing => "parseTrailing"
  | .coalesceEmpty => "coalesceEmpty" | .yamlTagged => "yamlTagged"
  | .yamlConstDup => "yamlConstDup" | .pyVl => "pyVl"
  | .mergeKeysNotMapping => "mergeKeysNotMapping" | .splitEmpty => "splitEmpty"

/-- Errors as `[class, named entities…]`; this is what the Rust classifier produces from
the implementation's message. -/
partial def errToJson : Err → Json
  | .loop => .arr #["loop"]
  | .depth cur => .arr #["depth", s2j cur]
  | .missingKey r k cur => .arr #["missingKey", s2j r, s2j k, s2j cur]
  | .lookupInto r k cur => .arr #["lookupInto", s2j r, s2j k, s2j cur]
  | .mergeConflict cur over onto => .arr #["mergeConflict", s2j cur, s2j over, s2j onto]
  | .constKey k => .arr #["constKey", keyToJson k]
  | .parse s => .arr #["parse", s2j s]
  | .flattenString cur => .arr #["flattenString", s2j cur]
  | .rawStringOf k => .arr #["rawStringOf", s2j k]
  | .keyValueList => .arr #["keyValueList"]
  | .classNotFound c => .arr #["classNotFound", s2j c]
  | .unknownNode n => .arr #["unknownNode", s2j n]
  | .collision n a b => .arr #["collision", s2j n, s2j a, s2j b]
  | .nodeFailed n e => .arr #["nodeFailed", s2j n, errToJson e]
  | .notMapping k => .arr #["notMapping", s2j k]
  | .metaParts => .arr #["metaParts"]
  | .absClass => .arr #["absClass"]
  | .config w => .arr #["config", s2j w]
  | .io w => .arr #["io", s2j w]
  | .yamlTaggedValue => .arr #["yamlTagged"]
  | .unmodelled w => .arr #["unmodelled", s2j w]
  | .fuel => .arr #["fuel"]
  | .panic p => .arr #["panic", .str (panicName p)]

def resultToJson {α} (f : α → Json) : R α → Json
  | .ok a => Json.mkObj [("ok", f a)]
  | .error e => Json.mkObj [("err", errToJson e)]

partial def tokenToJson : Token → Json
  | .lit s => Json.mkObj [("lit", s2j s)]
  | .ref ps => Json.mkObj [("ref", .arr (ps.map tokenToJson).toArray)]
  | .combined ps => Json.mkObj [("combined", .arr (ps.map tokenToJson).toArray)]

def strList (j : Json) : Except String (List Str) := do
  let a ← j.getArr?
  a.toList.mapM j2s

def strListToJson (l : List Str) : Json := .arr (l.map s2j).toArray

end Reclass.Codec
