/-
  op `py_inventory`: the inventory observed through the Python conversion model.
-/
import Reclass.Driver.InvOps
import Reclass.Model.Py
namespace Reclass.PyOps
open Lean Reclass Reclass.Codec Reclass.InvOps

partial def pyToJson : PyObj → Json
  | .none => .null
  | .bool b => Json.mkObj [("bool", .bool b)]
  | .int i => Json.mkObj [("int", .str (toString i))]
  | .float t => Json.mkObj [("float", s2j t)]
  | .str s => s2j s
  | .list l => .arr (l.map pyToJson).toArray
  | .dict es => Json.mkObj [("dict", .arr (es.map fun (k, v) => Json.arr #[pyToJson k, pyToJson v]).toArray)]

def pyStrList (l : List Str) : Json := .arr (l.map s2j).toArray

def nodeToPy (n : NodeInfoM) : R Json :=
  match toPy n.params.toValue with
  | .error e => .error e
  | .ok p => .ok (Json.mkObj [
      ("parameters", pyToJson p), ("classes", pyStrList n.classes), ("applications", pyStrList n.apps),
      ("meta", Json.mkObj [("node", s2j n.nmeta.node), ("name", s2j n.nmeta.name), ("uri", s2j n.nmeta.uri),
                           ("environment", s2j n.nmeta.environment)])])

def opPyInventory (j : Json) : Except String Json := do
  let listing ← InvOps.getField j "listing"
  let nodesL ← listingOfJson (← InvOps.getField listing "nodes")
  let classesL ← listingOfJson (← InvOps.getField listing "classes")
  let cfgj := (j.getObjVal? "config").toOption.getD (Json.mkObj [])
  let cfg ← cfgOfJson cfgj
  if cfg.compiled.contains .invalid then
    return Json.mkObj [("model", Json.mkObj [("ctor", Json.mkObj [("err", Json.arr #["config", "regex"])])])]
  let dn := walkEntries true cfg.composeNodeName "<ROOT>/nodes".toList (nodesL.map (·.entry)) []
  let dc := walkEntries false true "<ROOT>/classes".toList (classesL.map (·.entry)) []
  match dn, dc with
  | .error e, _ => pure (Json.mkObj [("model", Json.mkObj [("ctor", Json.mkObj [("err", errToJson e)])])])
  | _, .error e => pure (Json.mkObj [("model", Json.mkObj [("ctor", Json.mkObj [("err", errToJson e)])])])
  | .ok ns, .ok cs =>
    let inv : Inv := { classes := attach classesL cs, nodes := attach nodesL ns, cfg := cfg }
    let names := ns.map (·.1)
    let results := names.map fun n => (n, renderNode defaultFuel inv n)
    let per := Json.mkObj (results.map fun (n, r) =>
      (String.ofList n, match r with
        | .error e => Json.mkObj [("err", errToJson e)]
        | .ok info => resultToJson id (nodeToPy info)))
    let invr := Inventory.render results
    let invj := resultToJson (fun (i : InventoryM) => Json.mkObj [
      ("applications", indexToJson i.apps), ("classes", indexToJson i.classes),
      ("nodes", strListToJson (i.nodes.map (·.1)))]) invr
    let failing := results.filterMap fun (n, r) => match r with | .error _ => some n | .ok _ => none
    pure (Json.mkObj [("model", Json.mkObj [("nodes", per), ("inventory", invj), ("failing", strListToJson failing)])])

end Reclass.PyOps
