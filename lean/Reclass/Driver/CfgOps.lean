/-
  op `config`: the configuration state machine.
-/
import Reclass.Driver.Codec
import Reclass.Model.Config
namespace Reclass.CfgOps
open Lean Reclass Reclass.Codec

def getField (j : Json) (k : String) : Except String Json :=
  match j.getObjVal? k with
  | .ok v => pure v
  | .error _ => throw s!"missing field {k}"

def observe (c : ConfigM) (probes : List Str) : Json :=
  Json.mkObj [
    ("nodes_path", s2j c.nodesPath), ("classes_path", s2j c.classesPath),
    ("ignore", .bool c.ignoreClassNotfound), ("compose", .bool c.composeNodeName),
    ("patterns", strListToJson c.reported), ("literal_dots", .bool c.literalDots),
    ("probes", .arr (probes.map fun p => Json.bool (c.isClassIgnored p)).toArray)]

def optOfJson (j : Json) : Except String Opt := do
  match j with
  | .arr #[k, v, vs] => pure { key := ← j2s k, val := ← yamlOfJson v, vstr := ← j2s vs }
  | _ => throw "bad option (expected [key, value, vstr])"

def callOfJson (j : Json) : Except String CfgCall := do
  match j with
  | .arr a =>
    match a[0]? with
    | some (.str "set_patterns") => do pure (.setPatterns (← strList (a[1]?.getD (.arr #[]))))
    | some (.str "set_flag") => pure .setFlag
    | some (.str "unset_flag") => pure .unsetFlag
    | some (.str "clear_flags") => pure .clearFlags
    | _ => throw "bad step"
  | _ => throw "bad step"

def optStr (j : Json) (k : String) : Option Str :=
  match j.getObjVal? k with
  | .ok (.str s) => some s.toList
  | _ => none

def optBool (j : Json) (k : String) : Option Bool :=
  match j.getObjVal? k with
  | .ok (.bool b) => some b
  | _ => none

def opConfig (j : Json) : Except String Json := do
  let route := ((j.getObjVal? "route").toOption.bind (·.getStr?.toOption)).getD "opts"
  let probes ← match j.getObjVal? "probes" with
    | .ok p => strList p
    | .error _ => pure []
  let opts ← match j.getObjVal? "options" with
    | .ok (.arr a) => a.toList.mapM optOfJson
    | _ => pure []
  let steps ← match j.getObjVal? "steps" with
    | .ok (.arr a) => a.toList.mapM callOfJson
    | _ => pure []
  let inv := "<ROOT>/inv".toList
  let built : R ConfigM :=
    if route = "ctor" then
      let ct := (j.getObjVal? "ctor").toOption.getD (Json.mkObj [])
      ConfigM.new inv (optStr ct "nodes") (optStr ct "classes") (optBool ct "ignore")
    else
      let cfgPath := inv ++ (if route = "file" then "/reclass-config.yml".toList else "/dummy".toList)
      match ConfigM.new inv none none none with
      | .error e => .error e
      | .ok c => c.load cfgPath opts
  match built with
  | .error e => pure (Json.mkObj [("model", Json.mkObj [("build", Json.mkObj [("err", errToJson e)])])])
  | .ok c =>
    let rec go (c : ConfigM) : List CfgCall → List Json
      | [] => []
      | s :: rest =>
        let (c', ok) := c.call s
        Json.mkObj [("ok", .bool ok), ("state", observe c' probes)] :: go c' rest
    pure (Json.mkObj [("model", Json.mkObj [
      ("build", Json.mkObj [("ok", observe c probes)]),
      ("history", .arr (go c steps).toArray)])])

end Reclass.CfgOps
