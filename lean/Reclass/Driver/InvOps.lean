/-
  op `inventory`: discovery from a directory listing, every node alone, the whole inventory.
-/
import Reclass.Driver.Codec
import Reclass.Model.Discover
import Reclass.Model.Inventory
namespace Reclass.InvOps
open Lean Reclass Reclass.Codec

def getField (j : Json) (k : String) : Except String Json :=
  match j.getObjVal? k with
  | .ok v => pure v
  | .error _ => throw s!"missing field {k}"

def optBool (j : Json) (k : String) (d : Bool) : Bool :=
  match j.getObjVal? k with
  | .ok (.bool b) => b
  | _ => d

def isWordChar (c : Char) : Bool := c.isAlphanum || c = '_' || c = '-' || c.val ≥ 128   -- = Model.Config.isWordCharM

/-- literal text of the regex sub-language: word characters and `\.` -/
def litText : Str → Option Str
  | [] => some []
  | '\\' :: '.' :: rest => (litText rest).map (fun r => '.' :: r)
  | c :: rest => if isWordChar c then (litText rest).map (fun r => c :: r) else none

/-- Parse a pattern of the modelled regex sub-language. -/
def patOfStr (s : Str) : Except String Pat :=
  if s = ".*".toList then pure .any
  else if s = "(".toList || s = "[a".toList || s = "*".toList then pure .invalid
  else
    let (anchS, body) := match s with | '^' :: r => (true, r) | r => (false, r)
    let (anchE, body) := match body.reverse with | '$' :: r => (true, r.reverse) | _ => (false, body)
    match litText body with
    | none => throw s!"pattern outside the modelled regex sub-language: {String.ofList s}"
    | some t =>
      pure (match anchS, anchE with
        | true, true => .exact t
        | true, false => .pfx t
        | false, true => .sfx t
        | false, false => .sub t)

def classSrcOfJson (j : Json) : Except String FileRes := do
  match j.getObjVal? "bad" with
  | .ok b => pure (.bad ((b.getStr?.toOption.getD "bad").toList))
  | .error _ =>
    let apps ← strList (← getField j "apps")
    let classes ← strList (← getField j "classes")
    let params ← match ← yamlOfJson (← getField j "params") with
      | .map es => pure es
      | _ => throw "params not a mapping"
    pure (.ok { apps := apps, classes := classes, params := params })

structure Listed where
  entry : DirEntry
  parsed : Option FileRes

def listingOfJson (j : Json) : Except String (List Listed) := do
  let a ← j.getArr?
  a.toList.mapM fun e => do
    let rel ← strList (← getField e "rel")
    let isFile ← (← getField e "file").getBool?
    let parsed ← match e.getObjVal? "parsed" with
      | .ok p => do pure (some (← classSrcOfJson p))
      | .error _ => pure none
    pure { entry := { rel := rel, isFile := isFile }, parsed := parsed }

def attach (listing : List Listed) (found : List (Str × EntityInfo)) : List (Str × EntityInfo × FileRes) :=
  found.map fun (n, info) =>
    let fr : FileRes := match listing.find? (fun l => l.entry.rel == info.path) with
      | some { parsed := some p, .. } => p
      | _ => .bad "not a readable file".toList
    (n, info, fr)

def entitiesToJson (es : List (Str × EntityInfo)) : Json :=
  Json.mkObj (es.map fun (n, info) =>
    (String.ofList n, Json.arr #[s2j (joinWith ['/'] info.path), s2j (joinWith ['/'] info.loc)]))

def nodeInfoToJson (n : NodeInfoM) : Json :=
  Json.mkObj [
    ("apps", strListToJson n.apps),
    ("classes", strListToJson n.classes),
    ("params", mappingToJson n.params),
    ("meta", Json.mkObj [("node", s2j n.nmeta.node), ("name", s2j n.nmeta.name), ("uri", s2j n.nmeta.uri),
                         ("environment", s2j n.nmeta.environment)])]

def indexToJson (ix : List (Str × List Str)) : Json :=
  Json.mkObj (ix.map fun (k, ns) => (String.ofList k, strListToJson ns))

def cfgOfJson (j : Json) : Except String NodeCfg := do
  let pats ← match j.getObjVal? "patterns" with
    | .ok (.arr a) => a.toList.mapM (fun p => do patOfStr (← j2s p))
    | _ => pure [Pat.any]
  pure { ignoreClassNotfound := optBool j "ignore_class_notfound" false,
         compiled := pats,
         composeNodeName := optBool j "compose_node_name" false,
         literalDots := optBool j "literal_dots" false,
         nodesPath := "<ROOT>/nodes".toList }

def opInventory (j : Json) : Except String Json := do
  let listing ← getField j "listing"
  let nodesL ← listingOfJson (← getField listing "nodes")
  let classesL ← listingOfJson (← getField listing "classes")
  let cfgj := (j.getObjVal? "config").toOption.getD (Json.mkObj [])
  let cfg ← cfgOfJson cfgj
  if cfg.compiled.contains .invalid then
    return Json.mkObj [("model", Json.mkObj [("config", Json.mkObj [("err", Json.arr #["config", "regex"])])])]
  let dn := walkEntries true cfg.composeNodeName "<ROOT>/nodes".toList (nodesL.map (·.entry)) []
  let dc := walkEntries false true "<ROOT>/classes".toList (classesL.map (·.entry)) []
  -- for a collision, also list every file deriving the colliding name (which pair the
  -- implementation reports depends on directory iteration order)
  let colliders (isNode compose : Bool) (root : Str) (ls : List Listed) (_e : Err) : Json :=
    let derived := ls.filterMap fun l => (deriveEntity isNode compose l.entry).map fun p => (p.1, pathText root l.entry.rel)
    let names := (derived.map (·.1)).eraseDups
    Json.mkObj (names.filterMap fun n =>
      let fs := (derived.filter (·.1 == n)).map (·.2)
      if fs.length ≥ 2 then some (String.ofList n, strListToJson fs) else none)
  match dn, dc with
  | .error e, _ => pure (Json.mkObj [("model", Json.mkObj [("discover", Json.mkObj [("err", errToJson e)]),
      ("colliders", colliders true cfg.composeNodeName "<ROOT>/nodes".toList nodesL e)])])
  | _, .error e => pure (Json.mkObj [("model", Json.mkObj [("discover", Json.mkObj [("err", errToJson e)]),
      ("colliders", colliders false true "<ROOT>/classes".toList classesL e)])])
  | .ok ns, .ok cs =>
    let inv : Inv := { classes := attach classesL cs, nodes := attach nodesL ns, cfg := cfg }
    let names := ns.map (·.1)
    let results := names.map fun n => (n, renderNode defaultFuel inv n)
    let per := Json.mkObj (results.map fun (n, r) => (String.ofList n, resultToJson nodeInfoToJson r))
    let invr := Inventory.render results
    let invj := resultToJson (fun (i : InventoryM) => Json.mkObj [
      ("apps", indexToJson i.apps), ("classes", indexToJson i.classes),
      ("nodes", strListToJson (i.nodes.map (·.1))), ("entries_equal_single", .bool true)]) invr
    let failing := results.filterMap fun (n, r) => match r with | .error _ => some n | .ok _ => none
    pure (Json.mkObj [("model", Json.mkObj [
      ("discover", Json.mkObj [("ok", Json.mkObj [("nodes", entitiesToJson ns), ("classes", entitiesToJson cs)])]),
      ("nodes", per),
      ("inventory", invj),
      ("failing", strListToJson failing),
      ("unknown", Json.mkObj [("err", errToJson (.unknownNode "no-such-node-xyz".toList))])])])

end Reclass.InvOps
