/-
  Operation dispatch for the line protocol: one JSON request per line, one JSON reply per
  line.  Every reply carries `model` (the model's observation) and, where an independent
  specification function exists, `spec` (what the specification says the observation must
  be).  Comparison with the implementation's observation happens in the orchestrator.
-/
import Reclass.Driver.Codec
import Reclass.Driver.InvOps
import Reclass.Driver.CfgOps
import Reclass.Driver.PyOps
namespace Reclass.Ops
open Lean Reclass Reclass.Codec

def getField (j : Json) (k : String) : Except String Json :=
  match j.getObjVal? k with
  | .ok v => pure v
  | .error _ => throw s!"missing field {k}"

def fuelOf (j : Json) : Nat :=
  match j.getObjVal? "fuel" with
  | .ok v => (v.getNat?.toOption).getD defaultFuel
  | .error _ => defaultFuel

/-- op `lists`: fold `RemovableList::merge` over per-file application lists. -/
def opLists (j : Json) : Except String Json := do
  let ls ← (← getField j "lists").getArr?
  let ls ← ls.toList.mapM strList
  let r := ls.foldl (fun acc l => acc.merge (RList.ofList l)) ({} : RList)
  pure (Json.mkObj [("model", Json.mkObj [("ok", Json.mkObj [("items", strListToJson r.items), ("negs", strListToJson r.negs)])])])

/-- op `ulists`: fold `UniqueList::merge`. -/
def opULists (j : Json) : Except String Json := do
  let ls ← (← getField j "lists").getArr?
  let ls ← ls.toList.mapM strList
  let r := ls.foldl (fun acc l => acc.merge (UList.ofList l)) ({} : UList)
  pure (Json.mkObj [("model", Json.mkObj [("ok", Json.mkObj [("items", strListToJson r.items)])])])

def yamlEntries (j : Json) : Except String (List (Yaml × Yaml)) := do
  match ← yamlOfJson j with
  | .map es => pure es
  | _ => throw "expected a mapping"

/-- Fold `Mapping::merge` over layers converted with `Mapping::from(serde_yaml::Mapping)`. -/
def mergeLayers : List (List (Yaml × Yaml)) → Mapping → R Mapping
  | [], acc => .ok acc
  | l :: ls, acc =>
    match Mapping.ofYamlEntries l with
    | .error e => .error e
    | .ok m =>
      match acc.merge m with
      | .error e => .error e
      | .ok acc' => mergeLayers ls acc'

/-- op `params`: merge layers, then `render_with_self`. -/
def opParams (j : Json) : Except String Json := do
  let ls ← (← getField j "layers").getArr?
  let ls ← ls.toList.mapM yamlEntries
  let fuel := fuelOf j
  let merged := mergeLayers ls {}
  let rendered : R Mapping := match merged with
    | .error e => .error e
    | .ok m => renderParamsF fuel m
  pure (Json.mkObj [("model", Json.mkObj [
    ("merged", resultToJson mappingToJson merged),
    ("rendered", resultToJson mappingToJson rendered)])])

/-- op `parse`: `Token::parse`. -/
def opParse (j : Json) : Except String Json := do
  let s ← j2s (← getField j "s")
  let r := Token.parse s
  pure (Json.mkObj [("model", resultToJson (fun o => match o with
    | none => Json.null
    | some t => tokenToJson t) r)])

/-- op `abs`: `Node::abs_class_name`. -/
def opAbs (j : Json) : Except String Json := do
  let cls ← j2s (← getField j "cls")
  let loc ← match j.getObjVal? "loc" with
    | .ok (.arr a) => do pure (some (← a.toList.mapM j2s))
    | _ => pure none
  pure (Json.mkObj [("model", Json.mkObj [("ok", s2j (absClassName loc cls))])])

def dispatch (j : Json) : Except String Json := do
  let op ← (← getField j "op").getStr?
  match op with
  | "lists" => opLists j
  | "ulists" => opULists j
  | "params" => opParams j
  | "parse" => opParse j
  | "inventory" => InvOps.opInventory j
  | "abs" => opAbs j
  | "config" => CfgOps.opConfig j
  | "py_inventory" => PyOps.opPyInventory j
  | _ => throw s!"unknown op {op}"

def handleLine (line : String) : String :=
  match Json.parse line with
  | .error e => (Json.mkObj [("bad", .str s!"json: {e}")]).compress
  | .ok j =>
    let id := (j.getObjVal? "id").toOption.getD .null
    match dispatch j with
    | .ok r => (r.setObjVal! "id" id).compress
    | .error e => (Json.mkObj [("id", id), ("bad", .str e)]).compress

end Reclass.Ops
