import Reclass.Props.C02
import Reclass.Props.C02a
open Reclass
#print axioms Reclass.C02.mergeV_eq_mergeNonVl
#print axioms Reclass.C02.merge_null_over
#print axioms Reclass.C02.merge_over_null
#print axioms Reclass.C02.merge_seq_seq
#print axioms Reclass.C02.merge_map_map
#print axioms Reclass.C02.merge_map_map'
#print axioms Reclass.C02.merge_scalar_scalar
#print axioms Reclass.C02.merge_str_over_scalar
#print axioms Reclass.C02.merge_map_conflict
#print axioms Reclass.C02.merge_seq_conflict
#print axioms Reclass.C02.merge_scalar_conflict
#print axioms Reclass.C02.merge_map_seq
#print axioms Reclass.C02.merge_seq_map
#print axioms Reclass.C02.merge_vl_right
#print axioms Reclass.C02.merge_target_str
#print axioms Reclass.C02.merge_target_vl
#print axioms Reclass.C02.conflict_never_silent
#print axioms Reclass.C02.ok_kinds_compatible
