import Reclass.Props.C18
open Reclass
#print axioms Reclass.C18.expectedParts_def
#print axioms Reclass.C18.expectedParts_cons
#print axioms Reclass.C18.splitOn_ne_nil
#print axioms Reclass.C18.expectedParts_ne_nil
#print axioms Reclass.C18.parts_cases
#print axioms Reclass.C18.asReclass_shape
#print axioms Reclass.C18.asReclass_empty_parts
#print axioms Reclass.C18.parts_plain
#print axioms Reclass.C18.parts_underscore
#print axioms Reclass.C18.parts_literal_dots
#print axioms Reclass.C18.splitOn_join
#print axioms Reclass.C18.render_meta
#print axioms Reclass.C18.render_meta_errors
#print axioms Reclass.C18.meta_parts_composed
#print axioms Reclass.C18.meta_parts_plain
#print axioms Reclass.C18.meta_asReclass_plain
#print axioms Reclass.C18.meta_empty_name_fails
