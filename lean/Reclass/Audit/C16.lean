import Reclass.Props.C16
open Reclass
#print axioms Reclass.C16.ignored_iff
#print axioms Reclass.C16.not_ignored_of_off
#print axioms Reclass.C16.existing_never_skipped
#print axioms Reclass.C16.existing_is_loaded
#print axioms Reclass.C16.missing_fails
#print axioms Reclass.C16.missing_fails_step
#print axioms Reclass.C16.missing_fails_after_prefix
#print axioms Reclass.C16.error_propagates
#print axioms Reclass.C16.node_fails
#print axioms Reclass.C16.node_missing_include_fails
#print axioms Reclass.C16.ignored_read
#print axioms Reclass.C16.ignored_as_absent
#print axioms Reclass.C16.ignored_as_absent_same_fuel
#print axioms Reclass.C16.ignored_as_absent_anywhere
#print axioms Reclass.C16.mergeInto_classes
#print axioms Reclass.C16.mergeInto_classes_mem
#print axioms Reclass.C16.ignored_as_absent_class
#print axioms Reclass.C16.ignored_as_absent_node
