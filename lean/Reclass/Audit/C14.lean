import Reclass.Props.C14
open Reclass
#print axioms Reclass.C14.yamlExt_nodot
#print axioms Reclass.C14.yamlExt_isYamlExt
#print axioms Reclass.C14.name_split
#print axioms Reclass.C14.name_split_conv
#print axioms Reclass.C14.non_yaml_ignored
#print axioms Reclass.C14.empty_path_ignored
#print axioms Reclass.C14.entity_only_from_yaml
#print axioms Reclass.C14.derive_general
#print axioms Reclass.C14.derive_class_plain
#print axioms Reclass.C14.derive_class_init
#print axioms Reclass.C14.derive_node_basename
#print axioms Reclass.C14.derive_node_composed
#print axioms Reclass.C14.derive_node_underscore
#print axioms Reclass.C14.walk_ok
#print axioms Reclass.C14.walk_lookup
#print axioms Reclass.C14.walk_collision
#print axioms Reclass.C14.walk_fails_iff
#print axioms Reclass.C14.walk_dup_error
#print axioms Reclass.C14.walk_perm_success
