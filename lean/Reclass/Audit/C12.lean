import Reclass.Props.C12
open Reclass
#print axioms Reclass.C12.fails_perm_invariant
#print axioms Reclass.C12.nodes_perm
#print axioms Reclass.C12.class_lists_eq
#print axioms Reclass.C12.app_lists_eq
#print axioms Reclass.C12.index_keys_eq
#print axioms Reclass.C12.inventory_perm_invariant
#print axioms Reclass.C12.succeeds_perm_invariant
#print axioms Reclass.C12.inventory_entry_eq_single
#print axioms Reclass.C12.inventory_entry_unique
