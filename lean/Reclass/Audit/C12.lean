import Reclass.Props.C12
import Reclass.Props.C12b
open Reclass
#print axioms Reclass.C12.fails_perm_invariant
#print axioms Reclass.C12.nodes_perm
#print axioms Reclass.C12.class_lists_eq
#print axioms Reclass.C12.app_lists_eq
#print axioms Reclass.C12.index_keys_eq
#print axioms Reclass.C12.inventory_perm_invariant
#print axioms Reclass.C12.succeeds_perm_invariant
#print axioms Reclass.C12.inventory_entry_eq_single
#print axioms Reclass.C12.inventory_entry_unique
#print axioms Reclass.C12.renderNode_indep_other_nodes
#print axioms Reclass.C12.renderNode_indep_other_nodes'
#print axioms Reclass.C12.renderNode_alone
#print axioms Reclass.C12.renderNode_eq_instrumented
#print axioms Reclass.C12.renderNode_indep_unreached_classes
#print axioms Reclass.C12.renderNode_indep_added_classes
#print axioms Reclass.C12.renderNode_indep_classes_outside
#print axioms Reclass.C12.render_repeat
#print axioms Reclass.C12.inventory_entry_indep
#print axioms Reclass.C12.inventory_entry_indep_unreached
#print axioms Reclass.C12.inventory_entry_indep_conv
