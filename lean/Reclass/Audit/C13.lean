import Reclass.Props.C13
import Reclass.Props.C13c
import Reclass.Props.C13d
open Reclass
#print axioms Reclass.C13.fails_iff_some_node_fails
#print axioms Reclass.C13.error_names_failing_node
#print axioms Reclass.C13.error_names_first_failing_node
#print axioms Reclass.C13.succeeds_of_all_nodes_succeed
#print axioms Reclass.C13.nodes_exact
#print axioms Reclass.C13.nodes_eq
#print axioms Reclass.C13.node_names_nodup
#print axioms Reclass.C13.class_index_inverse
#print axioms Reclass.C13.class_keys_exact
#print axioms Reclass.C13.class_keys_nodup
#print axioms Reclass.C13.class_entry_eq_lookup
#print axioms Reclass.C13.app_index_inverse
#print axioms Reclass.C13.app_keys_exact
#print axioms Reclass.C13.app_keys_nodup
#print axioms Reclass.C13.app_entry_eq_lookup
#print axioms Reclass.C13.no_empty_entries
#print axioms Reclass.C13.lists_sorted_nodup
#print axioms Reclass.C13.index_closed_form
#print axioms Reclass.C13.strLe_total_order
#print axioms Reclass.C13.ne_marker_cons
#print axioms Reclass.C13.indexPush_literal
#print axioms Reclass.C13.indexPush_keeps_members
#print axioms Reclass.C13.mem_indexPush_iff
#print axioms Reclass.C13.indexPush_marker_name_keeps_plain
#print axioms Reclass.C13.sortAll_keeps_members
#print axioms Reclass.C13.index_contains_node
#print axioms Reclass.C13.index_contains_tilde_names
#print axioms Reclass.C13.index_contains_tilde_and_const_names
#print axioms Reclass.C13.stripped_name_not_listed
#print axioms Reclass.C13.adding_node_renders
#print axioms Reclass.C13.adding_node_index_exact
#print axioms Reclass.C13.adding_node_keeps_members
#print axioms Reclass.C13.adding_tilde_node_keeps_plain
#print axioms Reclass.C13.adding_node_entry_perm
#print axioms Reclass.C13d.collect_apps_indep
#print axioms Reclass.C13d.apps_index_independent_of_class_lists
#print axioms Reclass.C13d.collect_classes_indep
#print axioms Reclass.C13d.class_index_independent_of_app_lists
