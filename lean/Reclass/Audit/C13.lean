import Reclass.Props.C13
open Reclass
#print axioms Reclass.C13.fails_iff_some_node_fails
#print axioms Reclass.C13.error_names_failing_node
#print axioms Reclass.C13.error_names_first_failing_node
#print axioms Reclass.C13.succeeds_of_all_nodes_succeed
#print axioms Reclass.C13.nodes_exact
#print axioms Reclass.C13.nodes_eq
#print axioms Reclass.C13.node_names_nodup
#print axioms Reclass.C13.class_index_inverse
#print axioms Reclass.C13.class_keys_exact
#print axioms Reclass.C13.class_keys_nodup
#print axioms Reclass.C13.class_entry_eq_lookup
#print axioms Reclass.C13.app_index_inverse
#print axioms Reclass.C13.app_keys_exact
#print axioms Reclass.C13.app_keys_nodup
#print axioms Reclass.C13.app_entry_eq_lookup
#print axioms Reclass.C13.no_empty_entries
#print axioms Reclass.C13.lists_sorted_nodup
#print axioms Reclass.C13.index_closed_form
#print axioms Reclass.C13.strLe_total_order
