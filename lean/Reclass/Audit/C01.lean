import Reclass.Props.C01
import Reclass.Props.C01c
open Reclass
#print axioms Reclass.C01.instrumented_is_model
#print axioms Reclass.C01.walk_sound
#print axioms Reclass.C01.walk_complete
#print axioms Reclass.C01.walk_deterministic
#print axioms Reclass.C01.seen_monotone
#print axioms Reclass.C01.seen_monotone_walk
#print axioms Reclass.C01.each_class_once_from
#print axioms Reclass.C01.each_class_once
#print axioms Reclass.C01.class_after_its_includes
#print axioms Reclass.C01.includes_before_class
#print axioms Reclass.C01.includes_before_class_order
#print axioms Reclass.C01.node_merged_last
#print axioms Reclass.C01.entry_resolves_once
#print axioms Reclass.C01.entry_without_reference
#print axioms Reclass.C01.entry_resolved_against_preceding
#print axioms Reclass.C01.walk_fuel_monotone
#print axioms Reclass.C01.walk_terminates
#print axioms Reclass.C01.walk_terminates_plain
#print axioms Reclass.C01.walk_terminates_exists
#print axioms Reclass.C01.trace_eq_dfs
#print axioms Reclass.C01.trace_eq_dfs_unique
#print axioms Reclass.C01.dfs_computes
#print axioms Reclass.C01.root_eq_fold
#print axioms Reclass.C01.params_classes_apps_eq_fold
#print axioms Reclass.C01.trace_entries_loaded
#print axioms Reclass.C01.plain_trace_entries
#print axioms Reclass.C01.render_sound
#print axioms Reclass.C01.render_complete
#print axioms Reclass.C01c.walk_entry_congr
#print axioms Reclass.C01c.raw_spelling_in_seen_is_irrelevant
#print axioms Reclass.C01c.resolved_in_seen_is_skipped
#print axioms Reclass.C01c.escaped_entry_names_literal_class
#print axioms Reclass.C01c.escaped_then_reference
