import Reclass.Props.C17
open Reclass
#print axioms Reclass.C17.inv_empty
#print axioms Reclass.C17.handleNegation_inv
#print axioms Reclass.C17.appendIfNew_inv
#print axioms Reclass.C17.foldl_handleNegation_inv
#print axioms Reclass.C17.foldl_appendIfNew_inv
#print axioms Reclass.C17.ofList_inv
#print axioms Reclass.C17.merge_inv
#print axioms Reclass.C17.accumulate_inv
#print axioms Reclass.C17.neg_present
#print axioms Reclass.C17.neg_absent
#print axioms Reclass.C17.add_pending
#print axioms Reclass.C17.add_plain
#print axioms Reclass.C17.survivors_keep_order
#print axioms Reclass.C17.new_item_last
#print axioms Reclass.C17.merge_eq
