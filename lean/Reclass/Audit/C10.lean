import Reclass.Props.C10
open Reclass
#print axioms Reclass.C10.insert_override_replaces
#print axioms Reclass.C10.insert_override_replaces_ck
#print axioms Reclass.C10.insert_override_absent
#print axioms Reclass.C10.insert_override_ok_lookup
#print axioms Reclass.C10.combine_layers
#print axioms Reclass.C10.combine_is_vl
#print axioms Reclass.C10.insert_plain_collects
#print axioms Reclass.C10.pending_fires_on_merge
#print axioms Reclass.C10.mergeEntries_lookup_ne
#print axioms Reclass.C10.pending_fires_on_merge_general
#print axioms Reclass.C10.target_flags_not_consulted
#print axioms Reclass.C10.target_flags_not_consulted_ok
#print axioms Reclass.C10.target_flags_not_consulted_error
#print axioms Reclass.C10.override_same_success
#print axioms Reclass.C10.override_no_leak
#print axioms Reclass.C10.override_no_leak_marker
