import Reclass.Props.C05
import Reclass.Props.C05c
open Reclass
#print axioms Reclass.C05.rawString_scalars
#print axioms Reclass.C05.rawString_str_vl
#print axioms Reclass.C05.rawString_containers
#print axioms Reclass.C05.json_int_exact
#print axioms Reclass.C05.json_no_vl
#print axioms Reclass.C05.json_only_error
#print axioms Reclass.C05.rawString_total_closed
#print axioms Reclass.C05.slice_step
#print axioms Reclass.C05.slice_nil
#print axioms Reclass.C05.Pieces.length_eq
#print axioms Reclass.C05.slice_eq_concat
#print axioms Reclass.C05.slice_error_first
#print axioms Reclass.C05.pieceText_fuel_mono_le
#print axioms Reclass.C05.slice_eq_concat_uniform
#print axioms Reclass.C05.literal_piece_text
#print axioms Reclass.C05.combined_renders_literal
#print axioms Reclass.C05.combined_renders_literal'
#print axioms Reclass.C05.mixed_string_renders_concat
#print axioms Reclass.C05.plain_string_renders_itself
#print axioms Reclass.C05.piece_value_not_str
#print axioms Reclass.C05.piece_value_closed
#print axioms Reclass.C05.piece_vl_is_error
#print axioms Reclass.C05.slice_no_panic
#print axioms Reclass.C05c.lit_piece
#print axioms Reclass.C05c.padded_ref_parses_combined
#print axioms Reclass.C05c.padPieces_text
#print axioms Reclass.C05c.padded_reference_is_text
#print axioms Reclass.C05c.padded_reference_never_typed
