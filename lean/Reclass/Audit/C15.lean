import Reclass.Props.C15
open Reclass
#print axioms Reclass.C15.abs_id_on_absolute
#print axioms Reclass.C15.dots_decomposition
#print axioms Reclass.C15.splitDots_replicate
#print axioms Reclass.C15.abs_relative
#print axioms Reclass.C15.abs_relative_join
#print axioms Reclass.C15.abs_one_dot
#print axioms Reclass.C15.abs_one_more_dot
#print axioms Reclass.C15.abs_past_root
#print axioms Reclass.C15.abs_none_eq_nil
#print axioms Reclass.C15.abs_node_is_root
#print axioms Reclass.C15.abs_idempotent
#print axioms Reclass.C15.ofSrc_classes_absolute
#print axioms Reclass.C15.ofSrc_classes_eq
#print axioms Reclass.C15.ofSrc_twin
