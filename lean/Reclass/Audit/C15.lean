import Reclass.Props.C15
import Reclass.Props.C15b
open Reclass
#print axioms Reclass.C15.abs_id_on_absolute
#print axioms Reclass.C15.dots_decomposition
#print axioms Reclass.C15.splitDots_replicate
#print axioms Reclass.C15.abs_relative
#print axioms Reclass.C15.abs_relative_join
#print axioms Reclass.C15.abs_one_dot
#print axioms Reclass.C15.abs_one_more_dot
#print axioms Reclass.C15.abs_past_root
#print axioms Reclass.C15.abs_none_eq_nil
#print axioms Reclass.C15.abs_node_is_root
#print axioms Reclass.C15.abs_idempotent
#print axioms Reclass.C15.ofSrc_classes_absolute
#print axioms Reclass.C15.ofSrc_classes_eq
#print axioms Reclass.C15.ofSrc_twin
#print axioms Reclass.C15.ofSrc_map_entries
#print axioms Reclass.C15.twinEntryAll_of_not_dot
#print axioms Reclass.C15.twinEntry_of_not_dot
#print axioms Reclass.C15.twinEntry_eq_abs
#print axioms Reclass.C15.twinEntryAll_eq_abs
#print axioms Reclass.C15.abs_twinEntryAll
#print axioms Reclass.C15.abs_twinEntry
#print axioms Reclass.C15.ofSrc_twinSrc
#print axioms Reclass.C15.twinOK_of_forall
#print axioms Reclass.C15.findEntity_twin
#print axioms Reclass.C15.readClass_twinBy
#print axioms Reclass.C15.renderNode_twinBy
#print axioms Reclass.C15.renderNode_twin
#print axioms Reclass.C15.renderNode_twinAll
#print axioms Reclass.C15.twinInv_class_files
#print axioms Reclass.C15.twinInv_node_files
#print axioms Reclass.C15.renderNode_twinRaw
#print axioms Reclass.C15.abs_head_ne_dot
#print axioms Reclass.C15.absStable_of_locs
