import Reclass.Props.C20
open Reclass
#print axioms Reclass.C20.new_consistent
#print axioms Reclass.C20.compile_consistent
#print axioms Reclass.C20.load_consistent
#print axioms Reclass.C20.call_consistent
#print axioms Reclass.C20.failed_call_unchanged
#print axioms Reclass.C20.history_consistent
#print axioms Reclass.C20.decision_by_reported
#print axioms Reclass.C20.bad_pattern_rejected
#print axioms Reclass.C20.bad_pattern_rejected_load
#print axioms Reclass.C20.unknown_ignored
#print axioms Reclass.C20.wrong_type_flag_rejected
#print axioms Reclass.C20.wrong_type_patterns_rejected
#print axioms Reclass.C20.collectPatterns_nonstring
#print axioms Reclass.C20.pathParent_file
#print axioms Reclass.C20.file_eq_dict
