import Reclass.Props.C04
import Reclass.Props.C04c
open Reclass
#print axioms Reclass.C04.layer_step
#print axioms Reclass.C04.layer_done
#print axioms Reclass.C04.layers_render
#print axioms Reclass.C04.mergeV_state_irrelevant_ok
#print axioms Reclass.C04.mergeV_state_cur_only
#print axioms Reclass.C04.interp_keeps_cur
#print axioms Reclass.C04.ref_layer_is_value_layer
#print axioms Reclass.C04.ref_layer_is_value_layer_vl
#print axioms Reclass.C04.canon_map
#print axioms Reclass.C04.interp_canon_result
#print axioms Reclass.C04.interp_canonical_exact
#print axioms Reclass.C04.flat_canonical_exact
#print axioms Reclass.C04.interp_idempotent_exact
#print axioms Reclass.C04.ref_layer_transparent_at
#print axioms Reclass.C04.ref_layer_transparent_vl_at
#print axioms Reclass.C04.ref_layer_transparent
#print axioms Reclass.C04c.layersStr_nil
#print axioms Reclass.C04c.layersStr_cons
#print axioms Reclass.C04c.layersStr_shape
#print axioms Reclass.C04c.layersStr_no_string_layers
#print axioms Reclass.C04c.layersStr_only_strings_matter
#print axioms Reclass.C04c.lookup_step_reads_merged_raw_layers
