import Reclass.Props.C09
open Reclass
#print axioms Reclass.C09.insert_const_rejects
#print axioms Reclass.C09.insert_error_iff
#print axioms Reclass.C09.insert_marks_const
#print axioms Reclass.C09.insert_ok_marks_const
#print axioms Reclass.C09.const_persists
#print axioms Reclass.C09.merge_keeps_const
#print axioms Reclass.C09.merge_keeps_const_value
#print axioms Reclass.C09.merge_propagates_const_stripped
#print axioms Reclass.C09.merge_propagates_const
#print axioms Reclass.C09.merge_error_is_constKey
#print axioms Reclass.C09.const_then_write_fails
#print axioms Reclass.C09.const_then_write_fails_constKey
#print axioms Reclass.C09.const_then_write_fails_exact
#print axioms Reclass.C09.const_then_write_fails_single
#print axioms Reclass.C09.siblings_unaffected
#print axioms Reclass.C09.mergeV_null_lifts
#print axioms Reclass.C09.mergeNonVl_null
