import Reclass.Props.C11
open Reclass
#print axioms Reclass.C11.splitColon_ne_nil
#print axioms Reclass.C11.merge_target_ok
#print axioms Reclass.C11.merge_result_target_ok
#print axioms Reclass.C11.interpVl_acc_target_ok
#print axioms Reclass.C11.interpVl_no_merge_panic
#print axioms Reclass.C11.interp_no_panic
#print axioms Reclass.C11.tokRender_no_panic
#print axioms Reclass.C11.tokResolve_no_panic
#print axioms Reclass.C11.slice_no_panic
#print axioms Reclass.C11.rendered_no_panic
#print axioms Reclass.C11.model_total
#print axioms Reclass.C11.model_total'
#print axioms Reclass.C11.yaml_render_total
#print axioms Reclass.C11.yaml_rendered_total
