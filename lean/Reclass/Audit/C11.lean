import Reclass.Props.C11
import Reclass.Props.C11b
open Reclass
#print axioms Reclass.C11.splitColon_ne_nil
#print axioms Reclass.C11.merge_target_ok
#print axioms Reclass.C11.merge_result_target_ok
#print axioms Reclass.C11.interpVl_acc_target_ok
#print axioms Reclass.C11.interpVl_no_merge_panic
#print axioms Reclass.C11.interp_no_panic
#print axioms Reclass.C11.tokRender_no_panic
#print axioms Reclass.C11.tokResolve_no_panic
#print axioms Reclass.C11.slice_no_panic
#print axioms Reclass.C11.rendered_no_panic
#print axioms Reclass.C11.model_total
#print axioms Reclass.C11.model_total'
#print axioms Reclass.C11.yaml_render_total
#print axioms Reclass.C11.yaml_rendered_total
#print axioms Reclass.C11.ofSrc_no_panic
#print axioms Reclass.C11.readClass_no_panic
#print axioms Reclass.C11.mergeInto_no_panic
#print axioms Reclass.C11.resolveClassName_no_panic
#print axioms Reclass.C11.walk_no_panic
#print axioms Reclass.C11.walkClasses_no_panic
#print axioms Reclass.C11.renderNodeSrc_no_panic
#print axioms Reclass.C11.renderNode_no_panic
#print axioms Reclass.C11.renderNode_outcome
#print axioms Reclass.C11.render_inventory_no_panic
#print axioms Reclass.C11.renderNode_fuel_mono
#print axioms Reclass.C11.renderNode_ok_stable
#print axioms Reclass.C11.renderNode_fuel_cases
#print axioms Reclass.C11.renderNode_settles
#print axioms Reclass.C11.renderNode_settles_residue
#print axioms Reclass.C11.renderNode_settles_ok
