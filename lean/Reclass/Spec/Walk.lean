/-
  Reclass.Spec.Walk — specification vocabulary for the class walk (`Node::render_impl`).

  * `renderImplT` / `walkClassesT`: an *instrumented* copy of the model's `renderImpl` /
    `walkClasses`.  Same control flow, same results; additionally the list of classes
    (resolved name and loaded contents) in the order in which they were merged into `root`
    is returned.  `Lemmas/WalkL` proves that forgetting the trace gives the model functions
    back (`renderImplT_erase`, `walkClassesT_erase`).
  * `mergeSeq`: merging a list of nodes, in order, into an accumulator.
  * `Dfs`: depth-first post-order traversal of an explicit graph with a visited list, as a
    fuel-free big-step relation; `dfs` is an executable (fuel-indexed) version of it.
  * `graphOf`: the include graph of an inventory.
-/
import Reclass.Model.Node
namespace Reclass

/-- One trace entry: the (resolved) name under which a class was loaded, and its contents. -/
abbrev TraceEntry := Str × NodeM

mutual
/-- `renderImpl`, additionally returning the classes merged while walking `self`'s includes
(not `self` itself: the caller knows its name). -/
def renderImplT : Nat → Inv → NodeM → List Str → NodeM → R (List Str × NodeM × List TraceEntry)
  | 0, _, _, _, _ => .error .fuel
  | n+1, r, self, seen, root =>
    match walkClassesT n r self.loc self.classes.items seen root with
    | .error e => .error e
    | .ok (seen', root', tr) =>
      match mergeInto self root' with
      | .error e => .error e
      | .ok root'' => .ok (seen', root'', tr)
/-- `walkClasses`, additionally returning the classes merged, in merge order: for a loaded
class first whatever its own includes contributed, then the class, then the later siblings. -/
def walkClassesT : Nat → Inv → Option (List Str) → List Str → List Str → NodeM →
    R (List Str × NodeM × List TraceEntry)
  | 0, _, _, _, _, _ => .error .fuel
  | _+1, _, _, [], seen, root => .ok (seen, root, [])
  | n+1, r, loc, cls :: rest, seen, root =>
    match resolveClassName defaultFuel root.params cls with
    | .error e => .error e
    | .ok c =>
      if c ∈ seen then walkClassesT n r loc rest seen root
      else
        match readClass r loc c with
        | .error e => .error e
        | .ok none => walkClassesT n r loc rest seen root
        | .ok (some cn) =>
          match renderImplT n r cn (seen ++ [c]) root with
          | .error e => .error e
          | .ok (seen', root', tr1) =>
            match walkClassesT n r loc rest seen' root' with
            | .error e => .error e
            | .ok (seen'', root'', tr2) => .ok (seen'', root'', tr1 ++ (c, cn) :: tr2)
end

/-- Forget the trace. -/
def eraseTrace (x : R (List Str × NodeM × List TraceEntry)) : R (List Str × NodeM) :=
  match x with
  | .error e => .error e
  | .ok (s, root, _) => .ok (s, root)

/-- Merge the nodes of a list, first to last, into `root` (`mergeInto` each). -/
def mergeSeq (root : NodeM) : List NodeM → R NodeM
  | [] => .ok root
  | c :: cs =>
    match mergeInto c root with
    | .error e => .error e
    | .ok root' => mergeSeq root' cs

/-- Left fold of `Mapping.merge` over a list of parameter mappings. -/
def mergeParamsSeq (p : Mapping) : List Mapping → R Mapping
  | [] => .ok p
  | q :: qs =>
    match p.merge q with
    | .error e => .error e
    | .ok p' => mergeParamsSeq p' qs

/-! ## The walk as a fuel-free big-step relation -/

/-- `Walk r loc l seen root seen' root' tr`: walking the include entries `l` of a class at
location `loc`, with the classes `seen` already reached and `root` accumulated so far, ends
with `seen'`, `root'` and has merged exactly the classes `tr`, in that order.

* an entry is first resolved against `root.params` *as accumulated so far*;
* a name that has been reached before is skipped (`seen`);
* a missing class that is ignored is skipped (`ignored`);
* otherwise (`load`) the name is recorded, the class's own includes are walked, *then* the
  class is merged (`mergeInto`), then the remaining entries are walked.

`Lemmas/WalkL` proves that this relation is exactly the successful runs of `walkClassesT`
(`walkClassesT_sound`, `Walk.complete`). -/
inductive Walk (r : Inv) : Option (List Str) → List Str → List Str → NodeM → List Str → NodeM →
    List TraceEntry → Prop
  | nil (loc seen root) : Walk r loc [] seen root seen root []
  | seen {loc cls rest seen root c seen' root' tr} :
      resolveClassName defaultFuel root.params cls = .ok c → c ∈ seen →
      Walk r loc rest seen root seen' root' tr →
      Walk r loc (cls :: rest) seen root seen' root' tr
  | ignored {loc cls rest seen root c seen' root' tr} :
      resolveClassName defaultFuel root.params cls = .ok c → c ∉ seen →
      readClass r loc c = .ok none →
      Walk r loc rest seen root seen' root' tr →
      Walk r loc (cls :: rest) seen root seen' root' tr
  | load {loc cls rest seen root c cn seen1 root1 tr1 root2 seen' root' tr2} :
      resolveClassName defaultFuel root.params cls = .ok c → c ∉ seen →
      readClass r loc c = .ok (some cn) →
      Walk r cn.loc cn.classes.items (seen ++ [c]) root seen1 root1 tr1 →
      mergeInto cn root1 = .ok root2 →
      Walk r loc rest seen1 root2 seen' root' tr2 →
      Walk r loc (cls :: rest) seen root seen' root' (tr1 ++ (c, cn) :: tr2)

/-! ## Abstract depth-first traversal -/

/-- `Dfs g todo vis vis' po`: traversing the names `todo` left to right over the graph `g`
(`g c = some incs`: `c` exists and includes `incs`; `g c = none`: `c` is skipped), starting
with visited list `vis`, ends with visited list `vis'` and emits the post-order `po`.
A name is marked visited *before* its includes are traversed and emitted after them. -/
inductive Dfs (g : Str → Option (List Str)) : List Str → List Str → List Str → List Str → Prop
  | nil (vis : List Str) : Dfs g [] vis vis []
  | visited {c rest vis vis' po} : c ∈ vis → Dfs g rest vis vis' po → Dfs g (c :: rest) vis vis' po
  | skip {c rest vis vis' po} : c ∉ vis → g c = none → Dfs g rest vis vis' po →
      Dfs g (c :: rest) vis vis' po
  | visit {c rest vis incs vis1 po1 vis2 po2} : c ∉ vis → g c = some incs →
      Dfs g incs (vis ++ [c]) vis1 po1 → Dfs g rest vis1 vis2 po2 →
      Dfs g (c :: rest) vis vis2 (po1 ++ c :: po2)

/-- Executable version of `Dfs` (fuel bounds the recursion depth plus list position). -/
def dfs : Nat → (Str → Option (List Str)) → List Str → List Str → Option (List Str × List Str)
  | 0, _, _, _ => none
  | _+1, _, [], vis => some (vis, [])
  | n+1, g, c :: rest, vis =>
    if c ∈ vis then dfs n g rest vis
    else
      match g c with
      | none => dfs n g rest vis
      | some incs =>
        match dfs n g incs (vis ++ [c]) with
        | none => none
        | some (vis1, po1) =>
          match dfs n g rest vis1 with
          | none => none
          | some (vis2, po2) => some (vis2, po1 ++ c :: po2)

/-- The include graph of an inventory, read off `readClass` at the root location: an existing,
readable class maps to its (absolute) include list; everything else is not in the graph. -/
def graphOf (r : Inv) (c : Str) : Option (List Str) :=
  match readClass r none c with
  | .ok (some cn) => some cn.classes.items
  | _ => none

/-- An include entry is *plain*: it contains no reference marker and does not start with a
dot (so it denotes the same class from every location). -/
def PlainName (cls : Str) : Prop :=
  strContains cls Extracted.classRefMarker.toList = false ∧ cls.head? ≠ some '.'

/-- All include lists that a walk of inventory `r` can reach consist of plain names. -/
def PlainInv (r : Inv) : Prop :=
  ∀ loc c cn, readClass r loc c = .ok (some cn) → ∀ cls ∈ cn.classes.items, PlainName cls

/-! ## Vocabulary for the termination bound -/

/-- Number of names of the universe `U` that are not yet in `seen`. -/
def unseen (U seen : List Str) : Nat := (U.filter fun u => decide (u ∉ seen)).length

/-- What the termination argument needs of an include list `l` walked at location `loc`:
resolving an entry never runs out of evaluator fuel, and whatever an entry resolves to, if it
loads a class, is a name of the finite universe `U`. -/
def GoodList (r : Inv) (U : List Str) (loc : Option (List Str)) (l : List Str) : Prop :=
  ∀ cls ∈ l,
    (∀ params, resolveClassName defaultFuel params cls ≠ .error .fuel) ∧
    (∀ params c cn, resolveClassName defaultFuel params cls = .ok c →
      readClass r loc c = .ok (some cn) → c ∈ U)

/-- A node whose include list is good and has at most `B` entries. -/
def GoodNode (r : Inv) (U : List Str) (B : Nat) (cn : NodeM) : Prop :=
  cn.classes.items.length ≤ B ∧ GoodList r U cn.loc cn.classes.items

/-- Every class that can be loaded from the inventory is a good node. -/
def GoodInv (r : Inv) (U : List Str) (B : Nat) : Prop :=
  ∀ loc c cn, readClass r loc c = .ok (some cn) → GoodNode r U B cn

/-- Largest number of include entries of any class file of the inventory. -/
def maxIncludes (r : Inv) : Nat :=
  r.classes.foldl (fun m e => max m (match e.2.2 with | .ok src => src.classes.length | .bad _ => 0)) 0

end Reclass
