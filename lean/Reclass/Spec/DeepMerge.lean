/-
  Reclass.Spec.DeepMerge — a specification of "deep merge in layer order" for
  reference-free layers (property C02), independent of the evaluator.

  Vocabulary

  * `Plain v`       — plain data without flags: no unparsed string, no layer list; in every
                      mapping the keys are marker-free and distinct and both flag sets are empty.
  * `RefFree v`     — the same, except that strings may still be unparsed `String`s without a
                      reference marker (what the YAML decoder produces); `norm v` turns them
                      into literals, which is all that interpolation does to such data.
  * `Tree`          — a merged parameter tree.  `leaf v` holds a value that is not merged
                      member-wise (null, scalar, sequence), `node ts` a mapping whose members are
                      trees again, and `bad e` a parameter *poisoned* by a merge conflict.
  * `deep cur t v`  — merge the layer value `v` over the tree `t` of the parameter with path
                      `cur` (the kind table of `Value::merge`, applied member by member).
  * `resolve t`     — the value of a tree: the first poisoned parameter in key order is the
                      error, otherwise the plain value.
  * `merged cur vs` — the fold of `deep` over a stack of layers, from `null`;
    `deepAll cur vs` its value.
  * `deepParams ms` — the same for whole parameter mappings (layers of classes).
  * `deepEsO`, `deepParamsO`, `valuesAtO` — the same with override keys (`~k`) at the top level
                      of a layer: an override write replaces the member and restarts its stack.
  * `valuesAt k ms` — the stack of key `k`: what the layers write to it, in layer order;
    `keyOrder ms` — all keys in order of first appearance.

  Why a tree with poison and not simply `Value → Value → Except Err Value`?  Because the code
  under verification does not report a conflict *inside* a mapping at the moment the two layers
  meet: it collects the layers of every member and merges them when the parameter is rendered.
  A later `null` (or an override) of an enclosing parameter therefore discards a member's
  conflict together with the member, whereas a conflict between the layers of one and the same
  parameter is final.  `bad` records exactly this: it is absorbing for `deep` at its own
  position, and disappears only when something above it is replaced.
  `merge2` is the plain binary reading; `Lemmas/DeepMergeL` proves that the fold of `merge2`
  agrees with `deepAll` as long as it succeeds.
-/
import Reclass.Spec.Closed
namespace Reclass
namespace DeepMerge

/-! ## Plain, flag-free data -/

mutual
/-- Plain data without flags: what a reference-free, marker-free YAML layer is after
interpolation. -/
def Plain : Value → Prop
  | .str _ => False
  | .vl _ => False
  | .map es ck ok => PlainEs es ∧ (keys es).Nodup ∧ ck = [] ∧ ok = []
  | .seq l => PlainL l
  | _ => True
def PlainL : List Value → Prop
  | [] => True
  | v :: vs => Plain v ∧ PlainL vs
def PlainEs : List (Key × Value) → Prop
  | [] => True
  | (k, v) :: es => CleanKey k ∧ Plain v ∧ PlainEs es
end

/-- A layer of parameters: a mapping without flags whose entries are plain. -/
def PlainLayer (m : Mapping) : Prop := Plain m.toValue

/-! ## Reference-free source data -/

mutual
/-- What `Value::interpolate` makes of reference-free data: every unparsed string (`String`)
becomes a literal; nothing else changes. -/
def norm : Value → Value
  | .str s => .lit s
  | .seq l => .seq (normL l)
  | .vl l => .vl (normL l)
  | .map es ck ok => .map (normEs es) ck ok
  | v => v
def normL : List Value → List Value
  | [] => []
  | v :: vs => norm v :: normL vs
def normEs : List (Key × Value) → List (Key × Value)
  | [] => []
  | (k, v) :: es => (k, norm v) :: normEs es
end

mutual
/-- Reference-free, marker-free, flag-free source data: as `Plain`, except that strings may
still be unparsed (`Value::String`, which is what the YAML decoder produces) provided they
contain no reference marker `${` / `$[`. -/
def RefFree : Value → Prop
  | .str s => containsMarker s = false
  | .vl _ => False
  | .map es ck ok => RefFreeEs es ∧ (keys es).Nodup ∧ ck = [] ∧ ok = []
  | .seq l => RefFreeL l
  | _ => True
def RefFreeL : List Value → Prop
  | [] => True
  | v :: vs => RefFree v ∧ RefFreeL vs
def RefFreeEs : List (Key × Value) → Prop
  | [] => True
  | (k, v) :: es => CleanKey k ∧ RefFree v ∧ RefFreeEs es
end

/-- A layer of parameters as decoded from a reference-free, marker-free class file. -/
def RefFreeLayer (m : Mapping) : Prop := RefFree m.toValue

/-- The layer with its strings turned into literals. -/
def normLayer (m : Mapping) : Mapping := ⟨normEs m.es, m.ck, m.ok⟩

/-! ## Parameter trees -/

/-- A merged parameter tree. -/
inductive Tree where
  /-- a value that is replaced or appended to as a whole: null, a scalar, a sequence -/
  | leaf (v : Value)
  /-- a mapping; every member is a tree of its own -/
  | node (ts : List (Key × Tree))
  /-- a parameter whose layers could not be merged -/
  | bad (e : Err)
  deriving Inhabited

mutual
/-- A plain value as a tree. -/
def ofValue : Value → Tree
  | .map es _ _ => .node (ofValueEs es)
  | v => .leaf v
def ofValueEs : List (Key × Value) → List (Key × Tree)
  | [] => []
  | (k, v) :: es => (k, ofValue v) :: ofValueEs es
end

/-- The member `k` of a node. -/
def tlookup (k : Key) : List (Key × Tree) → Option Tree
  | [] => none
  | (k', t) :: ts => if k' = k then some t else tlookup k ts

/-- Update the member `k` with `f`, or add it at the end as `dflt`. -/
def upsert (k : Key) (f : Tree → Tree) (dflt : Tree) : List (Key × Tree) → List (Key × Tree)
  | [] => [(k, dflt)]
  | (k', t) :: ts => if k' = k then (k', f t) :: ts else (k', t) :: upsert k f dflt ts

/-- The text of a parameter path, as quoted in error messages (`a.b.c`). -/
def pathText (cur : List Str) : Str := joinWith ['.'] cur

/-- "In `cur`: can't merge `over` over `onto`". -/
def conflict (cur : List Str) (over : Value) (onto : Str) : Err :=
  .mergeConflict (pathText cur) over.kind onto

/-- A non-null layer `v` over a leaf holding `a`:
anything over null is that thing; sequence over sequence appends; a mapping or a sequence over
a scalar, and anything else over a sequence, is a conflict; otherwise the new scalar wins. -/
def mergeLeaf (cur : List Str) (a v : Value) : Tree :=
  match a with
  | .null => ofValue v
  | .seq l =>
    match v with
    | .seq l' => .leaf (.seq (l ++ l'))
    | v => .bad (conflict cur v "sequence".toList)
  | a => if v.isMap || v.isSeq then .bad (conflict cur v a.kind) else .leaf v

mutual
/-- Merge the layer value `v` over the tree `t` of the parameter at path `cur`. -/
def deep (cur : List Str) (t : Tree) : Value → Tree
  | .null =>
    match t with
    | .bad e => .bad e              -- a conflict among the layers of this very parameter stays
    | _ => .leaf .null              -- null replaces anything (poisoned members included)
  | .map es ck ok =>
    match t with
    | .bad e => .bad e
    | .node ts => .node (deepEs cur ts es)          -- mapping over mapping: member-wise
    | .leaf a => mergeLeaf cur a (.map es ck ok)
  | v =>
    match t with
    | .bad e => .bad e
    | .node _ => .bad (conflict cur v "mapping".toList)
    | .leaf a => mergeLeaf cur a v
/-- The members of the layer, in their order: an existing member is merged at the longer
path, a new one is added at the end. -/
def deepEs (cur : List Str) (ts : List (Key × Tree)) : List (Key × Value) → List (Key × Tree)
  | [] => ts
  | (k, v) :: es =>
    deepEs cur (upsert k (fun t => deep (cur ++ [k.display]) t v) (ofValue v) ts) es
end

mutual
/-- The value of a tree; the first poisoned parameter (in key order, depth first) is the
error. -/
def resolve : Tree → Except Err Value
  | .leaf v => .ok v
  | .bad e => .error e
  | .node ts =>
    match resolveEs ts with
    | .error e => .error e
    | .ok es => .ok (.map es [] [])
def resolveEs : List (Key × Tree) → Except Err (List (Key × Value))
  | [] => .ok []
  | (k, t) :: ts =>
    match resolve t with
    | .error e => .error e
    | .ok v =>
      match resolveEs ts with
      | .error e => .error e
      | .ok es => .ok ((k, v) :: es)
end

/-! ## Stacks of layers -/

/-- The tree of a parameter that was defined by the layers `vs` (in layer order). -/
def merged (cur : List Str) (vs : List Value) : Tree := vs.foldl (deep cur) (.leaf .null)

/-- **Deep merge of a stack of layers** of the parameter at path `cur`. -/
def deepAll (cur : List Str) (vs : List Value) : Except Err Value := resolve (merged cur vs)

/-- The binary reading: one more layer `b` over an already merged value `a`. -/
def merge2 (cur : List Str) (a b : Value) : Except Err Value := resolve (deep cur (ofValue a) b)

/-- The member trees after the mappings `ms` were merged in order, for a mapping at path `cur`. -/
def mergedEs (cur : List Str) (ms : List Mapping) : List (Key × Tree) :=
  ms.foldl (fun ts m => deepEs cur ts m.es) []

/-- The trees of all top-level parameters after the layers `ms` were merged in order. -/
def mergedParams (ms : List Mapping) : List (Key × Tree) := mergedEs [] ms

/-- **Deep merge of whole parameter mappings.** -/
def deepParams (ms : List Mapping) : Except Err Mapping :=
  match resolveEs (mergedParams ms) with
  | .error e => .error e
  | .ok es => .ok ⟨es, [], []⟩

/-- The values written to key `k` by the layers, in layer order. -/
def valuesAt (k : Key) : List Mapping → List Value
  | [] => []
  | m :: ms =>
    match lookup k m.es with
    | some v => v :: valuesAt k ms
    | none => valuesAt k ms

/-- First-appearance order: add `k` unless it is there already. -/
def addKey (ks : List Key) (k : Key) : List Key := if k ∈ ks then ks else ks ++ [k]

/-- All keys of the layers, each once, in the order of first appearance. -/
def keyOrder (ms : List Mapping) : List Key :=
  ms.foldl (fun ks m => (keys m.es).foldl addKey ks) []

/-- A merge-conflict error (the only kind of error `deep` produces). -/
def IsConflict (e : Err) : Prop := ∃ path over onto, e = .mergeConflict path over onto

/-- A merge-conflict error whose parameter path is `cur` or lies below it (`cur.k₁.….kₙ`). -/
def ConflictBelow (cur : List Str) (e : Err) : Prop :=
  ∃ ks over onto, e = .mergeConflict (pathText (cur ++ ks)) over onto

/-! ## Override keys of a layer (top level) -/

/-- As `deepEs`, for a layer whose keys in `ok` were written with the override marker (`~k`;
`Mapping::override_keys` of the stored layer): such a member is *replaced* by the layer's value
instead of being merged with it. -/
def deepEsO (cur : List Str) (ok : List Key) (ts : List (Key × Tree)) :
    List (Key × Value) → List (Key × Tree)
  | [] => ts
  | (k, v) :: es =>
    deepEsO cur ok
      (upsert k (fun t => if k ∈ ok then ofValue v else deep (cur ++ [k.display]) t v) (ofValue v) ts)
      es

/-- The trees of the top-level parameters after layers with override keys were merged. -/
def mergedParamsO (ms : List Mapping) : List (Key × Tree) :=
  ms.foldl (fun ts m => deepEsO [] m.ok ts m.es) []

/-- Deep merge of parameter mappings with top-level override keys: the entries of the result. -/
def deepParamsO (ms : List Mapping) : Except Err (List (Key × Value)) :=
  resolveEs (mergedParamsO ms)

/-- The stack of key `k` after one more layer: an override write restarts it. -/
def stackStep (k : Key) (acc : List Value) (m : Mapping) : List Value :=
  match lookup k m.es with
  | none => acc
  | some v => if k ∈ m.ok then [v] else acc ++ [v]

/-- The values that count for key `k`: those written from the last override of `k` on. -/
def valuesAtO (k : Key) (ms : List Mapping) : List Value := ms.foldl (stackStep k) []

/-- A stored layer whose values are reference-free and flag-free, whose keys are clean and
distinct, without constant keys; `ok` (the keys written as `~k`) is arbitrary. -/
def OverrideLayer (m : Mapping) : Prop := RefFreeEs m.es ∧ (keys m.es).Nodup ∧ m.ck = []

/-! ## Merging the layers with the code's own `Mapping::merge` -/

/-- `root.merge(layer)` for every layer in order (`Node::merge_into` along the class walk). -/
def mergeLayers (base : Mapping) : List Mapping → R Mapping
  | [] => .ok base
  | m :: ms =>
    match base.merge m with
    | .error e => .error e
    | .ok b => mergeLayers b ms

end DeepMerge
end Reclass
