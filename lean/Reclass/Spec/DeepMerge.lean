/-
  Reclass.Spec.DeepMerge — a specification of "deep merge in layer order" for
  reference-free layers (property C02), independent of the evaluator.

  Vocabulary

  * `Plain v`       — plain data without flags: no unparsed string, no layer list; in every
                      mapping the keys are marker-free and distinct and both flag sets are empty.
  * `Tree`          — a merged parameter tree.  `leaf v` holds a value that is not merged
                      member-wise (null, scalar, sequence), `node ts` a mapping whose members are
                      trees again, and `bad e` a parameter *poisoned* by a merge conflict.
  * `deep cur t v`  — merge the layer value `v` over the tree `t` of the parameter with path
                      `cur` (the kind table of `Value::merge`, applied member by member).
  * `resolve t`     — the value of a tree: the first poisoned parameter in key order is the
                      error, otherwise the plain value.
  * `merged cur vs` — the fold of `deep` over a stack of layers, from `null`;
    `deepAll cur vs` its value.
  * `deepParams ms` — the same for whole parameter mappings (layers of classes).

  Why a tree with poison and not simply `Value → Value → Except Err Value`?  Because the code
  under verification does not report a conflict *inside* a mapping at the moment the two layers
  meet: it collects the layers of every member and merges them when the parameter is rendered.
  A later `null` (or an override) of an enclosing parameter therefore discards a member's
  conflict together with the member, whereas a conflict between the layers of one and the same
  parameter is final.  `bad` records exactly this: it is absorbing for `deep` at its own
  position, and disappears only when something above it is replaced.
  `merge2` is the plain binary reading; `Lemmas/DeepMergeL` proves that the fold of `merge2`
  agrees with `deepAll` as long as it succeeds.
-/
import Reclass.Spec.Closed
namespace Reclass
namespace DeepMerge

/-! ## Plain, flag-free data -/

mutual
/-- Plain data without flags: what a reference-free, marker-free YAML layer is after
interpolation. -/
def Plain : Value → Prop
  | .str _ => False
  | .vl _ => False
  | .map es ck ok => PlainEs es ∧ (keys es).Nodup ∧ ck = [] ∧ ok = []
  | .seq l => PlainL l
  | _ => True
def PlainL : List Value → Prop
  | [] => True
  | v :: vs => Plain v ∧ PlainL vs
def PlainEs : List (Key × Value) → Prop
  | [] => True
  | (k, v) :: es => CleanKey k ∧ Plain v ∧ PlainEs es
end

/-- A layer of parameters: a mapping without flags whose entries are plain. -/
def PlainLayer (m : Mapping) : Prop := Plain m.toValue

/-! ## Parameter trees -/

/-- A merged parameter tree. -/
inductive Tree where
  /-- a value that is replaced or appended to as a whole: null, a scalar, a sequence -/
  | leaf (v : Value)
  /-- a mapping; every member is a tree of its own -/
  | node (ts : List (Key × Tree))
  /-- a parameter whose layers could not be merged -/
  | bad (e : Err)
  deriving Inhabited

mutual
/-- A plain value as a tree. -/
def ofValue : Value → Tree
  | .map es _ _ => .node (ofValueEs es)
  | v => .leaf v
def ofValueEs : List (Key × Value) → List (Key × Tree)
  | [] => []
  | (k, v) :: es => (k, ofValue v) :: ofValueEs es
end

/-- The member `k` of a node. -/
def tlookup (k : Key) : List (Key × Tree) → Option Tree
  | [] => none
  | (k', t) :: ts => if k' = k then some t else tlookup k ts

/-- Update the member `k` with `f`, or add it at the end as `dflt`. -/
def upsert (k : Key) (f : Tree → Tree) (dflt : Tree) : List (Key × Tree) → List (Key × Tree)
  | [] => [(k, dflt)]
  | (k', t) :: ts => if k' = k then (k', f t) :: ts else (k', t) :: upsert k f dflt ts

/-- The text of a parameter path, as quoted in error messages (`a.b.c`). -/
def pathText (cur : List Str) : Str := joinWith ['.'] cur

/-- "In `cur`: can't merge `over` over `onto`". -/
def conflict (cur : List Str) (over : Value) (onto : Str) : Err :=
  .mergeConflict (pathText cur) over.kind onto

/-- A non-null layer `v` over a leaf holding `a`:
anything over null is that thing; sequence over sequence appends; a mapping or a sequence over
a scalar, and anything else over a sequence, is a conflict; otherwise the new scalar wins. -/
def mergeLeaf (cur : List Str) (a v : Value) : Tree :=
  match a with
  | .null => ofValue v
  | .seq l =>
    match v with
    | .seq l' => .leaf (.seq (l ++ l'))
    | v => .bad (conflict cur v "sequence".toList)
  | a => if v.isMap || v.isSeq then .bad (conflict cur v a.kind) else .leaf v

mutual
/-- Merge the layer value `v` over the tree `t` of the parameter at path `cur`. -/
def deep (cur : List Str) (t : Tree) : Value → Tree
  | .null =>
    match t with
    | .bad e => .bad e              -- a conflict among the layers of this very parameter stays
    | _ => .leaf .null              -- null replaces anything (poisoned members included)
  | .map es ck ok =>
    match t with
    | .bad e => .bad e
    | .node ts => .node (deepEs cur ts es)          -- mapping over mapping: member-wise
    | .leaf a => mergeLeaf cur a (.map es ck ok)
  | v =>
    match t with
    | .bad e => .bad e
    | .node _ => .bad (conflict cur v "mapping".toList)
    | .leaf a => mergeLeaf cur a v
/-- The members of the layer, in their order: an existing member is merged at the longer
path, a new one is added at the end. -/
def deepEs (cur : List Str) (ts : List (Key × Tree)) : List (Key × Value) → List (Key × Tree)
  | [] => ts
  | (k, v) :: es =>
    deepEs cur (upsert k (fun t => deep (cur ++ [k.display]) t v) (ofValue v) ts) es
end

mutual
/-- The value of a tree; the first poisoned parameter (in key order, depth first) is the
error. -/
def resolve : Tree → Except Err Value
  | .leaf v => .ok v
  | .bad e => .error e
  | .node ts =>
    match resolveEs ts with
    | .error e => .error e
    | .ok es => .ok (.map es [] [])
def resolveEs : List (Key × Tree) → Except Err (List (Key × Value))
  | [] => .ok []
  | (k, t) :: ts =>
    match resolve t with
    | .error e => .error e
    | .ok v =>
      match resolveEs ts with
      | .error e => .error e
      | .ok es => .ok ((k, v) :: es)
end

/-! ## Stacks of layers -/

/-- The tree of a parameter that was defined by the layers `vs` (in layer order). -/
def merged (cur : List Str) (vs : List Value) : Tree := vs.foldl (deep cur) (.leaf .null)

/-- **Deep merge of a stack of layers** of the parameter at path `cur`. -/
def deepAll (cur : List Str) (vs : List Value) : Except Err Value := resolve (merged cur vs)

/-- The binary reading: one more layer `b` over an already merged value `a`. -/
def merge2 (cur : List Str) (a b : Value) : Except Err Value := resolve (deep cur (ofValue a) b)

/-- The trees of all top-level parameters after the layers `ms` (mappings) were merged in order. -/
def mergedParams (ms : List Mapping) : List (Key × Tree) :=
  ms.foldl (fun ts m => deepEs [] ts m.es) []

/-- **Deep merge of whole parameter mappings.** -/
def deepParams (ms : List Mapping) : Except Err Mapping :=
  match resolveEs (mergedParams ms) with
  | .error e => .error e
  | .ok es => .ok ⟨es, [], []⟩

/-- The values written to key `k` by the layers, in layer order. -/
def valuesAt (k : Key) : List Mapping → List Value
  | [] => []
  | m :: ms =>
    match lookup k m.es with
    | some v => v :: valuesAt k ms
    | none => valuesAt k ms

/-! ## Merging the layers with the code's own `Mapping::merge` -/

/-- `root.merge(layer)` for every layer in order (`Node::merge_into` along the class walk). -/
def mergeLayers (base : Mapping) : List Mapping → R Mapping
  | [] => .ok base
  | m :: ms =>
    match base.merge m with
    | .error e => .error e
    | .ok b => mergeLayers b ms

end DeepMerge
end Reclass
