/-
  Reclass.Spec.Closed — vocabulary of property C07 ("rendered parameters are plain data").

  * `Closed v`    — no `Value.str` (unparsed string) and no `Value.vl` (layer list) anywhere.
  * `NoStr v`     — no `Value.str` anywhere (layer lists allowed).
  * `CleanKey k`  — the key does not start with a `=`/`~` marker (`Key.stripPrefix` leaves it alone).
  * `WF v`        — in every mapping anywhere inside `v` all keys are clean and pairwise distinct.
  * `LayersOK l`  — no layer of `l` is an unparsed string, also not inside directly nested layer lists.
  * `NoNest v`    — no layer list is a direct element of a layer list, anywhere in `v`.
 * `erase v`     — `v` with all flag sets (`const_keys`, `override_keys`) emptied.
  * `size v`      — fuel bound for re-interpolating an already closed value.
  * `SingleMarker y` — every string key of the YAML document carries at most one marker character.
-/
import Reclass.Model.Eval
namespace Reclass

/-! ## Closed / NoStr -/

mutual
/-- Plain data: no unparsed string and no layer list at any position. -/
def Closed : Value → Prop
  | .str _ => False
  | .vl _ => False
  | .map es _ _ => ClosedEs es
  | .seq l => ClosedL l
  | _ => True
def ClosedL : List Value → Prop
  | [] => True
  | v :: vs => Closed v ∧ ClosedL vs
def ClosedEs : List (Key × Value) → Prop
  | [] => True
  | (_, v) :: es => Closed v ∧ ClosedEs es
end

mutual
/-- No unparsed string at any position (layer lists may remain). -/
def NoStr : Value → Prop
  | .str _ => False
  | .vl l => NoStrL l
  | .map es _ _ => NoStrEs es
  | .seq l => NoStrL l
  | _ => True
def NoStrL : List Value → Prop
  | [] => True
  | v :: vs => NoStr v ∧ NoStrL vs
def NoStrEs : List (Key × Value) → Prop
  | [] => True
  | (_, v) :: es => NoStr v ∧ NoStrEs es
end

/-! ## Keys -/

/-- A key that `Mapping::insert_impl` stores as it is: not a `Value::String` key whose text
starts with the constant marker `=` or the override marker `~`. -/
def CleanKey (k : Key) : Prop := k.stripPrefix = (k, none)

instance (k : Key) : Decidable (CleanKey k) := inferInstanceAs (Decidable (_ = _))

/-- The keys of an entry list, in order. -/
abbrev keys (es : List (Key × Value)) : List Key := es.map Prod.fst

mutual
/-- Well-formed: in every mapping anywhere inside the value (also inside sequences and layer
lists) all keys are marker-free and no key occurs twice. -/
def WF : Value → Prop
  | .map es _ _ => WFEs es ∧ (keys es).Nodup
  | .seq l => WFL l
  | .vl l => WFL l
  | _ => True
def WFL : List Value → Prop
  | [] => True
  | v :: vs => WF v ∧ WFL vs
def WFEs : List (Key × Value) → Prop
  | [] => True
  | (k, v) :: es => CleanKey k ∧ WF v ∧ WFEs es
end

def Mapping.WF (m : Mapping) : Prop := Reclass.WF m.toValue

/-! ## Layer lists that flatten to a non-string -/

mutual
/-- A layer that cannot make `Value::flattened` return an unparsed string or a layer list:
not a `String`, and if it is itself a layer list, then recursively so. -/
def LayerOK : Value → Prop
  | .str _ => False
  | .vl l => LayersOK l
  | _ => True
def LayersOK : List Value → Prop
  | [] => True
  | v :: vs => LayerOK v ∧ LayersOK vs
end

mutual
/-- No layer list directly inside a layer list, anywhere in the value.  `Mapping::insert_impl`
never builds nested layer lists (`combine` splices them), so every value decoded from YAML and
every merge of such values satisfies this; a user-constructed `ValueList` might not. -/
def NoNest : Value → Prop
  | .map es _ _ => NoNestEs es
  | .seq l => NoNestL l
  | .vl l => NoNestL l ∧ ∀ x ∈ l, x.isVl = false
  | _ => True
def NoNestL : List Value → Prop
  | [] => True
  | v :: vs => NoNest v ∧ NoNestL vs
def NoNestEs : List (Key × Value) → Prop
  | [] => True
  | (_, v) :: es => NoNest v ∧ NoNestEs es
end

/-! ## Forgetting the flag sets -/

mutual
/-- The value with every `const_keys`/`override_keys` set emptied.  (The flag sets are hash
sets in Rust; only their membership is observable, and rendering rebuilds them.) -/
def erase : Value → Value
  | .map es _ _ => .map (eraseEs es) [] []
  | .seq l => .seq (eraseL l)
  | .vl l => .vl (eraseL l)
  | v => v
def eraseL : List Value → List Value
  | [] => []
  | v :: vs => erase v :: eraseL vs
def eraseEs : List (Key × Value) → List (Key × Value)
  | [] => []
  | (k, v) :: es => (k, erase v) :: eraseEs es
end

/-! ## Fuel bound for re-rendering -/

mutual
/-- Number of constructors, list cells included: enough fuel to interpolate a closed value. -/
def size : Value → Nat
  | .map es _ _ => 1 + sizeEs es
  | .seq l => 1 + sizeL l
  | .vl l => 1 + sizeL l
  | _ => 1
def sizeL : List Value → Nat
  | [] => 1
  | v :: vs => 1 + size v + sizeL vs
def sizeEs : List (Key × Value) → Nat
  | [] => 1
  | (_, v) :: es => 1 + size v + sizeEs es
end

/-! ## YAML documents whose keys carry at most one marker -/

/-- A YAML mapping key is acceptable if, after `insert_impl` removed one leading marker, what is
stored does not start with a marker again. -/
def Yaml.keyOK : Yaml → Prop
  | .str s => CleanKey (Key.stripPrefix (.str s)).1
  | _ => True

mutual
/-- Every string key of every mapping in the document has at most one leading `=`/`~`. -/
def SingleMarker : Yaml → Prop
  | .seq l => SingleMarkerL l
  | .map es => SingleMarkerEs es
  | .tagged _ v => SingleMarker v
  | _ => True
def SingleMarkerL : List Yaml → Prop
  | [] => True
  | y :: ys => SingleMarker y ∧ SingleMarkerL ys
def SingleMarkerEs : List (Yaml × Yaml) → Prop
  | [] => True
  | (k, v) :: es => k.keyOK ∧ SingleMarker v ∧ SingleMarkerEs es
end

end Reclass
