/-
  Reclass.Lemmas.StratL — "no false loop" machinery for property C08 (second half).

  * `NotLD e`            — the error is neither `Err.loop` nor `Err.depth _`;
  * `Res Q x`            — outcome `x` is a value satisfying `Q`, or an error that is `NotLD`;
  * `TokOK`/`TokOKs`     — every reference in a token renders to a relevant path of rank `< R`
                           (references nested in a path text strictly below the path they build);
  * `RefsIn`/`RefsInL`/`RefsInEs` — the same for every unparsed string inside a value;
  * `ReachOK`            — what `Token::resolve` meets when it walks the segments of a path:
                           raw mappings are looked into, of a layer list the `String` layers are
                           interpolated and the flattened layers looked into, the rest as a whole;
  * `Strat`              — the root is stratified by the rank function;
  * `Ok`                 — resolution states that leave enough room and have only seen paths of
                           rank at least `R`;  `NB` — the state gained only paths of rank `< R`;
  * `SInv` / `sInv`      — the 13-way invariant: under `Strat`, no evaluator call returns
                           `Err.loop` or `Err.depth _`, results are reference-free;
  * `litParts`, `slice_lits`, `tokOK_ref_lits`, `tokOK_ref_of_run` — discharging `TokOK` for
                           literal and for nested references;
  * Bool checkers (`tokB`, `valB`, `reachB`, `stratB`, rank tables `rkT`/`inT`) with soundness,
    for closed examples;
  * `Hit` / `LInv` / `lInv` — every `Err.loop` is raised by a reference whose rendered path is
                           already in the `seen` set handed down along the chain of calls;
  * `refsIn_monoP`       — enlarging the set of relevant paths.
-/
import Reclass.Lemmas.Fuel
import Reclass.Lemmas.ClosedL
import Reclass.Lemmas.RefsL
namespace Reclass
namespace Strat

/-! ## Outcomes that are not a loop / depth error -/

/-- The error is neither the reference-loop error nor the depth-limit error. -/
def NotLD (e : Err) : Prop := e ≠ .loop ∧ ∀ c, e ≠ .depth c

/-- The outcome is a value satisfying `Q`, or an error other than loop / depth. -/
def Res {α : Type} (Q : α → Prop) : R α → Prop
  | .error e => NotLD e
  | .ok a => Q a

@[simp] theorem res_error {α : Type} {Q : α → Prop} {e : Err} :
    Res Q (.error e : R α) ↔ NotLD e := Iff.rfl
@[simp] theorem res_ok {α : Type} {Q : α → Prop} {a : α} : Res Q (.ok a : R α) ↔ Q a := Iff.rfl

theorem Res.mono {α : Type} {Q Q' : α → Prop} {x : R α} (h : ∀ a, Q a → Q' a) (hx : Res Q x) :
    Res Q' x := by
  cases x with
  | error e => exact hx
  | ok a => exact h a hx

theorem Res.notLD {α : Type} {Q : α → Prop} {x : R α} (hx : Res Q x) {e : Err}
    (h : x = .error e) : NotLD e := by subst h; exact hx

theorem fuel_notLD : NotLD .fuel := by simp [NotLD]

theorem parse_notLD {s : Str} {e : Err} (h : Token.parse s = .error e) : NotLD e := by
  unfold Token.parse at h
  split at h
  · simp at h
  · split at h
    · simp at h
    · simp only [Except.error.injEq] at h; subst h; simp [NotLD]
    · simp only [Except.error.injEq] at h; subst h; simp [NotLD]

theorem insertImpl_notLD {m : Mapping} {k : Key} {v : Value} {fc fo : Bool} {e : Err}
    (h : m.insertImpl k v fc fo = .error e) : NotLD e := by
  unfold Mapping.insertImpl at h
  generalize k.stripPrefix = kp at h
  obtain ⟨k1, p⟩ := kp
  simp only at h
  cases hl : lookup k1 m.es with
  | none => simp [hl] at h
  | some old =>
    simp only [hl] at h
    by_cases hc : k1 ∈ m.ck
    · simp only [hc, if_true, Except.error.injEq] at h; subst h; simp [NotLD]
    · simp [hc] at h

theorem mergeEntries_notLD {ock ook : List Key} {es : List (Key × Value)} {e : Err} :
    ∀ {m : Mapping}, m.mergeEntries ock ook es = .error e → NotLD e := by
  induction es with
  | nil => intro m h; simp [Mapping.mergeEntries] at h
  | cons x es ih =>
    obtain ⟨k, v⟩ := x
    intro m h
    simp only [Mapping.mergeEntries] at h
    cases h1 : m.insertImpl k v (decide (k ∈ ock)) (decide (k ∈ ook)) with
    | error e' => simp only [h1, Except.error.injEq] at h; subst h; exact insertImpl_notLD h1
    | ok m1 => simp only [h1] at h; exact ih h

theorem mergeNonVl_notLD {a b : Value} {st : RState} {e : Err}
    (h : mergeNonVl a b st = .error e) : NotLD e := by
  cases a with
  | null => simp [mergeNonVl] at h
  | map es ck ok =>
    cases b with
    | map es' ck' ok' =>
      simp only [mergeNonVl] at h
      cases h1 : Mapping.merge ⟨es, ck, ok⟩ ⟨es', ck', ok'⟩ with
      | error e' =>
        simp only [h1, Except.error.injEq] at h; subst h
        exact mergeEntries_notLD (m := ⟨es, ck, ok⟩) h1
      | ok m => simp [h1] at h
    | _ => simp only [mergeNonVl, Except.error.injEq] at h; subst h; simp [NotLD]
  | seq s =>
    cases b with
    | seq s' => simp [mergeNonVl] at h
    | _ => simp only [mergeNonVl, Except.error.injEq] at h; subst h; simp [NotLD]
  | str _ => simp only [mergeNonVl, Except.error.injEq] at h; subst h; simp [NotLD]
  | vl _ => simp only [mergeNonVl, Except.error.injEq] at h; subst h; simp [NotLD]
  | bool _ =>
    simp only [mergeNonVl] at h
    split at h
    · simp only [Except.error.injEq] at h; subst h; simp [NotLD]
    · simp at h
  | num _ =>
    simp only [mergeNonVl] at h
    split at h
    · simp only [Except.error.injEq] at h; subst h; simp [NotLD]
    · simp at h
  | lit _ =>
    simp only [mergeNonVl] at h
    split at h
    · simp only [Except.error.injEq] at h; subst h; simp [NotLD]
    · simp at h

mutual
theorem flat_notLD : ∀ (v : Value) (st : RState) (e : Err), flat v st = .error e → NotLD e
  | .vl l, st, e, h => by simp only [flat] at h; exact flatVl_notLD l .null st e h
  | .map es ck ok, st, e, h => by
    simp only [flat] at h
    cases h1 : flatEs es ck ok st {} with
    | error e' => simp only [h1, Except.error.injEq] at h; subst h; exact flatEs_notLD es ck ok st {} _ h1
    | ok m => simp [h1] at h
  | .seq l, st, e, h => by
    simp only [flat] at h
    cases h1 : flatL l st with
    | error e' => simp only [h1, Except.error.injEq] at h; subst h; exact flatL_notLD l st _ h1
    | ok m => simp [h1] at h
  | .str _, st, e, h => by simp only [flat, Except.error.injEq] at h; subst h; simp [NotLD]
  | .null, st, e, h => by simp [flat] at h
  | .bool _, st, e, h => by simp [flat] at h
  | .num _, st, e, h => by simp [flat] at h
  | .lit _, st, e, h => by simp [flat] at h
theorem flatVl_notLD : ∀ (l : List Value) (base : Value) (st : RState) (e : Err),
    flatVl l base st = .error e → NotLD e
  | [], base, st, e, h => by simp [flatVl] at h
  | v :: rest, base, st, e, h => by
    simp only [flatVl] at h
    cases h1 : mergeV base v st with
    | error e' => simp only [h1, Except.error.injEq] at h; subst h; exact mergeV_notLD base v st _ h1
    | ok b => simp only [h1] at h; exact flatVl_notLD rest b st e h
theorem mergeV_notLD : ∀ (self other : Value) (st : RState) (e : Err),
    mergeV self other st = .error e → NotLD e
  | self, .null, st, e, h => by simp [mergeV] at h
  | self, .vl l, st, e, h => by
    simp only [mergeV] at h
    cases h1 : flatVl l .null st with
    | error e' => simp only [h1, Except.error.injEq] at h; subst h; exact flatVl_notLD l .null st _ h1
    | ok o => simp only [h1] at h; exact mergeNonVl_notLD h
  | self, .map es ck ok, st, e, h => by simp only [mergeV] at h; exact mergeNonVl_notLD h
  | self, .seq l, st, e, h => by simp only [mergeV] at h; exact mergeNonVl_notLD h
  | self, .str _, st, e, h => by simp only [mergeV] at h; exact mergeNonVl_notLD h
  | self, .bool _, st, e, h => by simp only [mergeV] at h; exact mergeNonVl_notLD h
  | self, .num _, st, e, h => by simp only [mergeV] at h; exact mergeNonVl_notLD h
  | self, .lit _, st, e, h => by simp only [mergeV] at h; exact mergeNonVl_notLD h
theorem flatL_notLD : ∀ (l : List Value) (st : RState) (e : Err), flatL l st = .error e → NotLD e
  | [], st, e, h => by simp [flatL] at h
  | v :: vs, st, e, h => by
    simp only [flatL] at h
    cases h1 : flat v st with
    | error e' => simp only [h1, Except.error.injEq] at h; subst h; exact flat_notLD v st _ h1
    | ok x =>
      simp only [h1] at h
      cases h2 : flatL vs st with
      | error e' => simp only [h2, Except.error.injEq] at h; subst h; exact flatL_notLD vs st _ h2
      | ok xs => simp [h2] at h
theorem flatEs_notLD : ∀ (es : List (Key × Value)) (ck ok : List Key) (st : RState) (acc : Mapping)
    (e : Err), flatEs es ck ok st acc = .error e → NotLD e
  | [], ck, ok, st, acc, e, h => by simp [flatEs] at h
  | (k, v) :: rest, ck, ok, st, acc, e, h => by
    simp only [flatEs] at h
    cases h1 : flat v st with
    | error e' => simp only [h1, Except.error.injEq] at h; subst h; exact flat_notLD v st _ h1
    | ok v' =>
      simp only [h1] at h
      cases h2 : acc.insertImpl k v' (decide (k ∈ ck)) (decide (k ∈ ok)) with
      | error e' => simp only [h2, Except.error.injEq] at h; subst h; exact insertImpl_notLD h2
      | ok acc' => simp only [h2] at h; exact flatEs_notLD rest ck ok st acc' e h
end

mutual
theorem jsonOf_notLD : ∀ (v : Value) (e : Err), jsonOf v = .error e → NotLD e
  | .null, e, h => by simp [jsonOf] at h
  | .bool true, e, h => by simp [jsonOf] at h
  | .bool false, e, h => by simp [jsonOf] at h
  | .num _, e, h => by simp [jsonOf] at h
  | .str _, e, h => by simp [jsonOf] at h
  | .lit _, e, h => by simp [jsonOf] at h
  | .vl _, e, h => by simp only [jsonOf, Except.error.injEq] at h; subst h; simp [NotLD]
  | .seq l, e, h => by
    simp only [jsonOf] at h
    cases h1 : jsonOfL l with
    | error e' => simp only [h1, Except.error.injEq] at h; subst h; exact jsonOfL_notLD l _ h1
    | ok xs => simp [h1] at h
  | .map es _ _, e, h => by
    simp only [jsonOf] at h
    cases h1 : jsonOfEs es [] with
    | error e' => simp only [h1, Except.error.injEq] at h; subst h; exact jsonOfEs_notLD es [] _ h1
    | ok xs => simp [h1] at h
theorem jsonOfL_notLD : ∀ (l : List Value) (e : Err), jsonOfL l = .error e → NotLD e
  | [], e, h => by simp [jsonOfL] at h
  | v :: vs, e, h => by
    simp only [jsonOfL] at h
    cases h1 : jsonOf v with
    | error e' => simp only [h1, Except.error.injEq] at h; subst h; exact jsonOf_notLD v _ h1
    | ok x =>
      simp only [h1] at h
      cases h2 : jsonOfL vs with
      | error e' => simp only [h2, Except.error.injEq] at h; subst h; exact jsonOfL_notLD vs _ h2
      | ok xs => simp [h2] at h
theorem jsonOfEs_notLD : ∀ (es : List (Key × Value)) (acc : List (Str × Str)) (e : Err),
    jsonOfEs es acc = .error e → NotLD e
  | [], acc, e, h => by simp [jsonOfEs] at h
  | (k, v) :: rest, acc, e, h => by
    simp only [jsonOfEs] at h
    cases h1 : jsonOf v with
    | error e' => simp only [h1, Except.error.injEq] at h; subst h; exact jsonOf_notLD v _ h1
    | ok x => simp only [h1] at h; exact jsonOfEs_notLD rest _ e h
end

theorem rawString_notLD {v : Value} {e : Err} (h : rawString v = .error e) : NotLD e := by
  cases v with
  | lit _ => simp [rawString] at h
  | null => simp [rawString] at h
  | bool b => cases b <;> simp [rawString] at h
  | num _ => simp [rawString] at h
  | map es ck ok => simp only [rawString] at h; exact jsonOf_notLD _ _ h
  | seq l => simp only [rawString] at h; exact jsonOf_notLD _ _ h
  | str _ => simp only [rawString, Except.error.injEq] at h; subst h; simp [NotLD]
  | vl _ => simp only [rawString, Except.error.injEq] at h; subst h; simp [NotLD]

/-! ## Ranked references -/

section defs
variable (root : Mapping) (rk : Str → Nat) (P : Str → Prop)

mutual
/-- Every reference inside the token renders (whenever it renders) to a path satisfying `P` of
rank `< R`; references nested inside the path text have rank strictly below a bound `R'` that
the rendered path does not exceed. -/
def TokOK : Nat → Token → Prop
  | _, .lit _ => True
  | R, .combined ts => TokOKs R ts
  | R, .ref parts => ∃ R', R' < R ∧ TokOKs R' parts ∧
      ∀ n st path, slice n root parts st = .ok path → P path ∧ rk path ≤ R'
def TokOKs : Nat → List Token → Prop
  | _, [] => True
  | R, t :: ts => TokOK R t ∧ TokOKs R ts
end

mutual
/-- All references in all unparsed strings of the value (every layer, element, entry) have
rank `< R`. -/
def RefsIn (R : Nat) : Value → Prop
  | .str s => ∀ t, Token.parse s = .ok (some t) → TokOK root rk P R t
  | .vl l => RefsInL R l
  | .map es _ _ => RefsInEs R es
  | .seq l => RefsInL R l
  | _ => True
def RefsInL (R : Nat) : List Value → Prop
  | [] => True
  | v :: vs => RefsIn R v ∧ RefsInL R vs
def RefsInEs (R : Nat) : List (Key × Value) → Prop
  | [] => True
  | (_, v) :: es => RefsIn R v ∧ RefsInEs R es
end

/-- What `Token::resolve` meets on the way down a path: raw mappings are only looked into (the
entry for the next segment matters); of a layer list only the `String` layers are interpolated,
then the flattened layers are looked into; any other value — and the value finally reached —
is interpolated as a whole. -/
def ReachOK (R : Nat) : List Str → Value → Prop
  | [], v => RefsIn root rk P R v
  | key :: rest, v =>
    match v with
    | .map es _ _ => ∀ v', lookup (.str key) es = some v' → ReachOK R rest v'
    | .vl l =>
      (∀ x ∈ l, x.isStr = true → RefsIn root rk P R x) ∧
      ∀ (n : Nat) (st : RState) (i : List Value) (es : List (Key × Value)) (ck ok : List Key)
        (v' : Value), layersStr n root l st = .ok i → flatVl i .null st = .ok (.map es ck ok) →
        lookup (.str key) es = some v' → ReachOK R rest v'
    | v => RefsIn root rk P R v

/-- **Stratified root**: for every relevant path `p` (first segment `k0`, stored value `v0`),
everything resolution of `p` has to interpolate only refers to paths of strictly smaller rank. -/
def Strat : Prop :=
  ∀ p, P p → ∀ k0 segs v0, splitColon p = k0 :: segs → root.get (.str k0) = some v0 →
    ReachOK root rk P (rk p) segs v0

/-- The state leaves room for `R` more nested resolutions and has only seen paths of rank `≥ R`.
(`R = 0`: nothing will be resolved, any state will do.) -/
def Ok (R : Nat) (st : RState) : Prop :=
  (R = 0 ∨ st.depth + R ≤ maxDepth) ∧ ∀ q ∈ st.seen, R ≤ rk q

end defs

theorem ok_zero (rk : Str → Nat) (st : RState) : Ok rk 0 st :=
  ⟨Or.inl rfl, fun _ _ => Nat.zero_le _⟩

theorem pushListIndex_seen (st : RState) (idx : Nat) : (st.pushListIndex idx).seen = st.seen := by
  unfold RState.pushListIndex; split <;> rfl

theorem pushListIndex_depth (st : RState) (idx : Nat) : (st.pushListIndex idx).depth = st.depth := by
  unfold RState.pushListIndex; split <;> rfl

theorem ok_pushListIndex {rk : Str → Nat} {R : Nat} {st : RState} (h : Ok rk R st) (idx : Nat) :
    Ok rk R (st.pushListIndex idx) := by
  unfold Ok
  rw [pushListIndex_seen, pushListIndex_depth]; exact h

theorem ok_pushMappingKey {rk : Str → Nat} {R : Nat} {st : RState} (h : Ok rk R st) (k : Key) :
    Ok rk R (st.pushMappingKey k) := h

section lemmas
variable {root : Mapping} {rk : Str → Nat} {P : Str → Prop}

mutual
theorem tokOK_mono : ∀ (t : Token) {R R2 : Nat}, R ≤ R2 → TokOK root rk P R t → TokOK root rk P R2 t
  | .lit _, _, _, _, _ => by simp [TokOK]
  | .combined ts, R, R2, hle, h => by
    simp only [TokOK] at h ⊢; exact tokOKs_mono ts hle h
  | .ref parts, R, R2, hle, h => by
    simp only [TokOK] at h ⊢
    obtain ⟨R', h1, h2, h3⟩ := h
    exact ⟨R', Nat.lt_of_lt_of_le h1 hle, h2, h3⟩
theorem tokOKs_mono : ∀ (ts : List Token) {R R2 : Nat}, R ≤ R2 → TokOKs root rk P R ts →
    TokOKs root rk P R2 ts
  | [], _, _, _, _ => by simp [TokOKs]
  | t :: ts, R, R2, hle, h => by
    simp only [TokOKs] at h ⊢; exact ⟨tokOK_mono t hle h.1, tokOKs_mono ts hle h.2⟩
end

mutual
theorem refsIn_mono : ∀ (v : Value) {R R2 : Nat}, R ≤ R2 → RefsIn root rk P R v → RefsIn root rk P R2 v
  | .str s, _, _, hle, h => by
    simp only [RefsIn] at h ⊢; exact fun t ht => tokOK_mono t hle (h t ht)
  | .vl l, _, _, hle, h => by simp only [RefsIn] at h ⊢; exact refsInL_mono l hle h
  | .seq l, _, _, hle, h => by simp only [RefsIn] at h ⊢; exact refsInL_mono l hle h
  | .map es _ _, _, _, hle, h => by simp only [RefsIn] at h ⊢; exact refsInEs_mono es hle h
  | .null, _, _, _, _ => by simp [RefsIn]
  | .bool _, _, _, _, _ => by simp [RefsIn]
  | .num _, _, _, _, _ => by simp [RefsIn]
  | .lit _, _, _, _, _ => by simp [RefsIn]
theorem refsInL_mono : ∀ (l : List Value) {R R2 : Nat}, R ≤ R2 → RefsInL root rk P R l →
    RefsInL root rk P R2 l
  | [], _, _, _, _ => by simp [RefsInL]
  | v :: vs, _, _, hle, h => by
    simp only [RefsInL] at h ⊢; exact ⟨refsIn_mono v hle h.1, refsInL_mono vs hle h.2⟩
theorem refsInEs_mono : ∀ (es : List (Key × Value)) {R R2 : Nat}, R ≤ R2 →
    RefsInEs root rk P R es → RefsInEs root rk P R2 es
  | [], _, _, _, _ => by simp [RefsInEs]
  | (k, v) :: es, _, _, hle, h => by
    simp only [RefsInEs] at h ⊢; exact ⟨refsIn_mono v hle h.1, refsInEs_mono es hle h.2⟩
end

theorem refsInL_append {R : Nat} {a b : List Value} :
    RefsInL root rk P R (a ++ b) ↔ RefsInL root rk P R a ∧ RefsInL root rk P R b := by
  induction a with
  | nil => simp [RefsInL]
  | cons x a ih => simp only [List.cons_append, RefsInL, ih, and_assoc]

end lemmas

/-- `RefsIn R` survives merging and flattening. -/
def refsPred (root : Mapping) (rk : Str → Nat) (P : Str → Prop) (R : Nat) : ValPred where
  P := RefsIn root rk P R
  PL := RefsInL root rk P R
  PEs := RefsInEs root rk P R
  nilL := by simp [RefsInL]
  consL := by intros; simp [RefsInL]
  nilEs := by simp [RefsInEs]
  consEs := by intros; simp [RefsInEs]
  map := by intros; simp [RefsIn]
  seq := by intros; simp [RefsIn]
  vlL := by intro l h; simpa [RefsIn] using h
  null := by simp [RefsIn]
  combine := by
    intro a b ha hb
    unfold Reclass.combine
    split <;> simp_all [RefsIn, RefsInL, refsInL_append]


/-! ## The invariant of the 13-way evaluator on a stratified root -/

section inv
variable {root : Mapping} {rk : Str → Nat} {P : Str → Prop}

/-- Every path in `st'.seen` was already in `st.seen`, or is a relevant path of rank `< R`. -/
def NB (rk : Str → Nat) (P : Str → Prop) (R : Nat) (st st' : RState) : Prop :=
  ∀ q ∈ st'.seen, q ∈ st.seen ∨ (P q ∧ rk q < R)

theorem NB.refl (R : Nat) (st : RState) : NB rk P R st st := fun _ h => Or.inl h

theorem NB.trans {R1 R2 R : Nat} {st st1 st2 : RState} (h1 : NB rk P R1 st st1)
    (h2 : NB rk P R2 st1 st2) (l1 : R1 ≤ R) (l2 : R2 ≤ R) : NB rk P R st st2 := by
  intro q hq
  rcases h2 q hq with h | ⟨hp, hr⟩
  · rcases h1 q h with h' | ⟨hp, hr⟩
    · exact Or.inl h'
    · exact Or.inr ⟨hp, Nat.lt_of_lt_of_le hr l1⟩
  · exact Or.inr ⟨hp, Nat.lt_of_lt_of_le hr l2⟩

/-- Value and state handed on along a threaded chain, started from `st` at rank bound `R`: the
value's references are below some rank `R' ≤ R` for which the state is still fine, and the
state has only gained relevant paths of rank `< R`. -/
def Good (root : Mapping) (rk : Str → Nat) (P : Str → Prop) (R : Nat) (st : RState)
    (p : Value × RState) : Prop :=
  (∃ R', R' ≤ R ∧ RefsIn root rk P R' p.1 ∧ Ok rk R' p.2) ∧ NB rk P R st p.2

/-- Result of `interpolate`: reference-free value; state gained only paths of rank `< R`. -/
def Done (root : Mapping) (rk : Str → Nat) (P : Str → Prop) (R : Nat) (st : RState)
    (p : Value × RState) : Prop :=
  RefsIn root rk P 0 p.1 ∧ NB rk P R st p.2

theorem Done.good {R : Nat} {st : RState} {p : Value × RState} (h : Done root rk P R st p) :
    Good root rk P R st p :=
  ⟨⟨0, Nat.zero_le _, h.1, ok_zero rk p.2⟩, h.2⟩

theorem refsInEs_lookup {R : Nat} {es : List (Key × Value)} {k : Key} {v : Value}
    (h : RefsInEs root rk P R es) (hl : lookup k es = some v) : RefsIn root rk P R v :=
  (refsPred root rk P R).lookupEs h hl

mutual
theorem refsIn_of_strFree (R : Nat) : ∀ (v : Value), Termination.StrFree v → RefsIn root rk P R v
  | .str _, h => by simp [Termination.StrFree] at h
  | .vl l, h => by
    simp only [Termination.StrFree] at h; simp only [RefsIn]; exact refsInL_of_strFree R l h
  | .seq l, h => by
    simp only [Termination.StrFree] at h; simp only [RefsIn]; exact refsInL_of_strFree R l h
  | .map es _ _, h => by
    simp only [Termination.StrFree] at h; simp only [RefsIn]; exact refsInEs_of_strFree R es h
  | .null, _ => by simp [RefsIn]
  | .bool _, _ => by simp [RefsIn]
  | .num _, _ => by simp [RefsIn]
  | .lit _, _ => by simp [RefsIn]
theorem refsInL_of_strFree (R : Nat) : ∀ (l : List Value), Termination.StrFreeL l →
    RefsInL root rk P R l
  | [], _ => by simp [RefsInL]
  | v :: vs, h => by
    simp only [Termination.StrFreeL] at h
    exact ⟨refsIn_of_strFree R v h.1, refsInL_of_strFree R vs h.2⟩
theorem refsInEs_of_strFree (R : Nat) : ∀ (es : List (Key × Value)), Termination.StrFreeEs es →
    RefsInEs root rk P R es
  | [], _ => by simp [RefsInEs]
  | (k, v) :: es, h => by
    simp only [Termination.StrFreeEs] at h
    exact ⟨refsIn_of_strFree R v h.1, refsInEs_of_strFree R es h.2⟩
end

theorem refsInL_mem {R : Nat} {l : List Value} (h : RefsInL root rk P R l) {x : Value}
    (hx : x ∈ l) : RefsIn root rk P R x := by
  induction l with
  | nil => simp at hx
  | cons v vs ih =>
    simp only [RefsInL] at h
    rcases List.mem_cons.1 hx with rfl | hx
    · exact h.1
    · exact ih h.2 hx

/-- The layer loop of `interpolate_string_or_valuelist` keeps `RefsIn R` (in any state: what
`interpolate` returns is string-free). -/
theorem layersStr_refsIn {R : Nat} : ∀ (l : List Value) (n : Nat) (st : RState) (i : List Value),
    RefsInL root rk P R l → layersStr n root l st = .ok i → RefsInL root rk P R i := by
  intro l
  induction l with
  | nil =>
    intro n st i _ h
    cases n with
    | zero => simp [layersStr] at h
    | succ n => simp only [layersStr_nil, Except.ok.injEq] at h; subst h; simp [RefsInL]
  | cons v vs ih =>
    intro n st i hl h
    cases n with
    | zero => simp [layersStr] at h
    | succ n =>
      rw [layersStr_cons] at h
      simp only [RefsInL] at hl
      by_cases hs : v.isStr = true
      · simp only [hs, if_true] at h
        cases h1 : interp n root v st with
        | error e => simp [h1] at h
        | ok p =>
          obtain ⟨y, st1⟩ := p
          simp only [h1] at h
          cases h2 : layersStr n root vs st with
          | error e => simp [h2] at h
          | ok xs =>
            simp only [h2, Except.ok.injEq] at h
            subst h
            exact ⟨refsIn_of_strFree R y ((Termination.outAt n).interp _ _ _ _ _ h1).1,
              ih n st xs hl.2 h2⟩
      · simp only [hs, Bool.false_eq_true, if_false] at h
        cases h2 : layersStr n root vs st with
        | error e => simp [h2] at h
        | ok xs =>
          simp only [h2, Except.ok.injEq] at h
          subst h
          exact ⟨hl.1, ih n st xs hl.2 h2⟩

theorem reach_of_refsIn {R : Nat} : ∀ (segs : List Str) (v : Value),
    RefsIn root rk P R v → ReachOK root rk P R segs v
  | [], v, h => by simpa [ReachOK] using h
  | key :: rest, v, h => by
    cases v with
    | map es ck ok =>
      simp only [ReachOK]
      intro v' hl
      exact reach_of_refsIn rest v' (refsInEs_lookup (by simpa [RefsIn] using h) hl)
    | vl l =>
      simp only [ReachOK]
      have hl : RefsInL root rk P R l := by simpa [RefsIn] using h
      refine ⟨fun x hx _ => refsInL_mem hl hx, ?_⟩
      intro n st i es ck ok v' h1 h2 h3
      have hi := layersStr_refsIn l n st i hl h1
      have hr : RefsIn root rk P R (.map es ck ok) :=
        (refsPred root rk P R).flatVl_pres i .null st _ hi (by simp [refsPred, RefsIn]) h2
      exact reach_of_refsIn rest v' (refsInEs_lookup (by simpa [RefsIn] using hr) h3)
    | _ => simpa [ReachOK] using h

variable (root rk P) in
/-- No evaluator call returns a loop or depth error when everything it is asked to interpolate
refers to paths of rank `< R` only and the state is `Ok` for `R`. -/
structure SInv (n : Nat) : Prop where
  interp : ∀ (R : Nat) (v : Value) (st : RState), RefsIn root rk P R v → Ok rk R st →
    Res (Done root rk P R st) (interp n root v st)
  interpL : ∀ (R : Nat) (l : List Value) (idx : Nat) (st : RState), RefsInL root rk P R l →
    Ok rk R st → Res (fun r => RefsInL root rk P 0 r) (interpL n root l idx st)
  interpEs : ∀ (R : Nat) (es : List (Key × Value)) (ck ok : List Key) (st : RState) (acc : Mapping),
    RefsInEs root rk P R es → Ok rk R st → RefsInEs root rk P 0 acc.es →
    Res (fun m => RefsInEs root rk P 0 m.es) (interpEs n root es ck ok st acc)
  interpVl : ∀ (R : Nat) (l : List Value) (r0 : Value) (st : RState), RefsInL root rk P R l →
    Ok rk R st → RefsIn root rk P 0 r0 →
    Res (fun r => RefsIn root rk P 0 r) (interpVl n root l r0 st)
  tokRender : ∀ (R : Nat) (t : Token) (st : RState), TokOK root rk P R t → Ok rk R st →
    Res (Done root rk P R st) (tokRender n root t st)
  tokResolve : ∀ (R : Nat) (t : Token) (st : RState), TokOK root rk P R t → Ok rk R st →
    Res (Good root rk P R st) (tokResolve n root t st)
  descend : ∀ (R : Nat) (v : Value) (segs : List Str) (st : RState) (path : Str),
    ReachOK root rk P R segs v → Ok rk R st →
    Res (Good root rk P R st) (descend n root v segs st path)
  finalLoop : ∀ (R : Nat) (v : Value) (st : RState), RefsIn root rk P R v → Ok rk R st →
    Res (Good root rk P R st) (finalLoop n root v st)
  interpStrOrVl : ∀ (R : Nat) (v : Value) (key : Str) (rest : List Str) (st : RState),
    ReachOK root rk P R (key :: rest) v → Ok rk R st →
    Res (fun p => (∃ R', R' ≤ R ∧ Ok rk R' p.2 ∧ ∀ es ck ok, p.1 = .map es ck ok →
        ∀ v', lookup (.str key) es = some v' → ReachOK root rk P R' rest v') ∧ NB rk P R st p.2)
      (interpStrOrVl n root v st)
  layersStr : ∀ (R : Nat) (l : List Value) (st : RState),
    (∀ x ∈ l, x.isStr = true → RefsIn root rk P R x) → Ok rk R st →
    Res (fun _ => True) (layersStr n root l st)
  slice : ∀ (R : Nat) (ts : List Token) (st : RState), TokOKs root rk P R ts → Ok rk R st →
    Res (fun _ => True) (slice n root ts st)
  strLoop : ∀ (R : Nat) (v : Value) (st : RState), RefsIn root rk P R v → Ok rk R st →
    Res (Good root rk P R st) (strLoop n root v st)
  sliceFinish : ∀ (R : Nat) (v : Value) (st : RState), RefsIn root rk P R v → Ok rk R st →
    Res (fun _ => True) (sliceFinish n root v st)

theorem sInv_zero : SInv root rk P 0 := by
  constructor <;> intros <;>
    simp [interp, interpL, interpEs, interpVl, tokRender, tokResolve, descend, finalLoop,
      interpStrOrVl, layersStr, slice, strLoop, sliceFinish, fuel_notLD]

section step
variable {n : Nat} (ih : SInv root rk P n)
include ih

theorem interp_step (R : Nat) (v : Value) (st : RState) (hv : RefsIn root rk P R v)
    (hok : Ok rk R st) : Res (Done root rk P R st) (Reclass.interp (n+1) root v st) := by
  cases v with
  | str s =>
    rw [interp_str]
    cases h1 : Token.parse s with
    | error e => exact parse_notLD h1
    | ok o =>
      cases o with
      | none => exact ⟨by simp [RefsIn], NB.refl R st⟩
      | some t =>
        simp only [RefsIn] at hv
        exact ih.tokRender R t st (hv t h1) hok
  | map es ck ok =>
    rw [interp_map]
    have h := ih.interpEs R es ck ok st {} (by simpa [RefsIn] using hv) hok (by simp [RefsInEs])
    cases h1 : Reclass.interpEs n root es ck ok st {} with
    | error e => rw [h1] at h; exact h
    | ok m => rw [h1] at h; exact ⟨by simpa [Mapping.toValue, RefsIn] using h, NB.refl R st⟩
  | seq l =>
    rw [interp_seq]
    have h := ih.interpL R l 0 st (by simpa [RefsIn] using hv) hok
    cases h1 : Reclass.interpL n root l 0 st with
    | error e => rw [h1] at h; exact h
    | ok m => rw [h1] at h; exact ⟨by simpa [RefsIn] using h, NB.refl R st⟩
  | vl l =>
    rw [interp_vl]
    have h := ih.interpVl R l .null st (by simpa [RefsIn] using hv) hok (by simp [RefsIn])
    cases h1 : Reclass.interpVl n root l .null st with
    | error e => rw [h1] at h; exact h
    | ok r =>
      rw [h1] at h
      refine Res.mono ?_ (ih.interp 0 r st h (ok_zero rk st))
      rintro p ⟨h1, h2⟩
      exact ⟨h1, NB.trans (NB.refl 0 st) h2 (Nat.zero_le _) (Nat.zero_le _)⟩
  | null => exact ⟨by simp [RefsIn], NB.refl R st⟩
  | bool _ => exact ⟨by simp [RefsIn], NB.refl R st⟩
  | num _ => exact ⟨by simp [RefsIn], NB.refl R st⟩
  | lit _ => exact ⟨by simp [RefsIn], NB.refl R st⟩

theorem interpL_step (R : Nat) (l : List Value) (idx : Nat) (st : RState)
    (hl : RefsInL root rk P R l) (hok : Ok rk R st) :
    Res (fun r => RefsInL root rk P 0 r) (Reclass.interpL (n+1) root l idx st) := by
  cases l with
  | nil => simp [interpL_nil, RefsInL]
  | cons v vs =>
    rw [interpL_cons]
    simp only [RefsInL] at hl
    have h := ih.interp R v (st.pushListIndex idx) hl.1 (ok_pushListIndex hok idx)
    cases h1 : Reclass.interp n root v (st.pushListIndex idx) with
    | error e => rw [h1] at h; exact h
    | ok p =>
      obtain ⟨x, st1⟩ := p
      rw [h1] at h
      dsimp only
      have h' := ih.interpL R vs (idx + 1) st hl.2 hok
      cases h2 : Reclass.interpL n root vs (idx + 1) st with
      | error e => rw [h2] at h'; exact h'
      | ok xs => rw [h2] at h'; exact ⟨h.1, h'⟩

theorem interpEs_step (R : Nat) (es : List (Key × Value)) (ck ok : List Key) (st : RState)
    (acc : Mapping) (hes : RefsInEs root rk P R es) (hok : Ok rk R st)
    (hacc : RefsInEs root rk P 0 acc.es) :
    Res (fun m => RefsInEs root rk P 0 m.es) (Reclass.interpEs (n+1) root es ck ok st acc) := by
  cases es with
  | nil => simpa [interpEs_nil] using hacc
  | cons e rest =>
    obtain ⟨k, v⟩ := e
    rw [interpEs_cons]
    simp only [RefsInEs] at hes
    have h := ih.interp R v (st.pushMappingKey k) hes.1 (ok_pushMappingKey hok k)
    cases h1 : Reclass.interp n root v (st.pushMappingKey k) with
    | error e => rw [h1] at h; exact h
    | ok p =>
      obtain ⟨v1, st1⟩ := p
      rw [h1] at h
      have hv1 : RefsIn root rk P 0 v1 := h.1
      dsimp only
      cases h2 : flat v1 st1 with
      | error e => exact flat_notLD _ _ _ h2
      | ok v2 =>
        have hv2 : RefsIn root rk P 0 v2 := (refsPred root rk P 0).flat_pres v1 st1 v2 hv1 h2
        dsimp only
        cases h3 : acc.insertImpl k v2 (decide (k ∈ ck)) (decide (k ∈ ok)) with
        | error e => exact insertImpl_notLD h3
        | ok acc' =>
          dsimp only
          exact ih.interpEs R rest ck ok st acc' hes.2 hok
            ((refsPred root rk P 0).insertImpl_pres hacc hv2 h3)

theorem interpVl_step (R : Nat) (l : List Value) (r0 : Value) (st : RState)
    (hl : RefsInL root rk P R l) (hok : Ok rk R st) (h0 : RefsIn root rk P 0 r0) :
    Res (fun r => RefsIn root rk P 0 r) (Reclass.interpVl (n+1) root l r0 st) := by
  cases l with
  | nil => simpa [interpVl_nil] using h0
  | cons v vs =>
    rw [interpVl_cons]
    simp only [RefsInL] at hl
    have h := ih.interp R v st hl.1 hok
    cases h1 : Reclass.interp n root v st with
    | error e => rw [h1] at h; exact h
    | ok p =>
      obtain ⟨x, st1⟩ := p
      rw [h1] at h
      have hx : RefsIn root rk P 0 x := h.1
      dsimp only
      cases h2 : mergeV r0 x st1 with
      | error e => exact mergeV_notLD _ _ _ _ h2
      | ok r1 =>
        dsimp only
        exact ih.interpVl R vs r1 st hl.2 hok ((refsPred root rk P 0).mergeV_pres r0 x st1 r1 h0 hx h2)

theorem tokRender_step (R : Nat) (t : Token) (st : RState) (ht : TokOK root rk P R t)
    (hok : Ok rk R st) :
    Res (Done root rk P R st) (Reclass.tokRender (n+1) root t st) := by
  rw [tokRender_succ]
  have h := ih.tokResolve R t st ht hok
  cases h1 : Reclass.tokResolve n root t st with
  | error e => rw [h1] at h; exact h
  | ok p =>
    obtain ⟨v, st1⟩ := p
    rw [h1] at h
    obtain ⟨⟨R', hle, hv, hok'⟩, hnb⟩ := h
    cases t with
    | ref parts =>
      dsimp only
      refine Res.mono ?_ (ih.interp R' v st1 hv hok')
      rintro p ⟨h1, h2⟩
      exact ⟨h1, NB.trans hnb h2 (Nat.le_refl _) hle⟩
    | lit s =>
      dsimp only
      cases h2 : rawString v with
      | error e => exact rawString_notLD h2
      | ok s' => exact ⟨by simp [RefsIn], hnb⟩
    | combined ts =>
      dsimp only
      cases h2 : rawString v with
      | error e => exact rawString_notLD h2
      | ok s' => exact ⟨by simp [RefsIn], hnb⟩

theorem tokResolve_step (hS : Strat root rk P) (R : Nat) (t : Token) (st : RState)
    (ht : TokOK root rk P R t) (hok : Ok rk R st) :
    Res (Good root rk P R st) (Reclass.tokResolve (n+1) root t st) := by
  cases t with
  | lit s =>
    rw [tokResolve_lit]
    exact ⟨⟨R, Nat.le_refl _, by simp [RefsIn], hok⟩, NB.refl R st⟩
  | combined ts =>
    rw [tokResolve_combined]
    simp only [TokOK] at ht
    have h := ih.slice R ts st ht hok
    cases h1 : Reclass.slice n root ts st with
    | error e => rw [h1] at h; exact h
    | ok s => exact ⟨⟨R, Nat.le_refl _, by simp [RefsIn], hok⟩, NB.refl R st⟩
  | ref parts =>
    rw [tokResolve_ref]
    simp only [TokOK] at ht
    obtain ⟨R', hlt, hparts, hpath⟩ := ht
    obtain ⟨hroom, hseen⟩ := hok
    have hroom' : st.depth + R ≤ maxDepth := by
      rcases hroom with h0 | h0
      · omega
      · exact h0
    have hd : ¬ (st.depth + 1 > maxDepth) := by omega
    simp only [hd, if_false]
    have hok1 : Ok rk R' { st with depth := st.depth + 1 } :=
      ⟨Or.inr (by simp only; omega), fun q hq => Nat.le_trans (Nat.le_of_lt hlt) (hseen q hq)⟩
    have h := ih.slice R' parts { st with depth := st.depth + 1 } hparts hok1
    cases h1 : Reclass.slice n root parts { st with depth := st.depth + 1 } with
    | error e => rw [h1] at h; exact h
    | ok path =>
      obtain ⟨hP, hrk⟩ := hpath _ _ _ h1
      have hns : path ∉ st.seen := fun hm => by
        have := hseen path hm
        omega
      simp only [hns, if_false]
      cases hsp : splitColon path with
      | nil => simp [NotLD]
      | cons k0 segs =>
        dsimp only
        cases hg : root.get (.str k0) with
        | none => simp [NotLD]
        | some v0 =>
          dsimp only
          have hreach := hS path hP k0 segs v0 hsp hg
          have hok2 : Ok rk (rk path) { st with depth := st.depth + 1, seen := path :: st.seen } := by
            refine ⟨Or.inr (by simp only; omega), ?_⟩
            intro q hq
            rcases List.mem_cons.1 hq with rfl | hq
            · exact Nat.le_refl _
            · have := hseen q hq
              omega
          have hnb2 : NB rk P R st { st with depth := st.depth + 1, seen := path :: st.seen } := by
            intro q hq
            rcases List.mem_cons.1 hq with rfl | hq
            · exact Or.inr ⟨hP, by omega⟩
            · exact Or.inl hq
          have hdsc := ih.descend (rk path) v0 segs _ path hreach hok2
          cases h2 : Reclass.descend n root v0 segs
              { st with depth := st.depth + 1, seen := path :: st.seen } path with
          | error e => rw [h2] at hdsc; exact hdsc
          | ok p =>
            obtain ⟨v, st3⟩ := p
            rw [h2] at hdsc
            obtain ⟨⟨R2, hle2, hv, hok3⟩, hnb3⟩ := hdsc
            dsimp only
            refine Res.mono ?_ (ih.finalLoop R2 v st3 hv hok3)
            rintro p ⟨⟨R3, hle3, hv3, hok4⟩, hnb4⟩
            have l1 : rk path ≤ R := by omega
            exact ⟨⟨R3, by omega, hv3, hok4⟩,
              NB.trans (NB.trans hnb2 hnb3 (Nat.le_refl _) l1) hnb4 (Nat.le_refl _) (by omega)⟩

theorem descend_step (R : Nat) (v : Value) (segs : List Str) (st : RState) (path : Str)
    (hr : ReachOK root rk P R segs v) (hok : Ok rk R st) :
    Res (Good root rk P R st) (Reclass.descend (n+1) root v segs st path) := by
  cases segs with
  | nil =>
    rw [descend_nil]
    exact ⟨⟨R, Nat.le_refl _, by simpa [ReachOK] using hr, hok⟩, NB.refl R st⟩
  | cons key rest =>
    rw [descend_cons]
    have hiv := ih.interpStrOrVl R v key rest st hr hok
    cases h1 : Reclass.interpStrOrVl n root v st with
    | error e => rw [h1] at hiv; exact hiv
    | ok p =>
      obtain ⟨newv, st1⟩ := p
      rw [h1] at hiv
      obtain ⟨⟨R', hle, hok', hmap⟩, hnb⟩ := hiv
      cases newv with
      | map es ck ok =>
        dsimp only
        cases hl : lookup (.str key) es with
        | none => simp [NotLD]
        | some v' =>
          dsimp only
          refine Res.mono ?_ (ih.descend R' v' rest st1 path (hmap es ck ok rfl v' hl) hok')
          rintro p ⟨⟨R2, hle2, hv2, hok2⟩, hnb2⟩
          exact ⟨⟨R2, Nat.le_trans hle2 hle, hv2, hok2⟩, NB.trans hnb hnb2 (Nat.le_refl _) hle⟩
      | _ => simp [NotLD]

theorem finalLoop_step (R : Nat) (v : Value) (st : RState) (hv : RefsIn root rk P R v)
    (hok : Ok rk R st) : Res (Good root rk P R st) (Reclass.finalLoop (n+1) root v st) := by
  rw [finalLoop_succ]
  by_cases hc : (v.isStr || v.isVl) = true
  · simp only [hc, if_true]
    have h := ih.interp R v st hv hok
    cases h1 : Reclass.interp n root v st with
    | error e => rw [h1] at h; exact h
    | ok p =>
      obtain ⟨v1, st1⟩ := p
      rw [h1] at h
      dsimp only
      refine Res.mono ?_ (ih.finalLoop 0 v1 st1 h.1 (ok_zero rk st1))
      rintro p ⟨⟨R2, hle2, hv2, hok2⟩, hnb2⟩
      exact ⟨⟨R2, Nat.le_trans hle2 (Nat.zero_le _), hv2, hok2⟩,
        NB.trans h.2 hnb2 (Nat.le_refl _) (Nat.zero_le _)⟩
  · simp only [hc]
    exact ⟨⟨R, Nat.le_refl _, hv, hok⟩, NB.refl R st⟩

theorem strLoop_step (R : Nat) (v : Value) (st : RState) (hv : RefsIn root rk P R v)
    (hok : Ok rk R st) : Res (Good root rk P R st) (Reclass.strLoop (n+1) root v st) := by
  rw [strLoop_succ]
  by_cases hc : v.isStr = true
  · simp only [hc, if_true]
    have h := ih.interp R v st hv hok
    cases h1 : Reclass.interp n root v st with
    | error e => rw [h1] at h; exact h
    | ok p =>
      obtain ⟨v1, st1⟩ := p
      rw [h1] at h
      dsimp only
      refine Res.mono ?_ (ih.strLoop 0 v1 st1 h.1 (ok_zero rk st1))
      rintro p ⟨⟨R2, hle2, hv2, hok2⟩, hnb2⟩
      exact ⟨⟨R2, Nat.le_trans hle2 (Nat.zero_le _), hv2, hok2⟩,
        NB.trans h.2 hnb2 (Nat.le_refl _) (Nat.zero_le _)⟩
  · simp only [hc]
    exact ⟨⟨R, Nat.le_refl _, hv, hok⟩, NB.refl R st⟩

theorem sliceFinish_step (R : Nat) (v : Value) (st : RState) (hv : RefsIn root rk P R v)
    (hok : Ok rk R st) : Res (fun _ => True) (Reclass.sliceFinish (n+1) root v st) := by
  rw [sliceFinish_succ]
  by_cases hc : (v.isMap || v.isSeq) = true
  · simp only [hc, if_true]
    have h := ih.interp R v st hv hok
    cases h1 : Reclass.interp n root v st with
    | error e => rw [h1] at h; show NotLD e; exact h
    | ok p =>
      obtain ⟨v1, st1⟩ := p
      dsimp only
      cases h2 : flat v1 st1 with
      | error e => exact flat_notLD _ _ _ h2
      | ok v2 =>
        dsimp only
        cases h3 : rawString v2 with
        | error e => exact rawString_notLD h3
        | ok s => trivial
  · simp only [hc]
    cases h3 : rawString v with
    | error e => exact rawString_notLD h3
    | ok s => trivial

theorem interpStrOrVl_step (R : Nat) (v : Value) (key : Str) (rest : List Str) (st : RState)
    (hr : ReachOK root rk P R (key :: rest) v) (hok : Ok rk R st) :
    Res (fun p => (∃ R', R' ≤ R ∧ Ok rk R' p.2 ∧ ∀ es ck ok, p.1 = .map es ck ok →
        ∀ v', lookup (.str key) es = some v' → ReachOK root rk P R' rest v') ∧ NB rk P R st p.2)
      (Reclass.interpStrOrVl (n+1) root v st) := by
  rw [interpStrOrVl_succ]
  cases v with
  | str s =>
    dsimp only
    have hv : RefsIn root rk P R (.str s) := by simpa [ReachOK] using hr
    refine Res.mono ?_ (ih.interp R (.str s) st hv hok)
    rintro ⟨newv, st1⟩ ⟨h1, h2⟩
    refine ⟨⟨0, Nat.zero_le _, ok_zero rk st1, ?_⟩, h2⟩
    intro es ck ok he v' hl
    simp only at he
    subst he
    exact reach_of_refsIn rest v' (refsInEs_lookup (by simpa [RefsIn] using h1) hl)
  | vl l =>
    dsimp only
    simp only [ReachOK] at hr
    obtain ⟨hstr, hsem⟩ := hr
    have h := ih.layersStr R l st hstr hok
    cases h1 : Reclass.layersStr n root l st with
    | error e => rw [h1] at h; show NotLD e; exact h
    | ok i =>
      dsimp only
      cases h2 : flatVl i .null st with
      | error e => exact flatVl_notLD _ _ _ _ h2
      | ok r =>
        dsimp only
        refine ⟨⟨R, Nat.le_refl _, hok, ?_⟩, NB.refl R st⟩
        intro es ck ok he v' hl
        simp only at he
        subst he
        exact hsem n st i es ck ok v' h1 h2 hl
  | map es ck ok =>
    dsimp only
    refine ⟨⟨R, Nat.le_refl _, hok, ?_⟩, NB.refl R st⟩
    intro es' ck' ok' he v' hl
    simp only [Value.map.injEq] at he
    obtain ⟨rfl, _, _⟩ := he
    simp only [ReachOK] at hr
    exact hr v' hl
  | null => exact ⟨⟨R, Nat.le_refl _, hok, fun _ _ _ he => by simp at he⟩, NB.refl R st⟩
  | bool _ => exact ⟨⟨R, Nat.le_refl _, hok, fun _ _ _ he => by simp at he⟩, NB.refl R st⟩
  | num _ => exact ⟨⟨R, Nat.le_refl _, hok, fun _ _ _ he => by simp at he⟩, NB.refl R st⟩
  | lit _ => exact ⟨⟨R, Nat.le_refl _, hok, fun _ _ _ he => by simp at he⟩, NB.refl R st⟩
  | seq _ => exact ⟨⟨R, Nat.le_refl _, hok, fun _ _ _ he => by simp at he⟩, NB.refl R st⟩

theorem layersStr_step (R : Nat) (l : List Value) (st : RState)
    (hl : ∀ x ∈ l, x.isStr = true → RefsIn root rk P R x) (hok : Ok rk R st) :
    Res (fun _ => True) (Reclass.layersStr (n+1) root l st) := by
  cases l with
  | nil => simp [layersStr_nil]
  | cons v vs =>
    rw [layersStr_cons]
    have hx : Res (fun _ => True)
        (if v.isStr then (match Reclass.interp n root v st with
                          | .error e => .error e
                          | .ok (x, _) => .ok x) else .ok v : Except Err Value) := by
      by_cases hs : v.isStr = true
      · simp only [hs, if_true]
        have h := ih.interp R v st (hl v List.mem_cons_self hs) hok
        cases h1 : Reclass.interp n root v st with
        | error e => rw [h1] at h; show NotLD e; exact h
        | ok p => trivial
      · simp only [hs]
        trivial
    generalize (if v.isStr then (match Reclass.interp n root v st with
                          | .error e => .error e
                          | .ok (x, _) => .ok x) else .ok v : Except Err Value) = e at hx
    cases e with
    | error e => exact hx
    | ok x =>
      dsimp only
      have h' := ih.layersStr R vs st (fun y hy => hl y (List.mem_cons_of_mem _ hy)) hok
      cases h2 : Reclass.layersStr n root vs st with
      | error e => rw [h2] at h'; exact h'
      | ok xs => trivial

theorem slice_step (R : Nat) (ts : List Token) (st : RState) (hts : TokOKs root rk P R ts)
    (hok : Ok rk R st) : Res (fun _ => True) (Reclass.slice (n+1) root ts st) := by
  cases ts with
  | nil => simp [slice_nil]
  | cons t ts =>
    rw [slice_cons]
    simp only [TokOKs] at hts
    have h := ih.tokResolve R t st hts.1 hok
    cases h1 : Reclass.tokResolve n root t st with
    | error e => rw [h1] at h; show NotLD e; exact h
    | ok p =>
      obtain ⟨v, st1⟩ := p
      rw [h1] at h
      obtain ⟨⟨R1, _, hv1, hok1⟩, _⟩ := h
      dsimp only
      have hs := ih.strLoop R1 v st1 hv1 hok1
      cases h2 : Reclass.strLoop n root v st1 with
      | error e => rw [h2] at hs; show NotLD e; exact hs
      | ok p2 =>
        obtain ⟨v2, st2⟩ := p2
        rw [h2] at hs
        obtain ⟨⟨R2, _, hv2, hok2⟩, _⟩ := hs
        dsimp only
        have hf := ih.sliceFinish R2 v2 st2 hv2 hok2
        cases h3 : Reclass.sliceFinish n root v2 st2 with
        | error e => rw [h3] at hf; show NotLD e; exact hf
        | ok s =>
          dsimp only
          have hr := ih.slice R ts st hts.2 hok
          cases h4 : Reclass.slice n root ts st with
          | error e => rw [h4] at hr; show NotLD e; exact hr
          | ok s' => trivial

end step

/-- The invariant holds at every fuel. -/
theorem sInv (hS : Strat root rk P) : ∀ n, SInv root rk P n := by
  intro n
  induction n with
  | zero => exact sInv_zero
  | succ n ih =>
    exact {
      interp := interp_step ih
      interpL := interpL_step ih
      interpEs := interpEs_step ih
      interpVl := interpVl_step ih
      tokRender := tokRender_step ih
      tokResolve := tokResolve_step ih hS
      descend := descend_step ih
      finalLoop := finalLoop_step ih
      interpStrOrVl := interpStrOrVl_step ih
      layersStr := layersStr_step ih
      slice := slice_step ih
      strLoop := strLoop_step ih
      sliceFinish := sliceFinish_step ih }

end inv

/-! ## References whose path text is written out literally -/

/-- The path text of a reference whose parts are all literal pieces (`${a:b}`; no nested
`${…}` inside the braces). -/
def litParts : List Token → Option Str
  | [] => some []
  | .lit s :: ts => (litParts ts).map (s ++ ·)
  | _ :: _ => none

/-- A reference with literal parts renders to exactly that text, in every state. -/
theorem slice_lits (root : Mapping) : ∀ (n : Nat) (ts : List Token) (st : RState) (p path : Str),
    litParts ts = some p → slice n root ts st = .ok path → path = p := by
  intro n
  induction n with
  | zero => intro ts st p path _ h; simp [slice] at h
  | succ n ih =>
    intro ts st p path hp h
    cases ts with
    | nil =>
      simp only [litParts, Option.some.injEq] at hp
      simp only [slice_nil, Except.ok.injEq] at h
      rw [← hp, ← h]
    | cons t ts =>
      cases t with
      | lit s =>
        simp only [litParts, Option.map_eq_some_iff] at hp
        obtain ⟨p', hp', rfl⟩ := hp
        rw [slice_cons] at h
        cases n with
        | zero => simp [tokResolve] at h
        | succ m =>
          rw [tokResolve_lit] at h
          dsimp only at h
          have e1 : strLoop (m+1) root (.lit s) st = .ok (.lit s, st) := by
            rw [strLoop_succ]; simp [Value.isStr]
          have e2 : sliceFinish (m+1) root (.lit s) st = .ok s := by
            rw [sliceFinish_succ]; simp [Value.isMap, Value.isSeq, rawString]
          rw [e1] at h
          dsimp only at h
          rw [e2] at h
          dsimp only at h
          cases h4 : slice (m+1) root ts st with
          | error e => rw [h4] at h; simp at h
          | ok s' =>
            rw [h4] at h
            simp only [Except.ok.injEq] at h
            rw [← h, ih ts st p' s' hp' h4]
      | ref _ => simp [litParts] at hp
      | combined _ => simp [litParts] at hp

section lits
variable {root : Mapping} {rk : Str → Nat} {P : Str → Prop}

theorem tokOKs_lits : ∀ (ts : List Token) (p : Str) (R : Nat), litParts ts = some p →
    TokOKs root rk P R ts
  | [], _, _, _ => by simp [TokOKs]
  | .lit s :: ts, p, R, h => by
    simp only [litParts, Option.map_eq_some_iff] at h
    obtain ⟨p', hp', _⟩ := h
    simp only [TokOKs, TokOK, true_and]
    exact tokOKs_lits ts p' R hp'
  | .ref _ :: _, _, _, h => by simp [litParts] at h
  | .combined _ :: _, _, _, h => by simp [litParts] at h

/-- A reference `${p}` written with literal parts is fine at every rank above `rk p`. -/
theorem tokOK_ref_lits {parts : List Token} {p : Str} {R : Nat} (hp : litParts parts = some p)
    (hP : P p) (hr : rk p < R) : TokOK root rk P R (.ref parts) := by
  simp only [TokOK]
  refine ⟨rk p, hr, tokOKs_lits parts p _ hp, ?_⟩
  intro n st path h
  rw [slice_lits root n parts st p path hp h]
  exact ⟨hP, Nat.le_refl _⟩

/-- A reference (nested or not) whose path text renders to `p` in *some* run renders to `p` in
every run (`slice_indep`); so it is fine at every rank above `rk p`, provided the references
nested inside its path text are below `rk p`. -/
theorem tokOK_ref_of_run {parts : List Token} {p : Str} {R m : Nat} {st0 : RState}
    (hrun : slice m root parts st0 = .ok p) (hP : P p) (hr : rk p < R)
    (hparts : TokOKs root rk P (rk p) parts) : TokOK root rk P R (.ref parts) := by
  simp only [TokOK]
  refine ⟨rk p, hr, hparts, ?_⟩
  intro n st path h
  rw [Refs.slice_indep h hrun]
  exact ⟨hP, Nat.le_refl _⟩

end lits

/-! ## Bool checkers (for closed examples) -/

section checkers
variable (root : Mapping) (fuel : Nat) (rk : Str → Nat) (Pb : Str → Bool)

mutual
/-- Checker for `TokOK`.  Literal path text is read off; the path of a nested reference
(`${a:${b}}`) is obtained by one run of `interpolate_token_slice` with `fuel` from the initial
state. -/
def tokB : Nat → Token → Bool
  | _, .lit _ => true
  | R, .combined ts => toksB R ts
  | R, .ref parts =>
    match litParts parts with
    | some p => Pb p && decide (rk p < R)
    | none =>
      match slice fuel root parts {} with
      | .ok p => Pb p && decide (rk p < R) && toksB (rk p) parts
      | .error _ => false
def toksB : Nat → List Token → Bool
  | _, [] => true
  | R, t :: ts => tokB R t && toksB R ts
end

mutual
/-- Checker for `RefsIn`. -/
def valB (R : Nat) : Value → Bool
  | .str s =>
    match Token.parse s with
    | .ok (some t) => tokB root fuel rk Pb R t
    | _ => true
  | .vl l => valLB R l
  | .seq l => valLB R l
  | .map es _ _ => valEsB R es
  | _ => true
def valLB (R : Nat) : List Value → Bool
  | [] => true
  | v :: vs => valB R v && valLB R vs
def valEsB (R : Nat) : List (Key × Value) → Bool
  | [] => true
  | (_, v) :: es => valB R v && valEsB R es
end

/-- Checker for `ReachOK` (a missing key counts as fine: resolution stops with a lookup error).
For a layer list the flattened layers are computed by one run from the initial state. -/
def reachB (R : Nat) : List Str → Value → Bool
  | [], v => valB root fuel rk Pb R v
  | key :: rest, v =>
    match v with
    | .map es _ _ =>
      match lookup (.str key) es with
      | some v' => reachB R rest v'
      | none => true
    | .vl l =>
      l.all (fun x => !x.isStr || valB root fuel rk Pb R x) &&
      match layersStr fuel root l {} with
      | .ok i =>
        match flatVl i .null {} with
        | .ok (.map es _ _) =>
          (match lookup (.str key) es with
           | some v' => reachB R rest v'
           | none => true)
        | .ok _ => true
        | .error _ => false
      | .error _ => false
    | v => valB root fuel rk Pb R v

end checkers

section sound
variable {root : Mapping} {fuel : Nat} {rk : Str → Nat} {Pb : Str → Bool}

mutual
theorem tokB_sound : ∀ (R : Nat) (t : Token), tokB root fuel rk Pb R t = true →
    TokOK root rk (fun p => Pb p = true) R t
  | _, .lit _, _ => by simp [TokOK]
  | R, .combined ts, h => by
    simp only [tokB] at h; simp only [TokOK]; exact toksB_sound R ts h
  | R, .ref parts, h => by
    simp only [tokB] at h
    cases hp : litParts parts with
    | none =>
      simp only [hp] at h
      cases hs : slice fuel root parts {} with
      | error e => simp [hs] at h
      | ok p =>
        simp only [hs, Bool.and_eq_true, decide_eq_true_eq] at h
        exact tokOK_ref_of_run hs h.1.1 h.1.2 (toksB_sound (rk p) parts h.2)
    | some p =>
      simp only [hp, Bool.and_eq_true, decide_eq_true_eq] at h
      exact tokOK_ref_lits hp h.1 h.2
theorem toksB_sound : ∀ (R : Nat) (ts : List Token), toksB root fuel rk Pb R ts = true →
    TokOKs root rk (fun p => Pb p = true) R ts
  | _, [], _ => by simp [TokOKs]
  | R, t :: ts, h => by
    simp only [toksB, Bool.and_eq_true] at h
    exact ⟨tokB_sound R t h.1, toksB_sound R ts h.2⟩
end

mutual
theorem valB_sound (R : Nat) : ∀ (v : Value), valB root fuel rk Pb R v = true →
    RefsIn root rk (fun p => Pb p = true) R v
  | .str s, h => by
    simp only [RefsIn]
    intro t ht
    simp only [valB, ht] at h
    exact tokB_sound R t h
  | .vl l, h => by simp only [valB] at h; simp only [RefsIn]; exact valLB_sound R l h
  | .seq l, h => by simp only [valB] at h; simp only [RefsIn]; exact valLB_sound R l h
  | .map es _ _, h => by simp only [valB] at h; simp only [RefsIn]; exact valEsB_sound R es h
  | .null, _ => by simp [RefsIn]
  | .bool _, _ => by simp [RefsIn]
  | .num _, _ => by simp [RefsIn]
  | .lit _, _ => by simp [RefsIn]
theorem valLB_sound (R : Nat) : ∀ (l : List Value), valLB root fuel rk Pb R l = true →
    RefsInL root rk (fun p => Pb p = true) R l
  | [], _ => by simp [RefsInL]
  | v :: vs, h => by
    simp only [valLB, Bool.and_eq_true] at h
    exact ⟨valB_sound R v h.1, valLB_sound R vs h.2⟩
theorem valEsB_sound (R : Nat) : ∀ (es : List (Key × Value)), valEsB root fuel rk Pb R es = true →
    RefsInEs root rk (fun p => Pb p = true) R es
  | [], _ => by simp [RefsInEs]
  | (k, v) :: es, h => by
    simp only [valEsB, Bool.and_eq_true] at h
    exact ⟨valB_sound R v h.1, valEsB_sound R es h.2⟩
end

theorem reachB_sound (R : Nat) : ∀ (segs : List Str) (v : Value),
    reachB root fuel rk Pb R segs v = true → ReachOK root rk (fun p => Pb p = true) R segs v
  | [], v, h => by
    simp only [reachB] at h; simp only [ReachOK]; exact valB_sound R v h
  | key :: rest, v, h => by
    cases v with
    | map es ck ok =>
      simp only [reachB] at h
      simp only [ReachOK]
      intro v' hl
      rw [hl] at h
      exact reachB_sound R rest v' h
    | vl l =>
      simp only [reachB, Bool.and_eq_true, List.all_eq_true, Bool.or_eq_true,
        Bool.not_eq_true'] at h
      obtain ⟨hall, hrun⟩ := h
      simp only [ReachOK]
      refine ⟨?_, ?_⟩
      · intro x hx hs
        rcases hall x hx with h0 | h0
        · rw [hs] at h0; cases h0
        · exact valB_sound R x h0
      · intro n st i es ck ok v' h1 h2 h3
        cases hs : layersStr fuel root l {} with
        | error e => simp [hs] at hrun
        | ok i0 =>
          have hi : i = i0 := Refs.layersStr_indep h1 hs
          subst hi
          have h2' := Refs.flatVl_st i .null st {} _ h2
          simp only [hs, h2', h3] at hrun
          exact reachB_sound R rest v' hrun
    | str s => simp only [reachB] at h; simp only [ReachOK]; exact valB_sound R _ h
    | seq l => simp only [reachB] at h; simp only [ReachOK]; exact valB_sound R _ h
    | null => simp only [ReachOK]; simp [RefsIn]
    | bool _ => simp only [ReachOK]; simp [RefsIn]
    | num _ => simp only [ReachOK]; simp [RefsIn]
    | lit _ => simp only [ReachOK]; simp [RefsIn]

end sound

/-- Rank table: the listed paths are the relevant ones, with their ranks. -/
def rkT (tab : List (Str × Nat)) (p : Str) : Nat :=
  match tab with
  | [] => 0
  | (q, r) :: rest => if q = p then r else rkT rest p

/-- The path is listed in the table. -/
def inT (tab : List (Str × Nat)) (p : Str) : Bool := tab.any (fun e => e.1 == p)

/-- Checker for `Strat` against a rank table. -/
def stratB (root : Mapping) (fuel : Nat) (tab : List (Str × Nat)) : Bool :=
  tab.all fun e =>
    match splitColon e.1 with
    | [] => true
    | k0 :: segs =>
      match root.get (.str k0) with
      | none => true
      | some v0 => reachB root fuel (rkT tab) (inT tab) (rkT tab e.1) segs v0

theorem stratB_sound {root : Mapping} {fuel : Nat} {tab : List (Str × Nat)}
    (h : stratB root fuel tab = true) :
    Strat root (rkT tab) (fun p => inT tab p = true) := by
  intro p hp k0 segs v0 hsp hg
  simp only [inT, List.any_eq_true, beq_iff_eq] at hp
  obtain ⟨e, he, rfl⟩ := hp
  simp only [stratB, List.all_eq_true] at h
  have := h e he
  simp only [hsp, hg] at this
  exact reachB_sound _ segs v0 this

/-! ## Where a loop error comes from -/

/-- Somewhere below a call started in state `st`, a reference was resolved in a state `st'`
extending `st` (at least as deep, at least the same `seen` paths), the depth limit was not the
problem, its path text rendered to `path`, and `path` was already in `st'.seen`. -/
def Hit (root : Mapping) (st : RState) : Prop :=
  ∃ (m : Nat) (parts : List Token) (st' : RState) (path : Str),
    st.depth ≤ st'.depth ∧ st.seen ⊆ st'.seen ∧ st'.depth + 1 ≤ maxDepth ∧
    slice m root parts { st' with depth := st'.depth + 1 } = .ok path ∧ path ∈ st'.seen

theorem Hit.mono {root : Mapping} {st st1 : RState} (hd : st.depth ≤ st1.depth)
    (hs : st.seen ⊆ st1.seen) (h : Hit root st1) : Hit root st := by
  obtain ⟨m, parts, st', path, h1, h2, h3, h4, h5⟩ := h
  exact ⟨m, parts, st', path, Nat.le_trans hd h1, fun _ hq => h2 (hs hq), h3, h4, h5⟩

theorem Hit.of_le {root : Mapping} {st st1 : RState}
    (hle : st.depth ≤ st1.depth ∧ st.seen ⊆ st1.seen ∧ st1.cur = st.cur) (h : Hit root st1) :
    Hit root st := Hit.mono hle.1 hle.2.1 h

/-- Every `Err.loop` returned by one of the 13 evaluator functions at fuel `n` stems from a
direct hit. -/
structure LInv (root : Mapping) (n : Nat) : Prop where
  interp : ∀ v st, interp n root v st = .error .loop → Hit root st
  interpL : ∀ l idx st, interpL n root l idx st = .error .loop → Hit root st
  interpEs : ∀ es ck ok st acc, interpEs n root es ck ok st acc = .error .loop → Hit root st
  interpVl : ∀ l r0 st, interpVl n root l r0 st = .error .loop → Hit root st
  tokRender : ∀ t st, tokRender n root t st = .error .loop → Hit root st
  tokResolve : ∀ t st, tokResolve n root t st = .error .loop → Hit root st
  descend : ∀ v segs st path, descend n root v segs st path = .error .loop → Hit root st
  finalLoop : ∀ v st, finalLoop n root v st = .error .loop → Hit root st
  interpStrOrVl : ∀ v st, interpStrOrVl n root v st = .error .loop → Hit root st
  layersStr : ∀ l st, layersStr n root l st = .error .loop → Hit root st
  slice : ∀ ts st, slice n root ts st = .error .loop → Hit root st
  strLoop : ∀ v st, strLoop n root v st = .error .loop → Hit root st
  sliceFinish : ∀ v st, sliceFinish n root v st = .error .loop → Hit root st

theorem lInv_zero (root : Mapping) : LInv root 0 := by
  constructor <;> intros <;>
    simp_all [interp, interpL, interpEs, interpVl, tokRender, tokResolve, descend, finalLoop,
      interpStrOrVl, layersStr, slice, strLoop, sliceFinish]

section lstep
variable {root : Mapping} {n : Nat} (ih : LInv root n)
include ih

theorem l_interp (v : Value) (st : RState) (h : Reclass.interp (n+1) root v st = .error .loop) :
    Hit root st := by
  cases v with
  | str s =>
    rw [interp_str] at h
    cases h1 : Token.parse s with
    | error e =>
      simp only [h1, Except.error.injEq] at h; subst h
      exact absurd rfl (parse_notLD h1).1
    | ok o =>
      cases o with
      | none => simp [h1] at h
      | some t => simp only [h1] at h; exact ih.tokRender t st h
  | map es ck ok =>
    rw [interp_map] at h
    cases h1 : Reclass.interpEs n root es ck ok st {} with
    | error e => simp only [h1, Except.error.injEq] at h; subst h; exact ih.interpEs _ _ _ _ _ h1
    | ok m => simp [h1] at h
  | seq l =>
    rw [interp_seq] at h
    cases h1 : Reclass.interpL n root l 0 st with
    | error e => simp only [h1, Except.error.injEq] at h; subst h; exact ih.interpL _ _ _ h1
    | ok m => simp [h1] at h
  | vl l =>
    rw [interp_vl] at h
    cases h1 : Reclass.interpVl n root l .null st with
    | error e => simp only [h1, Except.error.injEq] at h; subst h; exact ih.interpVl _ _ _ h1
    | ok r => simp only [h1] at h; exact ih.interp r st h
  | null => simp [Reclass.interp] at h
  | bool _ => simp [Reclass.interp] at h
  | num _ => simp [Reclass.interp] at h
  | lit _ => simp [Reclass.interp] at h

theorem l_interpL (l : List Value) (idx : Nat) (st : RState)
    (h : Reclass.interpL (n+1) root l idx st = .error .loop) : Hit root st := by
  cases l with
  | nil => simp [interpL_nil] at h
  | cons v vs =>
    rw [interpL_cons] at h
    cases h1 : Reclass.interp n root v (st.pushListIndex idx) with
    | error e =>
      simp only [h1, Except.error.injEq] at h; subst h
      refine Hit.mono ?_ ?_ (ih.interp _ _ h1)
      · rw [pushListIndex_depth]; exact Nat.le_refl _
      · rw [pushListIndex_seen]; exact fun _ hq => hq
    | ok p =>
      obtain ⟨x, st1⟩ := p
      simp only [h1] at h
      cases h2 : Reclass.interpL n root vs (idx + 1) st with
      | error e => simp only [h2, Except.error.injEq] at h; subst h; exact ih.interpL _ _ _ h2
      | ok xs => simp [h2] at h

theorem l_interpEs (es : List (Key × Value)) (ck ok : List Key) (st : RState) (acc : Mapping)
    (h : Reclass.interpEs (n+1) root es ck ok st acc = .error .loop) : Hit root st := by
  cases es with
  | nil => simp [interpEs_nil] at h
  | cons e rest =>
    obtain ⟨k, v⟩ := e
    rw [interpEs_cons] at h
    cases h1 : Reclass.interp n root v (st.pushMappingKey k) with
    | error e =>
      simp only [h1, Except.error.injEq] at h; subst h
      exact Hit.mono (st1 := st.pushMappingKey k) (Nat.le_refl _) (fun _ hq => hq) (ih.interp _ _ h1)
    | ok p =>
      obtain ⟨v1, st1⟩ := p
      simp only [h1] at h
      cases h2 : flat v1 st1 with
      | error e =>
        simp only [h2, Except.error.injEq] at h; subst h
        exact absurd rfl (flat_notLD _ _ _ h2).1
      | ok v2 =>
        simp only [h2] at h
        cases h3 : acc.insertImpl k v2 (decide (k ∈ ck)) (decide (k ∈ ok)) with
        | error e =>
          simp only [h3, Except.error.injEq] at h; subst h
          exact absurd rfl (insertImpl_notLD h3).1
        | ok acc' => simp only [h3] at h; exact ih.interpEs _ _ _ _ _ h

theorem l_interpVl (l : List Value) (r0 : Value) (st : RState)
    (h : Reclass.interpVl (n+1) root l r0 st = .error .loop) : Hit root st := by
  cases l with
  | nil => simp [interpVl_nil] at h
  | cons v vs =>
    rw [interpVl_cons] at h
    cases h1 : Reclass.interp n root v st with
    | error e => simp only [h1, Except.error.injEq] at h; subst h; exact ih.interp _ _ h1
    | ok p =>
      obtain ⟨x, st1⟩ := p
      simp only [h1] at h
      cases h2 : mergeV r0 x st1 with
      | error e =>
        simp only [h2, Except.error.injEq] at h; subst h
        exact absurd rfl (mergeV_notLD _ _ _ _ h2).1
      | ok r1 => simp only [h2] at h; exact ih.interpVl _ _ _ h

theorem l_tokRender (t : Token) (st : RState)
    (h : Reclass.tokRender (n+1) root t st = .error .loop) : Hit root st := by
  rw [tokRender_succ] at h
  cases h1 : Reclass.tokResolve n root t st with
  | error e => simp only [h1, Except.error.injEq] at h; subst h; exact ih.tokResolve _ _ h1
  | ok p =>
    obtain ⟨v, st1⟩ := p
    simp only [h1] at h
    cases t with
    | ref parts => exact Hit.of_le (tokResolve_depth_mono h1) (ih.interp _ _ h)
    | lit s =>
      simp only at h
      cases h2 : rawString v with
      | error e =>
        simp only [h2, Except.error.injEq] at h; subst h
        exact absurd rfl (rawString_notLD h2).1
      | ok s' => simp [h2] at h
    | combined ts =>
      simp only at h
      cases h2 : rawString v with
      | error e =>
        simp only [h2, Except.error.injEq] at h; subst h
        exact absurd rfl (rawString_notLD h2).1
      | ok s' => simp [h2] at h

theorem l_tokResolve (t : Token) (st : RState)
    (h : Reclass.tokResolve (n+1) root t st = .error .loop) : Hit root st := by
  cases t with
  | lit s => simp [tokResolve_lit] at h
  | combined ts =>
    rw [tokResolve_combined] at h
    cases h1 : Reclass.slice n root ts st with
    | error e => simp only [h1, Except.error.injEq] at h; subst h; exact ih.slice _ _ h1
    | ok s => simp [h1] at h
  | ref parts =>
    rw [tokResolve_ref] at h
    by_cases hd : st.depth + 1 > maxDepth
    · simp [hd] at h
    · simp only [hd, if_false] at h
      cases h1 : Reclass.slice n root parts { st with depth := st.depth + 1 } with
      | error e =>
        simp only [h1, Except.error.injEq] at h; subst h
        exact Hit.mono (st1 := { st with depth := st.depth + 1 }) (Nat.le_succ _) (fun _ hq => hq)
          (ih.slice _ _ h1)
      | ok path =>
        simp only [h1] at h
        by_cases hm : path ∈ st.seen
        · exact ⟨n, parts, st, path, Nat.le_refl _, fun _ hq => hq, by omega, h1, hm⟩
        · simp only [hm, if_false] at h
          cases hsp : splitColon path with
          | nil => simp [hsp] at h
          | cons k0 segs =>
            simp only [hsp] at h
            cases hg : root.get (.str k0) with
            | none => simp [hg] at h
            | some v0 =>
              simp only [hg] at h
              have hle := RState.Le.enter st path
              cases h2 : Reclass.descend n root v0 segs
                  { st with depth := st.depth + 1, seen := path :: st.seen } path with
              | error e =>
                simp only [h2, Except.error.injEq] at h; subst h
                exact Hit.of_le hle (ih.descend _ _ _ _ h2)
              | ok p =>
                obtain ⟨v, st3⟩ := p
                simp only [h2] at h
                exact Hit.of_le hle (Hit.of_le (descend_depth_mono h2) (ih.finalLoop _ _ h))

theorem l_descend (v : Value) (segs : List Str) (st : RState) (path : Str)
    (h : Reclass.descend (n+1) root v segs st path = .error .loop) : Hit root st := by
  cases segs with
  | nil => simp [descend_nil] at h
  | cons key rest =>
    rw [descend_cons] at h
    cases h1 : Reclass.interpStrOrVl n root v st with
    | error e => simp only [h1, Except.error.injEq] at h; subst h; exact ih.interpStrOrVl _ _ h1
    | ok p =>
      obtain ⟨newv, st1⟩ := p
      simp only [h1] at h
      cases newv with
      | map es ck ok =>
        simp only at h
        cases hl : lookup (.str key) es with
        | none => simp [hl] at h
        | some v' =>
          simp only [hl] at h
          exact Hit.of_le (interpStrOrVl_depth_mono h1) (ih.descend _ _ _ _ h)
      | _ => simp at h

theorem l_finalLoop (v : Value) (st : RState)
    (h : Reclass.finalLoop (n+1) root v st = .error .loop) : Hit root st := by
  rw [finalLoop_succ] at h
  by_cases hc : (v.isStr || v.isVl) = true
  · simp only [hc, if_true] at h
    cases h1 : Reclass.interp n root v st with
    | error e => simp only [h1, Except.error.injEq] at h; subst h; exact ih.interp _ _ h1
    | ok p =>
      obtain ⟨v1, st1⟩ := p
      simp only [h1] at h
      exact Hit.of_le (depth_mono h1) (ih.finalLoop _ _ h)
  · simp [hc] at h

theorem l_strLoop (v : Value) (st : RState)
    (h : Reclass.strLoop (n+1) root v st = .error .loop) : Hit root st := by
  rw [strLoop_succ] at h
  by_cases hc : v.isStr = true
  · simp only [hc, if_true] at h
    cases h1 : Reclass.interp n root v st with
    | error e => simp only [h1, Except.error.injEq] at h; subst h; exact ih.interp _ _ h1
    | ok p =>
      obtain ⟨v1, st1⟩ := p
      simp only [h1] at h
      exact Hit.of_le (depth_mono h1) (ih.strLoop _ _ h)
  · simp [hc] at h

theorem l_sliceFinish (v : Value) (st : RState)
    (h : Reclass.sliceFinish (n+1) root v st = .error .loop) : Hit root st := by
  rw [sliceFinish_succ] at h
  by_cases hc : (v.isMap || v.isSeq) = true
  · simp only [hc, if_true] at h
    cases h1 : Reclass.interp n root v st with
    | error e => simp only [h1, Except.error.injEq] at h; subst h; exact ih.interp _ _ h1
    | ok p =>
      obtain ⟨v1, st1⟩ := p
      simp only [h1] at h
      cases h2 : flat v1 st1 with
      | error e =>
        simp only [h2, Except.error.injEq] at h; subst h
        exact absurd rfl (flat_notLD _ _ _ h2).1
      | ok v2 =>
        simp only [h2] at h
        exact absurd rfl (rawString_notLD h).1
  · simp only [hc] at h
    exact absurd rfl (rawString_notLD h).1

theorem l_interpStrOrVl (v : Value) (st : RState)
    (h : Reclass.interpStrOrVl (n+1) root v st = .error .loop) : Hit root st := by
  rw [interpStrOrVl_succ] at h
  cases v with
  | str s => exact ih.interp _ _ h
  | vl l =>
    simp only at h
    cases h1 : Reclass.layersStr n root l st with
    | error e => simp only [h1, Except.error.injEq] at h; subst h; exact ih.layersStr _ _ h1
    | ok i =>
      simp only [h1] at h
      cases h2 : flatVl i .null st with
      | error e =>
        simp only [h2, Except.error.injEq] at h; subst h
        exact absurd rfl (flatVl_notLD _ _ _ _ h2).1
      | ok r => simp [h2] at h
  | null => simp at h
  | bool _ => simp at h
  | num _ => simp at h
  | lit _ => simp at h
  | map _ _ _ => simp at h
  | seq _ => simp at h

theorem l_layersStr (l : List Value) (st : RState)
    (h : Reclass.layersStr (n+1) root l st = .error .loop) : Hit root st := by
  cases l with
  | nil => simp [layersStr_nil] at h
  | cons v vs =>
    rw [layersStr_cons] at h
    by_cases hs : v.isStr = true
    · simp only [hs, if_true] at h
      cases h1 : Reclass.interp n root v st with
      | error e => simp only [h1, Except.error.injEq] at h; subst h; exact ih.interp _ _ h1
      | ok p =>
        obtain ⟨y, st1⟩ := p
        simp only [h1] at h
        cases h2 : Reclass.layersStr n root vs st with
        | error e => simp only [h2, Except.error.injEq] at h; subst h; exact ih.layersStr _ _ h2
        | ok xs => simp [h2] at h
    · simp only [hs, Bool.false_eq_true, if_false] at h
      cases h2 : Reclass.layersStr n root vs st with
      | error e => simp only [h2, Except.error.injEq] at h; subst h; exact ih.layersStr _ _ h2
      | ok xs => simp [h2] at h

theorem l_slice (ts : List Token) (st : RState)
    (h : Reclass.slice (n+1) root ts st = .error .loop) : Hit root st := by
  cases ts with
  | nil => simp [slice_nil] at h
  | cons t ts =>
    rw [slice_cons] at h
    cases h1 : Reclass.tokResolve n root t st with
    | error e => simp only [h1, Except.error.injEq] at h; subst h; exact ih.tokResolve _ _ h1
    | ok p =>
      obtain ⟨v, st1⟩ := p
      simp only [h1] at h
      have le1 := tokResolve_depth_mono h1
      cases h2 : Reclass.strLoop n root v st1 with
      | error e =>
        simp only [h2, Except.error.injEq] at h; subst h
        exact Hit.of_le le1 (ih.strLoop _ _ h2)
      | ok p2 =>
        obtain ⟨v2, st2⟩ := p2
        simp only [h2] at h
        have le2 := strLoop_depth_mono h2
        cases h3 : Reclass.sliceFinish n root v2 st2 with
        | error e =>
          simp only [h3, Except.error.injEq] at h; subst h
          exact Hit.of_le le1 (Hit.of_le le2 (ih.sliceFinish _ _ h3))
        | ok s =>
          simp only [h3] at h
          cases h4 : Reclass.slice n root ts st with
          | error e => simp only [h4, Except.error.injEq] at h; subst h; exact ih.slice _ _ h4
          | ok s' => simp [h4] at h

end lstep

/-- Every loop error stems from a direct hit, at every fuel. -/
theorem lInv (root : Mapping) : ∀ n, LInv root n := by
  intro n
  induction n with
  | zero => exact lInv_zero root
  | succ n ih =>
    exact {
      interp := l_interp ih
      interpL := l_interpL ih
      interpEs := l_interpEs ih
      interpVl := l_interpVl ih
      tokRender := l_tokRender ih
      tokResolve := l_tokResolve ih
      descend := l_descend ih
      finalLoop := l_finalLoop ih
      interpStrOrVl := l_interpStrOrVl ih
      layersStr := l_layersStr ih
      slice := l_slice ih
      strLoop := l_strLoop ih
      sliceFinish := l_sliceFinish ih }

/-! ## Weakening the set of relevant paths -/

section monoP
variable {root : Mapping} {rk : Str → Nat} {P P' : Str → Prop}

mutual
theorem tokOK_monoP (hPP : ∀ p, P p → P' p) : ∀ (t : Token) (R : Nat),
    TokOK root rk P R t → TokOK root rk P' R t
  | .lit _, _, _ => by simp [TokOK]
  | .combined ts, R, h => by
    simp only [TokOK] at h ⊢; exact tokOKs_monoP hPP ts R h
  | .ref parts, R, h => by
    simp only [TokOK] at h ⊢
    obtain ⟨R', h1, h2, h3⟩ := h
    exact ⟨R', h1, tokOKs_monoP hPP parts R' h2, fun n st path hs => ⟨hPP _ (h3 n st path hs).1, (h3 n st path hs).2⟩⟩
theorem tokOKs_monoP (hPP : ∀ p, P p → P' p) : ∀ (ts : List Token) (R : Nat),
    TokOKs root rk P R ts → TokOKs root rk P' R ts
  | [], _, _ => by simp [TokOKs]
  | t :: ts, R, h => by
    simp only [TokOKs] at h ⊢; exact ⟨tokOK_monoP hPP t R h.1, tokOKs_monoP hPP ts R h.2⟩
end

mutual
theorem refsIn_monoP (hPP : ∀ p, P p → P' p) (R : Nat) : ∀ (v : Value),
    RefsIn root rk P R v → RefsIn root rk P' R v
  | .str s, h => by
    simp only [RefsIn] at h ⊢; exact fun t ht => tokOK_monoP hPP t R (h t ht)
  | .vl l, h => by simp only [RefsIn] at h ⊢; exact refsInL_monoP hPP R l h
  | .seq l, h => by simp only [RefsIn] at h ⊢; exact refsInL_monoP hPP R l h
  | .map es _ _, h => by simp only [RefsIn] at h ⊢; exact refsInEs_monoP hPP R es h
  | .null, _ => by simp [RefsIn]
  | .bool _, _ => by simp [RefsIn]
  | .num _, _ => by simp [RefsIn]
  | .lit _, _ => by simp [RefsIn]
theorem refsInL_monoP (hPP : ∀ p, P p → P' p) (R : Nat) : ∀ (l : List Value),
    RefsInL root rk P R l → RefsInL root rk P' R l
  | [], _ => by simp [RefsInL]
  | v :: vs, h => by
    simp only [RefsInL] at h ⊢; exact ⟨refsIn_monoP hPP R v h.1, refsInL_monoP hPP R vs h.2⟩
theorem refsInEs_monoP (hPP : ∀ p, P p → P' p) (R : Nat) : ∀ (es : List (Key × Value)),
    RefsInEs root rk P R es → RefsInEs root rk P' R es
  | [], _ => by simp [RefsInEs]
  | (k, v) :: es, h => by
    simp only [RefsInEs] at h ⊢; exact ⟨refsIn_monoP hPP R v h.1, refsInEs_monoP hPP R es h.2⟩
end

end monoP

end Strat
end Reclass
