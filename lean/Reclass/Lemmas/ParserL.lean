/-
  Reclass.Lemmas.ParserL — helper lemmas about the reference grammar model
  (`Reclass/Model/Parser.lean`): consumption, fuel monotonicity/adequacy, shape of results.
-/
import Reclass.Model.Parser
namespace Reclass

/-! ### `scan` -/

theorem scan_suffix (step : Str → Option (Str × Nat)) :
    ∀ (i : Str) (k : Nat), (scan step k i).2 <:+ i := by
  intro i
  induction i with
  | nil => intro k; simp [scan]
  | cons c cs ih =>
    intro k
    cases k with
    | zero =>
      simp only [scan]
      cases h : step (c :: cs) with
      | none => simp
      | some p =>
        obtain ⟨out, n⟩ := p
        exact (ih (n - 1)).trans (List.suffix_cons c cs)
    | succ k =>
      simp only [scan]
      exact (ih k).trans (List.suffix_cons c cs)

theorem scan_length_le (step : Str → Option (Str × Nat)) (i : Str) (k : Nat) :
    (scan step k i).2.length ≤ i.length :=
  (scan_suffix step i k).length_le

/-- Either nothing was emitted and nothing consumed, or the rest is strictly shorter. -/
theorem scan_zero_cases (step : Str → Option (Str × Nat)) (i : Str) :
    scan step 0 i = ([], i) ∨ (scan step 0 i).2.length < i.length := by
  cases i with
  | nil => left; simp [scan]
  | cons c cs =>
    simp only [scan]
    cases h : step (c :: cs) with
    | none => left; rfl
    | some p =>
      obtain ⟨out, n⟩ := p
      right
      have := scan_length_le step cs (n - 1)
      simp only [List.length_cons]
      omega

theorem scan_progress (step : Str → Option (Str × Nat)) (i : Str)
    (h : (scan step 0 i).1 ≠ []) : (scan step 0 i).2.length < i.length := by
  rcases scan_zero_cases step i with h1 | h1
  · rw [h1] at h; exact absurd rfl h
  · exact h1

/-! ### `startsWith`, the four escapes, `stringP` -/

theorem startsWith_iff_prefix : ∀ (i p : Str), startsWith i p = true ↔ p <+: i
  | _, [] => by simp [startsWith]
  | [], _ :: _ => by simp [startsWith]
  | c :: cs, p :: ps => by
    simp only [startsWith, Bool.and_eq_true, beq_iff_eq, startsWith_iff_prefix cs ps,
      List.cons_prefix_cons]
    constructor <;> (rintro ⟨h1, h2⟩; exact ⟨h1.symm, h2⟩)

theorem doubleEscape_some {i s rest : Str} (h : doubleEscape i = some (s, rest)) :
    i = '\\' :: '\\' :: rest ∧ s = ['\\'] ∧
      (startsWith rest ['$', '{'] = true ∨ startsWith rest ['}'] = true) := by
  unfold doubleEscape at h
  split at h
  · split at h
    · rename_i hc
      simp only [Option.some.injEq, Prod.mk.injEq] at h
      obtain ⟨h1, h2⟩ := h
      subst h1 h2
      simpa using hc
    · simp at h
  · simp at h

theorem refEscapeOpen_some {i s rest : Str} (h : refEscapeOpen i = some (s, rest)) :
    i = '\\' :: '$' :: '{' :: rest ∧ s = ['$', '{'] := by
  unfold refEscapeOpen at h
  split at h
  · simp only [Option.some.injEq, Prod.mk.injEq] at h
    obtain ⟨h1, h2⟩ := h
    subst h1 h2
    exact ⟨rfl, rfl⟩
  · simp at h

theorem invEscapeOpen_some {i s rest : Str} (h : invEscapeOpen i = some (s, rest)) :
    i = '\\' :: '$' :: '[' :: rest ∧ s = ['$', '['] := by
  unfold invEscapeOpen at h
  split at h
  · simp only [Option.some.injEq, Prod.mk.injEq] at h
    obtain ⟨h1, h2⟩ := h
    subst h1 h2
    exact ⟨rfl, rfl⟩
  · simp at h

/-- A successful `string` consumes a non-empty prefix: the rest is a proper suffix. -/
theorem stringP_suffix {i s rest : Str} (h : stringP i = some (s, rest)) :
    rest <:+ i ∧ rest.length < i.length ∧ s ≠ [] := by
  unfold stringP at h
  split at h
  · rename_i r hr
    cases h
    obtain ⟨h1, h2, _⟩ := doubleEscape_some hr
    subst h1 h2
    refine ⟨?_, by simp only [List.length_cons]; omega, by simp⟩
    exact List.suffix_append ['\\', '\\'] rest
  · split at h
    · rename_i r hr
      cases h
      obtain ⟨h1, h2⟩ := refEscapeOpen_some hr
      subst h1 h2
      refine ⟨?_, by simp only [List.length_cons]; omega, by simp⟩
      exact List.suffix_append ['\\', '$', '{'] rest
    · split at h
      · rename_i r hr
        cases h
        obtain ⟨h1, h2⟩ := invEscapeOpen_some hr
        subst h1 h2
        refine ⟨?_, by simp only [List.length_cons]; omega, by simp⟩
        exact List.suffix_append ['\\', '$', '['] rest
      · simp only at h
        split at h
        · simp at h
        · rename_i hne
          simp only [Option.some.injEq] at h
          have hne' : (content i).1 ≠ [] := by
            intro h0; rw [h0] at hne; simp at hne
          have h1 : (content i).1 = s := by rw [h]
          have h2 : (content i).2 = rest := by rw [h]
          rw [← h1, ← h2]
          exact ⟨scan_suffix _ _ _, scan_progress _ _ hne', hne'⟩

theorem stringP_length {i s rest : Str} (h : stringP i = some (s, rest)) :
    rest.length < i.length := (stringP_suffix h).2.1

/-! ### `reference` / `refItems` / `items`: inversion and consumption -/

theorem reference_ok_inv {n : Nat} {i : Str} {t : Token} {rest : Str}
    (h : reference n i = .ok (t, rest)) :
    ∃ m r ts, n = m + 1 ∧ i = '$' :: '{' :: r ∧ refItems m r = .ok (ts, '}' :: rest) ∧
      ts ≠ [] ∧ t = .ref (coalesce ts) := by
  unfold reference at h
  split at h
  · simp at h
  · rename_i m r
    refine ⟨m, r, ?_⟩
    split at h
    · simp at h
    · simp at h
    · rename_i ts rest' hne heq
      simp only [Except.ok.injEq, Prod.mk.injEq] at h
      obtain ⟨h1, h2⟩ := h
      subst h1 h2
      refine ⟨ts, rfl, rfl, heq, ?_, rfl⟩
      intro h0; subst h0; exact hne rfl
    · simp at h
  · simp at h

theorem reference_not_open {n : Nat} {i : Str} (h : startsWith i ['$', '{'] = false) :
    reference (n + 1) i = .error .fail := by
  rw [reference.eq_3]
  intro rest hr
  subst hr
  simp [startsWith] at h

theorem reference_of_refItems {n : Nat} {r rest : Str} {ts : List Token}
    (h : refItems n r = .ok (ts, '}' :: rest)) (hne : ts ≠ []) :
    reference (n + 1) ('$' :: '{' :: r) = .ok (.ref (coalesce ts), rest) := by
  rw [reference.eq_2, h]
  cases ts with
  | nil => exact absurd rfl hne
  | cons t ts => rfl

/-- Prepend a token to the result of the rest of an item loop. -/
def consTok (t : Token) : Except PErr (List Token × Str) → Except PErr (List Token × Str)
  | .error e => .error e
  | .ok (ts, r) => .ok (t :: ts, r)

@[simp] theorem consTok_error (t : Token) (e : PErr) : consTok t (.error e) = .error e := rfl
@[simp] theorem consTok_ok (t : Token) (ts : List Token) (r : Str) :
    consTok t (.ok (ts, r)) = .ok (t :: ts, r) := rfl

theorem consTok_eq_ok {t : Token} {x : Except PErr (List Token × Str)} {ts : List Token} {r : Str}
    (h : consTok t x = .ok (ts, r)) : ∃ ts', ts = t :: ts' ∧ x = .ok (ts', r) := by
  cases x with
  | error e => simp at h
  | ok p =>
    obtain ⟨ts', r'⟩ := p
    simp only [consTok_ok, Except.ok.injEq, Prod.mk.injEq] at h
    obtain ⟨h1, h2⟩ := h
    subst h1 h2
    exact ⟨ts', rfl, rfl⟩

theorem consTok_eq_error {t : Token} {x : Except PErr (List Token × Str)} {e : PErr}
    (h : consTok t x = .error e) : x = .error e := by
  cases x with
  | error e' => simpa using h
  | ok p => obtain ⟨ts', r'⟩ := p; simp at h

theorem refItems_fuel {n : Nat} {i : Str} (h : reference n i = .error .fuel) :
    refItems (n + 1) i = .error .fuel := by
  rw [refItems.eq_2, h]

theorem refItems_ref {n : Nat} {i rest : Str} {t : Token} (h : reference n i = .ok (t, rest)) :
    refItems (n + 1) i = consTok t (refItems n rest) := by
  rw [refItems.eq_2, h]
  simp only
  cases refItems n rest with
  | error e => rfl
  | ok p => rfl

theorem refItems_str {n : Nat} {i : Str} (h : reference n i = .error .fail)
    (hs : (refString i).1 ≠ []) :
    refItems (n + 1) i = consTok (.lit (refString i).1) (refItems n (refString i).2) := by
  rw [refItems.eq_2, h]
  have : (!(refString i).1.isEmpty) = true := by
    cases h1 : (refString i).1 with
    | nil => exact absurd h1 hs
    | cons _ _ => rfl
  simp only [this, if_true]
  cases refItems n (refString i).2 with
  | error e => rfl
  | ok p => rfl

theorem refItems_stop {n : Nat} {i : Str} (h : reference n i = .error .fail)
    (hs : (refString i).1 = []) : refItems (n + 1) i = .ok ([], i) := by
  rw [refItems.eq_2, h]
  simp [hs]

theorem items_fuel {n : Nat} {i : Str} (h : reference n i = .error .fuel) :
    items (n + 1) i = .error .fuel := by
  rw [items.eq_2, h]

theorem items_ref {n : Nat} {i rest : Str} {t : Token} (h : reference n i = .ok (t, rest)) :
    items (n + 1) i = consTok t (items n rest) := by
  rw [items.eq_2, h]
  simp only
  cases items n rest with
  | error e => rfl
  | ok p => rfl

theorem items_str {n : Nat} {i s rest : Str} (h : reference n i = .error .fail)
    (hs : stringP i = some (s, rest)) :
    items (n + 1) i = consTok (.lit s) (items n rest) := by
  rw [items.eq_2, h]
  simp only [hs]
  cases items n rest with
  | error e => rfl
  | ok p => rfl

theorem items_stop {n : Nat} {i : Str} (h : reference n i = .error .fail)
    (hs : stringP i = none) : items (n + 1) i = .ok ([], i) := by
  rw [items.eq_2, h]
  simp [hs]

theorem ref_consumes_aux : ∀ n,
    (∀ i t rest, reference n i = .ok (t, rest) → rest <:+ i ∧ rest.length < i.length) ∧
    (∀ i ts rest, refItems n i = .ok (ts, rest) →
      rest <:+ i ∧ (ts ≠ [] → rest.length < i.length)) := by
  intro n
  induction n with
  | zero =>
    refine ⟨?_, ?_⟩ <;> intro i _ _ h
    · simp [reference] at h
    · simp [refItems] at h
  | succ n ih =>
    obtain ⟨ihR, ihI⟩ := ih
    refine ⟨?_, ?_⟩
    · intro i t rest h
      obtain ⟨m, r, ts, hm, hi, hri, _, _⟩ := reference_ok_inv h
      have hm' : m = n := by omega
      subst hm' hi
      obtain ⟨hs, _⟩ := ihI _ _ _ hri
      refine ⟨?_, ?_⟩
      · exact ((List.suffix_cons '}' rest).trans hs).trans (List.suffix_append ['$', '{'] r)
      · have := hs.length_le
        simp only [List.length_cons] at this ⊢
        omega
    · intro i ts rest h
      cases hr : reference n i with
      | error e =>
        cases e with
        | fuel => rw [refItems_fuel hr] at h; simp at h
        | fail =>
          by_cases hs : (refString i).1 = []
          · rw [refItems_stop hr hs] at h
            simp only [Except.ok.injEq, Prod.mk.injEq] at h
            obtain ⟨h1, h2⟩ := h
            subst h1 h2
            exact ⟨List.suffix_refl _, fun h => absurd rfl h⟩
          · rw [refItems_str hr hs] at h
            obtain ⟨ts', _, h'⟩ := consTok_eq_ok h
            obtain ⟨hs1, _⟩ := ihI _ _ _ h'
            have h2 := scan_progress refStringStep i hs
            refine ⟨hs1.trans (scan_suffix _ _ _), fun _ => ?_⟩
            have := hs1.length_le
            exact Nat.lt_of_le_of_lt this h2
      | ok p =>
        obtain ⟨t, r1⟩ := p
        rw [refItems_ref hr] at h
        obtain ⟨ts', _, h'⟩ := consTok_eq_ok h
        obtain ⟨hs1, _⟩ := ihI _ _ _ h'
        obtain ⟨hs2, hl2⟩ := ihR _ _ _ hr
        refine ⟨hs1.trans hs2, fun _ => ?_⟩
        have := hs1.length_le
        omega

/-- A successful `reference` leaves a proper suffix of its input. -/
theorem reference_suffix {n : Nat} {i rest : Str} {t : Token}
    (h : reference n i = .ok (t, rest)) : rest <:+ i := ((ref_consumes_aux n).1 i t rest h).1

theorem reference_length {n : Nat} {i rest : Str} {t : Token}
    (h : reference n i = .ok (t, rest)) : rest.length < i.length :=
  ((ref_consumes_aux n).1 i t rest h).2

theorem refItems_suffix {n : Nat} {i rest : Str} {ts : List Token}
    (h : refItems n i = .ok (ts, rest)) : rest <:+ i := ((ref_consumes_aux n).2 i ts rest h).1

theorem refItems_length_le {n : Nat} {i rest : Str} {ts : List Token}
    (h : refItems n i = .ok (ts, rest)) : rest.length ≤ i.length :=
  (refItems_suffix h).length_le

theorem refItems_length_lt {n : Nat} {i rest : Str} {ts : List Token}
    (h : refItems n i = .ok (ts, rest)) (hne : ts ≠ []) : rest.length < i.length :=
  ((ref_consumes_aux n).2 i ts rest h).2 hne

theorem items_consumes_aux : ∀ n i ts rest, items n i = .ok (ts, rest) →
    rest <:+ i ∧ (ts ≠ [] → rest.length < i.length) := by
  intro n
  induction n with
  | zero => intro i _ _ h; simp [items] at h
  | succ n ih =>
    intro i ts rest h
    cases hr : reference n i with
    | error e =>
      cases e with
      | fuel => rw [items_fuel hr] at h; simp at h
      | fail =>
        cases hs : stringP i with
        | none =>
          rw [items_stop hr hs] at h
          simp only [Except.ok.injEq, Prod.mk.injEq] at h
          obtain ⟨h1, h2⟩ := h
          subst h1 h2
          exact ⟨List.suffix_refl _, fun h => absurd rfl h⟩
        | some p =>
          obtain ⟨s, r1⟩ := p
          rw [items_str hr hs] at h
          obtain ⟨ts', _, h'⟩ := consTok_eq_ok h
          obtain ⟨hs1, _⟩ := ih _ _ _ h'
          obtain ⟨hs2, hl2, _⟩ := stringP_suffix hs
          refine ⟨hs1.trans hs2, fun _ => ?_⟩
          have := hs1.length_le
          omega
    | ok p =>
      obtain ⟨t, r1⟩ := p
      rw [items_ref hr] at h
      obtain ⟨ts', _, h'⟩ := consTok_eq_ok h
      obtain ⟨hs1, _⟩ := ih _ _ _ h'
      have hs2 := reference_suffix hr
      have hl2 := reference_length hr
      refine ⟨hs1.trans hs2, fun _ => ?_⟩
      have := hs1.length_le
      omega

theorem items_suffix {n : Nat} {i rest : Str} {ts : List Token}
    (h : items n i = .ok (ts, rest)) : rest <:+ i := (items_consumes_aux n i ts rest h).1

theorem items_length_le {n : Nat} {i rest : Str} {ts : List Token}
    (h : items n i = .ok (ts, rest)) : rest.length ≤ i.length := (items_suffix h).length_le

theorem items_length_lt {n : Nat} {i rest : Str} {ts : List Token}
    (h : items n i = .ok (ts, rest)) (hne : ts ≠ []) : rest.length < i.length :=
  (items_consumes_aux n i ts rest h).2 hne

/-! ### Fuel monotonicity -/

theorem startsWith_open_eq {i : Str} (h : startsWith i ['$', '{'] = true) :
    ∃ r, i = '$' :: '{' :: r := by
  obtain ⟨r, hr⟩ := (startsWith_iff_prefix i ['$', '{']).1 h
  exact ⟨r, hr.symm⟩

theorem ref_mono_aux : ∀ n,
    (∀ i, reference n i ≠ .error .fuel → reference (n + 1) i = reference n i) ∧
    (∀ i, refItems n i ≠ .error .fuel → refItems (n + 1) i = refItems n i) := by
  intro n
  induction n with
  | zero =>
    refine ⟨?_, ?_⟩ <;> intro i h
    · exact absurd (reference.eq_1 i) h
    · exact absurd (refItems.eq_1 i) h
  | succ n ih =>
    obtain ⟨ihR, ihI⟩ := ih
    refine ⟨?_, ?_⟩
    · intro i h
      cases ho : startsWith i ['$', '{'] with
      | false => rw [reference_not_open ho, reference_not_open ho]
      | true =>
        obtain ⟨r, hi⟩ := startsWith_open_eq ho
        subst hi
        have hne : refItems n r ≠ .error .fuel := by
          intro h0
          apply h
          rw [reference.eq_2, h0]
        rw [reference.eq_2, reference.eq_2, ihI r hne]
    · intro i h
      cases hr : reference n i with
      | error e =>
        cases e with
        | fuel => exact absurd (refItems_fuel hr) h
        | fail =>
          have hr' : reference (n + 1) i = .error .fail := by
            rw [ihR i (by rw [hr]; simp), hr]
          by_cases hs : (refString i).1 = []
          · rw [refItems_stop hr hs, refItems_stop hr' hs]
          · rw [refItems_str hr hs] at h ⊢
            rw [refItems_str hr' hs]
            have hne : refItems n (refString i).2 ≠ .error .fuel := by
              intro h0; apply h; rw [h0]; rfl
            rw [ihI _ hne]
      | ok p =>
        obtain ⟨t, r1⟩ := p
        have hr' : reference (n + 1) i = .ok (t, r1) := by
          rw [ihR i (by rw [hr]; simp), hr]
        rw [refItems_ref hr] at h ⊢
        rw [refItems_ref hr']
        have hne : refItems n r1 ≠ .error .fuel := by
          intro h0; apply h; rw [h0]; rfl
        rw [ihI _ hne]

/-- More fuel does not change a `reference` result that is not a fuel error. -/
theorem reference_mono {n : Nat} {i : Str} (h : reference n i ≠ .error .fuel) :
    reference (n + 1) i = reference n i := (ref_mono_aux n).1 i h

/-- More fuel does not change a `refItems` result that is not a fuel error. -/
theorem refItems_mono {n : Nat} {i : Str} (h : refItems n i ≠ .error .fuel) :
    refItems (n + 1) i = refItems n i := (ref_mono_aux n).2 i h

/-- More fuel does not change an `items` result that is not a fuel error. -/
theorem items_mono : ∀ {n : Nat} {i : Str}, items n i ≠ .error .fuel →
    items (n + 1) i = items n i := by
  intro n
  induction n with
  | zero => intro i h; exact absurd (items.eq_1 i) h
  | succ n ih =>
    intro i h
    cases hr : reference n i with
    | error e =>
      cases e with
      | fuel => exact absurd (items_fuel hr) h
      | fail =>
        have hr' : reference (n + 1) i = .error .fail := by
          rw [reference_mono (by rw [hr]; simp), hr]
        cases hs : stringP i with
        | none => rw [items_stop hr hs, items_stop hr' hs]
        | some p =>
          obtain ⟨s, r1⟩ := p
          rw [items_str hr hs] at h ⊢
          rw [items_str hr' hs]
          have hne : items n r1 ≠ .error .fuel := by
            intro h0; apply h; rw [h0]; rfl
          rw [ih hne]
    | ok p =>
      obtain ⟨t, r1⟩ := p
      have hr' : reference (n + 1) i = .ok (t, r1) := by
        rw [reference_mono (by rw [hr]; simp), hr]
      rw [items_ref hr] at h ⊢
      rw [items_ref hr']
      have hne : items n r1 ≠ .error .fuel := by
        intro h0; apply h; rw [h0]; rfl
      rw [ih hne]

theorem reference_mono_le {n m : Nat} {i : Str} (h : reference n i ≠ .error .fuel)
    (hle : n ≤ m) : reference m i = reference n i := by
  induction hle with
  | refl => rfl
  | step _ ih => rw [reference_mono (by rw [ih]; exact h), ih]

theorem refItems_mono_le {n m : Nat} {i : Str} (h : refItems n i ≠ .error .fuel)
    (hle : n ≤ m) : refItems m i = refItems n i := by
  induction hle with
  | refl => rfl
  | step _ ih => rw [refItems_mono (by rw [ih]; exact h), ih]

theorem items_mono_le {n m : Nat} {i : Str} (h : items n i ≠ .error .fuel)
    (hle : n ≤ m) : items m i = items n i := by
  induction hle with
  | refl => rfl
  | step _ ih => rw [items_mono (by rw [ih]; exact h), ih]

theorem parseRefF_fuel_iff {n : Nat} {s : Str} :
    parseRefF n s = .error .fuel ↔ items n s = .error .fuel := by
  unfold parseRefF
  constructor
  · intro h
    split at h
    · rename_i e he; rw [he]; simp only [Except.error.injEq] at h; rw [h]
    · simp at h
    · split at h <;> simp at h
    · simp at h
  · intro h; rw [h]

/-- More fuel does not change a `parseRefF` result that is not a fuel error. -/
theorem parseRefF_mono_le {n m : Nat} {s : Str} (h : parseRefF n s ≠ .error .fuel)
    (hle : n ≤ m) : parseRefF m s = parseRefF n s := by
  have h' : items n s ≠ .error .fuel := fun h0 => h (parseRefF_fuel_iff.2 h0)
  unfold parseRefF
  rw [items_mono_le h' hle]

/-- Two fuel values at which `parseRefF` does not run out give the same result. -/
theorem parseRefF_stable {n m : Nat} {s : Str} (hn : parseRefF n s ≠ .error .fuel)
    (hm : parseRefF m s ≠ .error .fuel) : parseRefF n s = parseRefF m s := by
  rcases Nat.le_total n m with h | h
  · exact (parseRefF_mono_le hn h).symm
  · exact parseRefF_mono_le hm h

/-! ### Fuel adequacy: `|i| + 2` is always enough -/

theorem ref_fuel_aux : ∀ n,
    (∀ i : Str, i.length + 1 ≤ n → reference n i ≠ .error .fuel) ∧
    (∀ i : Str, i.length + 2 ≤ n → refItems n i ≠ .error .fuel) := by
  intro n
  induction n with
  | zero => refine ⟨?_, ?_⟩ <;> intro i h <;> omega
  | succ n ih =>
    obtain ⟨ihR, ihI⟩ := ih
    refine ⟨?_, ?_⟩
    · intro i hl
      cases ho : startsWith i ['$', '{'] with
      | false => rw [reference_not_open ho]; simp
      | true =>
        obtain ⟨r, hi⟩ := startsWith_open_eq ho
        subst hi
        simp only [List.length_cons] at hl
        have hne := ihI r (by omega)
        rw [reference.eq_2]
        cases hri : refItems n r with
        | error e =>
          cases e with
          | fuel => exact absurd hri hne
          | fail => simp
        | ok p =>
          obtain ⟨ts, r'⟩ := p
          split <;> simp_all
    · intro i hl
      have hR := ihR i (by omega)
      cases hr : reference n i with
      | error e =>
        cases e with
        | fuel => exact absurd hr hR
        | fail =>
          by_cases hs : (refString i).1 = []
          · rw [refItems_stop hr hs]; simp
          · rw [refItems_str hr hs]
            have h2 := scan_progress refStringStep i hs
            have hne := ihI (refString i).2 (by unfold refString; omega)
            intro h0
            exact hne (consTok_eq_error h0)
      | ok p =>
        obtain ⟨t, r1⟩ := p
        rw [refItems_ref hr]
        have h2 := reference_length hr
        have hne := ihI r1 (by omega)
        intro h0
        exact hne (consTok_eq_error h0)

theorem reference_fuel_enough {n : Nat} {i : Str} (h : i.length + 1 ≤ n) :
    reference n i ≠ .error .fuel := (ref_fuel_aux n).1 i h

theorem refItems_fuel_enough {n : Nat} {i : Str} (h : i.length + 2 ≤ n) :
    refItems n i ≠ .error .fuel := (ref_fuel_aux n).2 i h

theorem items_fuel_enough : ∀ {n : Nat} {i : Str}, i.length + 2 ≤ n →
    items n i ≠ .error .fuel := by
  intro n
  induction n with
  | zero => intro i h; omega
  | succ n ih =>
    intro i hl
    have hR := reference_fuel_enough (n := n) (i := i) (by omega)
    cases hr : reference n i with
    | error e =>
      cases e with
      | fuel => exact absurd hr hR
      | fail =>
        cases hs : stringP i with
        | none => rw [items_stop hr hs]; simp
        | some p =>
          obtain ⟨s, r1⟩ := p
          rw [items_str hr hs]
          have h2 := stringP_length hs
          have hne := ih (i := r1) (by omega)
          intro h0
          exact hne (consTok_eq_error h0)
    | ok p =>
      obtain ⟨t, r1⟩ := p
      rw [items_ref hr]
      have h2 := reference_length hr
      have hne := ih (i := r1) (by omega)
      intro h0
      exact hne (consTok_eq_error h0)

theorem parseRefF_fuel_enough {n : Nat} {s : Str} (h : s.length + 2 ≤ n) :
    parseRefF n s ≠ .error .fuel :=
  fun h0 => items_fuel_enough h (parseRefF_fuel_iff.1 h0)

/-- If some fuel gives a non-fuel result, the fuel `Token.parse` uses gives the same one. -/
theorem parseRefF_parseFuel {n : Nat} {s : Str} (h : parseRefF n s ≠ .error .fuel) :
    parseRefF (parseFuel s) s = parseRefF n s :=
  (parseRefF_stable h (parseRefF_fuel_enough (by unfold parseFuel; omega))).symm

/-! ### `coalesce` and the shape of parse results -/

/-- Does the list start with a literal token? -/
def headIsLit : List Token → Bool
  | t :: _ => t.isLit
  | [] => false

/-- No two adjacent literal tokens. -/
def noAdjLit : List Token → Bool
  | [] => true
  | t :: rest => !(t.isLit && headIsLit rest) && noAdjLit rest

mutual
/-- Well-formed token below the top level: a non-empty literal, or a reference whose parts
are a non-empty list of well-formed inner tokens without adjacent literals.  `combined`
never occurs below the top level. -/
def Token.wfInner : Token → Bool
  | .lit s => !s.isEmpty
  | .ref ps => !ps.isEmpty && noAdjLit ps && Token.wfInnerL ps
  | .combined _ => false
def Token.wfInnerL : List Token → Bool
  | [] => true
  | t :: ts => t.wfInner && Token.wfInnerL ts
end

/-- Well-formed parse result: an inner token, or `combined` of at least two inner tokens
without adjacent literals. -/
def Token.wfTop : Token → Bool
  | .combined ps => decide (2 ≤ ps.length) && noAdjLit ps && Token.wfInnerL ps
  | t => t.wfInner

theorem coalesce_lit_cases (a : Str) (rest : List Token) :
    (∃ b rest', coalesce rest = .lit b :: rest' ∧
        coalesce (.lit a :: rest) = .lit (a ++ b) :: rest') ∨
    (headIsLit (coalesce rest) = false ∧ coalesce (.lit a :: rest) = .lit a :: coalesce rest) := by
  rw [coalesce]
  cases hc : coalesce rest with
  | nil => right; exact ⟨rfl, rfl⟩
  | cons t r =>
    cases t with
    | lit b => left; exact ⟨b, r, rfl, rfl⟩
    | ref _ => right; exact ⟨rfl, rfl⟩
    | combined _ => right; exact ⟨rfl, rfl⟩

theorem coalesce_eq_nil : ∀ {ts : List Token}, coalesce ts = [] → ts = []
  | [], _ => rfl
  | .lit a :: rest, h => by
    rcases coalesce_lit_cases a rest with ⟨b, r', _, h2⟩ | ⟨_, h2⟩ <;> rw [h2] at h <;> simp at h
  | .ref ps :: rest, h => by simp [coalesce] at h
  | .combined ps :: rest, h => by simp [coalesce] at h

theorem coalesce_ne_nil {ts : List Token} (h : ts ≠ []) : coalesce ts ≠ [] :=
  fun h0 => h (coalesce_eq_nil h0)

theorem headIsLit_coalesce : ∀ (ts : List Token), headIsLit (coalesce ts) = headIsLit ts
  | [] => rfl
  | .lit a :: rest => by
    rcases coalesce_lit_cases a rest with ⟨b, r', _, h2⟩ | ⟨_, h2⟩ <;> rw [h2] <;> rfl
  | .ref ps :: rest => by simp [coalesce, headIsLit]
  | .combined ps :: rest => by simp [coalesce, headIsLit]

theorem noAdjLit_coalesce : ∀ (ts : List Token), noAdjLit (coalesce ts) = true
  | [] => rfl
  | .lit a :: rest => by
    have ih := noAdjLit_coalesce rest
    rcases coalesce_lit_cases a rest with ⟨b, r', h1, h2⟩ | ⟨h1, h2⟩
    · rw [h2]
      rw [h1] at ih
      simp only [noAdjLit, Token.isLit, Bool.true_and, Bool.and_eq_true, Bool.not_eq_true'] at ih ⊢
      exact ih
    · rw [h2]
      simp only [noAdjLit, Token.isLit, Bool.true_and, ih, Bool.and_true, Bool.not_eq_true']
      exact h1
  | .ref ps :: rest => by
    simp [coalesce, noAdjLit, Token.isLit, noAdjLit_coalesce rest]
  | .combined ps :: rest => by
    simp [coalesce, noAdjLit, Token.isLit, noAdjLit_coalesce rest]

theorem wfInnerL_coalesce : ∀ (ts : List Token), Token.wfInnerL ts = true →
    Token.wfInnerL (coalesce ts) = true
  | [], _ => rfl
  | .lit a :: rest, h => by
    simp only [Token.wfInnerL, Token.wfInner, Bool.and_eq_true] at h
    have ih := wfInnerL_coalesce rest h.2
    rcases coalesce_lit_cases a rest with ⟨b, r', h1, h2⟩ | ⟨h1, h2⟩
    · rw [h2]
      rw [h1] at ih
      simp only [Token.wfInnerL, Token.wfInner, Bool.and_eq_true] at ih ⊢
      refine ⟨?_, ih.2⟩
      cases a with
      | nil => simp at h
      | cons _ _ => rfl
    · rw [h2]
      simp only [Token.wfInnerL, Token.wfInner, Bool.and_eq_true]
      exact ⟨h.1, ih⟩
  | .ref ps :: rest, h => by
    simp only [Token.wfInnerL, Bool.and_eq_true] at h
    simp only [coalesce, Token.wfInnerL, Bool.and_eq_true]
    exact ⟨h.1, wfInnerL_coalesce rest h.2⟩
  | .combined ps :: rest, h => by
    simp [Token.wfInnerL, Token.wfInner] at h

/-- `coalesce` is the identity on lists without adjacent literals. -/
theorem coalesce_of_noAdjLit : ∀ (ts : List Token), noAdjLit ts = true → coalesce ts = ts
  | [], _ => rfl
  | .lit a :: rest, h => by
    simp only [noAdjLit, Token.isLit, Bool.true_and, Bool.and_eq_true, Bool.not_eq_true'] at h
    have ih := coalesce_of_noAdjLit rest h.2
    rcases coalesce_lit_cases a rest with ⟨b, r', h1, h2⟩ | ⟨h1, h2⟩
    · rw [ih] at h1
      rw [h1] at h
      simp [headIsLit, Token.isLit] at h
    · rw [h2, ih]
  | .ref ps :: rest, h => by
    simp only [noAdjLit, Token.isLit, Bool.false_and, Bool.not_false, Bool.true_and] at h
    simp [coalesce, coalesce_of_noAdjLit rest h]
  | .combined ps :: rest, h => by
    simp only [noAdjLit, Token.isLit, Bool.false_and, Bool.not_false, Bool.true_and] at h
    simp [coalesce, coalesce_of_noAdjLit rest h]

theorem wf_aux : ∀ n,
    (∀ i t rest, reference n i = .ok (t, rest) → t.wfInner = true) ∧
    (∀ i ts rest, refItems n i = .ok (ts, rest) → Token.wfInnerL ts = true) := by
  intro n
  induction n with
  | zero =>
    refine ⟨?_, ?_⟩ <;> intro i _ _ h
    · simp [reference] at h
    · simp [refItems] at h
  | succ n ih =>
    obtain ⟨ihR, ihI⟩ := ih
    refine ⟨?_, ?_⟩
    · intro i t rest h
      obtain ⟨m, r, ts, hm, hi, hri, hne, ht⟩ := reference_ok_inv h
      have hm' : m = n := by omega
      subst hm' hi ht
      have h1 := ihI _ _ _ hri
      simp only [Token.wfInner, Bool.and_eq_true, noAdjLit_coalesce, wfInnerL_coalesce _ h1,
        and_true]
      cases hc : coalesce ts with
      | nil => exact absurd (coalesce_eq_nil hc) hne
      | cons _ _ => rfl
    · intro i ts rest h
      cases hr : reference n i with
      | error e =>
        cases e with
        | fuel => rw [refItems_fuel hr] at h; simp at h
        | fail =>
          by_cases hs : (refString i).1 = []
          · rw [refItems_stop hr hs] at h
            simp only [Except.ok.injEq, Prod.mk.injEq] at h
            rw [← h.1]; rfl
          · rw [refItems_str hr hs] at h
            obtain ⟨ts', hts, h'⟩ := consTok_eq_ok h
            subst hts
            simp only [Token.wfInnerL, Token.wfInner, Bool.and_eq_true]
            refine ⟨?_, ihI _ _ _ h'⟩
            cases h1 : (refString i).1 with
            | nil => exact absurd h1 hs
            | cons _ _ => rfl
      | ok p =>
        obtain ⟨t, r1⟩ := p
        rw [refItems_ref hr] at h
        obtain ⟨ts', hts, h'⟩ := consTok_eq_ok h
        subst hts
        simp only [Token.wfInnerL, Bool.and_eq_true]
        exact ⟨ihR _ _ _ hr, ihI _ _ _ h'⟩

theorem reference_wf {n : Nat} {i rest : Str} {t : Token}
    (h : reference n i = .ok (t, rest)) : t.wfInner = true := (wf_aux n).1 i t rest h

theorem refItems_wf {n : Nat} {i rest : Str} {ts : List Token}
    (h : refItems n i = .ok (ts, rest)) : Token.wfInnerL ts = true := (wf_aux n).2 i ts rest h

theorem items_wf : ∀ {n : Nat} {i rest : Str} {ts : List Token},
    items n i = .ok (ts, rest) → Token.wfInnerL ts = true := by
  intro n
  induction n with
  | zero => intro i _ _ h; simp [items] at h
  | succ n ih =>
    intro i rest ts h
    cases hr : reference n i with
    | error e =>
      cases e with
      | fuel => rw [items_fuel hr] at h; simp at h
      | fail =>
        cases hs : stringP i with
        | none =>
          rw [items_stop hr hs] at h
          simp only [Except.ok.injEq, Prod.mk.injEq] at h
          rw [← h.1]; rfl
        | some p =>
          obtain ⟨s, r1⟩ := p
          rw [items_str hr hs] at h
          obtain ⟨ts', hts, h'⟩ := consTok_eq_ok h
          subst hts
          simp only [Token.wfInnerL, Token.wfInner, Bool.and_eq_true]
          refine ⟨?_, ih h'⟩
          have := (stringP_suffix hs).2.2
          cases s with
          | nil => exact absurd rfl this
          | cons _ _ => rfl
    | ok p =>
      obtain ⟨t, r1⟩ := p
      rw [items_ref hr] at h
      obtain ⟨ts', hts, h'⟩ := consTok_eq_ok h
      subst hts
      simp only [Token.wfInnerL, Bool.and_eq_true]
      exact ⟨reference_wf hr, ih h'⟩

/-- Inversion of a successful `parseRefF`: the item loop ate everything and produced at
least one token; the result is the single coalesced token or `combined` of several. -/
theorem parseRefF_ok_inv {n : Nat} {s : Str} {t : Token} (h : parseRefF n s = .ok t) :
    ∃ ts, items n s = .ok (ts, []) ∧ ts ≠ [] ∧
      (coalesce ts = [t] ∨ (t = .combined (coalesce ts) ∧ 2 ≤ (coalesce ts).length)) := by
  unfold parseRefF at h
  split at h
  · simp at h
  · simp at h
  · rename_i ts hne heq
    have hne' : ts ≠ [] := fun h0 => hne h0
    refine ⟨ts, heq, hne', ?_⟩
    split at h
    · rename_i t' hc
      simp only [Except.ok.injEq] at h
      subst h
      exact Or.inl hc
    · rename_i hn1
      simp only [Except.ok.injEq] at h
      right
      refine ⟨h.symm, ?_⟩
      cases hc : coalesce ts with
      | nil => exact absurd (coalesce_eq_nil hc) hne'
      | cons a r =>
        cases r with
        | nil => exact absurd hc (hn1 a)
        | cons _ _ => simp
  · simp at h

/-- The final step of `parse_ref`: a single token stays, several become `combined`. -/
def pack : List Token → Token
  | [t] => t
  | ts => .combined ts

theorem parseRefF_of_items {n : Nat} {s : Str} {ts : List Token}
    (h : items n s = .ok (ts, [])) (hne : ts ≠ []) :
    parseRefF n s = .ok (pack (coalesce ts)) := by
  unfold parseRefF
  rw [h]
  cases ts with
  | nil => exact absurd rfl hne
  | cons a r =>
    simp only
    cases hc : coalesce (a :: r) with
    | nil => rfl
    | cons b r' =>
      cases r' with
      | nil => rfl
      | cons _ _ => rfl

theorem wfTop_of_wfInner {t : Token} (h : t.wfInner = true) : t.wfTop = true := by
  cases t with
  | lit s => exact h
  | ref ps => exact h
  | combined ps => simp [Token.wfInner] at h

theorem parseRefF_wf {n : Nat} {s : Str} {t : Token} (h : parseRefF n s = .ok t) :
    t.wfTop = true := by
  obtain ⟨ts, hi, hne, hc⟩ := parseRefF_ok_inv h
  have hw := wfInnerL_coalesce ts (items_wf hi)
  rcases hc with hc | ⟨ht, hl⟩
  · rw [hc] at hw
    simp only [Token.wfInnerL, Bool.and_true] at hw
    exact wfTop_of_wfInner hw
  · subst ht
    simp only [Token.wfTop, Bool.and_eq_true, decide_eq_true_eq]
    exact ⟨⟨hl, noAdjLit_coalesce ts⟩, hw⟩

/-! ### Scanning runs of ordinary characters -/

theorem scan_stop {step : Str → Option (Str × Nat)} {i : Str} (h : step i = none) :
    scan step 0 i = ([], i) := by
  cases i with
  | nil => rfl
  | cons c cs => simp only [scan, h]

theorem scan_run {step : Str → Option (Str × Nat)} :
    ∀ (p rest : Str), (∀ c ∈ p, ∀ r, step (c :: r) = some ([c], 1)) →
      scan step 0 (p ++ rest) = (p ++ (scan step 0 rest).1, (scan step 0 rest).2)
  | [], rest, _ => rfl
  | c :: cs, rest, h => by
    have h1 := h c (List.mem_cons_self) (cs ++ rest)
    have ih := scan_run cs rest (fun d hd r => h d (List.mem_cons_of_mem _ hd) r)
    simp only [List.cons_append, scan, h1, Nat.sub_self, ih, List.nil_append]

theorem scan_run_stop {step : Str → Option (Str × Nat)} {p rest : Str}
    (hp : ∀ c ∈ p, ∀ r, step (c :: r) = some ([c], 1)) (hr : step rest = none) :
    scan step 0 (p ++ rest) = (p, rest) := by
  rw [scan_run p rest hp, scan_stop hr]; simp

theorem startsWith_cons_ne {c d : Char} {cs ps : Str} (h : c ≠ d) :
    startsWith (c :: cs) (d :: ps) = false := by
  simp [startsWith, h]

theorem contentStep_plain {c : Char} (h1 : c ≠ '$') (h2 : c ≠ '\\') (r : Str) :
    contentStep (c :: r) = some ([c], 1) := by
  simp [contentStep, refNotOpen, startsWith_cons_ne h1, startsWith_cons_ne h2]

theorem refStringStep_plain {c : Char} (h1 : c ≠ '$') (h2 : c ≠ '\\') (h3 : c ≠ '}') (r : Str) :
    refStringStep (c :: r) = some ([c], 1) := by
  simp [refStringStep, refNotOpen, refNotClose, startsWith_cons_ne h1, startsWith_cons_ne h2,
    startsWith_cons_ne h3]

theorem contentStep_nil : contentStep [] = none := rfl
theorem contentStep_open (r : Str) : contentStep ('$' :: '{' :: r) = none := by
  simp [contentStep, refNotOpen, startsWith]
theorem refStringStep_nil : refStringStep [] = none := by
  simp [refStringStep, startsWith]
theorem refStringStep_open (r : Str) : refStringStep ('$' :: '{' :: r) = none := by
  simp [refStringStep, refNotOpen, startsWith]
theorem refStringStep_close (r : Str) : refStringStep ('}' :: r) = none := by
  simp [refStringStep, refNotClose, startsWith]

/-- `content` on a run of characters other than `$` and `\`, followed by a stopping point. -/
theorem content_run_stop {p rest : Str} (hp : ∀ c ∈ p, c ≠ '$' ∧ c ≠ '\\')
    (hr : contentStep rest = none) : content (p ++ rest) = (p, rest) :=
  scan_run_stop (fun c hc r => contentStep_plain (hp c hc).1 (hp c hc).2 r) hr

/-- `refString` on a run of characters other than `$`, `\`, `}`, followed by a stopping point. -/
theorem refString_run_stop {p rest : Str} (hp : ∀ c ∈ p, c ≠ '$' ∧ c ≠ '\\' ∧ c ≠ '}')
    (hr : refStringStep rest = none) : refString (p ++ rest) = (p, rest) :=
  scan_run_stop (fun c hc r => refStringStep_plain (hp c hc).1 (hp c hc).2.1 (hp c hc).2.2 r) hr

theorem stringP_run_stop {p rest : Str} (hne : p ≠ []) (hp : ∀ c ∈ p, c ≠ '$' ∧ c ≠ '\\')
    (hr : contentStep rest = none) : stringP (p ++ rest) = some (p, rest) := by
  cases p with
  | nil => exact absurd rfl hne
  | cons c cs =>
    have hc := hp c List.mem_cons_self
    have h1 : doubleEscape (c :: cs ++ rest) = none := by
      unfold doubleEscape; split
      · rename_i heq; simp only [List.cons_append, List.cons.injEq] at heq; exact absurd heq.1 hc.2
      · rfl
    have h2 : refEscapeOpen (c :: cs ++ rest) = none := by
      unfold refEscapeOpen; split
      · rename_i heq; simp only [List.cons_append, List.cons.injEq] at heq; exact absurd heq.1 hc.2
      · rfl
    have h3 : invEscapeOpen (c :: cs ++ rest) = none := by
      unfold invEscapeOpen; split
      · rename_i heq; simp only [List.cons_append, List.cons.injEq] at heq; exact absurd heq.1 hc.2
      · rfl
    unfold stringP
    rw [h1, h2, h3, content_run_stop hp hr]
    simp

theorem stringP_open (r : Str) : stringP ('$' :: '{' :: r) = none := by
  have : content ('$' :: '{' :: r) = ([], '$' :: '{' :: r) := scan_stop (contentStep_open r)
  simp [stringP, doubleEscape, refEscapeOpen, invEscapeOpen, this]

theorem stringP_nil : stringP [] = none := by
  simp [stringP, doubleEscape, refEscapeOpen, invEscapeOpen, content, scan]

theorem reference_plain_head {n : Nat} {c : Char} {r : Str} (h : c ≠ '$') :
    reference (n + 1) (c :: r) = .error .fail :=
  reference_not_open (startsWith_cons_ne h)

theorem reference_nil {n : Nat} : reference (n + 1) [] = .error .fail :=
  reference_not_open rfl

/-- Top level: a non-empty run without `$` and `\` that ends where `content` must stop
becomes one literal item. -/
theorem items_run {n : Nat} {p rest : Str} (hne : p ≠ []) (hp : ∀ c ∈ p, c ≠ '$' ∧ c ≠ '\\')
    (hr : contentStep rest = none) :
    items (n + 2) (p ++ rest) = consTok (.lit p) (items (n + 1) rest) := by
  have hs := stringP_run_stop hne hp hr
  cases p with
  | nil => exact absurd rfl hne
  | cons c cs =>
    exact items_str (reference_plain_head (hp c List.mem_cons_self).1) hs

/-- Inside a reference: a non-empty run without `$`, `\`, `}` that ends where `ref_string`
must stop becomes one literal item. -/
theorem refItems_run {n : Nat} {p rest : Str} (hne : p ≠ [])
    (hp : ∀ c ∈ p, c ≠ '$' ∧ c ≠ '\\' ∧ c ≠ '}') (hr : refStringStep rest = none) :
    refItems (n + 2) (p ++ rest) = consTok (.lit p) (refItems (n + 1) rest) := by
  have hs := refString_run_stop hp hr
  cases p with
  | nil => exact absurd rfl hne
  | cons c cs =>
    have h := refItems_str (n := n + 1) (i := c :: cs ++ rest)
      (reference_plain_head (hp c List.mem_cons_self).1) (by rw [hs]; simp)
    rw [h, hs]

theorem items_nil {n : Nat} : items (n + 2) [] = .ok ([], []) :=
  items_stop reference_nil stringP_nil

theorem refItems_close {n : Nat} (r : Str) : refItems (n + 2) ('}' :: r) = .ok ([], '}' :: r) :=
  refItems_stop (reference_plain_head (by decide)) (by rw [refString, scan_stop (refStringStep_close r)])

/-! ### `containsMarker` and transfer to `Token.parse` -/

theorem containsMarker_cons (c : Char) (cs : Str) :
    containsMarker (c :: cs) =
      (startsWith (c :: cs) ['$', '{'] || startsWith (c :: cs) ['$', '['] || containsMarker cs) := by
  cases cs with
  | nil => simp [containsMarker, startsWith]
  | cons d ds =>
    by_cases hc : c = '$'
    · subst hc
      by_cases hd : d = '{'
      · subst hd; simp [containsMarker, startsWith]
      · by_cases hd2 : d = '['
        · subst hd2; simp [containsMarker, startsWith]
        · rw [containsMarker.eq_4]
          · simp [startsWith, hd, hd2]
          · intro r _ h; simp only [List.cons.injEq] at h; exact hd h.1
          · intro r _ h; simp only [List.cons.injEq] at h; exact hd2 h.1
    · rw [containsMarker.eq_4]
      · simp [startsWith, hc]
      · intro r h _; exact hc h
      · intro r h _; exact hc h

theorem containsMarker_iff (s : Str) :
    containsMarker s = true ↔
      ∃ pre post, s = pre ++ '$' :: '{' :: post ∨ s = pre ++ '$' :: '[' :: post := by
  induction s with
  | nil =>
    simp only [containsMarker, Bool.false_eq_true, false_iff]
    rintro ⟨pre, post, h | h⟩ <;> cases pre <;> simp at h
  | cons c cs ih =>
    rw [containsMarker_cons]
    simp only [Bool.or_eq_true, startsWith_iff_prefix]
    constructor
    · rintro ((⟨r, hr⟩ | ⟨r, hr⟩) | h)
      · exact ⟨[], r, Or.inl hr.symm⟩
      · exact ⟨[], r, Or.inr hr.symm⟩
      · obtain ⟨pre, post, h' | h'⟩ := ih.1 h
        · exact ⟨c :: pre, post, Or.inl (by rw [h']; rfl)⟩
        · exact ⟨c :: pre, post, Or.inr (by rw [h']; rfl)⟩
    · rintro ⟨pre, post, h | h⟩
      · cases pre with
        | nil => left; left; exact ⟨post, h.symm⟩
        | cons d pre' =>
          right
          simp only [List.cons_append, List.cons.injEq] at h
          exact ih.2 ⟨pre', post, Or.inl h.2⟩
      · cases pre with
        | nil => left; right; exact ⟨post, h.symm⟩
        | cons d pre' =>
          right
          simp only [List.cons_append, List.cons.injEq] at h
          exact ih.2 ⟨pre', post, Or.inr h.2⟩

theorem containsMarker_open (pre post : Str) :
    containsMarker (pre ++ '$' :: '{' :: post) = true :=
  (containsMarker_iff _).2 ⟨pre, post, Or.inl rfl⟩

theorem containsMarker_inv (pre post : Str) :
    containsMarker (pre ++ '$' :: '[' :: post) = true :=
  (containsMarker_iff _).2 ⟨pre, post, Or.inr rfl⟩

/-- A successful parse at any fuel is the answer of `Token.parse`. -/
theorem parse_ok_of {s : Str} {n : Nat} {t : Token} (hm : containsMarker s = true)
    (h : parseRefF n s = .ok t) : Token.parse s = .ok (some t) := by
  have h1 : parseRefF (parseFuel s) s = .ok t := by
    rw [parseRefF_parseFuel (n := n) (by rw [h]; simp), h]
  simp [Token.parse, hm, h1]

/-- A grammar failure at any fuel is the (error) answer of `Token.parse`. -/
theorem parse_error_of {s : Str} {n : Nat} (hm : containsMarker s = true)
    (h : parseRefF n s = .error .fail) : Token.parse s = .error (.parse s) := by
  have h1 : parseRefF (parseFuel s) s = .error .fail := by
    rw [parseRefF_parseFuel (n := n) (by rw [h]; simp), h]
  simp [Token.parse, hm, h1]

/-- A grammar that cannot succeed at any fuel is an error of `Token.parse`. -/
theorem parse_error_of_forall {s : Str} (hm : containsMarker s = true)
    (h : ∀ n t, parseRefF n s ≠ .ok t) : Token.parse s = .error (.parse s) := by
  cases hp : parseRefF (parseFuel s) s with
  | ok t => exact absurd hp (h _ t)
  | error e =>
    cases e with
    | fuel => exact absurd hp (parseRefF_fuel_enough (by unfold parseFuel; omega))
    | fail => exact parse_error_of hm hp

/-! ### A `${` that cannot be completed makes the whole parse fail -/

theorem items_stuck_open {r : Str}
    (hno : ∀ n t rest, reference n ('$' :: '{' :: r) ≠ .ok (t, rest)) :
    ∀ n ts rest, items n ('$' :: '{' :: r) = .ok (ts, rest) → rest = '$' :: '{' :: r := by
  intro n ts rest h
  cases n with
  | zero => simp [items] at h
  | succ n =>
    cases hr : reference n ('$' :: '{' :: r) with
    | error e =>
      cases e with
      | fuel => rw [items_fuel hr] at h; simp at h
      | fail =>
        rw [items_stop hr (stringP_open r)] at h
        simp only [Except.ok.injEq, Prod.mk.injEq] at h
        exact h.2.symm
    | ok p => exact absurd hr (hno n p.1 p.2)

theorem items_run_stuck_open {pre r : Str} (hpre : ∀ c ∈ pre, c ≠ '$' ∧ c ≠ '\\')
    (hno : ∀ n t rest, reference n ('$' :: '{' :: r) ≠ .ok (t, rest)) :
    ∀ n ts rest, items n (pre ++ '$' :: '{' :: r) = .ok (ts, rest) → rest = '$' :: '{' :: r := by
  intro n ts rest h
  by_cases hne : pre = []
  · subst hne; exact items_stuck_open hno n ts rest h
  · match n, h with
    | 0, h => simp [items] at h
    | 1, h => rw [items_fuel (reference.eq_1 _)] at h; simp at h
    | n + 2, h =>
      rw [items_run hne hpre (contentStep_open r)] at h
      obtain ⟨ts', _, h'⟩ := consTok_eq_ok h
      exact items_stuck_open hno _ _ _ h'

/-- After a run of ordinary text, a `${` from which `reference` can never succeed is
neither skipped nor taken as text: `Token.parse` fails. -/
theorem parse_stuck_open {pre r : Str} (hpre : ∀ c ∈ pre, c ≠ '$' ∧ c ≠ '\\')
    (hno : ∀ n t rest, reference n ('$' :: '{' :: r) ≠ .ok (t, rest)) :
    Token.parse (pre ++ '$' :: '{' :: r) = .error (.parse (pre ++ '$' :: '{' :: r)) := by
  apply parse_error_of_forall (containsMarker_open pre r)
  intro n t hp
  obtain ⟨ts, hi, _, _⟩ := parseRefF_ok_inv hp
  have := items_run_stuck_open hpre hno n ts [] hi
  cases this

/-- A reference can only succeed if a `}` follows its `${`. -/
theorem reference_needs_close {n : Nat} {r rest : Str} {t : Token}
    (h : reference n ('$' :: '{' :: r) = .ok (t, rest)) : '}' ∈ r := by
  obtain ⟨m, r', ts, _, hi, hri, _, _⟩ := reference_ok_inv h
  simp only [List.cons.injEq, true_and] at hi
  subst hi
  exact (refItems_suffix hri).subset List.mem_cons_self

/-- `${}` is never a reference. -/
theorem reference_empty_fails {n : Nat} {post rest : Str} {t : Token} :
    reference n ('$' :: '{' :: '}' :: post) ≠ .ok (t, rest) := by
  intro h
  obtain ⟨m, r', ts, _, hi, hri, hne, _⟩ := reference_ok_inv h
  simp only [List.cons.injEq, true_and] at hi
  subst hi
  match m, hri with
  | 0, hri => simp [refItems] at hri
  | 1, hri => rw [refItems_fuel (reference.eq_1 _)] at hri; simp at hri
  | m + 2, hri =>
    rw [refItems_close] at hri
    simp only [Except.ok.injEq, Prod.mk.injEq] at hri
    exact hne hri.1.symm

/-! ### A simple `${path}` -/

theorem refItems_simple {n : Nat} {path post : Str} (hne : path ≠ [])
    (hp : ∀ c ∈ path, c ≠ '$' ∧ c ≠ '\\' ∧ c ≠ '}') :
    refItems (n + 3) (path ++ '}' :: post) = .ok ([.lit path], '}' :: post) := by
  rw [refItems_run hne hp (refStringStep_close post), refItems_close]; rfl

theorem reference_simple {n : Nat} {path post : Str} (hne : path ≠ [])
    (hp : ∀ c ∈ path, c ≠ '$' ∧ c ≠ '\\' ∧ c ≠ '}') :
    reference (n + 4) ('$' :: '{' :: (path ++ '}' :: post)) = .ok (.ref [.lit path], post) := by
  rw [reference_of_refItems (refItems_simple hne hp) (by simp)]; rfl

theorem items_tail {n : Nat} {post : Str} (hp : ∀ c ∈ post, c ≠ '$' ∧ c ≠ '\\') :
    items (n + 3) post = .ok (if post = [] then [] else [.lit post], []) := by
  by_cases h : post = []
  · subst h; exact items_nil
  · have := items_run (n := n + 1) (rest := []) h hp contentStep_nil
    rw [List.append_nil, items_nil] at this
    rw [this, if_neg h]; rfl

/-! ### Case analysis of `stringP`, and literal-only token lists -/

theorem content_cons (c : Char) (r : Str) :
    content (c :: r) =
      if refNotOpen (c :: r) then (c :: (content r).1, (content r).2) else ([], c :: r) := by
  unfold content
  by_cases h : refNotOpen (c :: r) = true
  · simp [scan, contentStep, h]
  · simp [scan, contentStep, h]

theorem refEscapeOpen_eq_none {i : Str} (h : refEscapeOpen i = none) :
    startsWith i ['\\', '$', '{'] = false := by
  cases hb : startsWith i ['\\', '$', '{'] with
  | false => rfl
  | true =>
    obtain ⟨r, hr⟩ := (startsWith_iff_prefix _ _).1 hb
    subst hr
    simp [refEscapeOpen] at h

theorem invEscapeOpen_eq_none {i : Str} (h : invEscapeOpen i = none) :
    startsWith i ['\\', '$', '['] = false := by
  cases hb : startsWith i ['\\', '$', '['] with
  | false => rfl
  | true =>
    obtain ⟨r, hr⟩ := (startsWith_iff_prefix _ _).1 hb
    subst hr
    simp [invEscapeOpen] at h

theorem doubleEscape_eq_none {i : Str} (h : doubleEscape i = none) :
    startsWith i ['\\', '\\', '}'] = false ∧ startsWith i ['\\', '\\', '$', '{'] = false := by
  constructor
  · cases hb : startsWith i ['\\', '\\', '}'] with
    | false => rfl
    | true =>
      obtain ⟨r, hr⟩ := (startsWith_iff_prefix _ _).1 hb
      subst hr
      simp [doubleEscape, startsWith] at h
  · cases hb : startsWith i ['\\', '\\', '$', '{'] with
    | false => rfl
    | true =>
      obtain ⟨r, hr⟩ := (startsWith_iff_prefix _ _).1 hb
      subst hr
      simp [doubleEscape, startsWith] at h

theorem stringP_of_doubleEscape {i : Str} {p : Str × Str} (h : doubleEscape i = some p) :
    stringP i = some p := by
  simp [stringP, h]

theorem stringP_of_refEscapeOpen {i : Str} {p : Str × Str} (h0 : doubleEscape i = none)
    (h : refEscapeOpen i = some p) : stringP i = some p := by
  simp [stringP, h0, h]

theorem stringP_of_invEscapeOpen {i : Str} {p : Str × Str} (h0 : doubleEscape i = none)
    (h1 : refEscapeOpen i = none) (h : invEscapeOpen i = some p) : stringP i = some p := by
  simp [stringP, h0, h1, h]

theorem stringP_of_content {c : Char} {r : Str} (h0 : doubleEscape (c :: r) = none)
    (h1 : refEscapeOpen (c :: r) = none) (h2 : invEscapeOpen (c :: r) = none)
    (h : refNotOpen (c :: r) = true) :
    stringP (c :: r) = some (c :: (content r).1, (content r).2) := by
  simp [stringP, h0, h1, h2, content_cons, h]

/-- Coalescing a non-empty list of literals gives the one concatenated literal. -/
theorem coalesce_lits : ∀ (ls : List Str), ls ≠ [] →
    coalesce (ls.map Token.lit) = [.lit ls.flatten]
  | [], h => absurd rfl h
  | [a], _ => by simp [coalesce]
  | a :: b :: r, _ => by
    have ih := coalesce_lits (b :: r) (by simp)
    rcases coalesce_lit_cases a ((b :: r).map Token.lit) with ⟨x, r', h1, h2⟩ | ⟨h1, _⟩
    · rw [ih] at h1
      simp only [List.cons.injEq, Token.lit.injEq] at h1
      rw [List.map_cons, h2, ← h1.1, ← h1.2]
      simp
    · rw [ih] at h1
      simp [headIsLit, Token.isLit] at h1

/-! ### Escapes next to live references -/

theorem scan_skip (step : Str → Option (Str × Nat)) :
    ∀ (i : Str) (k : Nat), scan step k i = scan step 0 (i.drop k)
  | [], k => by simp [scan]
  | c :: cs, 0 => rfl
  | c :: cs, k + 1 => by
    simp only [scan, List.drop_succ_cons]
    exact scan_skip step cs k

/-- Inside a reference `\}` is a literal `}` and the run goes on. -/
theorem refString_escClose (r : Str) :
    refString ('\\' :: '}' :: r) = ('}' :: (refString r).1, (refString r).2) := by
  have h : refStringStep ('\\' :: '}' :: r) = some (['}'], 2) := by
    simp [refStringStep, startsWith]
  unfold refString
  simp only [scan, h]
  rw [scan_skip]
  rfl

theorem refString_run {p rest : Str} (hp : ∀ c ∈ p, c ≠ '$' ∧ c ≠ '\\' ∧ c ≠ '}') :
    refString (p ++ rest) = (p ++ (refString rest).1, (refString rest).2) :=
  scan_run p rest (fun c hc r => refStringStep_plain (hp c hc).1 (hp c hc).2.1 (hp c hc).2.2 r)

/-- `${a\}b}`: the escaped `}` does not close the reference. -/
theorem reference_escClose {n : Nat} {a b post : Str}
    (ha : ∀ c ∈ a, c ≠ '$' ∧ c ≠ '\\' ∧ c ≠ '}') (hb : ∀ c ∈ b, c ≠ '$' ∧ c ≠ '\\' ∧ c ≠ '}') :
    reference (n + 4) ('$' :: '{' :: (a ++ '\\' :: '}' :: (b ++ '}' :: post))) =
      .ok (.ref [.lit (a ++ '}' :: b)], post) := by
  have hs : refString (a ++ '\\' :: '}' :: (b ++ '}' :: post)) = (a ++ '}' :: b, '}' :: post) := by
    rw [refString_run ha, refString_escClose, refString_run_stop hb (refStringStep_close post)]
  have hr : reference (n + 2) (a ++ '\\' :: '}' :: (b ++ '}' :: post)) = .error .fail := by
    cases a with
    | nil => exact reference_plain_head (by decide)
    | cons c cs => exact reference_plain_head (ha c List.mem_cons_self).1
  have hi : refItems (n + 3) (a ++ '\\' :: '}' :: (b ++ '}' :: post)) =
      .ok ([.lit (a ++ '}' :: b)], '}' :: post) := by
    rw [refItems_str hr (by rw [hs]; simp), hs, refItems_close]; rfl
  rw [reference_of_refItems hi (by simp)]; rfl

/-- `\\` directly before `${` is one literal backslash, and the `${` after it is live. -/
theorem items_dblEsc {n : Nat} {r : Str} :
    items (n + 2) ('\\' :: '\\' :: '$' :: '{' :: r) =
      consTok (.lit ['\\']) (items (n + 1) ('$' :: '{' :: r)) := by
  have hd : doubleEscape ('\\' :: '\\' :: '$' :: '{' :: r) = some (['\\'], '$' :: '{' :: r) := by
    simp [doubleEscape, startsWith]
  exact items_str (reference_plain_head (by decide)) (stringP_of_doubleEscape hd)

theorem contentStep_dblEsc (r : Str) : contentStep ('\\' :: '\\' :: '$' :: '{' :: r) = none := by
  simp [contentStep, refNotOpen, startsWith]

end Reclass
