/-
  Helper lemmas for the naming functions of `Reclass.Model.Node` / `Reclass.Model.Discover`:
  `splitDots`, `absClassName`, `UList` folds (first-occurrence deduplication), `splitOn`,
  `joinWith`, `splitLastDot` / `fileExtension` / `fileStem`, `deriveEntity`, `walkEntries`,
  and the little mapping built by `MetaM.asReclass`.
-/
import Reclass.Model.Discover
import Reclass.Lemmas.MappingL
namespace Reclass

/-! ### `splitDots` -/

theorem splitDots_nodot {r : Str} (h : r.head? ≠ some '.') : splitDots r = (0, r) := by
  unfold splitDots
  split
  · simp at h
  · rfl

theorem splitDots_dot (cs : Str) : splitDots ('.' :: cs) = ((splitDots cs).1 + 1, (splitDots cs).2) := by
  rw [splitDots]

/-- `k` leading dots followed by something that does not start with a dot. -/
theorem splitDots_replicate (k : Nat) {r : Str} (h : r.head? ≠ some '.') :
    splitDots (List.replicate k '.' ++ r) = (k, r) := by
  induction k with
  | zero => simpa using splitDots_nodot h
  | succ k ih =>
    rw [List.replicate_succ, List.cons_append, splitDots_dot, ih]

/-- Every string is some dots followed by a dot-free start. -/
theorem splitDots_spec (s : Str) :
    s = List.replicate (splitDots s).1 '.' ++ (splitDots s).2 ∧ (splitDots s).2.head? ≠ some '.' := by
  induction s with
  | nil => simp [splitDots]
  | cons c cs ih =>
    by_cases hc : c = '.'
    · subst hc
      rw [splitDots_dot]
      refine ⟨?_, ih.2⟩
      simp only [List.replicate_succ, List.cons_append]
      rw [← ih.1]
    · have : (c :: cs).head? ≠ some '.' := by simpa using hc
      rw [splitDots_nodot this]
      exact ⟨by simp, this⟩

/-! ### `absClassName` -/

theorem absClassName_nodot (loc : Option (List Str)) {cls : Str} (h : cls.head? ≠ some '.') :
    absClassName loc cls = cls := by
  unfold absClassName
  split
  · simp at h
  · rfl

theorem absClassName_dot (loc : Option (List Str)) (cs : Str) :
    absClassName loc ('.' :: cs) =
      (((loc.getD []) ++ [['<']]).take (((loc.getD []) ++ [['<']]).length - (splitDots ('.' :: cs)).1)).flatMap
        (fun seg => seg ++ ['.']) ++ (splitDots ('.' :: cs)).2 := by
  rw [absClassName]

theorem absClassName_none (cls : Str) : absClassName none cls = absClassName (some []) cls := by
  unfold absClassName
  rfl

/-- The general relative case, in terms of `loc.getD []`. -/
theorem absClassName_replicate (loc : Option (List Str)) (k : Nat) (hk : 1 ≤ k) {r : Str}
    (h : r.head? ≠ some '.') :
    absClassName loc (List.replicate k '.' ++ r) =
      ((loc.getD []).take ((loc.getD []).length - (k - 1))).flatMap (fun s => s ++ ['.']) ++ r := by
  obtain ⟨k', rfl⟩ : ∃ k', k = k' + 1 := ⟨k - 1, by omega⟩
  have hs := splitDots_replicate (k' + 1) h
  rw [List.replicate_succ, List.cons_append] at hs ⊢
  rw [absClassName_dot, hs]
  simp only [List.length_append, List.length_singleton, Nat.add_sub_cancel]
  have : (loc.getD []).length + 1 - (k' + 1) = (loc.getD []).length - k' := by omega
  rw [this, List.take_append_of_le_length (by omega)]

/-! ### `UList`: folds of `appendIfNew` are first-occurrence deduplication -/

/-- First-occurrence deduplication relative to a list of already seen entries. -/
def nub : List Str → List Str → List Str
  | _, [] => []
  | seen, x :: xs => if x ∈ seen then nub seen xs else x :: nub (seen ++ [x]) xs

theorem foldl_appendIfNew_items (f : Str → Str) (xs : List Str) (acc : UList) :
    (xs.foldl (fun a c => a.appendIfNew (f c)) acc).items = acc.items ++ nub acc.items (xs.map f) := by
  induction xs generalizing acc with
  | nil => simp [nub]
  | cons x xs ih =>
    simp only [List.foldl_cons, List.map_cons, nub]
    rw [ih]
    unfold UList.appendIfNew
    by_cases h : f x ∈ acc.items
    · simp [h]
    · simp [h]

theorem ofList_items (xs : List Str) : (UList.ofList xs).items = nub [] xs := by
  have := foldl_appendIfNew_items id xs {}
  simpa [UList.ofList] using this

/-- `nub` only depends on the seen list through membership. -/
theorem nub_congr {s s' : List Str} (h : ∀ x, x ∈ s ↔ x ∈ s') (xs : List Str) : nub s xs = nub s' xs := by
  induction xs generalizing s s' with
  | nil => rfl
  | cons x xs ih =>
    simp only [nub]
    by_cases hx : x ∈ s
    · have hx' : x ∈ s' := (h x).1 hx
      simp only [hx, hx', if_true]; exact ih h
    · have hx' : x ∉ s' := fun e => hx ((h x).2 e)
      simp only [hx, hx', if_false]
      congr 1
      apply ih
      intro y; simp [h y]

theorem mem_nub {s xs : List Str} {y : Str} : y ∈ nub s xs ↔ y ∈ xs ∧ y ∉ s := by
  induction xs generalizing s with
  | nil => simp [nub]
  | cons x xs ih =>
    simp only [nub]
    by_cases hx : x ∈ s
    · simp only [hx, if_true, ih, List.mem_cons]
      constructor
      · rintro ⟨h1, h2⟩; exact ⟨Or.inr h1, h2⟩
      · rintro ⟨h1 | h1, h2⟩
        · subst h1; exact absurd hx h2
        · exact ⟨h1, h2⟩
    · simp only [hx, if_false, List.mem_cons, ih, List.mem_append, List.not_mem_nil, or_false, not_or]
      constructor
      · rintro (h1 | ⟨h1, h2, _⟩)
        · subst h1; exact ⟨Or.inl rfl, hx⟩
        · exact ⟨Or.inr h1, h2⟩
      · rintro ⟨h1 | h1, h2⟩
        · exact Or.inl h1
        · by_cases e : y = x
          · exact Or.inl e
          · exact Or.inr ⟨h1, h2, e⟩

theorem nub_nodup (s xs : List Str) : (nub s xs).Nodup := by
  induction xs generalizing s with
  | nil => simp [nub]
  | cons x xs ih =>
    simp only [nub]
    by_cases hx : x ∈ s
    · simp only [hx, if_true]; exact ih s
    · simp only [hx, if_false, List.nodup_cons]
      refine ⟨?_, ih _⟩
      intro hm
      have := (mem_nub.1 hm).2
      simp at this

/-- Deduplicating before mapping does not change the deduplicated image. -/
theorem nub_map_nub (f : Str → Str) (xs : List Str) :
    ∀ (S T : List Str), (∀ t ∈ T, f t ∈ S) → nub S ((nub T xs).map f) = nub S (xs.map f) := by
  induction xs with
  | nil => intro S T _; rfl
  | cons x xs ih =>
    intro S T hST
    by_cases hx : x ∈ T
    · have hfx : f x ∈ S := hST x hx
      simp only [nub, hx, if_true, List.map_cons, hfx]
      exact ih S T hST
    · simp only [nub, hx, if_false, List.map_cons]
      by_cases hfx : f x ∈ S
      · simp only [hfx, if_true]
        apply ih
        intro t ht
        rcases List.mem_append.1 ht with h | h
        · exact hST t h
        · simp at h; subst h; exact hfx
      · simp only [hfx, if_false]
        congr 1
        apply ih
        intro t ht
        rcases List.mem_append.1 ht with h | h
        · exact List.mem_append_left _ (hST t h)
        · simp at h; subst h; simp

theorem nub_nub (xs : List Str) : nub [] (nub [] xs) = nub [] xs := by
  have := nub_map_nub id xs [] [] (by simp)
  simpa using this

/-- The class list of a parsed file, as a pure list function. -/
theorem ofSrc_classes_items {loc : Option (List Str)} {src : ClassSrc} {n : NodeM}
    (h : NodeM.ofSrc loc src = .ok n) :
    n.classes.items = nub [] ((nub [] src.classes).map (absClassName loc)) := by
  unfold NodeM.ofSrc at h
  cases hp : Mapping.ofYamlEntries src.params with
  | error e => simp [hp] at h
  | ok p =>
    simp only [hp] at h
    injection h with h
    subst h
    simp only
    rw [foldl_appendIfNew_items, ofList_items]
    rfl

theorem ulist_ext {a b : UList} (h : a.items = b.items) : a = b := by
  cases a; cases b; simp only at h; rw [h]

/-- `NodeM.ofSrc` with the class list as a pure list function. -/
theorem ofSrc_eq (loc : Option (List Str)) (src : ClassSrc) :
    NodeM.ofSrc loc src =
      match Mapping.ofYamlEntries src.params with
      | .error e => .error e
      | .ok p => .ok { apps := RList.ofList src.apps,
                       classes := { items := nub [] ((nub [] src.classes).map (absClassName loc)) },
                       params := p, loc := loc } := by
  unfold NodeM.ofSrc
  cases hp : Mapping.ofYamlEntries src.params with
  | error e => rfl
  | ok p =>
    simp only
    have : (UList.ofList src.classes).items.foldl (fun acc c => acc.appendIfNew (absClassName loc c)) ({} : UList)
        = { items := nub [] ((nub [] src.classes).map (absClassName loc)) } := by
      apply ulist_ext
      rw [foldl_appendIfNew_items, ofList_items]
      rfl
    rw [this]

/-- Mapping an idempotent-on-its-image function over the input first gives the same list. -/
theorem nub_twin (f : Str → Str) (cs : List Str) (hidem : ∀ c ∈ cs, f (f c) = f c) :
    nub [] ((nub [] (cs.map f)).map f) = nub [] ((nub [] cs).map f) := by
  have h1 : (nub [] (cs.map f)).map f = nub [] (cs.map f) := by
    have : ∀ y ∈ nub [] (cs.map f), f y = id y := by
      intro y hy
      obtain ⟨c, hc, rfl⟩ := List.mem_map.1 (mem_nub.1 hy).1
      exact hidem c hc
    rw [List.map_congr_left this, List.map_id]
  rw [h1, nub_nub]
  exact (nub_map_nub f cs [] [] (by simp)).symm

/-- The dotted prefix plus a last component is a `.`-join. -/
theorem flatMap_dot_append (segs : List Str) (r : Str) :
    (segs.flatMap fun s => s ++ ['.']) ++ r = joinWith ['.'] (segs ++ [r]) := by
  induction segs with
  | nil => rfl
  | cons x xs ih =>
    rw [List.flatMap_cons, List.append_assoc, ih]
    cases xs with
    | nil => rfl
    | cons y ys => rfl

/-! ### `splitOn` and `joinWith` -/

theorem splitOn_ne_nil (sep : Char) (s : Str) : splitOn sep s ≠ [] := by
  induction s with
  | nil => simp [splitOn]
  | cons c cs ih =>
    rw [splitOn]
    split
    · simp
    · split <;> simp

theorem splitOn_cons_sep (sep : Char) (cs : Str) : splitOn sep (sep :: cs) = [] :: splitOn sep cs := by
  rw [splitOn]
  split
  · rename_i h; exact absurd h (splitOn_ne_nil sep cs)
  · rename_i seg segs h; simp [h]

theorem splitOn_cons_ne {sep c : Char} (hc : c ≠ sep) (cs : Str) :
    splitOn sep (c :: cs) = (c :: (splitOn sep cs).head (splitOn_ne_nil sep cs)) :: (splitOn sep cs).tail := by
  rw [splitOn]
  split
  · rename_i h; exact absurd h (splitOn_ne_nil sep cs)
  · rename_i seg segs h; simp [h, hc]

/-- A separator-free string is a single segment. -/
theorem splitOn_nosep {sep : Char} {x : Str} (h : ∀ c ∈ x, c ≠ sep) : splitOn sep x = [x] := by
  induction x with
  | nil => rfl
  | cons c x ih =>
    have hx : splitOn sep x = [x] := ih (fun d hd => h d (List.mem_cons_of_mem _ hd))
    rw [splitOn_cons_ne (h c List.mem_cons_self)]
    simp [hx]

theorem splitOn_append_sep {sep : Char} {x : Str} (h : ∀ c ∈ x, c ≠ sep) (rest : Str) :
    splitOn sep (x ++ sep :: rest) = x :: splitOn sep rest := by
  induction x with
  | nil => exact splitOn_cons_sep sep rest
  | cons c x ih =>
    have hx := ih (fun d hd => h d (List.mem_cons_of_mem _ hd))
    rw [List.cons_append, splitOn_cons_ne (h c List.mem_cons_self)]
    simp [hx]

theorem joinWith_nil (sep : Str) : joinWith sep [] = [] := rfl
theorem joinWith_single (sep x : Str) : joinWith sep [x] = x := rfl
theorem joinWith_cons_cons (sep x y : Str) (ys : List Str) :
    joinWith sep (x :: y :: ys) = x ++ sep ++ joinWith sep (y :: ys) := rfl

/-- Splitting a joined list of separator-free segments gives the segments back. -/
theorem splitOn_joinWith {sep : Char} {segs : List Str} (hne : segs ≠ [])
    (h : ∀ s ∈ segs, ∀ c ∈ s, c ≠ sep) : splitOn sep (joinWith [sep] segs) = segs := by
  induction segs with
  | nil => exact absurd rfl hne
  | cons x xs ih =>
    cases xs with
    | nil => exact splitOn_nosep (h x List.mem_cons_self)
    | cons y ys =>
      rw [joinWith_cons_cons, List.append_assoc, List.singleton_append,
        splitOn_append_sep (h x List.mem_cons_self),
        ih (by simp) (fun s hs => h s (List.mem_cons_of_mem _ hs))]

/-- The last segment of the joined text is the last segment of the list (empty list: empty). -/
theorem splitOn_joinWith_getLast {sep : Char} {segs : List Str}
    (h : ∀ s ∈ segs, ∀ c ∈ s, c ≠ sep) :
    (splitOn sep (joinWith [sep] segs)).getLast?.getD [] = segs.getLast?.getD [] := by
  cases segs with
  | nil => rfl
  | cons x xs => rw [splitOn_joinWith (by simp) h]

theorem joinWith_map (g : Char → Char) (sep : Str) (segs : List Str) :
    (joinWith sep segs).map g = joinWith (sep.map g) (segs.map (List.map g)) := by
  induction segs with
  | nil => rfl
  | cons x xs ih =>
    cases xs with
    | nil => rfl
    | cons y ys =>
      rw [joinWith_cons_cons, List.map_append, List.map_append, ih]
      rfl

/-- Turning the separators `/` of a joined list of `/`-free segments into `.`. -/
theorem joinWith_slash_to_dot {segs : List Str} (h : ∀ s ∈ segs, ∀ c ∈ s, c ≠ '/') :
    (joinWith ['/'] segs).map (fun c => if c = '/' then '.' else c) = joinWith ['.'] segs := by
  rw [joinWith_map]
  have : segs.map (List.map (fun c => if c = '/' then '.' else c)) = segs := by
    induction segs with
    | nil => rfl
    | cons x xs ih =>
      rw [List.map_cons, ih (fun s hs => h s (List.mem_cons_of_mem _ hs))]
      congr 1
      have hx := h x List.mem_cons_self
      clear h ih
      induction x with
      | nil => rfl
      | cons c cs ihc =>
        rw [List.map_cons, ihc (fun d hd => hx d (List.mem_cons_of_mem _ hd))]
        simp [hx c List.mem_cons_self]
  rw [this]
  rfl

/-- The joined text starts with `_` exactly when the first segment does. -/
theorem joinWith_head_underscore (segs : List Str) :
    ((joinWith ['/'] segs).head? = some '_') ↔ (segs.head?.bind List.head? = some '_') := by
  cases segs with
  | nil => simp [joinWith]
  | cons x xs =>
    cases xs with
    | nil => simp [joinWith]
    | cons y ys =>
      rw [joinWith_cons_cons]
      cases x with
      | nil => simp
      | cons c cs => simp

/-! ### `splitLastDot`, `fileExtension`, `fileStem` -/

theorem span_loop_eq {α} (p : α → Bool) (as acc : List α) :
    List.span.loop p as acc = (acc.reverse ++ as.takeWhile p, as.dropWhile p) := by
  induction as generalizing acc with
  | nil => simp [List.span.loop]
  | cons a as ih =>
    rw [List.span.loop]
    cases hp : p a with
    | true => simp [ih, hp]
    | false => simp [hp]

theorem span_eq {α} (p : α → Bool) (as : List α) : as.span p = (as.takeWhile p, as.dropWhile p) := by
  rw [List.span, span_loop_eq]; simp

theorem mem_takeWhile_pos {α} {p : α → Bool} {l : List α} {x : α} (h : x ∈ l.takeWhile p) : p x = true := by
  have := List.all_takeWhile (p := p) (l := l)
  exact List.all_eq_true.1 this x h

theorem dropWhile_nil_pos {α} {p : α → Bool} {l : List α} (h : l.dropWhile p = []) :
    ∀ x ∈ l, p x = true := by
  induction l with
  | nil => simp
  | cons a as ih =>
    cases hp : p a with
    | true =>
      rw [List.dropWhile_cons_of_pos hp] at h
      intro x hx
      rcases List.mem_cons.1 hx with rfl | hx
      · exact hp
      · exact ih h x hx
    | false =>
      rw [List.dropWhile_cons_of_neg (by simp [hp])] at h
      cases h

theorem splitLastDot_append {stem ext : Str} (hext : ∀ c ∈ ext, c ≠ '.') :
    splitLastDot (stem ++ '.' :: ext) = some (stem, ext) := by
  have hrev : (stem ++ '.' :: ext).reverse = ext.reverse ++ '.' :: stem.reverse := by simp
  have hall : ∀ a ∈ ext.reverse, (a != '.') = true := by
    intro a ha; simpa using hext a (List.mem_reverse.1 ha)
  have htw : ((stem ++ '.' :: ext).reverse).takeWhile (· != '.') = ext.reverse := by
    rw [hrev, List.takeWhile_append_of_pos hall, List.takeWhile_cons_of_neg (by simp)]; simp
  have hdw : ((stem ++ '.' :: ext).reverse).dropWhile (· != '.') = '.' :: stem.reverse := by
    rw [hrev, List.dropWhile_append_of_pos hall, List.dropWhile_cons_of_neg (by simp)]
  unfold splitLastDot
  simp only [span_eq, htw, hdw, List.reverse_reverse]

/-- Converse: whatever `splitLastDot` returns is a split at the last dot. -/
theorem splitLastDot_some {name before after : Str} (h : splitLastDot name = some (before, after)) :
    name = before ++ '.' :: after ∧ ∀ c ∈ after, c ≠ '.' := by
  unfold splitLastDot at h
  simp only [span_eq] at h
  have hcat := List.takeWhile_append_dropWhile (p := (· != '.')) (l := name.reverse)
  split at h
  · cases h
  · rename_i afterRev x beforeRev heq
    injection h with h
    injection h with hb ha
    injection heq with h1 h2
    have hx : x = '.' := by
      have := List.head_dropWhile_not (· != '.') (l := name.reverse) (by rw [h2]; simp)
      simp only [h2, List.head_cons] at this
      simpa using this
    subst hx
    constructor
    · have : name.reverse = afterRev ++ '.' :: beforeRev := by rw [← hcat, h1, h2]
      have h3 := congrArg List.reverse this
      simp only [List.reverse_reverse, List.reverse_append, List.reverse_cons, List.append_assoc,
        List.singleton_append] at h3
      rw [h3, ← hb, ← ha]
    · intro c hc
      rw [← ha] at hc
      have hc' : c ∈ List.takeWhile (· != '.') name.reverse := by rw [h1]; exact List.mem_reverse.1 hc
      have := mem_takeWhile_pos hc'
      simpa using this

theorem splitLastDot_none {name : Str} (h : splitLastDot name = none) : ∀ c ∈ name, c ≠ '.' := by
  unfold splitLastDot at h
  simp only [span_eq] at h
  split at h
  · rename_i a heq
    injection heq with h1 h2
    intro c hc
    have hall : ∀ x ∈ name.reverse, (x != '.') = true := by
      exact dropWhile_nil_pos h2
    simpa using hall c (List.mem_reverse.2 hc)
  · cases h

/-- `stem.ext`: the extension is what follows the last dot … -/
theorem fileExtension_append {stem ext : Str} (hstem : stem ≠ []) (hext : ∀ c ∈ ext, c ≠ '.')
    (hdd : stem ++ '.' :: ext ≠ ['.', '.']) : fileExtension (stem ++ '.' :: ext) = some ext := by
  unfold fileExtension
  rw [if_neg hdd, splitLastDot_append hext]
  cases stem with
  | nil => exact absurd rfl hstem
  | cons c cs => rfl

/-- … and the stem is what precedes it. -/
theorem fileStem_append {stem ext : Str} (hstem : stem ≠ []) (hext : ∀ c ∈ ext, c ≠ '.')
    (hdd : stem ++ '.' :: ext ≠ ['.', '.']) : fileStem (stem ++ '.' :: ext) = stem := by
  unfold fileStem
  rw [if_neg hdd, splitLastDot_append hext]
  cases stem with
  | nil => exact absurd rfl hstem
  | cons c cs => rfl

theorem ne_dotdot_of_stem {stem ext : Str} (hstem : stem ≠ []) (hdot : stem ≠ ['.']) :
    stem ++ '.' :: ext ≠ ['.', '.'] := by
  intro h
  cases stem with
  | nil => exact hstem rfl
  | cons c cs =>
    cases cs with
    | nil => simp at h; exact hdot (by rw [h.1])
    | cons d ds =>
      have := congrArg List.length h
      simp at this

/-- `Path::with_extension("")` on `stem.ext` leaves `stem` (the stem `.` is the one exception). -/
theorem stemNoExt_append {stem ext : Str} (hstem : stem ≠ []) (hdot : stem ≠ ['.'])
    (hext : ∀ c ∈ ext, c ≠ '.') : stemNoExt (stem ++ '.' :: ext) = stem := by
  unfold stemNoExt
  rw [fileStem_append hstem hext (ne_dotdot_of_stem hstem hdot), if_neg hdot]

/-- A file name has an extension only if it is `stem.ext` with a non-empty stem. -/
theorem fileExtension_some {name ext : Str} (h : fileExtension name = some ext) :
    name = fileStem name ++ '.' :: ext ∧ fileStem name ≠ [] ∧ (∀ c ∈ ext, c ≠ '.') ∧ name ≠ ['.', '.'] := by
  unfold fileExtension at h
  by_cases hdd : name = ['.', '.']
  · simp [hdd] at h
  · rw [if_neg hdd] at h
    cases hs : splitLastDot name with
    | none => simp [hs] at h
    | some ba =>
      obtain ⟨b, a⟩ := ba
      simp only [hs] at h
      cases b with
      | nil => simp at h
      | cons c cs =>
        simp only [List.isEmpty_cons, Bool.false_eq_true, if_false, Option.some.injEq] at h
        subst h
        obtain ⟨h1, h2⟩ := splitLastDot_some hs
        have hst : fileStem name = c :: cs := by
          unfold fileStem; rw [if_neg hdd, hs]; rfl
        rw [hst]
        exact ⟨h1, by simp, h2, hdd⟩

/-! ### `deriveEntity` -/

theorem isYamlExt_iff (e : Str) : isYamlExt e = true ↔ e = "yml".toList ∨ e = "yaml".toList := by
  unfold isYamlExt Extracted.yamlExts
  simp only [List.any_cons, List.any_nil, Bool.or_false, Bool.or_eq_true, beq_iff_eq]
  constructor
  · rintro (h | h) <;> simp [← h]
  · rintro (h | h) <;> simp [h]

/-- The path segments that name an entity: the `init` rule drops the file name. -/
def entitySegs (dirs : List Str) (stem : Str) : List Str :=
  if stem = Extracted.initName.toList then dirs else dirs ++ [stem]

/-- The directory against which the relative includes of a class are resolved. -/
def entityLoc (dirs : List Str) (stem : Str) : List Str :=
  if stem = Extracted.initName.toList then dropLast dirs else dirs

theorem deriveEntity_nil {isNode compose : Bool} {e : DirEntry} (h : e.rel = []) :
    deriveEntity isNode compose e = none := by
  simp [deriveEntity, h]

theorem deriveEntity_noext {isNode compose : Bool} {e : DirEntry} {dirs : List Str} {fname : Str}
    (hrel : e.rel = dirs ++ [fname]) (h : fileExtension fname = none) :
    deriveEntity isNode compose e = none := by
  simp [deriveEntity, hrel, h]

theorem deriveEntity_notyaml {isNode compose : Bool} {e : DirEntry} {dirs : List Str} {fname ext : Str}
    (hrel : e.rel = dirs ++ [fname]) (h : fileExtension fname = some ext)
    (hn : isYamlExt ext = false ∨ e.isFile = false) :
    deriveEntity isNode compose e = none := by
  rcases hn with hn | hn <;> simp [deriveEntity, hrel, h, hn]

/-- Whatever is derived remembers the path of the entry. -/
theorem deriveEntity_path {isNode compose : Bool} {e : DirEntry} {name : Str} {info : EntityInfo}
    (h : deriveEntity isNode compose e = some (name, info)) : info.path = e.rel := by
  unfold deriveEntity at h
  split at h
  · cases h
  · split at h
    · cases h
    · split at h
      · cases h
      · simp only [Option.some.injEq, Prod.mk.injEq] at h
        rw [← h.2]

/-- An entity is derived only from a file `stem.yml` / `stem.yaml`. -/
theorem deriveEntity_some_yaml {isNode compose : Bool} {e : DirEntry} {r : Str × EntityInfo}
    (h : deriveEntity isNode compose e = some r) :
    e.isFile = true ∧ ∃ dirs fname ext, e.rel = dirs ++ [fname] ∧ fileExtension fname = some ext ∧
      isYamlExt ext = true := by
  unfold deriveEntity at h
  split at h
  · cases h
  · rename_i fname revDirs hrev
    split at h
    · cases h
    · rename_i ext hext
      split at h
      · cases h
      · rename_i hc
        simp only [Bool.not_eq_true', Bool.not_eq_false, Bool.and_eq_true] at hc
        refine ⟨hc.2, revDirs.reverse, fname, ext, ?_, hext, hc.1⟩
        have := congrArg List.reverse hrev
        simpa using this

/-- The normal form of `deriveEntity` on a YAML file whose naming segments are `/`-free. -/
theorem deriveEntity_yaml {isNode compose : Bool} {e : DirEntry} {dirs : List Str} {fname ext : Str}
    (hrel : e.rel = dirs ++ [fname]) (hext : fileExtension fname = some ext)
    (hy : isYamlExt ext = true) (hf : e.isFile = true)
    (hslash : ∀ s ∈ entitySegs dirs (stemNoExt fname), ∀ c ∈ s, c ≠ '/') :
    deriveEntity isNode compose e = some (
      if isNode && ((entitySegs dirs (stemNoExt fname)).head?.bind List.head? = some '_' || !compose) then
        ((entitySegs dirs (stemNoExt fname)).getLast?.getD [], { path := e.rel, loc := [] })
      else
        (joinWith ['.'] (entitySegs dirs (stemNoExt fname)),
          { path := e.rel, loc := entityLoc dirs (stemNoExt fname) })) := by
  have hfst : (if stemNoExt fname = Extracted.initName.toList then (dirs, dropLast dirs)
      else (dirs ++ [stemNoExt fname], dirs)).fst = entitySegs dirs (stemNoExt fname) := by
    unfold entitySegs; split <;> rfl
  have hsnd : (if stemNoExt fname = Extracted.initName.toList then (dirs, dropLast dirs)
      else (dirs ++ [stemNoExt fname], dirs)).snd = entityLoc dirs (stemNoExt fname) := by
    unfold entityLoc; split <;> rfl
  have hcond : (decide ((joinWith ['/'] (entitySegs dirs (stemNoExt fname))).head? = some '_')) =
      decide ((entitySegs dirs (stemNoExt fname)).head?.bind List.head? = some '_') := by
    simp only [joinWith_head_underscore]
  unfold deriveEntity
  simp only [hrel, List.reverse_append, List.reverse_cons, List.reverse_nil, List.nil_append,
    List.singleton_append, hext, hy, hf, Bool.and_self, Bool.not_true, Bool.false_eq_true, if_false,
    List.reverse_reverse, hfst, hsnd, hcond]
  generalize entitySegs dirs (stemNoExt fname) = segs at hslash ⊢
  by_cases hc : (isNode && (decide (segs.head?.bind List.head? = some '_') || !compose)) = true
  · simp only [hc, if_true, splitOn_joinWith_getLast hslash]
    congr 2
    cases hl : segs.getLast? with
    | none => rfl
    | some l =>
      have hmem : l ∈ segs := List.mem_of_getLast? hl
      have := joinWith_slash_to_dot (segs := [l]) (by
        intro s hs'; simp at hs'; subst hs'; exact hslash _ hmem)
      simpa [joinWith] using this
  · simp only [hc, Bool.false_eq_true, if_false, joinWith_slash_to_dot hslash]

/-! ### `walkEntries` -/

theorem find?_name_none {acc : List (Str × EntityInfo)} {name : Str} :
    acc.find? (fun p => p.1 == name) = none ↔ name ∉ acc.map Prod.fst := by
  induction acc with
  | nil => simp
  | cons a acc ih =>
    simp only [List.find?_cons, List.map_cons, List.mem_cons, not_or]
    by_cases h : a.1 = name
    · simp [h]
    · have h' : (a.1 == name) = false := by simpa using h
      simp only [h', ih]
      constructor
      · intro h2; exact ⟨fun e => h e.symm, h2⟩
      · intro h2; exact h2.2

theorem find?_name_some {acc : List (Str × EntityInfo)} {name : Str} {r : Str × EntityInfo}
    (h : acc.find? (fun p => p.1 == name) = some r) : r.1 = name ∧ r ∈ acc := by
  have h1 := List.find?_some h
  have h2 := List.mem_of_find?_eq_some h
  exact ⟨by simpa using h1, h2⟩

theorem walkEntries_nil (isNode compose : Bool) (root : Str) (acc : List (Str × EntityInfo)) :
    walkEntries isNode compose root [] acc = .ok acc := rfl

theorem walkEntries_cons_none {isNode compose : Bool} (root : Str) {e : DirEntry} (rest : List DirEntry)
    (acc : List (Str × EntityInfo)) (h : deriveEntity isNode compose e = none) :
    walkEntries isNode compose root (e :: rest) acc = walkEntries isNode compose root rest acc := by
  rw [walkEntries, h]

theorem walkEntries_cons_new {isNode compose : Bool} (root : Str) {e : DirEntry} (rest : List DirEntry)
    {acc : List (Str × EntityInfo)} {name : Str} {info : EntityInfo}
    (h : deriveEntity isNode compose e = some (name, info)) (hn : name ∉ acc.map Prod.fst) :
    walkEntries isNode compose root (e :: rest) acc =
      walkEntries isNode compose root rest (acc ++ [(name, info)]) := by
  rw [walkEntries, h]
  simp only [find?_name_none.2 hn]

theorem walkEntries_cons_dup {isNode compose : Bool} (root : Str) {e : DirEntry} (rest : List DirEntry)
    {acc : List (Str × EntityInfo)} {name : Str} {info : EntityInfo} {prev : Str × EntityInfo}
    (h : deriveEntity isNode compose e = some (name, info))
    (hf : acc.find? (fun p => p.1 == name) = some prev) :
    walkEntries isNode compose root (e :: rest) acc =
      if strLt (pathText root prev.2.path) (pathText root info.path) then
        .error (.collision name (pathText root prev.2.path) (pathText root info.path))
      else .error (.collision name (pathText root info.path) (pathText root prev.2.path)) := by
  rw [walkEntries, h]
  simp only [hf]

/-- Pairwise distinct names: the walk succeeds with the derived pairs in order. -/
theorem walkEntries_ok_of_nodup (isNode compose : Bool) (root : Str) (entries : List DirEntry) :
    ∀ acc : List (Str × EntityInfo),
      (acc.map Prod.fst ++ (entries.filterMap (deriveEntity isNode compose)).map Prod.fst).Nodup →
      walkEntries isNode compose root entries acc =
        .ok (acc ++ entries.filterMap (deriveEntity isNode compose)) := by
  induction entries with
  | nil => intro acc _; simp [walkEntries]
  | cons e rest ih =>
    intro acc hn
    cases hd : deriveEntity isNode compose e with
    | none =>
      rw [walkEntries_cons_none root rest acc hd, List.filterMap_cons_none hd]
      rw [List.filterMap_cons_none hd] at hn
      exact ih acc hn
    | some r =>
      obtain ⟨name, info⟩ := r
      rw [List.filterMap_cons_some hd] at hn ⊢
      have hnew : name ∉ acc.map Prod.fst := by
        intro hm
        have := (List.nodup_append.1 hn).2.2 name hm name (by simp)
        exact this rfl
      rw [walkEntries_cons_new root rest hd hnew, ih]
      · simp
      · simpa using hn

/-- Success means: the result is the accumulator followed by the derived pairs, and (if the
accumulator had distinct names) all names are distinct. -/
theorem walkEntries_ok_inv (isNode compose : Bool) (root : Str) (entries : List DirEntry) :
    ∀ (acc l : List (Str × EntityInfo)), walkEntries isNode compose root entries acc = .ok l →
      l = acc ++ entries.filterMap (deriveEntity isNode compose) ∧
      ((acc.map Prod.fst).Nodup → (l.map Prod.fst).Nodup) := by
  induction entries with
  | nil =>
    intro acc l h
    simp only [walkEntries] at h
    injection h with h; subst h
    simp
  | cons e rest ih =>
    intro acc l h
    cases hd : deriveEntity isNode compose e with
    | none =>
      rw [walkEntries_cons_none root rest acc hd] at h
      rw [List.filterMap_cons_none hd]
      exact ih acc l h
    | some r =>
      obtain ⟨name, info⟩ := r
      cases hf : acc.find? (fun p => p.1 == name) with
      | some prev =>
        rw [walkEntries_cons_dup root rest hd hf] at h
        split at h <;> cases h
      | none =>
        have hnew := find?_name_none.1 hf
        rw [walkEntries_cons_new root rest hd hnew] at h
        obtain ⟨h1, h2⟩ := ih _ l h
        rw [List.filterMap_cons_some hd]
        refine ⟨by rw [h1]; simp, fun hacc => h2 ?_⟩
        rw [List.map_append, List.nodup_append]
        refine ⟨hacc, by simp, ?_⟩
        intro a ha b hb
        simp at hb; subst hb
        intro e; subst e; exact hnew ha

/-- Failure is always a collision between an entry and the first earlier holder of its name
(either an accumulator entry or an earlier listed entry). -/
theorem walkEntries_error_inv (isNode compose : Bool) (root : Str) (entries : List DirEntry) :
    ∀ (acc : List (Str × EntityInfo)) (err : Err), walkEntries isNode compose root entries acc = .error err →
      ∃ pre e post name info prev, entries = pre ++ e :: post ∧
        deriveEntity isNode compose e = some (name, info) ∧
        (acc ++ pre.filterMap (deriveEntity isNode compose)).find? (fun p => p.1 == name) = some prev ∧
        ((acc.map Prod.fst).Nodup →
          (acc.map Prod.fst ++ (pre.filterMap (deriveEntity isNode compose)).map Prod.fst).Nodup) ∧
        err = if strLt (pathText root prev.2.path) (pathText root info.path) then
            .collision name (pathText root prev.2.path) (pathText root info.path)
          else .collision name (pathText root info.path) (pathText root prev.2.path) := by
  induction entries with
  | nil => intro acc err h; simp [walkEntries] at h
  | cons e rest ih =>
    intro acc err h
    cases hd : deriveEntity isNode compose e with
    | none =>
      rw [walkEntries_cons_none root rest acc hd] at h
      obtain ⟨pre, e', post, name, info, prev, h1, h2, h3, h4, h5⟩ := ih acc err h
      refine ⟨e :: pre, e', post, name, info, prev, by rw [h1]; rfl, h2, ?_, ?_, h5⟩
      · rw [List.filterMap_cons_none hd]; exact h3
      · rw [List.filterMap_cons_none hd]; exact h4
    | some r =>
      obtain ⟨name, info⟩ := r
      cases hf : acc.find? (fun p => p.1 == name) with
      | some prev =>
        rw [walkEntries_cons_dup root rest hd hf] at h
        refine ⟨[], e, rest, name, info, prev, rfl, hd, by simpa using hf, by simp, ?_⟩
        split at h <;> (injection h with h; rename_i hc; simp only [hc]; first | exact h.symm | simp [← h])
      | none =>
        have hnew := find?_name_none.1 hf
        rw [walkEntries_cons_new root rest hd hnew] at h
        obtain ⟨pre, e', post, name', info', prev, h1, h2, h3, h4, h5⟩ := ih _ err h
        refine ⟨e :: pre, e', post, name', info', prev, by rw [h1]; rfl, h2, ?_, ?_, h5⟩
        · rw [List.filterMap_cons_some hd]; simpa using h3
        · rw [List.filterMap_cons_some hd]
          intro hacc
          have hacc' : ((acc ++ [(name, info)]).map Prod.fst).Nodup := by
            rw [List.map_append, List.nodup_append]
            refine ⟨hacc, by simp, ?_⟩
            intro a ha b hb
            simp at hb; subst hb
            intro e; subst e; exact hnew ha
          simpa using h4 hacc'

/-! ### `MetaM.asReclass` -/

/-- The `name` sub-mapping built by `as_reclass`: four plain keys in insertion order. -/
def nameData (full : Str) (parts : List Str) (short : Str) : Mapping :=
  { es := [(.str "full".toList, .str full), (.str "parts".toList, .seq (parts.map Value.str)),
           (.str "path".toList, .str (joinWith ['/'] parts)), (.str "short".toList, .str short)],
    ck := [], ok := [] }

/-- The path segments `as_reclass` reports: the name split at dots under the literal-dots
compatibility flag (with composition on), only the last segment below a `_`-prefixed first
segment, otherwise the segments as given. -/
def expectedParts (m : MetaM) (cfg : NodeCfg) : List Str :=
  if cfg.composeNodeName && cfg.literalDots then splitOn '.' m.name
  else if m.parts.head?.bind List.head? = some '_' then [m.parts.getLast?.getD []]
  else m.parts

theorem expectedParts_ne_nil {m : MetaM} (cfg : NodeCfg) (h : m.parts ≠ []) : expectedParts m cfg ≠ [] := by
  unfold expectedParts
  split
  · exact splitOn_ne_nil _ _
  · split
    · simp
    · exact h

/-- Normal form of `as_reclass` on non-empty parts. -/
theorem asReclass_eq {m : MetaM} (cfg : NodeCfg) (h : m.parts ≠ []) :
    m.asReclass cfg = .ok
      { es := [(.str "environment".toList, .str m.environment),
               (.str "name".toList,
                 (nameData m.name (expectedParts m cfg) ((expectedParts m cfg).getLast?.getD [])).toValue)],
        ck := [], ok := [] } := by
  have hne := expectedParts_ne_nil cfg h
  unfold MetaM.asReclass
  cases hp : m.parts with
  | nil => exact absurd hp h
  | cons p0 rest =>
    have hparts : (if (cfg.composeNodeName && cfg.literalDots) = true then splitOn '.' m.name
        else if p0.head? = some '_' then [(p0 :: rest).getLast?.getD []] else p0 :: rest) =
        expectedParts m cfg := by
      unfold expectedParts; rw [hp]; rfl
    simp only [hparts]
    cases hl : (expectedParts m cfg).getLast? with
    | none => exact absurd (List.getLast?_eq_none_iff.1 hl) hne
    | some short =>
      simp only [Option.getD_some]
      rfl

end Reclass
