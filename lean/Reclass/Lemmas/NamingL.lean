/-
  Helper lemmas for the naming functions of `Reclass.Model.Node` / `Reclass.Model.Discover`:
  `splitDots`, `absClassName`, `UList` folds (first-occurrence deduplication), `splitOn`,
  `joinWith`, `splitLastDot` / `fileExtension` / `fileStem`, `deriveEntity`, `walkEntries`,
  and the little mapping built by `MetaM.asReclass`.
-/
import Reclass.Model.Discover
import Reclass.Lemmas.MappingL
namespace Reclass

/-! ### `splitDots` -/

theorem splitDots_nodot {r : Str} (h : r.head? ≠ some '.') : splitDots r = (0, r) := by
  unfold splitDots
  split
  · simp at h
  · rfl

theorem splitDots_dot (cs : Str) : splitDots ('.' :: cs) = ((splitDots cs).1 + 1, (splitDots cs).2) := by
  rw [splitDots]

/-- `k` leading dots followed by something that does not start with a dot. -/
theorem splitDots_replicate (k : Nat) {r : Str} (h : r.head? ≠ some '.') :
    splitDots (List.replicate k '.' ++ r) = (k, r) := by
  induction k with
  | zero => simpa using splitDots_nodot h
  | succ k ih =>
    rw [List.replicate_succ, List.cons_append, splitDots_dot, ih]

/-- Every string is some dots followed by a dot-free start. -/
theorem splitDots_spec (s : Str) :
    s = List.replicate (splitDots s).1 '.' ++ (splitDots s).2 ∧ (splitDots s).2.head? ≠ some '.' := by
  induction s with
  | nil => simp [splitDots]
  | cons c cs ih =>
    by_cases hc : c = '.'
    · subst hc
      rw [splitDots_dot]
      refine ⟨?_, ih.2⟩
      simp only [List.replicate_succ, List.cons_append]
      rw [← ih.1]
    · have : (c :: cs).head? ≠ some '.' := by simpa using hc
      rw [splitDots_nodot this]
      exact ⟨by simp, this⟩

/-! ### `absClassName` -/

theorem absClassName_nodot (loc : Option (List Str)) {cls : Str} (h : cls.head? ≠ some '.') :
    absClassName loc cls = cls := by
  unfold absClassName
  split
  · simp at h
  · rfl

theorem absClassName_dot (loc : Option (List Str)) (cs : Str) :
    absClassName loc ('.' :: cs) =
      (((loc.getD []) ++ [['<']]).take (((loc.getD []) ++ [['<']]).length - (splitDots ('.' :: cs)).1)).flatMap
        (fun seg => seg ++ ['.']) ++ (splitDots ('.' :: cs)).2 := by
  rw [absClassName]

theorem absClassName_none (cls : Str) : absClassName none cls = absClassName (some []) cls := by
  unfold absClassName
  rfl

/-- The general relative case, in terms of `loc.getD []`. -/
theorem absClassName_replicate (loc : Option (List Str)) (k : Nat) (hk : 1 ≤ k) {r : Str}
    (h : r.head? ≠ some '.') :
    absClassName loc (List.replicate k '.' ++ r) =
      ((loc.getD []).take ((loc.getD []).length - (k - 1))).flatMap (fun s => s ++ ['.']) ++ r := by
  obtain ⟨k', rfl⟩ : ∃ k', k = k' + 1 := ⟨k - 1, by omega⟩
  have hs := splitDots_replicate (k' + 1) h
  rw [List.replicate_succ, List.cons_append] at hs ⊢
  rw [absClassName_dot, hs]
  simp only [List.length_append, List.length_singleton, Nat.add_sub_cancel]
  have : (loc.getD []).length + 1 - (k' + 1) = (loc.getD []).length - k' := by omega
  rw [this, List.take_append_of_le_length (by omega)]

/-! ### `UList`: folds of `appendIfNew` are first-occurrence deduplication -/

/-- First-occurrence deduplication relative to a list of already seen entries. -/
def nub : List Str → List Str → List Str
  | _, [] => []
  | seen, x :: xs => if x ∈ seen then nub seen xs else x :: nub (seen ++ [x]) xs

theorem foldl_appendIfNew_items (f : Str → Str) (xs : List Str) (acc : UList) :
    (xs.foldl (fun a c => a.appendIfNew (f c)) acc).items = acc.items ++ nub acc.items (xs.map f) := by
  induction xs generalizing acc with
  | nil => simp [nub]
  | cons x xs ih =>
    simp only [List.foldl_cons, List.map_cons, nub]
    rw [ih]
    unfold UList.appendIfNew
    by_cases h : f x ∈ acc.items
    · simp [h]
    · simp [h]

theorem ofList_items (xs : List Str) : (UList.ofList xs).items = nub [] xs := by
  have := foldl_appendIfNew_items id xs {}
  simpa [UList.ofList] using this

/-- `nub` only depends on the seen list through membership. -/
theorem nub_congr {s s' : List Str} (h : ∀ x, x ∈ s ↔ x ∈ s') (xs : List Str) : nub s xs = nub s' xs := by
  induction xs generalizing s s' with
  | nil => rfl
  | cons x xs ih =>
    simp only [nub]
    by_cases hx : x ∈ s
    · have hx' : x ∈ s' := (h x).1 hx
      simp only [hx, hx', if_true]; exact ih h
    · have hx' : x ∉ s' := fun e => hx ((h x).2 e)
      simp only [hx, hx', if_false]
      congr 1
      apply ih
      intro y; simp [h y]

theorem mem_nub {s xs : List Str} {y : Str} : y ∈ nub s xs ↔ y ∈ xs ∧ y ∉ s := by
  induction xs generalizing s with
  | nil => simp [nub]
  | cons x xs ih =>
    simp only [nub]
    by_cases hx : x ∈ s
    · simp only [hx, if_true, ih, List.mem_cons]
      constructor
      · rintro ⟨h1, h2⟩; exact ⟨Or.inr h1, h2⟩
      · rintro ⟨h1 | h1, h2⟩
        · subst h1; exact absurd hx h2
        · exact ⟨h1, h2⟩
    · simp only [hx, if_false, List.mem_cons, ih, List.mem_append, List.not_mem_nil, or_false, not_or]
      constructor
      · rintro (h1 | ⟨h1, h2, _⟩)
        · subst h1; exact ⟨Or.inl rfl, hx⟩
        · exact ⟨Or.inr h1, h2⟩
      · rintro ⟨h1 | h1, h2⟩
        · exact Or.inl h1
        · by_cases e : y = x
          · exact Or.inl e
          · exact Or.inr ⟨h1, h2, e⟩

theorem nub_nodup (s xs : List Str) : (nub s xs).Nodup := by
  induction xs generalizing s with
  | nil => simp [nub]
  | cons x xs ih =>
    simp only [nub]
    by_cases hx : x ∈ s
    · simp only [hx, if_true]; exact ih s
    · simp only [hx, if_false, List.nodup_cons]
      refine ⟨?_, ih _⟩
      intro hm
      have := (mem_nub.1 hm).2
      simp at this

/-- Deduplicating before mapping does not change the deduplicated image. -/
theorem nub_map_nub (f : Str → Str) (xs : List Str) :
    ∀ (S T : List Str), (∀ t ∈ T, f t ∈ S) → nub S ((nub T xs).map f) = nub S (xs.map f) := by
  induction xs with
  | nil => intro S T _; rfl
  | cons x xs ih =>
    intro S T hST
    by_cases hx : x ∈ T
    · have hfx : f x ∈ S := hST x hx
      simp only [nub, hx, if_true, List.map_cons, hfx]
      exact ih S T hST
    · simp only [nub, hx, if_false, List.map_cons]
      by_cases hfx : f x ∈ S
      · simp only [hfx, if_true]
        apply ih
        intro t ht
        rcases List.mem_append.1 ht with h | h
        · exact hST t h
        · simp at h; subst h; exact hfx
      · simp only [hfx, if_false]
        congr 1
        apply ih
        intro t ht
        rcases List.mem_append.1 ht with h | h
        · exact List.mem_append_left _ (hST t h)
        · simp at h; subst h; simp

theorem nub_nub (xs : List Str) : nub [] (nub [] xs) = nub [] xs := by
  have := nub_map_nub id xs [] [] (by simp)
  simpa using this

/-- The class list of a parsed file, as a pure list function. -/
theorem ofSrc_classes_items {loc : Option (List Str)} {src : ClassSrc} {n : NodeM}
    (h : NodeM.ofSrc loc src = .ok n) :
    n.classes.items = nub [] ((nub [] src.classes).map (absClassName loc)) := by
  unfold NodeM.ofSrc at h
  cases hp : Mapping.ofYamlEntries src.params with
  | error e => simp [hp] at h
  | ok p =>
    simp only [hp] at h
    injection h with h
    subst h
    simp only
    rw [foldl_appendIfNew_items, ofList_items]
    rfl

/-! ### `splitOn` and `joinWith` -/

theorem splitOn_ne_nil (sep : Char) (s : Str) : splitOn sep s ≠ [] := by
  induction s with
  | nil => simp [splitOn]
  | cons c cs ih =>
    rw [splitOn]
    split
    · simp
    · split <;> simp

theorem splitOn_cons_sep (sep : Char) (cs : Str) : splitOn sep (sep :: cs) = [] :: splitOn sep cs := by
  rw [splitOn]
  split
  · rename_i h; exact absurd h (splitOn_ne_nil sep cs)
  · rename_i seg segs h; simp [h]

theorem splitOn_cons_ne {sep c : Char} (hc : c ≠ sep) (cs : Str) :
    splitOn sep (c :: cs) = (c :: (splitOn sep cs).head (splitOn_ne_nil sep cs)) :: (splitOn sep cs).tail := by
  rw [splitOn]
  split
  · rename_i h; exact absurd h (splitOn_ne_nil sep cs)
  · rename_i seg segs h; simp [h, hc]

/-- A separator-free string is a single segment. -/
theorem splitOn_nosep {sep : Char} {x : Str} (h : ∀ c ∈ x, c ≠ sep) : splitOn sep x = [x] := by
  induction x with
  | nil => rfl
  | cons c x ih =>
    have hx : splitOn sep x = [x] := ih (fun d hd => h d (List.mem_cons_of_mem _ hd))
    rw [splitOn_cons_ne (h c List.mem_cons_self)]
    simp [hx]

theorem splitOn_append_sep {sep : Char} {x : Str} (h : ∀ c ∈ x, c ≠ sep) (rest : Str) :
    splitOn sep (x ++ sep :: rest) = x :: splitOn sep rest := by
  induction x with
  | nil => exact splitOn_cons_sep sep rest
  | cons c x ih =>
    have hx := ih (fun d hd => h d (List.mem_cons_of_mem _ hd))
    rw [List.cons_append, splitOn_cons_ne (h c List.mem_cons_self)]
    simp [hx]

theorem joinWith_nil (sep : Str) : joinWith sep [] = [] := rfl
theorem joinWith_single (sep x : Str) : joinWith sep [x] = x := rfl
theorem joinWith_cons_cons (sep x y : Str) (ys : List Str) :
    joinWith sep (x :: y :: ys) = x ++ sep ++ joinWith sep (y :: ys) := rfl

/-- Splitting a joined list of separator-free segments gives the segments back. -/
theorem splitOn_joinWith {sep : Char} {segs : List Str} (hne : segs ≠ [])
    (h : ∀ s ∈ segs, ∀ c ∈ s, c ≠ sep) : splitOn sep (joinWith [sep] segs) = segs := by
  induction segs with
  | nil => exact absurd rfl hne
  | cons x xs ih =>
    cases xs with
    | nil => exact splitOn_nosep (h x List.mem_cons_self)
    | cons y ys =>
      rw [joinWith_cons_cons, List.append_assoc, List.singleton_append,
        splitOn_append_sep (h x List.mem_cons_self),
        ih (by simp) (fun s hs => h s (List.mem_cons_of_mem _ hs))]

/-- The last segment of the joined text is the last segment of the list (empty list: empty). -/
theorem splitOn_joinWith_getLast {sep : Char} {segs : List Str}
    (h : ∀ s ∈ segs, ∀ c ∈ s, c ≠ sep) :
    (splitOn sep (joinWith [sep] segs)).getLast?.getD [] = segs.getLast?.getD [] := by
  cases segs with
  | nil => rfl
  | cons x xs => rw [splitOn_joinWith (by simp) h]

theorem joinWith_map (g : Char → Char) (sep : Str) (segs : List Str) :
    (joinWith sep segs).map g = joinWith (sep.map g) (segs.map (List.map g)) := by
  induction segs with
  | nil => rfl
  | cons x xs ih =>
    cases xs with
    | nil => rfl
    | cons y ys =>
      rw [joinWith_cons_cons, List.map_append, List.map_append, ih]
      rfl

/-- Turning the separators `/` of a joined list of `/`-free segments into `.`. -/
theorem joinWith_slash_to_dot {segs : List Str} (h : ∀ s ∈ segs, ∀ c ∈ s, c ≠ '/') :
    (joinWith ['/'] segs).map (fun c => if c = '/' then '.' else c) = joinWith ['.'] segs := by
  rw [joinWith_map]
  have : segs.map (List.map (fun c => if c = '/' then '.' else c)) = segs := by
    induction segs with
    | nil => rfl
    | cons x xs ih =>
      rw [List.map_cons, ih (fun s hs => h s (List.mem_cons_of_mem _ hs))]
      congr 1
      have hx := h x List.mem_cons_self
      clear h ih
      induction x with
      | nil => rfl
      | cons c cs ihc =>
        rw [List.map_cons, ihc (fun d hd => hx d (List.mem_cons_of_mem _ hd))]
        simp [hx c List.mem_cons_self]
  rw [this]
  rfl

/-- The joined text starts with `_` exactly when the first segment does. -/
theorem joinWith_head_underscore (segs : List Str) :
    ((joinWith ['/'] segs).head? = some '_') ↔ (segs.head?.bind List.head? = some '_') := by
  cases segs with
  | nil => simp [joinWith]
  | cons x xs =>
    cases xs with
    | nil => simp [joinWith]
    | cons y ys =>
      rw [joinWith_cons_cons]
      cases x with
      | nil => simp
      | cons c cs => simp

/-! ### `splitLastDot`, `fileExtension`, `fileStem` -/

theorem span_loop_eq {α} (p : α → Bool) (as acc : List α) :
    List.span.loop p as acc = (acc.reverse ++ as.takeWhile p, as.dropWhile p) := by
  induction as generalizing acc with
  | nil => simp [List.span.loop]
  | cons a as ih =>
    rw [List.span.loop]
    cases hp : p a with
    | true => simp [ih, hp]
    | false => simp [hp]

theorem span_eq {α} (p : α → Bool) (as : List α) : as.span p = (as.takeWhile p, as.dropWhile p) := by
  rw [List.span, span_loop_eq]; simp

theorem mem_takeWhile_pos {α} {p : α → Bool} {l : List α} {x : α} (h : x ∈ l.takeWhile p) : p x = true := by
  have := List.all_takeWhile (p := p) (l := l)
  exact List.all_eq_true.1 this x h

theorem dropWhile_nil_pos {α} {p : α → Bool} {l : List α} (h : l.dropWhile p = []) :
    ∀ x ∈ l, p x = true := by
  induction l with
  | nil => simp
  | cons a as ih =>
    cases hp : p a with
    | true =>
      rw [List.dropWhile_cons_of_pos hp] at h
      intro x hx
      rcases List.mem_cons.1 hx with rfl | hx
      · exact hp
      · exact ih h x hx
    | false =>
      rw [List.dropWhile_cons_of_neg (by simp [hp])] at h
      cases h

theorem splitLastDot_append {stem ext : Str} (hext : ∀ c ∈ ext, c ≠ '.') :
    splitLastDot (stem ++ '.' :: ext) = some (stem, ext) := by
  have hrev : (stem ++ '.' :: ext).reverse = ext.reverse ++ '.' :: stem.reverse := by simp
  have hall : ∀ a ∈ ext.reverse, (a != '.') = true := by
    intro a ha; simpa using hext a (List.mem_reverse.1 ha)
  have htw : ((stem ++ '.' :: ext).reverse).takeWhile (· != '.') = ext.reverse := by
    rw [hrev, List.takeWhile_append_of_pos hall, List.takeWhile_cons_of_neg (by simp)]; simp
  have hdw : ((stem ++ '.' :: ext).reverse).dropWhile (· != '.') = '.' :: stem.reverse := by
    rw [hrev, List.dropWhile_append_of_pos hall, List.dropWhile_cons_of_neg (by simp)]
  unfold splitLastDot
  simp only [span_eq, htw, hdw, List.reverse_reverse]

/-- Converse: whatever `splitLastDot` returns is a split at the last dot. -/
theorem splitLastDot_some {name before after : Str} (h : splitLastDot name = some (before, after)) :
    name = before ++ '.' :: after ∧ ∀ c ∈ after, c ≠ '.' := by
  unfold splitLastDot at h
  simp only [span_eq] at h
  have hcat := List.takeWhile_append_dropWhile (p := (· != '.')) (l := name.reverse)
  split at h
  · cases h
  · rename_i afterRev x beforeRev heq
    injection h with h
    injection h with hb ha
    injection heq with h1 h2
    have hx : x = '.' := by
      have := List.head_dropWhile_not (· != '.') (l := name.reverse) (by rw [h2]; simp)
      simp only [h2, List.head_cons] at this
      simpa using this
    subst hx
    constructor
    · have : name.reverse = afterRev ++ '.' :: beforeRev := by rw [← hcat, h1, h2]
      have h3 := congrArg List.reverse this
      simp only [List.reverse_reverse, List.reverse_append, List.reverse_cons, List.append_assoc,
        List.singleton_append] at h3
      rw [h3, ← hb, ← ha]
    · intro c hc
      rw [← ha] at hc
      have hc' : c ∈ List.takeWhile (· != '.') name.reverse := by rw [h1]; exact List.mem_reverse.1 hc
      have := mem_takeWhile_pos hc'
      simpa using this

theorem splitLastDot_none {name : Str} (h : splitLastDot name = none) : ∀ c ∈ name, c ≠ '.' := by
  unfold splitLastDot at h
  simp only [span_eq] at h
  split at h
  · rename_i a heq
    injection heq with h1 h2
    intro c hc
    have hall : ∀ x ∈ name.reverse, (x != '.') = true := by
      exact dropWhile_nil_pos h2
    simpa using hall c (List.mem_reverse.2 hc)
  · cases h

/-- `stem.ext`: the extension is what follows the last dot … -/
theorem fileExtension_append {stem ext : Str} (hstem : stem ≠ []) (hext : ∀ c ∈ ext, c ≠ '.')
    (hdd : stem ++ '.' :: ext ≠ ['.', '.']) : fileExtension (stem ++ '.' :: ext) = some ext := by
  unfold fileExtension
  rw [if_neg hdd, splitLastDot_append hext]
  cases stem with
  | nil => exact absurd rfl hstem
  | cons c cs => rfl

/-- … and the stem is what precedes it. -/
theorem fileStem_append {stem ext : Str} (hstem : stem ≠ []) (hext : ∀ c ∈ ext, c ≠ '.')
    (hdd : stem ++ '.' :: ext ≠ ['.', '.']) : fileStem (stem ++ '.' :: ext) = stem := by
  unfold fileStem
  rw [if_neg hdd, splitLastDot_append hext]
  cases stem with
  | nil => exact absurd rfl hstem
  | cons c cs => rfl

/-- A file name has an extension only if it is `stem.ext` with a non-empty stem. -/
theorem fileExtension_some {name ext : Str} (h : fileExtension name = some ext) :
    name = fileStem name ++ '.' :: ext ∧ fileStem name ≠ [] ∧ (∀ c ∈ ext, c ≠ '.') ∧ name ≠ ['.', '.'] := by
  unfold fileExtension at h
  by_cases hdd : name = ['.', '.']
  · simp [hdd] at h
  · rw [if_neg hdd] at h
    cases hs : splitLastDot name with
    | none => simp [hs] at h
    | some ba =>
      obtain ⟨b, a⟩ := ba
      simp only [hs] at h
      cases b with
      | nil => simp at h
      | cons c cs =>
        simp only [List.isEmpty_cons, Bool.false_eq_true, if_false, Option.some.injEq] at h
        subst h
        obtain ⟨h1, h2⟩ := splitLastDot_some hs
        have hst : fileStem name = c :: cs := by
          unfold fileStem; rw [if_neg hdd, hs]; rfl
        rw [hst]
        exact ⟨h1, by simp, h2, hdd⟩

/-! ### `deriveEntity` -/

theorem isYamlExt_iff (e : Str) : isYamlExt e = true ↔ e = "yml".toList ∨ e = "yaml".toList := by
  unfold isYamlExt Extracted.yamlExts
  simp only [List.any_cons, List.any_nil, Bool.or_false, Bool.or_eq_true, beq_iff_eq]
  constructor
  · rintro (h | h) <;> simp [← h]
  · rintro (h | h) <;> simp [h]

/-- The path segments that name an entity: the `init` rule drops the file name. -/
def entitySegs (dirs : List Str) (stem : Str) : List Str :=
  if stem = Extracted.initName.toList then dirs else dirs ++ [stem]

/-- The directory against which the relative includes of a class are resolved. -/
def entityLoc (dirs : List Str) (stem : Str) : List Str :=
  if stem = Extracted.initName.toList then dropLast dirs else dirs

theorem deriveEntity_nil {isNode compose : Bool} {e : DirEntry} (h : e.rel = []) :
    deriveEntity isNode compose e = none := by
  simp [deriveEntity, h]

theorem deriveEntity_noext {isNode compose : Bool} {e : DirEntry} {dirs : List Str} {fname : Str}
    (hrel : e.rel = dirs ++ [fname]) (h : fileExtension fname = none) :
    deriveEntity isNode compose e = none := by
  simp [deriveEntity, hrel, h]

theorem deriveEntity_notyaml {isNode compose : Bool} {e : DirEntry} {dirs : List Str} {fname ext : Str}
    (hrel : e.rel = dirs ++ [fname]) (h : fileExtension fname = some ext)
    (hn : isYamlExt ext = false ∨ e.isFile = false) :
    deriveEntity isNode compose e = none := by
  rcases hn with hn | hn <;> simp [deriveEntity, hrel, h, hn]

/-- Whatever is derived remembers the path of the entry. -/
theorem deriveEntity_path {isNode compose : Bool} {e : DirEntry} {name : Str} {info : EntityInfo}
    (h : deriveEntity isNode compose e = some (name, info)) : info.path = e.rel := by
  unfold deriveEntity at h
  split at h
  · cases h
  · split at h
    · cases h
    · split at h
      · cases h
      · simp only [Option.some.injEq, Prod.mk.injEq] at h
        rw [← h.2]

/-- An entity is derived only from a file `stem.yml` / `stem.yaml`. -/
theorem deriveEntity_some_yaml {isNode compose : Bool} {e : DirEntry} {r : Str × EntityInfo}
    (h : deriveEntity isNode compose e = some r) :
    e.isFile = true ∧ ∃ dirs fname ext, e.rel = dirs ++ [fname] ∧ fileExtension fname = some ext ∧
      isYamlExt ext = true := by
  unfold deriveEntity at h
  split at h
  · cases h
  · rename_i fname revDirs hrev
    split at h
    · cases h
    · rename_i ext hext
      split at h
      · cases h
      · rename_i hc
        simp only [Bool.not_eq_true', Bool.not_eq_false, Bool.and_eq_true] at hc
        refine ⟨hc.2, revDirs.reverse, fname, ext, ?_, hext, hc.1⟩
        have := congrArg List.reverse hrev
        simpa using this

/-- The normal form of `deriveEntity` on a YAML file whose naming segments are `/`-free. -/
theorem deriveEntity_yaml {isNode compose : Bool} {e : DirEntry} {dirs : List Str} {fname ext : Str}
    (hrel : e.rel = dirs ++ [fname]) (hext : fileExtension fname = some ext)
    (hy : isYamlExt ext = true) (hf : e.isFile = true)
    (hslash : ∀ s ∈ entitySegs dirs (fileStem fname), ∀ c ∈ s, c ≠ '/') :
    deriveEntity isNode compose e = some (
      if isNode && ((entitySegs dirs (fileStem fname)).head?.bind List.head? = some '_' || !compose) then
        ((entitySegs dirs (fileStem fname)).getLast?.getD [], { path := e.rel, loc := [] })
      else
        (joinWith ['.'] (entitySegs dirs (fileStem fname)),
          { path := e.rel, loc := entityLoc dirs (fileStem fname) })) := by
  have hfst : (if fileStem fname = Extracted.initName.toList then (dirs, dropLast dirs)
      else (dirs ++ [fileStem fname], dirs)).fst = entitySegs dirs (fileStem fname) := by
    unfold entitySegs; split <;> rfl
  have hsnd : (if fileStem fname = Extracted.initName.toList then (dirs, dropLast dirs)
      else (dirs ++ [fileStem fname], dirs)).snd = entityLoc dirs (fileStem fname) := by
    unfold entityLoc; split <;> rfl
  have hcond : (decide ((joinWith ['/'] (entitySegs dirs (fileStem fname))).head? = some '_')) =
      decide ((entitySegs dirs (fileStem fname)).head?.bind List.head? = some '_') := by
    simp only [joinWith_head_underscore]
  unfold deriveEntity
  simp only [hrel, List.reverse_append, List.reverse_cons, List.reverse_nil, List.nil_append,
    List.singleton_append, hext, hy, hf, Bool.and_self, Bool.not_true, Bool.false_eq_true, if_false,
    List.reverse_reverse, hfst, hsnd, hcond]
  generalize entitySegs dirs (fileStem fname) = segs at hslash ⊢
  by_cases hc : (isNode && (decide (segs.head?.bind List.head? = some '_') || !compose)) = true
  · simp only [hc, if_true, splitOn_joinWith_getLast hslash]
    congr 2
    cases hl : segs.getLast? with
    | none => rfl
    | some l =>
      have hmem : l ∈ segs := List.mem_of_getLast? hl
      have := joinWith_slash_to_dot (segs := [l]) (by
        intro s hs'; simp at hs'; subst hs'; exact hslash _ hmem)
      simpa [joinWith] using this
  · simp only [hc, if_false, joinWith_slash_to_dot hslash]

end Reclass
