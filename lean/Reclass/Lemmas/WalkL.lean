/-
  Reclass.Lemmas.WalkL — lemmas about the class walk `renderImpl` / `walkClasses`
  (`Model/Node`) and its instrumented copy `renderImplT` / `walkClassesT` (`Spec/Walk`).
-/
import Reclass.Spec.Walk
import Reclass.Lemmas.Lists
namespace Reclass

/-! ## Unfolding equations -/

theorem renderImpl_zero (r : Inv) (self : NodeM) (seen : List Str) (root : NodeM) :
    renderImpl 0 r self seen root = .error .fuel := by simp only [renderImpl]

theorem renderImpl_succ (n : Nat) (r : Inv) (self : NodeM) (seen : List Str) (root : NodeM) :
    renderImpl (n+1) r self seen root =
      match walkClasses n r self.loc self.classes.items seen root with
      | .error e => .error e
      | .ok (seen', root') =>
        match mergeInto self root' with
        | .error e => .error e
        | .ok root'' => .ok (seen', root'') := by simp only [renderImpl]; rfl

theorem walkClasses_zero (r : Inv) (loc : Option (List Str)) (l seen : List Str) (root : NodeM) :
    walkClasses 0 r loc l seen root = .error .fuel := by simp only [walkClasses]

theorem walkClasses_nil (n : Nat) (r : Inv) (loc : Option (List Str)) (seen : List Str) (root : NodeM) :
    walkClasses (n+1) r loc [] seen root = .ok (seen, root) := by simp only [walkClasses]

theorem walkClasses_cons (n : Nat) (r : Inv) (loc : Option (List Str)) (cls : Str) (rest seen : List Str)
    (root : NodeM) :
    walkClasses (n+1) r loc (cls :: rest) seen root =
      match resolveClassName defaultFuel root.params cls with
      | .error e => .error e
      | .ok c =>
        if c ∈ seen then walkClasses n r loc rest seen root
        else
          match readClass r loc c with
          | .error e => .error e
          | .ok none => walkClasses n r loc rest seen root
          | .ok (some cn) =>
            match renderImpl n r cn (seen ++ [c]) root with
            | .error e => .error e
            | .ok (seen', root') => walkClasses n r loc rest seen' root' := by simp only [walkClasses]; rfl

theorem renderImplT_zero (r : Inv) (self : NodeM) (seen : List Str) (root : NodeM) :
    renderImplT 0 r self seen root = .error .fuel := by simp only [renderImplT]

theorem renderImplT_succ (n : Nat) (r : Inv) (self : NodeM) (seen : List Str) (root : NodeM) :
    renderImplT (n+1) r self seen root =
      match walkClassesT n r self.loc self.classes.items seen root with
      | .error e => .error e
      | .ok (seen', root', tr) =>
        match mergeInto self root' with
        | .error e => .error e
        | .ok root'' => .ok (seen', root'', tr) := by simp only [renderImplT]; rfl

theorem walkClassesT_zero (r : Inv) (loc : Option (List Str)) (l seen : List Str) (root : NodeM) :
    walkClassesT 0 r loc l seen root = .error .fuel := by simp only [walkClassesT]

theorem walkClassesT_nil (n : Nat) (r : Inv) (loc : Option (List Str)) (seen : List Str) (root : NodeM) :
    walkClassesT (n+1) r loc [] seen root = .ok (seen, root, []) := by simp only [walkClassesT]

theorem walkClassesT_cons (n : Nat) (r : Inv) (loc : Option (List Str)) (cls : Str) (rest seen : List Str)
    (root : NodeM) :
    walkClassesT (n+1) r loc (cls :: rest) seen root =
      match resolveClassName defaultFuel root.params cls with
      | .error e => .error e
      | .ok c =>
        if c ∈ seen then walkClassesT n r loc rest seen root
        else
          match readClass r loc c with
          | .error e => .error e
          | .ok none => walkClassesT n r loc rest seen root
          | .ok (some cn) =>
            match renderImplT n r cn (seen ++ [c]) root with
            | .error e => .error e
            | .ok (seen', root', tr1) =>
              match walkClassesT n r loc rest seen' root' with
              | .error e => .error e
              | .ok (seen'', root'', tr2) => .ok (seen'', root'', tr1 ++ (c, cn) :: tr2) := by
  simp only [walkClassesT]; rfl

/-! ## Erasing the trace gives the model -/

theorem erase_both : ∀ n : Nat,
    (∀ r self seen root, eraseTrace (renderImplT n r self seen root) = renderImpl n r self seen root) ∧
    (∀ r loc l seen root, eraseTrace (walkClassesT n r loc l seen root) = walkClasses n r loc l seen root) := by
  intro n
  induction n with
  | zero =>
    refine ⟨?_, ?_⟩ <;> intros <;> simp [renderImplT, renderImpl, walkClassesT, walkClasses, eraseTrace]
  | succ n ih =>
    obtain ⟨ihR, ihW⟩ := ih
    refine ⟨?_, ?_⟩
    · intro r self seen root
      rw [renderImplT_succ, renderImpl_succ, ← ihW]
      cases h1 : walkClassesT n r self.loc self.classes.items seen root with
      | error e => simp [eraseTrace]
      | ok x =>
        obtain ⟨s, root', tr⟩ := x
        simp only [eraseTrace]
        cases h2 : mergeInto self root' with
        | error e => simp
        | ok root'' => simp
    · intro r loc l seen root
      cases l with
      | nil => simp [walkClassesT, walkClasses, eraseTrace]
      | cons cls rest =>
        rw [walkClassesT_cons, walkClasses_cons]
        cases h1 : resolveClassName defaultFuel root.params cls with
        | error e => simp [eraseTrace]
        | ok c =>
          simp only []
          by_cases hs : c ∈ seen
          · simp only [hs, if_true]; exact ihW ..
          · simp only [hs, if_false]
            cases h2 : readClass r loc c with
            | error e => simp [eraseTrace]
            | ok o =>
              cases o with
              | none => simp only []; exact ihW ..
              | some cn =>
                simp only []
                rw [← ihR]
                cases h3 : renderImplT n r cn (seen ++ [c]) root with
                | error e => simp [eraseTrace]
                | ok x =>
                  obtain ⟨s1, root1, tr1⟩ := x
                  simp only [eraseTrace]
                  rw [← ihW]
                  cases h4 : walkClassesT n r loc rest s1 root1 with
                  | error e => simp [eraseTrace]
                  | ok y =>
                    obtain ⟨s2, root2, tr2⟩ := y
                    simp [eraseTrace]

theorem renderImplT_erase (n : Nat) (r : Inv) (self : NodeM) (seen : List Str) (root : NodeM) :
    eraseTrace (renderImplT n r self seen root) = renderImpl n r self seen root :=
  (erase_both n).1 r self seen root

theorem walkClassesT_erase (n : Nat) (r : Inv) (loc : Option (List Str)) (l seen : List Str) (root : NodeM) :
    eraseTrace (walkClassesT n r loc l seen root) = walkClasses n r loc l seen root :=
  (erase_both n).2 r loc l seen root

/-- Success of the model = success of the instrumented walk with some trace. -/
theorem renderImpl_ok_iff {n : Nat} {r : Inv} {self : NodeM} {seen : List Str} {root : NodeM}
    {seen' : List Str} {root' : NodeM} :
    renderImpl n r self seen root = .ok (seen', root') ↔
      ∃ tr, renderImplT n r self seen root = .ok (seen', root', tr) := by
  rw [← renderImplT_erase]
  cases h : renderImplT n r self seen root with
  | error e => simp [eraseTrace]
  | ok x => obtain ⟨s, ro, tr⟩ := x; simp [eraseTrace]

theorem walkClasses_ok_iff {n : Nat} {r : Inv} {loc : Option (List Str)} {l seen : List Str} {root : NodeM}
    {seen' : List Str} {root' : NodeM} :
    walkClasses n r loc l seen root = .ok (seen', root') ↔
      ∃ tr, walkClassesT n r loc l seen root = .ok (seen', root', tr) := by
  rw [← walkClassesT_erase]
  cases h : walkClassesT n r loc l seen root with
  | error e => simp [eraseTrace]
  | ok x => obtain ⟨s, ro, tr⟩ := x; simp [eraseTrace]

theorem renderImpl_error_iff {n : Nat} {r : Inv} {self : NodeM} {seen : List Str} {root : NodeM} {e : Err} :
    renderImpl n r self seen root = .error e ↔ renderImplT n r self seen root = .error e := by
  rw [← renderImplT_erase]
  cases h : renderImplT n r self seen root with
  | error e => simp [eraseTrace]
  | ok x => obtain ⟨s, ro, tr⟩ := x; simp [eraseTrace]

theorem walkClasses_error_iff {n : Nat} {r : Inv} {loc : Option (List Str)} {l seen : List Str} {root : NodeM}
    {e : Err} :
    walkClasses n r loc l seen root = .error e ↔ walkClassesT n r loc l seen root = .error e := by
  rw [← walkClassesT_erase]
  cases h : walkClassesT n r loc l seen root with
  | error e => simp [eraseTrace]
  | ok x => obtain ⟨s, ro, tr⟩ := x; simp [eraseTrace]

/-! ## The instrumented walk is sound for the big-step relation `Walk` -/

theorem walkT_sound_both : ∀ n : Nat,
    (∀ r self seen root seen' root' tr, renderImplT n r self seen root = .ok (seen', root', tr) →
      ∃ root1, Walk r self.loc self.classes.items seen root seen' root1 tr ∧ mergeInto self root1 = .ok root') ∧
    (∀ r loc l seen root seen' root' tr, walkClassesT n r loc l seen root = .ok (seen', root', tr) →
      Walk r loc l seen root seen' root' tr) := by
  intro n
  induction n with
  | zero => refine ⟨?_, ?_⟩ <;> intros <;> simp_all [renderImplT, walkClassesT]
  | succ n ih =>
    obtain ⟨ihR, ihW⟩ := ih
    refine ⟨?_, ?_⟩
    · intro r self seen root seen' root' tr h
      rw [renderImplT_succ] at h
      cases h1 : walkClassesT n r self.loc self.classes.items seen root with
      | error e => simp [h1] at h
      | ok x =>
        obtain ⟨s, root1, tr1⟩ := x
        simp only [h1] at h
        cases h2 : mergeInto self root1 with
        | error e => simp [h2] at h
        | ok root2 =>
          simp only [h2, Except.ok.injEq, Prod.mk.injEq] at h
          obtain ⟨rfl, rfl, rfl⟩ := h
          exact ⟨root1, ihW _ _ _ _ _ _ _ _ h1, h2⟩
    · intro r loc l seen root seen' root' tr h
      cases l with
      | nil =>
        rw [walkClassesT_nil] at h
        simp only [Except.ok.injEq, Prod.mk.injEq] at h
        obtain ⟨rfl, rfl, rfl⟩ := h
        exact Walk.nil ..
      | cons cls rest =>
        rw [walkClassesT_cons] at h
        cases h1 : resolveClassName defaultFuel root.params cls with
        | error e => simp [h1] at h
        | ok c =>
          simp only [h1] at h
          by_cases hs : c ∈ seen
          · simp only [hs, if_true] at h
            exact Walk.seen h1 hs (ihW _ _ _ _ _ _ _ _ h)
          · simp only [hs, if_false] at h
            cases h2 : readClass r loc c with
            | error e => simp [h2] at h
            | ok o =>
              cases o with
              | none =>
                simp only [h2] at h
                exact Walk.ignored h1 hs h2 (ihW _ _ _ _ _ _ _ _ h)
              | some cn =>
                simp only [h2] at h
                cases h3 : renderImplT n r cn (seen ++ [c]) root with
                | error e => simp [h3] at h
                | ok x =>
                  obtain ⟨s1, root1, tr1⟩ := x
                  simp only [h3] at h
                  cases h4 : walkClassesT n r loc rest s1 root1 with
                  | error e => simp [h4] at h
                  | ok y =>
                    obtain ⟨s2, root2, tr2⟩ := y
                    simp only [h4, Except.ok.injEq, Prod.mk.injEq] at h
                    obtain ⟨rfl, rfl, rfl⟩ := h
                    obtain ⟨root0, hw, hm⟩ := ihR _ _ _ _ _ _ _ h3
                    exact Walk.load h1 hs h2 hw hm (ihW _ _ _ _ _ _ _ _ h4)

theorem walkClassesT_sound {n : Nat} {r : Inv} {loc : Option (List Str)} {l seen : List Str} {root : NodeM}
    {seen' : List Str} {root' : NodeM} {tr : List TraceEntry}
    (h : walkClassesT n r loc l seen root = .ok (seen', root', tr)) :
    Walk r loc l seen root seen' root' tr :=
  (walkT_sound_both n).2 _ _ _ _ _ _ _ _ h

theorem renderImplT_sound {n : Nat} {r : Inv} {self : NodeM} {seen : List Str} {root : NodeM}
    {seen' : List Str} {root' : NodeM} {tr : List TraceEntry}
    (h : renderImplT n r self seen root = .ok (seen', root', tr)) :
    ∃ root1, Walk r self.loc self.classes.items seen root seen' root1 tr ∧ mergeInto self root1 = .ok root' :=
  (walkT_sound_both n).1 _ _ _ _ _ _ _ h

/-! ## Fuel monotonicity -/

theorem walkT_mono_both : ∀ n : Nat,
    (∀ r self seen root res, renderImplT n r self seen root = res → res ≠ .error .fuel →
      renderImplT (n+1) r self seen root = res) ∧
    (∀ r loc l seen root res, walkClassesT n r loc l seen root = res → res ≠ .error .fuel →
      walkClassesT (n+1) r loc l seen root = res) := by
  intro n
  induction n with
  | zero => refine ⟨?_, ?_⟩ <;> intros <;> simp_all [renderImplT, walkClassesT]
  | succ n ih =>
    obtain ⟨ihR, ihW⟩ := ih
    refine ⟨?_, ?_⟩
    · intro r self seen root res h hne
      rw [renderImplT_succ] at h ⊢
      cases h1 : walkClassesT n r self.loc self.classes.items seen root with
      | error e =>
        simp only [h1] at h
        have : e ≠ .fuel := by intro he; subst he; exact hne h.symm
        rw [ihW _ _ _ _ _ _ h1 (by simpa using this)]
        exact h
      | ok x =>
        rw [ihW _ _ _ _ _ _ h1 (by simp)]
        simp only [h1] at h
        exact h
    · intro r loc l seen root res h hne
      cases l with
      | nil => rw [walkClassesT_nil] at h ⊢; exact h
      | cons cls rest =>
        rw [walkClassesT_cons] at h ⊢
        cases h1 : resolveClassName defaultFuel root.params cls with
        | error e => simp only [h1] at h ⊢; exact h
        | ok c =>
          simp only [h1] at h ⊢
          by_cases hs : c ∈ seen
          · simp only [hs, if_true] at h ⊢
            exact ihW _ _ _ _ _ _ h hne
          · simp only [hs, if_false] at h ⊢
            cases h2 : readClass r loc c with
            | error e => simp only [h2] at h ⊢; exact h
            | ok o =>
              cases o with
              | none =>
                simp only [h2] at h ⊢
                exact ihW _ _ _ _ _ _ h hne
              | some cn =>
                simp only [h2] at h ⊢
                cases h3 : renderImplT n r cn (seen ++ [c]) root with
                | error e =>
                  simp only [h3] at h
                  have : e ≠ .fuel := by intro he; subst he; exact hne h.symm
                  rw [ihR _ _ _ _ _ h3 (by simpa using this)]
                  exact h
                | ok x =>
                  obtain ⟨s1, root1, tr1⟩ := x
                  rw [ihR _ _ _ _ _ h3 (by simp)]
                  simp only [h3] at h ⊢
                  cases h4 : walkClassesT n r loc rest s1 root1 with
                  | error e =>
                    simp only [h4] at h
                    have : e ≠ .fuel := by intro he; subst he; exact hne h.symm
                    rw [ihW _ _ _ _ _ _ h4 (by simpa using this)]
                    exact h
                  | ok y =>
                    rw [ihW _ _ _ _ _ _ h4 (by simp)]
                    simp only [h4] at h
                    exact h

theorem renderImplT_mono_le {n m : Nat} (hle : n ≤ m) {r : Inv} {self : NodeM} {seen : List Str} {root : NodeM}
    {res : R (List Str × NodeM × List TraceEntry)}
    (h : renderImplT n r self seen root = res) (hne : res ≠ .error .fuel) :
    renderImplT m r self seen root = res := by
  induction hle with
  | refl => exact h
  | step _ ih => exact (walkT_mono_both _).1 _ _ _ _ _ ih hne

theorem walkClassesT_mono_le {n m : Nat} (hle : n ≤ m) {r : Inv} {loc : Option (List Str)} {l seen : List Str}
    {root : NodeM} {res : R (List Str × NodeM × List TraceEntry)}
    (h : walkClassesT n r loc l seen root = res) (hne : res ≠ .error .fuel) :
    walkClassesT m r loc l seen root = res := by
  induction hle with
  | refl => exact h
  | step _ ih => exact (walkT_mono_both _).2 _ _ _ _ _ _ ih hne

theorem eraseTrace_eq_fuel {x : R (List Str × NodeM × List TraceEntry)} :
    eraseTrace x = .error .fuel ↔ x = .error .fuel := by
  cases x with
  | error e => simp [eraseTrace]
  | ok y => obtain ⟨a, b, c⟩ := y; simp [eraseTrace]

/-- More fuel, same answer (model version). -/
theorem renderImpl_mono_le {n m : Nat} (hle : n ≤ m) {r : Inv} {self : NodeM} {seen : List Str} {root : NodeM}
    {res : R (List Str × NodeM)}
    (h : renderImpl n r self seen root = res) (hne : res ≠ .error .fuel) :
    renderImpl m r self seen root = res := by
  rw [← renderImplT_erase] at h ⊢
  have hne' : renderImplT n r self seen root ≠ .error .fuel := by
    intro hc; rw [hc] at h; exact hne (by rw [← h]; rfl)
  rw [renderImplT_mono_le hle rfl hne']; exact h

theorem walkClasses_mono_le {n m : Nat} (hle : n ≤ m) {r : Inv} {loc : Option (List Str)} {l seen : List Str}
    {root : NodeM} {res : R (List Str × NodeM)}
    (h : walkClasses n r loc l seen root = res) (hne : res ≠ .error .fuel) :
    walkClasses m r loc l seen root = res := by
  rw [← walkClassesT_erase] at h ⊢
  have hne' : walkClassesT n r loc l seen root ≠ .error .fuel := by
    intro hc; rw [hc] at h; exact hne (by rw [← h]; rfl)
  rw [walkClassesT_mono_le hle rfl hne']; exact h

/-! ## Completeness: every `Walk` derivation is a run of the instrumented walk -/

theorem Walk.complete {r : Inv} {loc : Option (List Str)} {l seen : List Str} {root : NodeM}
    {seen' : List Str} {root' : NodeM} {tr : List TraceEntry}
    (h : Walk r loc l seen root seen' root' tr) :
    ∃ n, walkClassesT n r loc l seen root = .ok (seen', root', tr) := by
  induction h with
  | nil loc seen root => exact ⟨1, walkClassesT_nil ..⟩
  | seen h1 hs _ ih =>
    obtain ⟨n, hn⟩ := ih
    refine ⟨n+1, ?_⟩
    rw [walkClassesT_cons]; simp only [h1, hs, if_true]; exact hn
  | ignored h1 hs h2 _ ih =>
    obtain ⟨n, hn⟩ := ih
    refine ⟨n+1, ?_⟩
    rw [walkClassesT_cons]; simp only [h1, hs, if_false, h2]; exact hn
  | @load loc cls rest seen root c cn seen1 root1 tr1 root2 seen' root' tr2 h1 hs h2 _ hm _ ih1 ih2 =>
    obtain ⟨n1, hn1⟩ := ih1
    obtain ⟨n2, hn2⟩ := ih2
    refine ⟨max (n1+1) n2 + 1, ?_⟩
    rw [walkClassesT_cons]; simp only [h1, hs, if_false, h2]
    have hr : renderImplT (n1+1) r cn (seen ++ [c]) root = .ok (seen1, root2, tr1) := by
      rw [renderImplT_succ]; simp only [hn1, hm]
    rw [renderImplT_mono_le (Nat.le_max_left _ _) hr (by simp)]
    simp only []
    rw [walkClassesT_mono_le (Nat.le_max_right _ _) hn2 (by simp)]

/-! ## `Walk` is a function of its inputs -/

theorem Walk.det {r : Inv} {loc : Option (List Str)} {l seen : List Str} {root : NodeM}
    {s1 s2 : List Str} {r1 r2 : NodeM} {t1 t2 : List TraceEntry}
    (h1 : Walk r loc l seen root s1 r1 t1) (h2 : Walk r loc l seen root s2 r2 t2) :
    s1 = s2 ∧ r1 = r2 ∧ t1 = t2 := by
  obtain ⟨n1, e1⟩ := h1.complete
  obtain ⟨n2, e2⟩ := h2.complete
  have a := walkClassesT_mono_le (Nat.le_max_left n1 n2) e1 (by simp)
  have b := walkClassesT_mono_le (Nat.le_max_right n1 n2) e2 (by simp)
  rw [a] at b
  simp only [Except.ok.injEq, Prod.mk.injEq] at b
  exact b

/-! ## What a walk does to `seen` -/

/-- `seen` only grows, by appending; what is appended is a permutation of the traced names
(`seen` records classes when they are entered, the trace when they are merged). -/
theorem Walk.seen_ext {r : Inv} {loc : Option (List Str)} {l seen : List Str} {root : NodeM}
    {seen' : List Str} {root' : NodeM} {tr : List TraceEntry}
    (h : Walk r loc l seen root seen' root' tr) :
    ∃ ext, seen' = seen ++ ext ∧ ext.Perm (tr.map Prod.fst) := by
  induction h with
  | nil => exact ⟨[], by simp, by simp⟩
  | seen _ _ _ ih => exact ih
  | ignored _ _ _ _ ih => exact ih
  | @load loc cls rest seen root c cn seen1 root1 tr1 root2 seen' root' tr2 _ _ _ _ _ _ ih1 ih2 =>
    obtain ⟨e1, he1, hp1⟩ := ih1
    obtain ⟨e2, he2, hp2⟩ := ih2
    refine ⟨c :: (e1 ++ e2), ?_, ?_⟩
    · rw [he2, he1]; simp
    · simp only [List.map_append, List.map_cons]
      exact ((hp1.append hp2).cons c).trans List.perm_middle.symm

theorem Walk.seen_subset {r : Inv} {loc : Option (List Str)} {l seen : List Str} {root : NodeM}
    {seen' : List Str} {root' : NodeM} {tr : List TraceEntry}
    (h : Walk r loc l seen root seen' root' tr) : seen ⊆ seen' := by
  obtain ⟨ext, he, _⟩ := h.seen_ext
  intro x hx; rw [he]; exact List.mem_append_left _ hx

/-- A duplicate-free `seen` stays duplicate-free: a name is appended only when it is new. -/
theorem Walk.seen_nodup {r : Inv} {loc : Option (List Str)} {l seen : List Str} {root : NodeM}
    {seen' : List Str} {root' : NodeM} {tr : List TraceEntry}
    (h : Walk r loc l seen root seen' root' tr) (hn : seen.Nodup) : seen'.Nodup := by
  induction h with
  | nil => exact hn
  | seen _ _ _ ih => exact ih hn
  | ignored _ _ _ _ ih => exact ih hn
  | load _ hs _ _ _ _ ih1 ih2 => exact ih2 (ih1 (nodup_append_singleton hn hs))

/-- Traced names are new: none of them was in `seen` before, and they are pairwise distinct. -/
theorem Walk.trace_nodup {r : Inv} {loc : Option (List Str)} {l seen : List Str} {root : NodeM}
    {seen' : List Str} {root' : NodeM} {tr : List TraceEntry}
    (h : Walk r loc l seen root seen' root' tr) (hn : seen.Nodup) :
    (tr.map Prod.fst).Nodup ∧ ∀ x ∈ tr.map Prod.fst, x ∉ seen := by
  obtain ⟨ext, he, hp⟩ := h.seen_ext
  have hn' := h.seen_nodup hn
  rw [he] at hn'
  have hd := List.nodup_append.1 hn'
  refine ⟨hp.nodup_iff.1 hd.2.1, ?_⟩
  intro x hx hxs
  exact hd.2.2 x hxs x (hp.mem_iff.2 hx) rfl

/-! ## What a walk does to `root`: it merges the traced classes in trace order -/

theorem mergeSeq_append (root : NodeM) (a b : List NodeM) :
    mergeSeq root (a ++ b) =
      match mergeSeq root a with
      | .error e => .error e
      | .ok root1 => mergeSeq root1 b := by
  induction a generalizing root with
  | nil => simp [mergeSeq]
  | cons x xs ih =>
    simp only [List.cons_append, mergeSeq]
    cases mergeInto x root with
    | error e => simp
    | ok r1 => simp only []; exact ih r1

theorem Walk.mergeSeq_eq {r : Inv} {loc : Option (List Str)} {l seen : List Str} {root : NodeM}
    {seen' : List Str} {root' : NodeM} {tr : List TraceEntry}
    (h : Walk r loc l seen root seen' root' tr) :
    mergeSeq root (tr.map Prod.snd) = .ok root' := by
  induction h with
  | nil => simp [mergeSeq]
  | seen _ _ _ ih => exact ih
  | ignored _ _ _ _ ih => exact ih
  | load _ _ _ _ hm _ ih1 ih2 =>
    simp only [List.map_append, List.map_cons]
    rw [mergeSeq_append, ih1]
    simp only [mergeSeq, hm]
    exact ih2

theorem mergeInto_ok {self other root' : NodeM} (h : mergeInto self other = .ok root') :
    other.params.merge self.params = .ok root'.params ∧
    root'.apps = other.apps.merge self.apps ∧
    root'.classes = other.classes.merge self.classes ∧
    root'.loc = other.loc := by
  unfold mergeInto at h
  cases hp : other.params.merge self.params with
  | error e => simp [hp] at h
  | ok p =>
    simp only [hp, Except.ok.injEq] at h
    subst h
    exact ⟨rfl, rfl, rfl, rfl⟩

/-- The parameters after `mergeSeq` are the left fold of `Mapping.merge`. -/
theorem mergeSeq_params {root root' : NodeM} {ns : List NodeM} (h : mergeSeq root ns = .ok root') :
    mergeParamsSeq root.params (ns.map (·.params)) = .ok root'.params := by
  induction ns generalizing root with
  | nil => simp only [mergeSeq, Except.ok.injEq] at h; subst h; simp [mergeParamsSeq]
  | cons x xs ih =>
    simp only [mergeSeq] at h
    cases hm : mergeInto x root with
    | error e => simp [hm] at h
    | ok r1 =>
      simp only [hm] at h
      simp only [List.map_cons, mergeParamsSeq, (mergeInto_ok hm).1]
      exact ih h

/-- The class list after `mergeSeq` is the left fold of `UList.merge`. -/
theorem mergeSeq_classes {root root' : NodeM} {ns : List NodeM} (h : mergeSeq root ns = .ok root') :
    root'.classes = ns.foldl (fun acc n => acc.merge n.classes) root.classes := by
  induction ns generalizing root with
  | nil => simp only [mergeSeq, Except.ok.injEq] at h; subst h; rfl
  | cons x xs ih =>
    simp only [mergeSeq] at h
    cases hm : mergeInto x root with
    | error e => simp [hm] at h
    | ok r1 =>
      simp only [hm] at h
      rw [List.foldl_cons, ← (mergeInto_ok hm).2.2.1]
      exact ih h

/-- The application list after `mergeSeq` is the left fold of `RList.merge`. -/
theorem mergeSeq_apps {root root' : NodeM} {ns : List NodeM} (h : mergeSeq root ns = .ok root') :
    root'.apps = ns.foldl (fun acc n => acc.merge n.apps) root.apps := by
  induction ns generalizing root with
  | nil => simp only [mergeSeq, Except.ok.injEq] at h; subst h; rfl
  | cons x xs ih =>
    simp only [mergeSeq] at h
    cases hm : mergeInto x root with
    | error e => simp [hm] at h
    | ok r1 =>
      simp only [hm] at h
      rw [List.foldl_cons, ← (mergeInto_ok hm).2.1]
      exact ih h

/-! ## Plain names -/

theorem absClassName_of_not_dot (loc : Option (List Str)) {cls : Str} (h : cls.head? ≠ some '.') :
    absClassName loc cls = cls := by
  unfold absClassName
  split
  · simp at h
  · rfl

theorem resolveClassName_of_no_marker (fuel : Nat) (params : Mapping) {cls : Str}
    (h : strContains cls Extracted.classRefMarker.toList = false) :
    resolveClassName fuel params cls = .ok cls := by
  unfold resolveClassName
  simp [h]

theorem readClass_of_not_dot (r : Inv) (loc : Option (List Str)) {c : Str} (h : c.head? ≠ some '.') :
    readClass r loc c = readClass r none c := by
  unfold readClass
  rw [absClassName_of_not_dot loc h, absClassName_of_not_dot none h]

/-! ## Refinement to the abstract depth-first traversal -/

theorem Walk.dfs {r : Inv} (hr : PlainInv r) {loc : Option (List Str)} {l seen : List Str} {root : NodeM}
    {seen' : List Str} {root' : NodeM} {tr : List TraceEntry}
    (h : Walk r loc l seen root seen' root' tr) (hl : ∀ cls ∈ l, PlainName cls) :
    Dfs (graphOf r) l seen seen' (tr.map Prod.fst) := by
  induction h with
  | nil => exact Dfs.nil _
  | @seen loc cls rest seen root c seen' root' tr h1 hs _ ih =>
    have hp := hl cls (List.mem_cons_self ..)
    rw [resolveClassName_of_no_marker _ _ hp.1] at h1
    cases h1
    exact Dfs.visited hs (ih fun x hx => hl x (List.mem_cons_of_mem _ hx))
  | @ignored loc cls rest seen root c seen' root' tr h1 hs h2 _ ih =>
    have hp := hl cls (List.mem_cons_self ..)
    rw [resolveClassName_of_no_marker _ _ hp.1] at h1
    cases h1
    refine Dfs.skip hs ?_ (ih fun x hx => hl x (List.mem_cons_of_mem _ hx))
    rw [readClass_of_not_dot r loc hp.2] at h2
    simp [graphOf, h2]
  | @load loc cls rest seen root c cn seen1 root1 tr1 root2 seen' root' tr2 h1 hs h2 _ _ _ ih1 ih2 =>
    have hp := hl cls (List.mem_cons_self ..)
    rw [resolveClassName_of_no_marker _ _ hp.1] at h1
    cases h1
    have hcn := hr loc cls cn h2
    rw [readClass_of_not_dot r loc hp.2] at h2
    simp only [List.map_append, List.map_cons]
    refine Dfs.visit hs ?_ (ih1 hcn) (ih2 fun x hx => hl x (List.mem_cons_of_mem _ hx))
    simp [graphOf, h2]

/-- `Dfs` is deterministic. -/
theorem Dfs.det {g : Str → Option (List Str)} {l vis v1 p1 v2 p2 : List Str}
    (h1 : Dfs g l vis v1 p1) (h2 : Dfs g l vis v2 p2) : v1 = v2 ∧ p1 = p2 := by
  induction h1 generalizing v2 p2 with
  | nil => cases h2; exact ⟨rfl, rfl⟩
  | visited hs _ ih =>
    cases h2 with
    | visited _ h => exact ih h
    | skip hn _ _ => exact absurd hs hn
    | visit hn _ _ _ => exact absurd hs hn
  | skip hn hg _ ih =>
    cases h2 with
    | visited hs _ => exact absurd hs hn
    | skip _ _ h => exact ih h
    | visit _ hg' _ _ => rw [hg] at hg'; cases hg'
  | visit hn hg _ _ ih1 ih2 =>
    cases h2 with
    | visited hs _ => exact absurd hs hn
    | skip _ hg' _ => rw [hg] at hg'; cases hg'
    | visit _ hg' ha hb =>
      rw [hg] at hg'; cases hg'
      obtain ⟨rfl, rfl⟩ := ih1 ha
      obtain ⟨rfl, rfl⟩ := ih2 hb
      exact ⟨rfl, rfl⟩

/-- The executable traversal is sound for `Dfs`. -/
theorem dfs_sound {g : Str → Option (List Str)} : ∀ (n : Nat) (l vis v po : List Str),
    dfs n g l vis = some (v, po) → Dfs g l vis v po := by
  intro n
  induction n with
  | zero => intro l vis v po h; simp [dfs] at h
  | succ n ih =>
    intro l vis v po h
    cases l with
    | nil => simp only [dfs, Option.some.injEq, Prod.mk.injEq] at h; obtain ⟨rfl, rfl⟩ := h; exact Dfs.nil _
    | cons c rest =>
      simp only [dfs] at h
      by_cases hs : c ∈ vis
      · simp only [hs, if_true] at h; exact Dfs.visited hs (ih _ _ _ _ h)
      · simp only [hs, if_false] at h
        cases hg : g c with
        | none => simp only [hg] at h; exact Dfs.skip hs hg (ih _ _ _ _ h)
        | some incs =>
          simp only [hg] at h
          cases h3 : dfs n g incs (vis ++ [c]) with
          | none => simp [h3] at h
          | some x =>
            obtain ⟨v1, p1⟩ := x
            simp only [h3] at h
            cases h4 : dfs n g rest v1 with
            | none => simp [h4] at h
            | some y =>
              obtain ⟨v2, p2⟩ := y
              simp only [h4, Option.some.injEq, Prod.mk.injEq] at h
              obtain ⟨rfl, rfl⟩ := h
              exact Dfs.visit hs hg (ih _ _ _ _ h3) (ih _ _ _ _ h4)

/-! ## Nothing but the walk itself reports `fuel` -/

theorem insertImpl_nofuel (m : Mapping) (k : Key) (v : Value) (a b : Bool) :
    m.insertImpl k v a b ≠ .error .fuel := by
  unfold Mapping.insertImpl
  simp only []
  split
  · simp
  · split <;> simp

mutual
theorem ofYaml_nofuel : ∀ y : Yaml, Value.ofYaml y ≠ .error .fuel
  | .null => by simp [Value.ofYaml]
  | .bool _ => by simp [Value.ofYaml]
  | .num _ => by simp [Value.ofYaml]
  | .str _ => by simp [Value.ofYaml]
  | .seq l => by
    simp only [Value.ofYaml]
    have := ofYamlL_nofuel l
    cases h : ofYamlL l with
    | error e => simp only [h] at this ⊢; simpa using this
    | ok x => simp
  | .map es => by
    simp only [Value.ofYaml]
    have := ofYamlEs_nofuel es {}
    cases h : ofYamlEs es {} with
    | error e => simp only [h] at this ⊢; simpa using this
    | ok x => simp
  | .tagged _ _ => by simp [Value.ofYaml]
theorem ofYamlL_nofuel : ∀ l : List Yaml, ofYamlL l ≠ .error .fuel
  | [] => by simp [ofYamlL]
  | y :: ys => by
    simp only [ofYamlL]
    have h1 := ofYaml_nofuel y
    have h2 := ofYamlL_nofuel ys
    cases h : Value.ofYaml y with
    | error e => simp only [h] at h1 ⊢; simpa using h1
    | ok v =>
      simp only []
      cases h' : ofYamlL ys with
      | error e => simp only [h'] at h2 ⊢; exact h2
      | ok vs => simp
theorem ofYamlEs_nofuel : ∀ (es : List (Yaml × Yaml)) (m : Mapping), ofYamlEs es m ≠ .error .fuel
  | [], m => by simp [ofYamlEs]
  | (k, v) :: rest, m => by
    simp only [ofYamlEs]
    cases hk : Key.ofYaml k with
    | error e =>
      simp only []
      cases k <;> simp [Key.ofYaml] at hk <;> subst hk <;> simp
    | ok k' =>
      simp only []
      have h1 := ofYaml_nofuel v
      cases h : Value.ofYaml v with
      | error e => simp only [h] at h1 ⊢; simpa using h1
      | ok v' =>
        simp only []
        cases hi : m.insert k' v' with
        | error e =>
          simp only []
          intro heq
          injection heq with heq
          subst heq
          exact insertImpl_nofuel m k' v' false false hi
        | ok m' => simp only []; exact ofYamlEs_nofuel rest m'
end




theorem mergeEntries_nofuel (ock ook : List Key) : ∀ (es : List (Key × Value)) (m : Mapping),
    m.mergeEntries ock ook es ≠ .error .fuel
  | [], m => by simp [Mapping.mergeEntries]
  | (k, v) :: rest, m => by
    simp only [Mapping.mergeEntries]
    have h1 := insertImpl_nofuel m k v (decide (k ∈ ock)) (decide (k ∈ ook))
    cases h : m.insertImpl k v (decide (k ∈ ock)) (decide (k ∈ ook)) with
    | error e => simp only [h] at h1 ⊢; simpa using h1
    | ok m' => simp only []; exact mergeEntries_nofuel ock ook rest m'

theorem merge_nofuel (m o : Mapping) : m.merge o ≠ .error .fuel := mergeEntries_nofuel _ _ _ _

theorem mergeInto_nofuel (self other : NodeM) : mergeInto self other ≠ .error .fuel := by
  unfold mergeInto
  have h1 := merge_nofuel other.params self.params
  cases h : other.params.merge self.params with
  | error e => simp only [h] at h1 ⊢; simpa using h1
  | ok p => simp


/-! ## Termination: an explicit fuel bound -/



theorem ofSrc_nofuel (loc : Option (List Str)) (src : ClassSrc) : NodeM.ofSrc loc src ≠ .error .fuel := by
  unfold NodeM.ofSrc
  simp only []
  have h1 := ofYamlEs_nofuel src.params {}
  unfold Mapping.ofYamlEntries
  cases h : ofYamlEs src.params {} with
  | error e => simp only [h] at h1 ⊢; simpa using h1
  | ok p => simp

theorem readClass_nofuel (r : Inv) (loc : Option (List Str)) (c : Str) : readClass r loc c ≠ .error .fuel := by
  unfold readClass
  simp only []
  split
  · split <;> simp
  · simp
  · rename_i info src _
    have h1 := ofSrc_nofuel (some info.loc) src
    cases h : NodeM.ofSrc (some info.loc) src with
    | error e => simp only [h] at h1 ⊢; simpa using h1
    | ok n => simp

/-! ### the counting measure -/

theorem unseen_le_length (U seen : List Str) : unseen U seen ≤ U.length := List.length_filter_le _ _

theorem unseen_mono (U : List Str) {seen seen' : List Str} (h : seen ⊆ seen') :
    unseen U seen' ≤ unseen U seen := by
  unfold unseen
  induction U with
  | nil => simp
  | cons u us ih =>
    simp only [List.filter_cons]
    by_cases h1 : u ∈ seen
    · have h2 : u ∈ seen' := h h1
      simpa [h1, h2] using ih
    · by_cases h2 : u ∈ seen'
      · simp only [h1, h2, not_false_eq_true, decide_true, not_true_eq_false, decide_false, if_true,
          Bool.false_eq_true, if_false, List.length_cons]
        omega
      · simpa [h1, h2] using ih

theorem unseen_lt' (U : List Str) {seen seen2 : List Str} {c : Str} (hsub : seen ⊆ seen2)
    (hU : c ∈ U) (hs : c ∉ seen) (hc : c ∈ seen2) :
    unseen U seen2 < unseen U seen := by
  induction U with
  | nil => simp at hU
  | cons u us ih =>
    have hmono : unseen us seen2 ≤ unseen us seen := unseen_mono us hsub
    unfold unseen at hmono ih ⊢
    simp only [List.filter_cons]
    by_cases huc : u = c
    · subst huc
      simp only [hs, hc, not_true_eq_false, decide_false,
        Bool.false_eq_true, if_false, not_false_eq_true, decide_true, if_true, List.length_cons]
      omega
    · have hU' : c ∈ us := by
        rcases List.mem_cons.1 hU with h | h
        · exact absurd h.symm huc
        · exact h
      have := ih hU'
      by_cases h1 : u ∈ seen
      · have h2 := hsub h1
        simpa [h1, h2] using this
      · by_cases h2 : u ∈ seen2
        · simp only [h1, h2, not_false_eq_true, decide_true, not_true_eq_false, decide_false, if_true,
            Bool.false_eq_true, if_false, List.length_cons]
          omega
        · simp only [h1, h2, not_false_eq_true, decide_true, if_true, List.length_cons]
          omega

theorem unseen_lt (U : List Str) {seen : List Str} {c : Str} (hU : c ∈ U) (hs : c ∉ seen) :
    unseen U (seen ++ [c]) < unseen U seen :=
  unseen_lt' U (fun x hx => List.mem_append_left _ hx) hU hs (by simp)


theorem renderImpl_seen_subset {n : Nat} {r : Inv} {self : NodeM} {seen : List Str} {root : NodeM}
    {seen' : List Str} {root' : NodeM} (h : renderImpl n r self seen root = .ok (seen', root')) :
    seen ⊆ seen' := by
  obtain ⟨tr, ht⟩ := renderImpl_ok_iff.1 h
  obtain ⟨root1, hw, _⟩ := renderImplT_sound ht
  exact hw.seen_subset

theorem walk_nofuel_both {r : Inv} {U : List Str} {B : Nat} (hr : GoodInv r U B) : ∀ n : Nat,
    (∀ self seen root k, GoodNode r U B self → unseen U seen ≤ k → (k+1)*(B+2) ≤ n →
       renderImpl n r self seen root ≠ .error .fuel) ∧
    (∀ loc l seen root k, GoodList r U loc l → unseen U seen ≤ k → l.length + 1 + k*(B+2) ≤ n →
       walkClasses n r loc l seen root ≠ .error .fuel) := by
  intro n
  induction n with
  | zero =>
    refine ⟨?_, ?_⟩
    · intro self seen root k _ _ hn
      rw [Nat.succ_mul] at hn; omega
    · intro loc l seen root k _ _ hn; omega
  | succ n ih =>
    obtain ⟨ihR, ihW⟩ := ih
    refine ⟨?_, ?_⟩
    · intro self seen root k hg hk hn
      rw [Nat.succ_mul] at hn
      rw [renderImpl_succ]
      have hw := ihW self.loc self.classes.items seen root k hg.2 hk (by have := hg.1; omega)
      cases h1 : walkClasses n r self.loc self.classes.items seen root with
      | error e => simp only [h1] at hw ⊢; simpa using hw
      | ok x =>
        obtain ⟨s1, r1⟩ := x
        simp only []
        have hm := mergeInto_nofuel self r1
        cases h2 : mergeInto self r1 with
        | error e => simp only [h2] at hm ⊢; simpa using hm
        | ok r2 => simp
    · intro loc l seen root k hl hk hn
      cases l with
      | nil => simp [walkClasses_nil]
      | cons cls rest =>
        rw [walkClasses_cons]
        simp only [List.length_cons] at hn
        obtain ⟨hnf, hin⟩ := hl cls (List.mem_cons_self ..)
        have hl' : GoodList r U loc rest := fun x hx => hl x (List.mem_cons_of_mem _ hx)
        cases h1 : resolveClassName defaultFuel root.params cls with
        | error e =>
          have := hnf root.params
          simp only [h1] at this ⊢; simpa using this
        | ok c =>
          simp only []
          by_cases hs : c ∈ seen
          · simp only [hs, if_true]
            exact ihW loc rest seen root k hl' hk (by omega)
          · simp only [hs, if_false]
            have hrc := readClass_nofuel r loc c
            cases h2 : readClass r loc c with
            | error e => simp only [h2] at hrc ⊢; simpa using hrc
            | ok o =>
              cases o with
              | none =>
                simp only []
                exact ihW loc rest seen root k hl' hk (by omega)
              | some cn =>
                simp only []
                have hcU := hin _ _ _ h1 h2
                have hlt := unseen_lt U hcU hs
                cases k with
                | zero => omega
                | succ k' =>
                  rw [Nat.succ_mul] at hn
                  have hR := ihR cn (seen ++ [c]) root k' (hr loc c cn h2) (by omega)
                    (by rw [Nat.succ_mul]; omega)
                  cases h3 : renderImpl n r cn (seen ++ [c]) root with
                  | error e => simp only [h3] at hR ⊢; simpa using hR
                  | ok x =>
                    obtain ⟨s1, r1⟩ := x
                    simp only []
                    have hsub : seen ⊆ s1 := fun x hx =>
                      renderImpl_seen_subset h3 (List.mem_append_left _ hx)
                    have hk1 : unseen U s1 ≤ k' + 1 := Nat.le_trans (unseen_mono U hsub) hk
                    exact ihW loc rest s1 r1 (k'+1) hl' hk1 (by rw [Nat.succ_mul]; omega)

/-- **Termination bound.** -/
theorem renderImpl_nofuel {r : Inv} {U : List Str} {B : Nat} (hr : GoodInv r U B)
    {self : NodeM} (hs : GoodNode r U B self) (seen : List Str) (root : NodeM) {n : Nat}
    (hn : (U.length + 1) * (B + 2) ≤ n) :
    renderImpl n r self seen root ≠ .error .fuel :=
  (walk_nofuel_both hr n).1 self seen root U.length hs (unseen_le_length U seen) hn


/-! ## The bound for plain inventories: universe = class names, `B` = longest include list -/

theorem findEntity_some_mem {name : Str} {l : List (Str × EntityInfo × FileRes)} {e : EntityInfo × FileRes}
    (h : findEntity name l = some e) : (name, e) ∈ l := by
  induction l with
  | nil => simp [findEntity] at h
  | cons x xs ih =>
    obtain ⟨n, e'⟩ := x
    simp only [findEntity] at h
    by_cases hn : n = name
    · simp only [hn, if_true, Option.some.injEq] at h; subst h; subst hn; exact List.mem_cons_self ..
    · simp only [hn, if_false] at h; exact List.mem_cons_of_mem _ (ih h)

theorem readClass_some {r : Inv} {loc : Option (List Str)} {c : Str} {cn : NodeM}
    (h : readClass r loc c = .ok (some cn)) :
    ∃ info src, findEntity (absClassName loc c) r.classes = some (info, .ok src) ∧
      NodeM.ofSrc (some info.loc) src = .ok cn := by
  unfold readClass at h
  simp only [] at h
  split at h
  · split at h <;> simp at h
  · simp at h
  · rename_i info src heq
    refine ⟨info, src, heq, ?_⟩
    cases h2 : NodeM.ofSrc (some info.loc) src with
    | error e => simp [h2] at h
    | ok n => simp only [h2, Except.ok.injEq, Option.some.injEq] at h; rw [h]

theorem appendIfNew_length (l : UList) (x : Str) : (l.appendIfNew x).items.length ≤ l.items.length + 1 := by
  unfold UList.appendIfNew
  split <;> simp

theorem foldl_appendIfNew_length (f : Str → Str) (xs : List Str) (acc : UList) :
    (xs.foldl (fun a c => a.appendIfNew (f c)) acc).items.length ≤ acc.items.length + xs.length := by
  induction xs generalizing acc with
  | nil => simp
  | cons x xs ih =>
    simp only [List.foldl_cons, List.length_cons]
    have := ih (acc.appendIfNew (f x))
    have := appendIfNew_length acc (f x)
    omega

theorem ofList_length (xs : List Str) : (UList.ofList xs).items.length ≤ xs.length := by
  have := foldl_appendIfNew_length id xs {}
  simpa [UList.ofList] using this

theorem ofSrc_classes_length {loc : Option (List Str)} {src : ClassSrc} {cn : NodeM}
    (h : NodeM.ofSrc loc src = .ok cn) : cn.classes.items.length ≤ src.classes.length := by
  unfold NodeM.ofSrc at h
  simp only [] at h
  cases hp : Mapping.ofYamlEntries src.params with
  | error e => simp [hp] at h
  | ok p =>
    simp only [hp, Except.ok.injEq] at h
    subst h
    simp only []
    have h1 := foldl_appendIfNew_length (absClassName loc) (UList.ofList src.classes).items {}
    have h2 := ofList_length src.classes
    simp only [show ({} : UList).items.length = 0 from rfl] at h1
    omega

theorem foldl_max_ge_init (f : (Str × EntityInfo × FileRes) → Nat) (l : List (Str × EntityInfo × FileRes)) (m : Nat) :
    m ≤ l.foldl (fun m e => max m (f e)) m := by
  induction l generalizing m with
  | nil => simp
  | cons x xs ih => exact Nat.le_trans (Nat.le_max_left _ _) (ih _)

theorem foldl_max_ge_mem (f : (Str × EntityInfo × FileRes) → Nat) (l : List (Str × EntityInfo × FileRes)) (m : Nat)
    {x : Str × EntityInfo × FileRes} (hx : x ∈ l) : f x ≤ l.foldl (fun m e => max m (f e)) m := by
  induction l generalizing m with
  | nil => simp at hx
  | cons y ys ih =>
    rcases List.mem_cons.1 hx with h | h
    · subst h; exact Nat.le_trans (Nat.le_max_right _ _) (foldl_max_ge_init f ys _)
    · exact ih _ h

theorem readClass_length_le_maxIncludes {r : Inv} {loc : Option (List Str)} {c : Str} {cn : NodeM}
    (h : readClass r loc c = .ok (some cn)) : cn.classes.items.length ≤ maxIncludes r := by
  obtain ⟨info, src, hf, ho⟩ := readClass_some h
  have hm := findEntity_some_mem hf
  have := foldl_max_ge_mem (fun e => match e.2.2 with | .ok src => src.classes.length | .bad _ => 0) r.classes 0 hm
  simp only [] at this
  exact Nat.le_trans (ofSrc_classes_length ho) this

theorem plain_goodList (r : Inv) (loc : Option (List Str)) {l : List Str} (hl : ∀ cls ∈ l, PlainName cls) :
    GoodList r (r.classes.map (·.1)) loc l := by
  intro cls hcls
  obtain ⟨hm, hd⟩ := hl cls hcls
  refine ⟨?_, ?_⟩
  · intro params; rw [resolveClassName_of_no_marker _ _ hm]; simp
  · intro params c cn h1 h2
    rw [resolveClassName_of_no_marker _ _ hm] at h1
    cases h1
    obtain ⟨info, src, hf, _⟩ := readClass_some h2
    rw [absClassName_of_not_dot loc hd] at hf
    exact List.mem_map.2 ⟨_, findEntity_some_mem hf, rfl⟩

theorem plain_goodInv {r : Inv} (hr : PlainInv r) {B : Nat} (hB : maxIncludes r ≤ B) :
    GoodInv r (r.classes.map (·.1)) B := by
  intro loc c cn h
  exact ⟨Nat.le_trans (readClass_length_le_maxIncludes h) hB, plain_goodList r cn.loc (hr loc c cn h)⟩


/-! ## Skipped entries -/

/-- An entry that resolves to an already-seen name, or to a missing and ignored class, is
skipped: neither `seen` nor `root` change. -/
theorem walkClassesT_skip {n : Nat} {r : Inv} {loc : Option (List Str)} {cls c : Str} {rest seen : List Str}
    {root : NodeM} (h1 : resolveClassName defaultFuel root.params cls = .ok c)
    (h2 : c ∈ seen ∨ readClass r loc c = .ok none) :
    walkClassesT (n+1) r loc (cls :: rest) seen root = walkClassesT n r loc rest seen root := by
  rw [walkClassesT_cons]
  simp only [h1]
  by_cases hs : c ∈ seen
  · simp [hs]
  · rcases h2 with h2 | h2
    · exact absurd h2 hs
    · simp [hs, h2]

theorem walkClasses_skip {n : Nat} {r : Inv} {loc : Option (List Str)} {cls c : Str} {rest seen : List Str}
    {root : NodeM} (h1 : resolveClassName defaultFuel root.params cls = .ok c)
    (h2 : c ∈ seen ∨ readClass r loc c = .ok none) :
    walkClasses (n+1) r loc (cls :: rest) seen root = walkClasses n r loc rest seen root := by
  rw [← walkClassesT_erase, ← walkClassesT_erase, walkClassesT_skip h1 h2]

/-- An entry that is skipped in every state (e.g. a reference-free name of a missing, ignored
class) can be inserted anywhere in an include list without changing the walk. -/
theorem walkClassesT_insert_skipped {r : Inv} {loc : Option (List Str)} {cls c : Str}
    (h1 : ∀ params, resolveClassName defaultFuel params cls = .ok c)
    (h2 : readClass r loc c = .ok none) (rest : List Str) :
    ∀ (pre : List Str) (n : Nat) (seen : List Str) (root : NodeM) (res : R (List Str × NodeM × List TraceEntry)),
      walkClassesT n r loc (pre ++ rest) seen root = res → res ≠ .error .fuel →
      walkClassesT (n+1) r loc (pre ++ cls :: rest) seen root = res := by
  intro pre
  induction pre with
  | nil =>
    intro n seen root res h _
    simp only [List.nil_append] at h ⊢
    rw [walkClassesT_skip (h1 _) (Or.inr h2)]; exact h
  | cons p pre ih =>
    intro n seen root res h hne
    cases n with
    | zero => rw [walkClassesT_zero] at h; exact absurd h.symm hne
    | succ m =>
      simp only [List.cons_append] at h ⊢
      rw [walkClassesT_cons] at h ⊢
      cases e1 : resolveClassName defaultFuel root.params p with
      | error e => simp only [e1] at h ⊢; exact h
      | ok d =>
        simp only [e1] at h ⊢
        by_cases hs : d ∈ seen
        · simp only [hs, if_true] at h ⊢; exact ih _ _ _ _ h hne
        · simp only [hs, if_false] at h ⊢
          cases e2 : readClass r loc d with
          | error e => simp only [e2] at h ⊢; exact h
          | ok o =>
            cases o with
            | none => simp only [e2] at h ⊢; exact ih _ _ _ _ h hne
            | some cn =>
              simp only [e2] at h ⊢
              cases e3 : renderImplT m r cn (seen ++ [d]) root with
              | error e =>
                simp only [e3] at h
                have : e ≠ .fuel := by intro he; subst he; exact hne h.symm
                rw [renderImplT_mono_le (Nat.le_succ m) e3 (by simpa using this)]
                exact h
              | ok x =>
                obtain ⟨s1, r1, t1⟩ := x
                rw [renderImplT_mono_le (Nat.le_succ m) e3 (by simp)]
                simp only [e3] at h ⊢
                cases e4 : walkClassesT m r loc (pre ++ rest) s1 r1 with
                | error e =>
                  simp only [e4] at h
                  have : e ≠ .fuel := by intro he; subst he; exact hne h.symm
                  rw [ih _ _ _ _ e4 (by simpa using this)]
                  exact h
                | ok y =>
                  rw [ih _ _ _ _ e4 (by simp)]
                  simp only [e4] at h
                  exact h

theorem walkClasses_insert_skipped {r : Inv} {loc : Option (List Str)} {cls c : Str}
    (h1 : ∀ params, resolveClassName defaultFuel params cls = .ok c)
    (h2 : readClass r loc c = .ok none) (pre rest : List Str) {n : Nat} {seen : List Str} {root : NodeM}
    {res : R (List Str × NodeM)}
    (h : walkClasses n r loc (pre ++ rest) seen root = res) (hne : res ≠ .error .fuel) :
    walkClasses (n+1) r loc (pre ++ cls :: rest) seen root = res := by
  rw [← walkClassesT_erase] at h ⊢
  have hne' : walkClassesT n r loc (pre ++ rest) seen root ≠ .error .fuel := by
    intro hc; rw [hc] at h; exact hne (by rw [← h]; rfl)
  rw [walkClassesT_insert_skipped h1 h2 rest pre n seen root _ rfl hne']; exact h

/-! ## `UList.merge` membership -/

theorem UList.mem_appendIfNew {l : UList} {x y : Str} :
    y ∈ (l.appendIfNew x).items ↔ y ∈ l.items ∨ y = x := by
  unfold UList.appendIfNew
  split
  · rename_i h
    constructor
    · exact Or.inl
    · rintro (h' | h')
      · exact h'
      · subst h'; exact h
  · simp

theorem UList.mem_merge {l o : UList} {y : Str} :
    y ∈ (l.merge o).items ↔ y ∈ l.items ∨ y ∈ o.items := by
  unfold UList.merge
  generalize o.items = xs
  induction xs generalizing l with
  | nil => simp
  | cons x xs ih =>
    simp only [List.foldl_cons, ih, UList.mem_appendIfNew, List.mem_cons]
    constructor
    · rintro ((h | h) | h)
      · exact Or.inl h
      · exact Or.inr (Or.inl h)
      · exact Or.inr (Or.inr h)
    · rintro (h | h | h)
      · exact Or.inl (Or.inl h)
      · exact Or.inl (Or.inr h)
      · exact Or.inr h




/-! ## Error propagation -/

theorem readClass_missing {r : Inv} {loc : Option (List Str)} {c : Str}
    (hf : findEntity (absClassName loc c) r.classes = none) :
    readClass r loc c =
      if r.cfg.isClassIgnored (absClassName loc c) then .ok none
      else .error (.classNotFound (absClassName loc c)) := by
  unfold readClass
  simp only [hf]

/-- An error of the include walk is the error of `renderImpl`. -/
theorem renderImpl_error_of_walk {n : Nat} {r : Inv} {self : NodeM} {seen : List Str} {root : NodeM} {e : Err}
    (h : walkClasses n r self.loc self.classes.items seen root = .error e) :
    renderImpl (n+1) r self seen root = .error e := by
  rw [renderImpl_succ, h]

/-- An error while reading the class an entry resolves to is the error of the walk. -/
theorem walkClasses_error_of_read {n : Nat} {r : Inv} {loc : Option (List Str)} {cls c : Str}
    {rest seen : List Str} {root : NodeM} {e : Err}
    (h1 : resolveClassName defaultFuel root.params cls = .ok c) (hs : c ∉ seen)
    (h2 : readClass r loc c = .error e) :
    walkClasses (n+1) r loc (cls :: rest) seen root = .error e := by
  rw [walkClasses_cons]; simp only [h1, hs, if_false, h2]

/-- An error inside an included class is the error of the including walk. -/
theorem walkClasses_error_of_render {n : Nat} {r : Inv} {loc : Option (List Str)} {cls c : Str}
    {rest seen : List Str} {root : NodeM} {cn : NodeM} {e : Err}
    (h1 : resolveClassName defaultFuel root.params cls = .ok c) (hs : c ∉ seen)
    (h2 : readClass r loc c = .ok (some cn))
    (h3 : renderImpl n r cn (seen ++ [c]) root = .error e) :
    walkClasses (n+1) r loc (cls :: rest) seen root = .error e := by
  rw [walkClasses_cons]; simp only [h1, hs, if_false, h2, h3]

/-- An error in the entries after a successfully walked prefix is the error of the whole walk
(for some, hence every larger, amount of fuel). -/
theorem Walk.prefix_error {r : Inv} {loc : Option (List Str)} {pre seen : List Str} {root : NodeM}
    {seen1 : List Str} {root1 : NodeM} {tr : List TraceEntry}
    (h : Walk r loc pre seen root seen1 root1 tr) {n : Nat} {l2 : List Str} {e : Err}
    (he : walkClasses n r loc l2 seen1 root1 = .error e) (hne : e ≠ .fuel) :
    ∃ m, ∀ m', m ≤ m' → walkClasses m' r loc (pre ++ l2) seen root = .error e := by
  suffices ∃ m, walkClasses m r loc (pre ++ l2) seen root = .error e by
    obtain ⟨m, hm⟩ := this
    exact ⟨m, fun m' hle => walkClasses_mono_le hle hm (by simpa using hne)⟩
  induction h with
  | nil => exact ⟨n, he⟩
  | seen h1 hs _ ih =>
    obtain ⟨m, hm⟩ := ih he
    exact ⟨m+1, by rw [List.cons_append, walkClasses_skip h1 (Or.inl hs)]; exact hm⟩
  | ignored h1 hs h2 _ ih =>
    obtain ⟨m, hm⟩ := ih he
    exact ⟨m+1, by rw [List.cons_append, walkClasses_skip h1 (Or.inr h2)]; exact hm⟩
  | @load loc cls rest seen root c cn s1 r1 t1 r2 s' r' t2 h1 hs h2 hw hm _ _ ih2 =>
    obtain ⟨m2, hm2⟩ := ih2 he
    obtain ⟨m1, hm1⟩ := hw.complete
    have hr : renderImpl (m1+1) r cn (seen ++ [c]) root = .ok (s1, r2) := by
      rw [renderImpl_succ, walkClasses_ok_iff.2 ⟨_, hm1⟩]; simp only [hm]
    refine ⟨max (m1+1) m2 + 1, ?_⟩
    rw [List.cons_append, walkClasses_cons]
    simp only [h1, hs, if_false, h2]
    rw [renderImpl_mono_le (Nat.le_max_left _ _) hr (by simp)]
    simp only []
    exact walkClasses_mono_le (Nat.le_max_right _ _) hm2 (by simpa using hne)

/-- Likewise for success: walks compose along `++`. -/
theorem Walk.append {r : Inv} {loc : Option (List Str)} {l1 seen : List Str} {root : NodeM}
    {seen1 : List Str} {root1 : NodeM} {tr1 : List TraceEntry}
    (h : Walk r loc l1 seen root seen1 root1 tr1) {l2 seen2 : List Str} {root2 : NodeM} {tr2 : List TraceEntry}
    (h' : Walk r loc l2 seen1 root1 seen2 root2 tr2) :
    Walk r loc (l1 ++ l2) seen root seen2 root2 (tr1 ++ tr2) := by
  induction h with
  | nil => exact h'
  | seen h1 hs _ ih => exact Walk.seen h1 hs (ih h')
  | ignored h1 hs h2 _ ih => exact Walk.ignored h1 hs h2 (ih h')
  | load h1 hs h2 hw hm _ _ ih2 =>
    have := Walk.load h1 hs h2 hw hm (ih2 h')
    simpa [List.append_assoc] using this

/-- An error of the walk of the base node is the error of `renderNodeSrc`. -/
theorem renderNodeSrc_error_of_walk {fuel : Nat} {r : Inv} {nmeta : MetaM} {src : ClassSrc}
    {self : NodeM} {rc bp : Mapping} {e : Err}
    (h1 : NodeM.ofSrc none src = .ok self) (h2 : nmeta.asReclass r.cfg = .ok rc)
    (h3 : ({} : Mapping).insert (.str Extracted.reclassKey.toList) rc.toValue = .ok bp)
    (h4 : renderImpl fuel r { classes := self.classes, params := bp } [] {} = .error e) :
    renderNodeSrc fuel r nmeta src = .error e := by
  unfold renderNodeSrc
  simp only [h1, h2, h3, h4]




/-! ## `renderNodeSrc` unpacked -/

theorem mergeInto_eq {self other : NodeM} {p : Mapping} (h : other.params.merge self.params = .ok p) :
    mergeInto self other =
      .ok { other with apps := other.apps.merge self.apps, classes := other.classes.merge self.classes, params := p } := by
  unfold mergeInto; simp only [h]

theorem renderNodeSrc_ok {fuel : Nat} {r : Inv} {nmeta : MetaM} {src : ClassSrc} {info : NodeInfoM}
    (h : renderNodeSrc fuel r nmeta src = .ok info) :
    ∃ self rc bp seen root fin,
      NodeM.ofSrc none src = .ok self ∧ nmeta.asReclass r.cfg = .ok rc ∧
      ({} : Mapping).insert (.str Extracted.reclassKey.toList) rc.toValue = .ok bp ∧
      renderImpl fuel r { classes := self.classes, params := bp } [] {} = .ok (seen, root) ∧
      mergeInto self root = .ok fin ∧
      renderParamsF defaultFuel fin.params = .ok info.params ∧
      info.apps = fin.apps.items ∧ info.classes = fin.classes.items ∧ info.nmeta = nmeta := by
  unfold renderNodeSrc at h
  cases h1 : NodeM.ofSrc none src with
  | error e => simp [h1] at h
  | ok self =>
    simp only [h1] at h
    cases h2 : nmeta.asReclass r.cfg with
    | error e => simp [h2] at h
    | ok rc =>
      simp only [h2] at h
      cases h3 : ({} : Mapping).insert (.str Extracted.reclassKey.toList) rc.toValue with
      | error e => simp [h3] at h
      | ok bp =>
        simp only [h3] at h
        cases h4 : renderImpl fuel r { classes := self.classes, params := bp } [] {} with
        | error e => simp [h4] at h
        | ok x =>
          obtain ⟨seen, root⟩ := x
          simp only [h4] at h
          cases h5 : mergeInto self root with
          | error e => simp [h5] at h
          | ok fin =>
            simp only [h5] at h
            cases h6 : renderParamsF defaultFuel fin.params with
            | error e => simp [h6] at h
            | ok p =>
              simp only [h6, Except.ok.injEq] at h
              subst h
              exact ⟨self, rc, bp, seen, root, fin, rfl, rfl, h3, h4, h5, h6, rfl, rfl, rfl⟩

theorem renderNodeSrc_of_parts {fuel : Nat} {r : Inv} {nmeta : MetaM} {src : ClassSrc}
    {self : NodeM} {rc bp : Mapping} {seen : List Str} {root fin : NodeM} {p : Mapping}
    (h1 : NodeM.ofSrc none src = .ok self) (h2 : nmeta.asReclass r.cfg = .ok rc)
    (h3 : ({} : Mapping).insert (.str Extracted.reclassKey.toList) rc.toValue = .ok bp)
    (h4 : renderImpl fuel r { classes := self.classes, params := bp } [] {} = .ok (seen, root))
    (h5 : mergeInto self root = .ok fin) (h6 : renderParamsF defaultFuel fin.params = .ok p) :
    renderNodeSrc fuel r nmeta src =
      .ok { nmeta := nmeta, apps := fin.apps.items, classes := fin.classes.items, params := p } := by
  unfold renderNodeSrc
  simp only [h1, h2, h3, h4, h5, h6]

/-! ## A skipped entry, at the level of `renderImpl` -/

theorem renderImpl_insert_skipped {r : Inv} {self self' : NodeM} {cls c : Str} {pre rest : List Str}
    (hloc : self.loc = self'.loc) (hp : self.params = self'.params) (ha : self.apps = self'.apps)
    (hc : self.classes.items = pre ++ cls :: rest) (hc' : self'.classes.items = pre ++ rest)
    (h1 : ∀ params, resolveClassName defaultFuel params cls = .ok c)
    (h2 : readClass r self.loc c = .ok none)
    {n : Nat} {seen : List Str} {root : NodeM} :
    (∀ e, renderImpl n r self' seen root = .error e → e ≠ .fuel →
       renderImpl (n+1) r self seen root = .error e) ∧
    (∀ seen' root', renderImpl n r self' seen root = .ok (seen', root') →
       ∃ root'', renderImpl (n+1) r self seen root = .ok (seen', root'') ∧
         root''.params = root'.params ∧ root''.apps = root'.apps ∧ root''.loc = root'.loc ∧
         ∀ x, x ∈ root''.classes.items ↔ x = cls ∨ x ∈ root'.classes.items) := by
  cases n with
  | zero =>
    refine ⟨?_, ?_⟩
    · intro e h hne; rw [renderImpl_zero] at h; cases h; exact absurd rfl hne
    · intro s ro h; rw [renderImpl_zero] at h; cases h
  | succ m =>
    refine ⟨?_, ?_⟩
    · intro e h hne
      rw [renderImpl_succ] at h
      rw [renderImpl_succ, hc]
      rw [hc', ← hloc] at h
      cases hw : walkClasses m r self.loc (pre ++ rest) seen root with
      | error e' =>
        simp only [hw, Except.error.injEq] at h
        subst h
        rw [walkClasses_insert_skipped h1 h2 pre rest hw (by simpa using hne)]
      | ok x =>
        obtain ⟨s1, r1⟩ := x
        rw [walkClasses_insert_skipped h1 h2 pre rest hw (by simp)]
        simp only [hw] at h ⊢
        unfold mergeInto at h ⊢
        rw [hp]
        cases hm : r1.params.merge self'.params with
        | error e' => simp only [hm, Except.error.injEq] at h ⊢; exact h
        | ok p => simp [hm] at h
    · intro s ro h
      rw [renderImpl_succ] at h
      rw [renderImpl_succ, hc]
      rw [hc', ← hloc] at h
      cases hw : walkClasses m r self.loc (pre ++ rest) seen root with
      | error e' => simp [hw] at h
      | ok x =>
        obtain ⟨s1, r1⟩ := x
        rw [walkClasses_insert_skipped h1 h2 pre rest hw (by simp)]
        simp only [hw] at h ⊢
        cases hm : r1.params.merge self'.params with
        | error e' => simp [mergeInto, hm] at h
        | ok p =>
          rw [mergeInto_eq hm] at h
          rw [mergeInto_eq (hp ▸ hm)]
          simp only [Except.ok.injEq, Prod.mk.injEq] at h
          obtain ⟨rfl, rfl⟩ := h
          refine ⟨_, rfl, rfl, by rw [ha], rfl, ?_⟩
          intro x
          simp only [UList.mem_merge, hc, hc', List.mem_append, List.mem_cons]
          constructor
          · rintro (h | h | h | h)
            · exact Or.inr (Or.inl h)
            · exact Or.inr (Or.inr (Or.inl h))
            · exact Or.inl h
            · exact Or.inr (Or.inr (Or.inr h))
          · rintro (h | h | h | h)
            · exact Or.inr (Or.inr (Or.inl h))
            · exact Or.inl h
            · exact Or.inr (Or.inl h)
            · exact Or.inr (Or.inr (Or.inr h))




/-- A skipped entry in the node's own include list, at the level of `renderNodeSrc`. -/
theorem renderNodeSrc_insert_skipped {r : Inv} {nmeta : MetaM} {src src' : ClassSrc} {self self' : NodeM}
    {cls c : Str} {pre rest : List Str}
    (hs : NodeM.ofSrc none src = .ok self) (hs' : NodeM.ofSrc none src' = .ok self')
    (hp : self.params = self'.params) (ha : self.apps = self'.apps)
    (hc : self.classes.items = pre ++ cls :: rest) (hc' : self'.classes.items = pre ++ rest)
    (h1 : ∀ params, resolveClassName defaultFuel params cls = .ok c)
    (h2 : readClass r none c = .ok none)
    {fuel : Nat} {info' : NodeInfoM} (h : renderNodeSrc fuel r nmeta src' = .ok info') :
    ∃ info, renderNodeSrc (fuel+1) r nmeta src = .ok info ∧ info.params = info'.params ∧
      info.apps = info'.apps ∧ info.nmeta = info'.nmeta ∧
      ∀ x, x ∈ info.classes ↔ x = cls ∨ x ∈ info'.classes := by
  obtain ⟨self0, rc, bp, seen, root, fin, e1, e2, e3, e4, e5, e6, e7, e8, e9⟩ := renderNodeSrc_ok h
  rw [hs'] at e1; cases e1
  obtain ⟨root2, hr, hpp, haa, hll, hcc⟩ :=
    (renderImpl_insert_skipped (self := { classes := self.classes, params := bp })
      (self' := { classes := self'.classes, params := bp }) (cls := cls) (c := c) (pre := pre) (rest := rest)
      rfl rfl rfl hc hc' h1 h2).2 _ _ e4
  obtain ⟨m1, m2, m3, m4⟩ := mergeInto_ok e5
  have hm : root2.params.merge self.params = .ok fin.params := by rw [hpp, hp]; exact m1
  refine ⟨_, renderNodeSrc_of_parts hs e2 e3 hr (mergeInto_eq hm) e6, rfl, ?_, e9.symm, ?_⟩
  · simp only [e7, m2, haa, ha]
  · intro x
    simp only [e8, m3, UList.mem_merge, hcc, hc, hc', List.mem_append, List.mem_cons]
    constructor
    · rintro ((h | h) | h | h | h)
      · exact Or.inl h
      · exact Or.inr (Or.inl h)
      · exact Or.inr (Or.inr (Or.inl h))
      · exact Or.inl h
      · exact Or.inr (Or.inr (Or.inr h))
    · rintro (h | h | h | h)
      · exact Or.inl (Or.inl h)
      · exact Or.inl (Or.inr h)
      · exact Or.inr (Or.inl h)
      · exact Or.inr (Or.inr (Or.inr h))


end Reclass
