/-
  Reclass.Lemmas.WalkL — lemmas about the class walk `renderImpl` / `walkClasses`
  (`Model/Node`) and its instrumented copy `renderImplT` / `walkClassesT` (`Spec/Walk`).
-/
import Reclass.Spec.Walk
import Reclass.Lemmas.Lists
namespace Reclass

/-! ## Unfolding equations -/

theorem renderImpl_zero (r : Inv) (self : NodeM) (seen : List Str) (root : NodeM) :
    renderImpl 0 r self seen root = .error .fuel := by simp only [renderImpl]

theorem renderImpl_succ (n : Nat) (r : Inv) (self : NodeM) (seen : List Str) (root : NodeM) :
    renderImpl (n+1) r self seen root =
      match walkClasses n r self.loc self.classes.items seen root with
      | .error e => .error e
      | .ok (seen', root') =>
        match mergeInto self root' with
        | .error e => .error e
        | .ok root'' => .ok (seen', root'') := by simp only [renderImpl]; rfl

theorem walkClasses_zero (r : Inv) (loc : Option (List Str)) (l seen : List Str) (root : NodeM) :
    walkClasses 0 r loc l seen root = .error .fuel := by simp only [walkClasses]

theorem walkClasses_nil (n : Nat) (r : Inv) (loc : Option (List Str)) (seen : List Str) (root : NodeM) :
    walkClasses (n+1) r loc [] seen root = .ok (seen, root) := by simp only [walkClasses]

theorem walkClasses_cons (n : Nat) (r : Inv) (loc : Option (List Str)) (cls : Str) (rest seen : List Str)
    (root : NodeM) :
    walkClasses (n+1) r loc (cls :: rest) seen root =
      match resolveClassName defaultFuel root.params cls with
      | .error e => .error e
      | .ok c =>
        if c ∈ seen then walkClasses n r loc rest seen root
        else
          match readClass r loc c with
          | .error e => .error e
          | .ok none => walkClasses n r loc rest seen root
          | .ok (some cn) =>
            match renderImpl n r cn (seen ++ [c]) root with
            | .error e => .error e
            | .ok (seen', root') => walkClasses n r loc rest seen' root' := by simp only [walkClasses]; rfl

theorem renderImplT_zero (r : Inv) (self : NodeM) (seen : List Str) (root : NodeM) :
    renderImplT 0 r self seen root = .error .fuel := by simp only [renderImplT]

theorem renderImplT_succ (n : Nat) (r : Inv) (self : NodeM) (seen : List Str) (root : NodeM) :
    renderImplT (n+1) r self seen root =
      match walkClassesT n r self.loc self.classes.items seen root with
      | .error e => .error e
      | .ok (seen', root', tr) =>
        match mergeInto self root' with
        | .error e => .error e
        | .ok root'' => .ok (seen', root'', tr) := by simp only [renderImplT]; rfl

theorem walkClassesT_zero (r : Inv) (loc : Option (List Str)) (l seen : List Str) (root : NodeM) :
    walkClassesT 0 r loc l seen root = .error .fuel := by simp only [walkClassesT]

theorem walkClassesT_nil (n : Nat) (r : Inv) (loc : Option (List Str)) (seen : List Str) (root : NodeM) :
    walkClassesT (n+1) r loc [] seen root = .ok (seen, root, []) := by simp only [walkClassesT]

theorem walkClassesT_cons (n : Nat) (r : Inv) (loc : Option (List Str)) (cls : Str) (rest seen : List Str)
    (root : NodeM) :
    walkClassesT (n+1) r loc (cls :: rest) seen root =
      match resolveClassName defaultFuel root.params cls with
      | .error e => .error e
      | .ok c =>
        if c ∈ seen then walkClassesT n r loc rest seen root
        else
          match readClass r loc c with
          | .error e => .error e
          | .ok none => walkClassesT n r loc rest seen root
          | .ok (some cn) =>
            match renderImplT n r cn (seen ++ [c]) root with
            | .error e => .error e
            | .ok (seen', root', tr1) =>
              match walkClassesT n r loc rest seen' root' with
              | .error e => .error e
              | .ok (seen'', root'', tr2) => .ok (seen'', root'', tr1 ++ (c, cn) :: tr2) := by
  simp only [walkClassesT]; rfl

/-! ## Erasing the trace gives the model -/

theorem erase_both : ∀ n : Nat,
    (∀ r self seen root, eraseTrace (renderImplT n r self seen root) = renderImpl n r self seen root) ∧
    (∀ r loc l seen root, eraseTrace (walkClassesT n r loc l seen root) = walkClasses n r loc l seen root) := by
  intro n
  induction n with
  | zero =>
    refine ⟨?_, ?_⟩ <;> intros <;> simp [renderImplT, renderImpl, walkClassesT, walkClasses, eraseTrace]
  | succ n ih =>
    obtain ⟨ihR, ihW⟩ := ih
    refine ⟨?_, ?_⟩
    · intro r self seen root
      rw [renderImplT_succ, renderImpl_succ, ← ihW]
      cases h1 : walkClassesT n r self.loc self.classes.items seen root with
      | error e => simp [eraseTrace]
      | ok x =>
        obtain ⟨s, root', tr⟩ := x
        simp only [eraseTrace]
        cases h2 : mergeInto self root' with
        | error e => simp
        | ok root'' => simp
    · intro r loc l seen root
      cases l with
      | nil => simp [walkClassesT, walkClasses, eraseTrace]
      | cons cls rest =>
        rw [walkClassesT_cons, walkClasses_cons]
        cases h1 : resolveClassName defaultFuel root.params cls with
        | error e => simp [eraseTrace]
        | ok c =>
          simp only []
          by_cases hs : c ∈ seen
          · simp only [hs, if_true]; exact ihW ..
          · simp only [hs, if_false]
            cases h2 : readClass r loc c with
            | error e => simp [eraseTrace]
            | ok o =>
              cases o with
              | none => simp only []; exact ihW ..
              | some cn =>
                simp only []
                rw [← ihR]
                cases h3 : renderImplT n r cn (seen ++ [c]) root with
                | error e => simp [eraseTrace]
                | ok x =>
                  obtain ⟨s1, root1, tr1⟩ := x
                  simp only [eraseTrace]
                  rw [← ihW]
                  cases h4 : walkClassesT n r loc rest s1 root1 with
                  | error e => simp [eraseTrace]
                  | ok y =>
                    obtain ⟨s2, root2, tr2⟩ := y
                    simp [eraseTrace]

theorem renderImplT_erase (n : Nat) (r : Inv) (self : NodeM) (seen : List Str) (root : NodeM) :
    eraseTrace (renderImplT n r self seen root) = renderImpl n r self seen root :=
  (erase_both n).1 r self seen root

theorem walkClassesT_erase (n : Nat) (r : Inv) (loc : Option (List Str)) (l seen : List Str) (root : NodeM) :
    eraseTrace (walkClassesT n r loc l seen root) = walkClasses n r loc l seen root :=
  (erase_both n).2 r loc l seen root

/-- Success of the model = success of the instrumented walk with some trace. -/
theorem renderImpl_ok_iff {n : Nat} {r : Inv} {self : NodeM} {seen : List Str} {root : NodeM}
    {seen' : List Str} {root' : NodeM} :
    renderImpl n r self seen root = .ok (seen', root') ↔
      ∃ tr, renderImplT n r self seen root = .ok (seen', root', tr) := by
  rw [← renderImplT_erase]
  cases h : renderImplT n r self seen root with
  | error e => simp [eraseTrace]
  | ok x => obtain ⟨s, ro, tr⟩ := x; simp [eraseTrace]

theorem walkClasses_ok_iff {n : Nat} {r : Inv} {loc : Option (List Str)} {l seen : List Str} {root : NodeM}
    {seen' : List Str} {root' : NodeM} :
    walkClasses n r loc l seen root = .ok (seen', root') ↔
      ∃ tr, walkClassesT n r loc l seen root = .ok (seen', root', tr) := by
  rw [← walkClassesT_erase]
  cases h : walkClassesT n r loc l seen root with
  | error e => simp [eraseTrace]
  | ok x => obtain ⟨s, ro, tr⟩ := x; simp [eraseTrace]

theorem renderImpl_error_iff {n : Nat} {r : Inv} {self : NodeM} {seen : List Str} {root : NodeM} {e : Err} :
    renderImpl n r self seen root = .error e ↔ renderImplT n r self seen root = .error e := by
  rw [← renderImplT_erase]
  cases h : renderImplT n r self seen root with
  | error e => simp [eraseTrace]
  | ok x => obtain ⟨s, ro, tr⟩ := x; simp [eraseTrace]

theorem walkClasses_error_iff {n : Nat} {r : Inv} {loc : Option (List Str)} {l seen : List Str} {root : NodeM}
    {e : Err} :
    walkClasses n r loc l seen root = .error e ↔ walkClassesT n r loc l seen root = .error e := by
  rw [← walkClassesT_erase]
  cases h : walkClassesT n r loc l seen root with
  | error e => simp [eraseTrace]
  | ok x => obtain ⟨s, ro, tr⟩ := x; simp [eraseTrace]

end Reclass
