/-
  Reclass.Lemmas.CommuteL — "look up, then render" = "render, then look up" for a path that
  walks through layer lists and string references (helper lemmas for `Props/C03b`).

  `Token::resolve` (`descend` / `interpStrOrVl` / `layersStr`) merges the *raw* layers of an
  intermediate layer list (only `String` layers are interpolated first) and looks the next path
  segment up in that raw merge; rendering (`interp` on `.vl`, `interpVl`) interpolates *every*
  layer, merges, and interpolates the merge again.  The two routes are related here by running
  the two merges in lock-step:

   * `RelL` / `RelEs`: pointwise relations on layer lists / entry lists (same keys, related values);
   * `IR root s a b`: "`a` interpolates to `b` from state `s`" (some fuel);
   * `LR root s0 k a b`: the layers of `a` interpolate, one by one, to the layers of `b` (from the
     state `s0` with `k` pushed) and are free of layer lists;
   * `insertImpl_rel`, `mergeEntries_rel`, `mergeV_rel`, `flatVl_rel`: `Mapping::insert_impl`,
     `Mapping::merge`, `Value::merge` and the layer fold keep `RelEs`/`AccRel` when both sides succeed;
   * `interpVl_spec` / `interpVl_build`, `layersStr_spec`: the two layer loops, pointwise;
   * `step`: one segment of the path; `descend_path`: the whole path.

  The hypothesis `Layered` (a layer list holds no further layer list at any depth) is needed: see
  `Props/C03b` for a root where the two routes disagree without it.
-/
import Reclass.Props.C03
import Reclass.Props.C04
namespace Reclass
namespace Commute

open Refs

/-! ## Vocabulary -/

mutual
/-- No layer list at any position (unparsed strings are allowed). -/
def VlFree : Value → Prop
  | .vl _ => False
  | .map es _ _ => VlFreeEs es
  | .seq l => VlFreeL l
  | _ => True
def VlFreeL : List Value → Prop
  | [] => True
  | v :: vs => VlFree v ∧ VlFreeL vs
def VlFreeEs : List (Key × Value) → Prop
  | [] => True
  | (_, v) :: es => VlFree v ∧ VlFreeEs es
end

/-- A value as `Mapping::merge` of YAML-decoded class parameters leaves it: free of layer lists,
or a layer list whose layers are free of layer lists. -/
def Layered : Value → Prop
  | .vl l => VlFreeL l
  | v => VlFree v

/-- The layers a value stands for (`C10.layersOf`). -/
def lays : Value → List Value
  | .vl l => l
  | v => [v]

theorem lays_combine (old v : Value) : lays (combine old v) = lays old ++ lays v := by
  cases old <;> cases v <;> simp [combine, lays]

theorem lays_of_not_vl {v : Value} (h : v.isVl = false) : lays v = [v] := by
  cases v <;> simp_all [lays, Value.isVl]

theorem vlFreeL_append {a b : List Value} : VlFreeL (a ++ b) ↔ VlFreeL a ∧ VlFreeL b := by
  induction a with
  | nil => simp [VlFreeL]
  | cons x a ih => simp only [List.cons_append, VlFreeL, ih, and_assoc]

theorem vlFree_isVl {v : Value} (h : VlFree v) : v.isVl = false := by
  cases v <;> simp_all [VlFree, Value.isVl]

theorem layered_iff (v : Value) : Layered v ↔ VlFreeL (lays v) := by
  cases v <;> simp [Layered, lays, VlFreeL]

theorem layered_of_vlFree {v : Value} (h : VlFree v) : Layered v := by
  cases v <;> simp_all [Layered, VlFree]

mutual
theorem closed_vlFree : ∀ (v : Value), Closed v → VlFree v
  | .vl _, h => by simp [Closed] at h
  | .str _, h => by simp [Closed] at h
  | .null, _ => by simp [VlFree]
  | .bool _, _ => by simp [VlFree]
  | .num _, _ => by simp [VlFree]
  | .lit _, _ => by simp [VlFree]
  | .seq l, h => by simp only [Closed] at h; simp only [VlFree]; exact closedL_vlFree l h
  | .map es _ _, h => by simp only [Closed] at h; simp only [VlFree]; exact closedEs_vlFree es h
theorem closedL_vlFree : ∀ (l : List Value), ClosedL l → VlFreeL l
  | [], _ => by simp [VlFreeL]
  | v :: vs, h => by
    simp only [ClosedL] at h
    exact ⟨closed_vlFree v h.1, closedL_vlFree vs h.2⟩
theorem closedEs_vlFree : ∀ (es : List (Key × Value)), ClosedEs es → VlFreeEs es
  | [], _ => by simp [VlFreeEs]
  | (_, v) :: es, h => by
    simp only [ClosedEs] at h
    exact ⟨closed_vlFree v h.1, closedEs_vlFree es h.2⟩
end

theorem lookup_vlFree {k : Key} {es : List (Key × Value)} {v : Value} (h : VlFreeEs es)
    (hl : lookup k es = some v) : VlFree v := by
  induction es with
  | nil => simp [lookup] at hl
  | cons e es ih =>
    obtain ⟨k', v'⟩ := e
    simp only [VlFreeEs] at h
    by_cases hk : k' = k
    · simp only [lookup, hk, if_true, Option.some.injEq] at hl; exact hl ▸ h.1
    · simp only [lookup, hk, if_false] at hl; exact ih h.2 hl

theorem lookup_closed {k : Key} {es : List (Key × Value)} {v : Value} (h : ClosedEs es)
    (hl : lookup k es = some v) : Closed v := by
  induction es with
  | nil => simp [lookup] at hl
  | cons e es ih =>
    obtain ⟨k', v'⟩ := e
    simp only [ClosedEs] at h
    by_cases hk : k' = k
    · simp only [lookup, hk, if_true, Option.some.injEq] at hl; exact hl ▸ h.1
    · simp only [lookup, hk, if_false] at hl; exact ih h.2 hl

theorem lookup_canon {k : Key} {es : List (Key × Value)} {v : Value} (h : CanonEs es)
    (hl : lookup k es = some v) : Canon v := by
  induction es with
  | nil => simp [lookup] at hl
  | cons e es ih =>
    obtain ⟨k', v'⟩ := e
    simp only [CanonEs] at h
    by_cases hk : k' = k
    · simp only [lookup, hk, if_true, Option.some.injEq] at hl; exact hl ▸ h.1
    · simp only [lookup, hk, if_false] at hl; exact ih h.2 hl

/-! ## Pointwise relations on lists -/

/-- Pointwise relation on two lists of values (same length). -/
def RelL (P : Value → Value → Prop) : List Value → List Value → Prop
  | [], [] => True
  | a :: as, b :: bs => P a b ∧ RelL P as bs
  | _, _ => False

/-- Pointwise relation on two entry lists: same keys in the same order, related values (the
relation may depend on the key). -/
def RelEs (P : Key → Value → Value → Prop) : List (Key × Value) → List (Key × Value) → Prop
  | [], [] => True
  | (k, a) :: as, (k', b) :: bs => k = k' ∧ P k a b ∧ RelEs P as bs
  | _, _ => False

theorem relL_append {P : Value → Value → Prop} : ∀ {a b a' b' : List Value},
    RelL P a b → RelL P a' b' → RelL P (a ++ a') (b ++ b')
  | [], [], _, _, _, h => by simpa using h
  | [], _ :: _, _, _, h, _ => by simp [RelL] at h
  | _ :: _, [], _, _, h, _ => by simp [RelL] at h
  | x :: a, y :: b, a', b', h, h' => by
    simp only [RelL] at h
    simp only [List.cons_append, RelL]
    exact ⟨h.1, relL_append h.2 h'⟩

theorem relL_mono {P Q : Value → Value → Prop} (hPQ : ∀ a b, P a b → Q a b) :
    ∀ {a b : List Value}, RelL P a b → RelL Q a b
  | [], [], _ => by simp [RelL]
  | [], _ :: _, h => by simp [RelL] at h
  | _ :: _, [], h => by simp [RelL] at h
  | x :: a, y :: b, h => by
    simp only [RelL] at h ⊢
    exact ⟨hPQ _ _ h.1, relL_mono hPQ h.2⟩

theorem relEs_keys {P : Key → Value → Value → Prop} : ∀ {a b : List (Key × Value)},
    RelEs P a b → keys a = keys b
  | [], [], _ => rfl
  | [], _ :: _, h => by simp [RelEs] at h
  | _ :: _, [], h => by simp [RelEs] at h
  | (k, x) :: a, (k', y) :: b, h => by
    simp only [RelEs] at h
    simp only [keys, List.map_cons, h.1]
    congr 1
    exact relEs_keys h.2.2

theorem relEs_lookup_none {P : Key → Value → Value → Prop} {a b : List (Key × Value)}
    (h : RelEs P a b) (k : Key) : lookup k a = none ↔ lookup k b = none := by
  rw [lookup_none_iff, lookup_none_iff, relEs_keys h]

theorem relEs_lookup {P : Key → Value → Value → Prop} : ∀ {a b : List (Key × Value)} {k : Key}
    {x : Value}, RelEs P a b → lookup k a = some x → ∃ y, lookup k b = some y ∧ P k x y
  | [], [], _, _, _, hl => by simp [lookup] at hl
  | [], _ :: _, _, _, h, _ => by simp [RelEs] at h
  | _ :: _, [], _, _, h, _ => by simp [RelEs] at h
  | (k1, x1) :: a, (k2, y1) :: b, k, x, h, hl => by
    simp only [RelEs] at h
    obtain ⟨rfl, hp, hr⟩ := h
    by_cases hk : k1 = k
    · subst hk
      simp only [lookup, if_true, Option.some.injEq] at hl ⊢
      subst hl
      exact ⟨y1, rfl, hp⟩
    · simp only [lookup, hk, if_false] at hl ⊢
      exact relEs_lookup hr hl

theorem relEs_replaceVal {P : Key → Value → Value → Prop} {k : Key} {v w : Value} (hvw : P k v w) :
    ∀ {a b : List (Key × Value)}, RelEs P a b → RelEs P (replaceVal k v a) (replaceVal k w b)
  | [], [], _ => by simp [replaceVal, RelEs]
  | [], _ :: _, h => by simp [RelEs] at h
  | _ :: _, [], h => by simp [RelEs] at h
  | (k1, x1) :: a, (k2, y1) :: b, h => by
    simp only [RelEs] at h
    obtain ⟨rfl, hp, hr⟩ := h
    by_cases hk : k1 = k
    · subst hk
      simp only [replaceVal, if_true, RelEs]
      exact ⟨trivial, hvw, hr⟩
    · simp only [replaceVal, hk, if_false, RelEs]
      exact ⟨trivial, hp, relEs_replaceVal hvw hr⟩

theorem relEs_append {P : Key → Value → Value → Prop} : ∀ {a b a' b' : List (Key × Value)},
    RelEs P a b → RelEs P a' b' → RelEs P (a ++ a') (b ++ b')
  | [], [], _, _, _, h => by simpa using h
  | [], _ :: _, _, _, h, _ => by simp [RelEs] at h
  | _ :: _, [], _, _, h, _ => by simp [RelEs] at h
  | (k1, x) :: a, (k2, y) :: b, a', b', h, h' => by
    simp only [RelEs] at h
    simp only [List.cons_append, RelEs]
    exact ⟨h.1, h.2.1, relEs_append h.2.2 h'⟩

theorem relEs_mono {P Q : Key → Value → Value → Prop} (hPQ : ∀ k a b, P k a b → Q k a b) :
    ∀ {a b : List (Key × Value)}, RelEs P a b → RelEs Q a b
  | [], [], _ => by simp [RelEs]
  | [], _ :: _, h => by simp [RelEs] at h
  | _ :: _, [], h => by simp [RelEs] at h
  | (k1, x) :: a, (k2, y) :: b, h => by
    simp only [RelEs] at h ⊢
    exact ⟨h.1, hPQ _ _ _ h.2.1, relEs_mono hPQ h.2.2⟩

/-! ## `Mapping::insert_impl` / `Mapping::merge` in lock-step -/

/-- `insert_impl` on a marker-free key that is present. -/
theorem insertImpl_clean_some (m : Mapping) {k : Key} {old : Value} (v : Value) (fc fo : Bool)
    (hk : CleanKey k) (hl : lookup k m.es = some old) :
    m.insertImpl k v fc fo =
      if k ∈ m.ck then .error (.constKey k)
      else .ok ⟨if fo then replaceVal k v m.es else replaceVal k (combine old v) m.es,
                if fc then setInsert k m.ck else m.ck, m.ok⟩ := by
  unfold Mapping.insertImpl
  rw [show k.stripPrefix = (k, none) from hk]
  simp [hl]

/-- A relation on stored values that survives "append to the layer list". -/
def CombineClosed (P : Key → Value → Value → Prop) : Prop :=
  ∀ k a b a' b', P k a b → P k a' b' → P k (combine a a') (combine b b')

/-- **`insert_impl` in lock-step.**  Two mappings with related entries, the same marker-free key,
related values and the same override flag: if both insertions succeed the results are related.
(The constant flags only decide whether the insertion fails.) -/
theorem insertImpl_rel {P : Key → Value → Value → Prop} (hP : CombineClosed P)
    {M r M' r' : Mapping} {k : Key} {w w' : Value} {fcA fcB fo : Bool} (hk : CleanKey k)
    (hrel : RelEs P M.es r.es) (hw : P k w w')
    (hA : M.insertImpl k w fcA fo = .ok M') (hB : r.insertImpl k w' fcB fo = .ok r') :
    RelEs P M'.es r'.es := by
  cases hl : lookup k M.es with
  | none =>
    have hl' := (relEs_lookup_none hrel k).1 hl
    rw [insertImpl_fresh_eq M w _ _ hk (lookup_none_iff.1 hl)] at hA
    rw [insertImpl_fresh_eq r w' _ _ hk (lookup_none_iff.1 hl')] at hB
    simp only [Except.ok.injEq] at hA hB
    subst hA; subst hB
    exact relEs_append hrel (by simp [RelEs, hw])
  | some old =>
    obtain ⟨old', hl', ho⟩ := relEs_lookup hrel hl
    rw [insertImpl_clean_some M w _ _ hk hl] at hA
    rw [insertImpl_clean_some r w' _ _ hk hl'] at hB
    by_cases h1 : k ∈ M.ck
    · simp [h1] at hA
    by_cases h2 : k ∈ r.ck
    · simp [h2] at hB
    simp only [h1, h2, if_false, Except.ok.injEq] at hA hB
    subst hA; subst hB
    cases fo with
    | true => exact relEs_replaceVal hw hrel
    | false => exact relEs_replaceVal (hP _ _ _ _ _ ho hw) hrel

/-- **`Mapping::merge` (its entry loop) in lock-step.** -/
theorem mergeEntries_rel {P : Key → Value → Value → Prop} (hP : CombineClosed P)
    {ockA ookA ockB ookB : List Key} :
    ∀ {es es' : List (Key × Value)} {M r M' r' : Mapping}, RelEs P es es' → WFEs es →
    RelEs P M.es r.es → (∀ k ∈ keys es, k ∈ ookA ↔ k ∈ ookB) →
    M.mergeEntries ockA ookA es = .ok M' → r.mergeEntries ockB ookB es' = .ok r' →
    RelEs P M'.es r'.es
  | [], [], M, r, M', r', _, _, hrel, _, hA, hB => by
    simp only [Mapping.mergeEntries, Except.ok.injEq] at hA hB
    subst hA; subst hB; exact hrel
  | [], _ :: _, _, _, _, _, h, _, _, _, _, _ => by simp [RelEs] at h
  | _ :: _, [], _, _, _, _, h, _, _, _, _, _ => by simp [RelEs] at h
  | (k, w) :: es, (k', w') :: es', M, r, M', r', h, hwf, hrel, hfo, hA, hB => by
    simp only [RelEs] at h
    obtain ⟨rfl, hw, hes⟩ := h
    simp only [WFEs] at hwf
    simp only [Mapping.mergeEntries] at hA hB
    cases h1 : M.insertImpl k w (decide (k ∈ ockA)) (decide (k ∈ ookA)) with
    | error e => simp [h1] at hA
    | ok M1 =>
      cases h2 : r.insertImpl k w' (decide (k ∈ ockB)) (decide (k ∈ ookB)) with
      | error e => simp [h2] at hB
      | ok r1 =>
        simp only [h1, h2] at hA hB
        have hfo' : decide (k ∈ ookB) = decide (k ∈ ookA) := by
          have := hfo k (by simp [keys])
          simp [this]
        rw [hfo'] at h2
        have hrel1 := insertImpl_rel hP hwf.1 hrel hw h1 h2
        exact mergeEntries_rel hP hes hwf.2.2 hrel1
          (fun k' hk' => hfo k' (by simp only [keys, List.map_cons, List.mem_cons] at hk' ⊢; exact Or.inr hk'))
          hA hB

/-! ## `Value::merge` and the layer fold in lock-step -/

/-- Coarse kind of a merge accumulator: `Null` (0), mapping (1), anything else (2). -/
def tag : Value → Nat
  | .null => 0
  | .map .. => 1
  | _ => 2

/-- Two merge accumulators (raw route / rendered route) are related: both `Null`, both mappings
with related entries, or both neither. -/
inductive AccRel (P : Key → Value → Value → Prop) : Value → Value → Prop
  | null : AccRel P .null .null
  | map {es es' : List (Key × Value)} {ck ok ck' ok' : List Key} :
      RelEs P es es' → AccRel P (.map es ck ok) (.map es' ck' ok')
  | other {a b : Value} : tag a = 2 → tag b = 2 → AccRel P a b

/-- Two incoming layers are related: both `Null`, both mappings with related entries, marker-free
keys and the same override flags on their keys, or both neither (and not layer lists). -/
inductive LayerRel (P : Key → Value → Value → Prop) : Value → Value → Prop
  | null : LayerRel P .null .null
  | map {es es' : List (Key × Value)} {ck ok ck' ok' : List Key} :
      RelEs P es es' → WFEs es → (∀ k ∈ keys es, k ∈ ok ↔ k ∈ ok') →
      LayerRel P (.map es ck ok) (.map es' ck' ok')
  | other {a b : Value} : tag a = 2 → tag b = 2 → a.isVl = false → b.isVl = false → LayerRel P a b

/-- Merging a layer that is neither `Null`, a mapping nor a layer list never yields `Null` or a
mapping. -/
theorem mergeV_tag2 {b o r : Value} {st : RState} (ht : tag o = 2) (hv : o.isVl = false)
    (h : mergeV b o st = .ok r) : tag r = 2 := by
  cases o <;> simp [tag, Value.isVl] at ht hv <;> cases b <;>
    simp [mergeV, mergeNonVl, Value.isMap, Value.isSeq] at h <;> (try subst h) <;> simp [tag]

/-- **`Value::merge` in lock-step.** -/
theorem mergeV_rel {P : Key → Value → Value → Prop} (hP : CombineClosed P)
    {bA bB iv xv bA' bB' : Value} {stA stB : RState}
    (hacc : AccRel P bA bB) (hl : LayerRel P iv xv)
    (hA : mergeV bA iv stA = .ok bA') (hB : mergeV bB xv stB = .ok bB') : AccRel P bA' bB' := by
  cases hl with
  | null =>
    simp only [mergeV, Except.ok.injEq] at hA hB
    subst hA; subst hB; exact .null
  | other ta tb va vb => exact .other (mergeV_tag2 ta va hA) (mergeV_tag2 tb vb hB)
  | @map es es' ck ok ck' ok' hes hwf hfo =>
    cases hacc with
    | null =>
      simp only [mergeV, mergeNonVl, Except.ok.injEq] at hA hB
      subst hA; subst hB; exact .map hes
    | @map mes res mck mok rck rok hrel =>
      simp only [mergeV, mergeNonVl, Mapping.merge] at hA hB
      cases h1 : Mapping.mergeEntries ⟨mes, mck, mok⟩ ck ok es with
      | error e => simp [h1] at hA
      | ok M1 =>
        cases h2 : Mapping.mergeEntries ⟨res, rck, rok⟩ ck' ok' es' with
        | error e => simp [h2] at hB
        | ok r1 =>
          simp only [h1, h2, Except.ok.injEq] at hA hB
          subst hA; subst hB
          exact .map (mergeEntries_rel hP hes hwf hrel hfo h1 h2)
    | other ta tb =>
      exfalso
      cases bA <;> simp [tag, mergeV, mergeNonVl, Value.isMap] at ta hA

/-- **The layer fold (`Value::flattened` of a layer list) in lock-step.** -/
theorem flatVl_rel {P : Key → Value → Value → Prop} (hP : CombineClosed P) {stA stB : RState} :
    ∀ {is xs : List Value} {bA bB MA MB : Value}, RelL (LayerRel P) is xs → AccRel P bA bB →
    flatVl is bA stA = .ok MA → flatVl xs bB stB = .ok MB → AccRel P MA MB
  | [], [], _, _, _, _, _, hacc, hA, hB => by
    simp only [flatVl, Except.ok.injEq] at hA hB
    subst hA; subst hB; exact hacc
  | [], _ :: _, _, _, _, _, h, _, _, _ => by simp [RelL] at h
  | _ :: _, [], _, _, _, _, h, _, _, _ => by simp [RelL] at h
  | i :: is, x :: xs, bA, bB, MA, MB, h, hacc, hA, hB => by
    simp only [RelL] at h
    simp only [flatVl] at hA hB
    cases h1 : mergeV bA i stA with
    | error e => simp [h1] at hA
    | ok bA' =>
      cases h2 : mergeV bB x stB with
      | error e => simp [h2] at hB
      | ok bB' =>
        simp only [h1, h2] at hA hB
        exact flatVl_rel hP h.2 (mergeV_rel hP hacc h.1 h1 h2) hA hB

/-! ## "interpolates to" -/

/-- `a` interpolates to `b` from the state `s`, with some amount of fuel. -/
def IR (root : Mapping) (s : RState) (a b : Value) : Prop :=
  ∃ n s', interp n root a s = .ok (b, s')

/-- Closed, canonical and well-formed: the shape of everything `interpolate` returns. -/
def CCW (v : Value) : Prop := Closed v ∧ Canon v ∧ WF v

theorem IR.det {root : Mapping} {s s' : RState} {a b b' : Value} (h : IR root s a b)
    (h' : IR root s' a b') : b = b' := by
  obtain ⟨n, t, hn⟩ := h
  obtain ⟨m, t', hm⟩ := h'
  exact interp_indep hn hm

theorem IR.ccw {root : Mapping} {s : RState} {a b : Value} (hr : WF root.toValue) (hw : WF a)
    (h : IR root s a b) : CCW b := by
  obtain ⟨n, t, hn⟩ := h
  obtain ⟨h1, h2, h3⟩ := C04.interp_canon_result hr hw hn
  exact ⟨h2, h1, h3⟩

theorem IR.notVl {root : Mapping} {s : RState} {a b : Value} (h : IR root s a b) :
    b.isVl = false := by
  obtain ⟨n, t, hn⟩ := h
  have := (C07.interp_never_str_vl hn).2
  cases b <;> simp_all [Value.isVl]

theorem ir_self {b : Value} (h : CCW b) (root : Mapping) (s : RState) : IR root s b b :=
  ⟨size b, s, C04.interp_canonical_exact h.1 h.2.2 h.2.1 (Nat.le_refl _)⟩

theorem ir_ccw_eq {root : Mapping} {s : RState} {b y : Value} (h : CCW b) (h' : IR root s b y) :
    y = b := h'.det (ir_self h root s)

theorem ccw_lookup {es : List (Key × Value)} {ck ok : List Key} {k : Key} {v : Value}
    (h : CCW (.map es ck ok)) (hl : lookup k es = some v) : CCW v := by
  obtain ⟨h1, h2, h3⟩ := h
  simp only [Closed] at h1
  simp only [Canon] at h2
  simp only [WF] at h3
  exact ⟨lookup_closed h1 hl, lookup_canon h2.1 hl, lookup_some_wf h3.1 hl⟩

theorem ccw_notVl {v : Value} (h : CCW v) : v.isVl = false := vlFree_isVl (closed_vlFree v h.1)

/-! ## The two layer loops, pointwise -/

/-- What `layersStr` does to one layer. -/
def StrLayer (root : Mapping) (st : RState) (v iv : Value) : Prop :=
  (v.isStr = true → IR root st v iv) ∧ (v.isStr = false → iv = v)

/-- The layer loop of `interpolate_string_or_valuelist`: `String` layers are replaced by what
they interpolate to, all other layers stay as they are. -/
theorem layersStr_spec {root : Mapping} {st : RState} :
    ∀ (l : List Value) (n : Nat) (i : List Value), layersStr n root l st = .ok i →
    RelL (StrLayer root st) l i
  | [], n, i, h => by
    cases n with
    | zero => simp [layersStr] at h
    | succ n =>
      simp only [layersStr_nil, Except.ok.injEq] at h
      subst h; simp [RelL]
  | v :: vs, n, i, h => by
    cases n with
    | zero => simp [layersStr] at h
    | succ n =>
      rw [layersStr_cons] at h
      by_cases hs : v.isStr = true
      · simp only [hs, if_true] at h
        rcases h1 : interp n root v st with e | ⟨x, s1⟩
        · simp [h1] at h
        simp only [h1] at h
        cases h2 : layersStr n root vs st with
        | error e => simp [h2] at h
        | ok xs =>
          simp only [h2, Except.ok.injEq] at h
          subst h
          simp only [RelL]
          exact ⟨⟨fun _ => ⟨n, s1, h1⟩, fun hf => by simp [hs] at hf⟩, layersStr_spec vs n xs h2⟩
      · have hs' : v.isStr = false := by simpa using hs
        simp only [hs', Bool.false_eq_true, if_false] at h
        cases h2 : layersStr n root vs st with
        | error e => simp [h2] at h
        | ok xs =>
          simp only [h2, Except.ok.injEq] at h
          subst h
          simp only [RelL]
          exact ⟨⟨fun hf => by simp [hs'] at hf, fun _ => rfl⟩, layersStr_spec vs n xs h2⟩

/-- The first loop of the `ValueList` arm of `interpolate`: every layer is interpolated (from
the incoming state) and the results are folded with `Value::merge`. -/
theorem interpVl_spec {root : Mapping} {st : RState} :
    ∀ (l : List Value) (n : Nat) (r0 r : Value), interpVl n root l r0 st = .ok r →
    ∃ xs, RelL (IR root st) l xs ∧ flatVl xs r0 st = .ok r
  | [], n, r0, r, h => by
    cases n with
    | zero => simp [interpVl] at h
    | succ n =>
      simp only [interpVl_nil, Except.ok.injEq] at h
      subst h; exact ⟨[], by simp [RelL], by simp [flatVl]⟩
  | v :: vs, n, r0, r, h => by
    cases n with
    | zero => simp [interpVl] at h
    | succ n =>
      rw [interpVl_cons] at h
      rcases h1 : interp n root v st with e | ⟨x, s1⟩
      · simp [h1] at h
      simp only [h1] at h
      cases h2 : mergeV r0 x s1 with
      | error e => simp [h2] at h
      | ok r1 =>
        simp only [h2] at h
        obtain ⟨xs, hxs, hf⟩ := interpVl_spec vs n r1 r h
        refine ⟨x :: xs, ?_, ?_⟩
        · simp only [RelL]; exact ⟨⟨n, s1, h1⟩, hxs⟩
        · simp only [flatVl, mergeV_ok_state r0 x s1 st r1 h2]; exact hf

/-- Conversely: layers that interpolate one by one (from `st`) and whose results fold to `r`
make the loop return `r`, given enough fuel. -/
theorem interpVl_build {root : Mapping} {st : RState} :
    ∀ (l xs : List Value) (r0 r : Value), RelL (IR root st) l xs → flatVl xs r0 st = .ok r →
    ∃ N, interpVl N root l r0 st = .ok r
  | [], [], r0, r, _, hf => by
    simp only [flatVl, Except.ok.injEq] at hf
    subst hf; exact ⟨1, rfl⟩
  | [], _ :: _, _, _, h, _ => by simp [RelL] at h
  | _ :: _, [], _, _, h, _ => by simp [RelL] at h
  | v :: vs, x :: xs, r0, r, h, hf => by
    simp only [RelL] at h
    obtain ⟨⟨n, s1, h1⟩, hrest⟩ := h
    simp only [flatVl] at hf
    cases h2 : mergeV r0 x st with
    | error e => simp [h2] at hf
    | ok r1 =>
      simp only [h2] at hf
      obtain ⟨N, hN⟩ := interpVl_build vs xs r1 r hrest hf
      refine ⟨max n N + 1, ?_⟩
      rw [interpVl_cons, interp_fuel_mono_le (Nat.le_max_left n N) root v st h1 (by simp)]
      simp only [mergeV_ok_state r0 x st s1 r1 h2]
      exact interpVl_fuel_mono_le (Nat.le_max_right n N) root vs r1 st hN (by simp)

/-- `Mapping::interpolate` of well-formed entries, pointwise: the new entries carry the same
keys and each value is what the raw value interpolates to (from the incoming state with the key
pushed; the `flattened` that follows changes nothing). -/
theorem interpEs_rel {root : Mapping} {ck ok : List Key} {st : RState} (hr : WF root.toValue) :
    ∀ (es : List (Key × Value)) (n : Nat) (acc m : Mapping),
    WFEs es → (keys acc.es ++ keys es).Nodup → interpEs n root es ck ok st acc = .ok m →
    ∃ xs, m.es = acc.es ++ xs ∧ RelEs (fun k a b => IR root (st.pushMappingKey k) a b) es xs
  | [], n, acc, m, _, _, h => by
    cases n with
    | zero => simp [interpEs] at h
    | succ n =>
      simp only [interpEs_nil, Except.ok.injEq] at h
      subst h; exact ⟨[], by simp, by simp [RelEs]⟩
  | (k0, v0) :: rest, n, acc, m, hes, hnd, h => by
    cases n with
    | zero => simp [interpEs] at h
    | succ n =>
      rw [interpEs_cons] at h
      simp only [WFEs] at hes
      rcases h1 : interp n root v0 (st.pushMappingKey k0) with e | ⟨v1, s1⟩
      · simp [h1] at h
      simp only [h1] at h
      obtain ⟨hk1, hc1, hw1⟩ := C04.interp_canon_result hr hes.2.1 h1
      rw [flat_canon v1 s1 hc1 hw1 hk1] at h
      simp only at h
      have hstep := nodup_keys_step (by simpa [keys] using hnd : (keys acc.es ++ k0 :: keys rest).Nodup)
      rw [insertImpl_fresh_eq acc v1 _ _ hes.1 hstep.1] at h
      obtain ⟨xs, hxs, hrel⟩ := interpEs_rel hr rest n _ m hes.2.2 (by simpa [keys] using hstep.2) h
      refine ⟨(k0, v1) :: xs, by simp [hxs], ?_⟩
      simp only [RelEs]
      exact ⟨trivial, ⟨n, s1, h1⟩, hrel⟩

/-! ## The per-key relation carried through the merge -/

/-- The stored value `a` (raw route) and the stored value `b` (rendered route) under key `k`:
the layers of `a` interpolate one by one — from `s0` with `k` pushed — to the layers of `b`, and
the layers of `a` are free of layer lists. -/
def LR (root : Mapping) (s0 : RState) (k : Key) (a b : Value) : Prop :=
  RelL (IR root (s0.pushMappingKey k)) (lays a) (lays b) ∧ VlFreeL (lays a)

theorem lr_combineClosed (root : Mapping) (s0 : RState) : CombineClosed (LR root s0) := by
  intro k a b a' b' h h'
  simp only [LR, lays_combine]
  exact ⟨relL_append h.1 h'.1, vlFreeL_append.2 ⟨h.2, h'.2⟩⟩

theorem lr_single {root : Mapping} {s0 : RState} {k : Key} {a b : Value}
    (h : IR root (s0.pushMappingKey k) a b) (hf : VlFree a) : LR root s0 k a b := by
  rw [LR, lays_of_not_vl (vlFree_isVl hf), lays_of_not_vl h.notVl]
  simp [RelL, VlFreeL, h, hf]

theorem relEs_lr {root : Mapping} {s0 : RState} : ∀ {es xs : List (Key × Value)},
    RelEs (fun k a b => IR root (s0.pushMappingKey k) a b) es xs → VlFreeEs es →
    RelEs (LR root s0) es xs
  | [], [], _, _ => by simp [RelEs]
  | [], _ :: _, h, _ => by simp [RelEs] at h
  | _ :: _, [], h, _ => by simp [RelEs] at h
  | (k, a) :: es, (k', b) :: xs, h, hf => by
    simp only [RelEs] at h ⊢
    simp only [VlFreeEs] at hf
    exact ⟨h.1, lr_single h.2.1 hf.1, relEs_lr h.2.2 hf.2⟩

theorem relEs_lr_ccw {root : Mapping} {s0 : RState} : ∀ (es : List (Key × Value)),
    ClosedEs es → CanonEs es → WFEs es → RelEs (LR root s0) es es
  | [], _, _, _ => by simp [RelEs]
  | (k, v) :: es, hc, hk, hw => by
    simp only [ClosedEs] at hc
    simp only [CanonEs] at hk
    simp only [WFEs] at hw
    simp only [RelEs]
    exact ⟨trivial, lr_single (ir_self ⟨hc.1, hk.1, hw.2.1⟩ _ _) (closed_vlFree v hc.1),
      relEs_lr_ccw es hc.2 hk.2 hw.2.2⟩

/-- A rendered value is related to itself as a layer. -/
theorem layerRel_ccw {root : Mapping} {s0 : RState} {y : Value} (h : CCW y) :
    LayerRel (LR root s0) y y := by
  obtain ⟨h1, h2, h3⟩ := h
  cases y with
  | null => exact .null
  | map es ck ok =>
    simp only [Closed] at h1
    simp only [Canon] at h2
    simp only [WF] at h3
    exact .map (relEs_lr_ccw es h1 h2.1 h3.1) h3.1 (fun _ _ => Iff.rfl)
  | str s => simp [Closed] at h1
  | vl l => simp [Closed] at h1
  | bool b => exact .other rfl rfl rfl rfl
  | num n => exact .other rfl rfl rfl rfl
  | lit s => exact .other rfl rfl rfl rfl
  | seq l => exact .other rfl rfl rfl rfl

/-- A raw mapping layer (free of layer lists) and what it interpolates to. -/
theorem layerRel_map {root : Mapping} {s0 : RState} {es : List (Key × Value)} {ck ok : List Key}
    {x : Value} (hr : WF root.toValue) (hw : WF (.map es ck ok)) (hf : VlFree (.map es ck ok))
    (hx : IR root s0 (.map es ck ok) x) : LayerRel (LR root s0) (.map es ck ok) x := by
  obtain ⟨n, s', hn⟩ := hx
  cases n with
  | zero => simp [interp] at hn
  | succ n =>
    rw [interp_map] at hn
    simp only [WF] at hw
    simp only [VlFree] at hf
    cases h1 : interpEs n root es ck ok s0 {} with
    | error e => simp [h1] at hn
    | ok m =>
      simp only [h1, Except.ok.injEq, Prod.mk.injEq] at hn
      obtain ⟨xs, hxs, hrel⟩ := interpEs_rel hr es n {} m hw.1 (by simpa using hw.2) h1
      obtain ⟨_, _, hok⟩ := interpEs_shape es n {} m hw.1 (by simpa using hw.2) h1
      simp only [List.nil_append] at hxs
      rw [← hn.1, Mapping.toValue]
      refine .map (by rw [hxs]; exact relEs_lr hrel hf) hw.1 ?_
      intro k hk
      rw [hok k]
      simp [hk]

/-- One layer: what `layersStr` makes of it (raw route) against what it interpolates to
(rendered route). -/
theorem layer_rel {root : Mapping} {stA s0 : RState} {v iv x : Value} (hr : WF root.toValue)
    (hw : WF v) (hf : VlFree v) (hi : StrLayer root stA v iv) (hx : IR root s0 v x) :
    LayerRel (LR root s0) iv x := by
  cases v with
  | str s =>
    have e : iv = x := (hi.1 rfl).det hx
    subst e
    exact layerRel_ccw (hx.ccw hr hw)
  | map es ck ok =>
    have e : iv = .map es ck ok := hi.2 rfl
    subst e
    exact layerRel_map hr hw hf hx
  | vl l => simp [VlFree] at hf
  | null =>
    have e : iv = .null := hi.2 rfl
    have e' : x = .null := ir_ccw_eq ⟨by simp [Closed], by simp [Canon], by simp [WF]⟩ hx
    subst e; subst e'; exact .null
  | bool b =>
    have e : iv = .bool b := hi.2 rfl
    have e' : x = .bool b := ir_ccw_eq ⟨by simp [Closed], by simp [Canon], by simp [WF]⟩ hx
    subst e; subst e'; exact .other rfl rfl rfl rfl
  | num b =>
    have e : iv = .num b := hi.2 rfl
    have e' : x = .num b := ir_ccw_eq ⟨by simp [Closed], by simp [Canon], by simp [WF]⟩ hx
    subst e; subst e'; exact .other rfl rfl rfl rfl
  | lit b =>
    have e : iv = .lit b := hi.2 rfl
    have e' : x = .lit b := ir_ccw_eq ⟨by simp [Closed], by simp [Canon], by simp [WF]⟩ hx
    subst e; subst e'; exact .other rfl rfl rfl rfl
  | seq l =>
    have e : iv = .seq l := hi.2 rfl
    subst e
    obtain ⟨n, s', hn⟩ := hx
    cases n with
    | zero => simp [interp] at hn
    | succ n =>
      rw [interp_seq] at hn
      cases h1 : interpL n root l 0 s0 with
      | error e => simp [h1] at hn
      | ok l' =>
        simp only [h1, Except.ok.injEq, Prod.mk.injEq] at hn
        rw [← hn.1]
        exact .other rfl rfl rfl rfl

theorem layers_rel {root : Mapping} {stA s0 : RState} (hr : WF root.toValue) :
    ∀ (l i xs : List Value), WFL l → VlFreeL l → RelL (StrLayer root stA) l i →
    RelL (IR root s0) l xs → RelL (LayerRel (LR root s0)) i xs
  | [], [], [], _, _, _, _ => by simp [RelL]
  | [], _ :: _, _, _, _, h, _ => by simp [RelL] at h
  | [], [], _ :: _, _, _, _, h => by simp [RelL] at h
  | _ :: _, [], _, _, _, h, _ => by simp [RelL] at h
  | _ :: _, _ :: _, [], _, _, _, h => by simp [RelL] at h
  | v :: l, iv :: i, x :: xs, hw, hf, hi, hx => by
    simp only [WFL] at hw
    simp only [VlFreeL] at hf
    simp only [RelL] at hi hx ⊢
    exact ⟨layer_rel hr hw.1 hf.1 hi.1 hx.1, layers_rel hr l i xs hw.2 hf.2 hi.2 hx.2⟩

/-! ## Rendering a value through its layers -/

/-- The layers of `a` interpolate (from `s`) to `ys`, these fold to `z`, and `z` interpolates
to `x`: how `interpolate` treats a layer list — and, trivially, any other value. -/
def RL (root : Mapping) (s : RState) (a x : Value) : Prop :=
  ∃ ys z, RelL (IR root s) (lays a) ys ∧ flatVl ys .null s = .ok z ∧ IR root s z x

theorem mergeV_null_left {x : Value} (h : x.isVl = false) (st : RState) :
    mergeV .null x st = .ok x := by
  cases x <;> simp_all [mergeV, mergeNonVl, Value.isVl]

theorem rl_of_ir_single {root : Mapping} {s : RState} {a x : Value} (hr : WF root.toValue)
    (hw : WF a) (hv : a.isVl = false) (h : IR root s a x) : RL root s a x := by
  refine ⟨[x], x, ?_, ?_, ir_self (h.ccw hr hw) _ _⟩
  · rw [lays_of_not_vl hv]; simp [RelL, h]
  · simp [flatVl, mergeV_null_left h.notVl]

theorem rl_of_ir {root : Mapping} {s : RState} {a x : Value} (hr : WF root.toValue) (hw : WF a)
    (h : IR root s a x) : RL root s a x := by
  cases a with
  | vl l =>
    obtain ⟨n, s', hn⟩ := h
    cases n with
    | zero => simp [interp] at hn
    | succ n =>
      rw [interp_vl] at hn
      cases h1 : interpVl n root l .null s with
      | error e => simp [h1] at hn
      | ok z =>
        simp only [h1] at hn
        obtain ⟨ys, hys, hf⟩ := interpVl_spec l n .null z h1
        exact ⟨ys, z, hys, hf, n, s', hn⟩
  | _ => exact rl_of_ir_single hr hw rfl h

theorem ir_of_rl_single {root : Mapping} {s : RState} {a x : Value} (hr : WF root.toValue)
    (hw : WF a) (hv : a.isVl = false) (h : RL root s a x) : IR root s a x := by
  obtain ⟨ys, z, hys, hf, hz⟩ := h
  rw [lays_of_not_vl hv] at hys
  match ys, hys with
  | [y], hys =>
    simp only [RelL, and_true] at hys
    have hy := hys.ccw hr hw
    simp only [flatVl, mergeV_null_left hys.notVl, Except.ok.injEq] at hf
    subst hf
    have : x = y := ir_ccw_eq hy hz
    subst this
    exact hys
  | [], hys => simp [RelL] at hys
  | _ :: _ :: _, hys => simp [RelL] at hys

theorem ir_of_rl {root : Mapping} {s : RState} {a x : Value} (hr : WF root.toValue) (hw : WF a)
    (h : RL root s a x) : IR root s a x := by
  cases a with
  | vl l =>
    obtain ⟨ys, z, hys, hf, m, s', hm⟩ := h
    obtain ⟨N, hN⟩ := interpVl_build l ys .null z hys hf
    refine ⟨max N m + 1, s', ?_⟩
    rw [interp_vl, interpVl_fuel_mono_le (Nat.le_max_left N m) root l .null s hN (by simp)]
    exact interp_fuel_mono_le (Nat.le_max_right N m) root z s hm (by simp)
  | _ => exact ir_of_rl_single hr hw rfl h

theorem relL_trans_ccw {root : Mapping} {s : RState} (hr : WF root.toValue) :
    ∀ (as bs ys : List Value), WFL as → RelL (IR root s) as bs → RelL (IR root s) bs ys →
    RelL (IR root s) as ys
  | [], [], [], _, _, _ => by simp [RelL]
  | [], _ :: _, _, _, h, _ => by simp [RelL] at h
  | [], [], _ :: _, _, _, h => by simp [RelL] at h
  | _ :: _, [], _, _, h, _ => by simp [RelL] at h
  | _ :: _, _ :: _, [], _, _, h => by simp [RelL] at h
  | a :: as, b :: bs, y :: ys, hw, h1, h2 => by
    simp only [WFL] at hw
    simp only [RelL] at h1 h2 ⊢
    have : y = b := ir_ccw_eq (h1.1.ccw hr hw.1) h2.1
    subst this
    exact ⟨h1.1, relL_trans_ccw hr as bs ys hw.2 h1.2 h2.2⟩

theorem wfL_lays {a : Value} (h : WF a) : WFL (lays a) := by
  cases a <;> simp_all [lays, WF, WFL]

/-- If the layers of `a` interpolate to the layers of `b`, then `a` interpolates to what `b`
interpolates to. -/
theorem ir_of_lays {root : Mapping} {s : RState} {a b x : Value} (hr : WF root.toValue)
    (hwa : WF a) (hwb : WF b) (hl : RelL (IR root s) (lays a) (lays b)) (hb : IR root s b x) :
    IR root s a x := by
  obtain ⟨ys, z, hys, hf, hz⟩ := rl_of_ir hr hwb hb
  exact ir_of_rl hr hwa ⟨ys, z, relL_trans_ccw hr _ _ _ (wfL_lays hwa) hl hys, hf, hz⟩

/-! ## One path segment -/

/-- **One segment through a layer list.**  `interpolate_string_or_valuelist` of the layer list
`.vl l` (layers free of layer lists) gave the mapping `es` with `v'` under `key`, and the layer
list interpolates to `x`.  Then `x` is a mapping that has `key`, and what it holds there is what
`v'` interpolates to. -/
theorem step_vl {root : Mapping} {n : Nat} {l : List Value} {stA stA' s : RState}
    {es : List (Key × Value)} {ck ok : List Key} {key : Key} {v' x : Value}
    (hr : WF root.toValue) (hw : WF (.vl l)) (hl : Layered (.vl l))
    (hA : interpStrOrVl n root (.vl l) stA = .ok (.map es ck ok, stA'))
    (hk : lookup key es = some v') (hx : IR root s (.vl l) x) :
    ∃ xes xck xok x', x = .map xes xck xok ∧ lookup key xes = some x' ∧
      IR root (s.pushMappingKey key) v' x' ∧ WF v' ∧ Layered v' := by
  have hwM : WF (.map es ck ok) := (interpInv n).interpStrOrVl root _ stA _ stA' hr hw hA
  have hwv' : WF v' := by simp only [WF] at hwM; exact lookup_some_wf hwM.1 hk
  simp only [WF] at hw
  simp only [Layered] at hl
  cases n with
  | zero => simp [interpStrOrVl] at hA
  | succ n =>
    rw [interpStrOrVl_succ] at hA
    simp only at hA
    cases h1 : layersStr n root l stA with
    | error e => simp [h1] at hA
    | ok i =>
      simp only [h1] at hA
      cases h2 : flatVl i .null stA with
      | error e => simp [h2] at hA
      | ok MA =>
        simp only [h2, Except.ok.injEq, Prod.mk.injEq] at hA
        obtain ⟨hMA, _⟩ := hA
        subst hMA
        obtain ⟨m, s', hm⟩ := hx
        cases m with
        | zero => simp [interp] at hm
        | succ m =>
          rw [interp_vl] at hm
          cases h3 : interpVl m root l .null s with
          | error e => simp [h3] at hm
          | ok r =>
            simp only [h3] at hm
            have hwr : WF r := (interpInv m).interpVl root l .null s r hr hw (by simp [WF]) h3
            obtain ⟨xs, hxs, hf⟩ := interpVl_spec l m .null r h3
            have hlay := layers_rel hr l i xs hw hl (layersStr_spec l n i h1) hxs
            have hacc := flatVl_rel (lr_combineClosed root s) hlay .null h2 hf
            cases hacc with
            | other ta tb => simp [tag] at ta
            | @map _ res _ _ rck rok hrel =>
              obtain ⟨b, hb, hLR⟩ := relEs_lookup hrel hk
              simp only [WF] at hwr
              have hwb : WF b := lookup_some_wf hwr.1 hb
              cases m with
              | zero => simp [interp] at hm
              | succ m =>
                rw [interp_map] at hm
                cases h4 : interpEs m root res rck rok s {} with
                | error e => simp [h4] at hm
                | ok mm =>
                  simp only [h4, Except.ok.injEq, Prod.mk.injEq] at hm
                  obtain ⟨xs', hxs', hrel'⟩ :=
                    interpEs_rel hr res m {} mm hwr.1 (by simpa using hwr.2) h4
                  simp only [List.nil_append] at hxs'
                  obtain ⟨x', hx', hbx'⟩ := relEs_lookup hrel' hb
                  refine ⟨mm.es, mm.ck, mm.ok, x', by rw [← hm.1]; rfl, by rw [hxs']; exact hx',
                    ir_of_lays hr hwv' hwb hLR.1 hbx', hwv', (layered_iff v').2 hLR.2⟩

/-- **One segment of the path of a reference.**  The raw value `v` (well-formed; free of layer
lists or a layer list of such layers) is what the lookup loop of `Token::resolve` currently
holds; `interpolate_string_or_valuelist` turned it into the mapping `es`, which has `v'` under
`key`.  If `v` interpolates to `x` (rendered route), then `x` is a mapping that has `key`, and
what it holds there is what `v'` interpolates to. -/
theorem step {root : Mapping} {n : Nat} {v : Value} {stA stA' s : RState}
    {es : List (Key × Value)} {ck ok : List Key} {key : Key} {v' x : Value}
    (hr : WF root.toValue) (hw : WF v) (hl : Layered v)
    (hA : interpStrOrVl n root v stA = .ok (.map es ck ok, stA'))
    (hk : lookup key es = some v') (hx : IR root s v x) :
    ∃ xes xck xok x', x = .map xes xck xok ∧ lookup key xes = some x' ∧
      IR root (s.pushMappingKey key) v' x' ∧ WF v' ∧ Layered v' := by
  cases v with
  | vl l => exact step_vl hr hw hl hA hk hx
  | str s0 =>
    cases n with
    | zero => simp [interpStrOrVl] at hA
    | succ n =>
      rw [interpStrOrVl_succ] at hA
      simp only at hA
      have hA' : IR root stA (.str s0) (.map es ck ok) := ⟨n, stA', hA⟩
      have e : x = .map es ck ok := hx.det hA'
      have hc := hA'.ccw hr hw
      have hcv := ccw_lookup hc hk
      exact ⟨es, ck, ok, v', e, hk, ir_self hcv _ _, hcv.2.2,
        layered_of_vlFree (closed_vlFree v' hcv.1)⟩
  | map es0 ck0 ok0 =>
    cases n with
    | zero => simp [interpStrOrVl] at hA
    | succ n =>
      rw [interpStrOrVl_succ] at hA
      simp only [Except.ok.injEq, Prod.mk.injEq, Value.map.injEq] at hA
      obtain ⟨⟨rfl, rfl, rfl⟩, _⟩ := hA
      obtain ⟨m, s', hm⟩ := hx
      simp only [WF] at hw
      simp only [Layered, VlFree] at hl
      cases m with
      | zero => simp [interp] at hm
      | succ m =>
        rw [interp_map] at hm
        cases h4 : interpEs m root es0 ck0 ok0 s {} with
        | error e => simp [h4] at hm
        | ok mm =>
          simp only [h4, Except.ok.injEq, Prod.mk.injEq] at hm
          obtain ⟨xs', hxs', hrel'⟩ := interpEs_rel hr es0 m {} mm hw.1 (by simpa using hw.2) h4
          simp only [List.nil_append] at hxs'
          obtain ⟨x', hx', hbx'⟩ := relEs_lookup hrel' hk
          exact ⟨mm.es, mm.ck, mm.ok, x', by rw [← hm.1]; rfl, by rw [hxs']; exact hx', hbx',
            lookup_some_wf hw.1 hk, layered_of_vlFree (lookup_vlFree hl hk)⟩
  | null => cases n <;> simp [interpStrOrVl] at hA
  | bool b => cases n <;> simp [interpStrOrVl] at hA
  | num b => cases n <;> simp [interpStrOrVl] at hA
  | lit b => cases n <;> simp [interpStrOrVl] at hA
  | seq b => cases n <;> simp [interpStrOrVl] at hA

/-! ## The whole path -/

/-- **The lookup loop of `Token::resolve` against the rendered value.**  If the loop walks
`segs` from the raw value `v` and ends at the raw value `vd`, and `v` interpolates to `x`, then
the same segments can be walked through the *rendered* mappings from `x` (`Refs.rawPath`, i.e.
iterated `IndexMap::get`), and what is found there is what `vd` interpolates to. -/
theorem descend_path {root : Mapping} {path : Str} (hr : WF root.toValue) :
    ∀ (segs : List Str) (n : Nat) (v vd : Value) (stA sA : RState) (x : Value) (s : RState),
    WF v → Layered v → IR root s v x → descend n root v segs stA path = .ok (vd, sA) →
    ∃ y s1, rawPath x segs = some y ∧ IR root s1 vd y ∧ WF vd
  | [], n, v, vd, stA, sA, x, s, hw, _, hx, h => by
    cases n with
    | zero => simp [descend] at h
    | succ n =>
      simp only [descend_nil, Except.ok.injEq, Prod.mk.injEq] at h
      obtain ⟨rfl, _⟩ := h
      exact ⟨x, s, by simp [rawPath], hx, hw⟩
  | key :: rest, n, v, vd, stA, sA, x, s, hw, hl, hx, h => by
    cases n with
    | zero => simp [descend] at h
    | succ n =>
      rw [descend_cons] at h
      rcases h1 : interpStrOrVl n root v stA with e | ⟨newv, st1⟩
      · simp [h1] at h
      simp only [h1] at h
      cases newv with
      | map es ck ok =>
        simp only at h
        cases h2 : lookup (.str key) es with
        | none => simp [h2] at h
        | some v' =>
          simp only [h2] at h
          obtain ⟨xes, xck, xok, x', rfl, hlx, hx', hw', hl'⟩ := step hr hw hl h1 h2 hx
          obtain ⟨y, s1, hy, hvd, hwd⟩ :=
            descend_path hr rest n v' vd st1 sA x' _ hw' hl' hx' h
          exact ⟨y, s1, by simp only [rawPath, hlx]; exact hy, hvd, hwd⟩
      | null => simp at h
      | bool b => simp at h
      | num b => simp at h
      | lit b => simp at h
      | seq b => simp at h
      | str b => simp at h
      | vl b => simp at h

/-- What `Token::render` does with the raw value `vd` found at the end of the path — the trailing
loop followed by one more `interpolate` — returns exactly what `vd` interpolates to. -/
theorem finalLoop_then_interp_exact {a b : Nat} {root : Mapping} {vd v r y : Value}
    {s s3 s' s1 : RState} (hr : WF root.toValue) (hvd : WF vd)
    (h1 : finalLoop a root vd s = .ok (v, s3)) (h2 : interp b root v s3 = .ok (r, s'))
    (hy : IR root s1 vd y) : r = y := by
  rcases finalLoop_cases h1 with ⟨hv, _, _⟩ | ⟨_, k, hk⟩
  · subst hv
    exact IR.det ⟨b, s', h2⟩ hy
  · have hv : v = y := IR.det ⟨k, s3, hk⟩ hy
    subst hv
    exact ir_ccw_eq (hy.ccw hr hvd) ⟨b, s', h2⟩

/-! ## Where `Layered` comes from: `Mapping::merge` of mappings free of layer lists -/

/-- Every value of the entry list is `Layered`. -/
def LayeredEs : List (Key × Value) → Prop
  | [] => True
  | (_, v) :: es => Layered v ∧ LayeredEs es

theorem layeredEs_append {es : List (Key × Value)} {k : Key} {v : Value} :
    LayeredEs (es ++ [(k, v)]) ↔ LayeredEs es ∧ Layered v := by
  induction es with
  | nil => simp [LayeredEs]
  | cons e es ih =>
    obtain ⟨k', v'⟩ := e
    simp only [List.cons_append, LayeredEs, ih, and_assoc]

theorem layeredEs_replaceVal {es : List (Key × Value)} {k : Key} {v : Value} (hv : Layered v)
    (h : LayeredEs es) : LayeredEs (replaceVal k v es) := by
  induction es with
  | nil => simp [replaceVal, LayeredEs]
  | cons e es ih =>
    obtain ⟨k', v'⟩ := e
    simp only [LayeredEs] at h
    by_cases hk : k' = k
    · simp only [replaceVal, hk, if_true, LayeredEs]; exact ⟨hv, h.2⟩
    · simp only [replaceVal, hk, if_false, LayeredEs]; exact ⟨h.1, ih h.2⟩

theorem lookup_layered {k : Key} {es : List (Key × Value)} {v : Value} (h : LayeredEs es)
    (hl : lookup k es = some v) : Layered v := by
  induction es with
  | nil => simp [lookup] at hl
  | cons e es ih =>
    obtain ⟨k', v'⟩ := e
    simp only [LayeredEs] at h
    by_cases hk : k' = k
    · simp only [lookup, hk, if_true, Option.some.injEq] at hl; exact hl ▸ h.1
    · simp only [lookup, hk, if_false] at hl; exact ih h.2 hl

theorem layeredEs_of_vlFreeEs : ∀ (es : List (Key × Value)), VlFreeEs es → LayeredEs es
  | [], _ => by simp [LayeredEs]
  | (_, v) :: es, h => by
    simp only [VlFreeEs] at h
    exact ⟨layered_of_vlFree h.1, layeredEs_of_vlFreeEs es h.2⟩

theorem combine_layered {old v : Value} (ho : Layered old) (hv : VlFree v) :
    Layered (combine old v) := by
  rw [layered_iff, lays_combine, vlFreeL_append]
  exact ⟨(layered_iff old).1 ho, (layered_iff v).1 (layered_of_vlFree hv)⟩

theorem insertImpl_layered {m m' : Mapping} {k : Key} {v : Value} {fc fo : Bool}
    (hm : LayeredEs m.es) (hv : VlFree v) (h : m.insertImpl k v fc fo = .ok m') :
    LayeredEs m'.es := by
  unfold Mapping.insertImpl at h
  generalize k.stripPrefix = kp at h
  obtain ⟨k1, p⟩ := kp
  simp only at h
  cases hl : lookup k1 m.es with
  | none =>
    simp only [hl, Except.ok.injEq] at h
    subst h
    exact layeredEs_append.2 ⟨hm, layered_of_vlFree hv⟩
  | some old =>
    simp only [hl] at h
    by_cases hc : k1 ∈ m.ck
    · simp [hc] at h
    · simp only [hc, if_false, Except.ok.injEq] at h
      subst h
      simp only
      split
      · exact layeredEs_replaceVal (layered_of_vlFree hv) hm
      · exact layeredEs_replaceVal (combine_layered (lookup_layered hm hl) hv) hm

theorem mergeEntries_layered {ock ook : List Key} : ∀ {es : List (Key × Value)} {m m' : Mapping},
    LayeredEs m.es → VlFreeEs es → m.mergeEntries ock ook es = .ok m' → LayeredEs m'.es
  | [], m, m', hm, _, h => by
    simp only [Mapping.mergeEntries, Except.ok.injEq] at h; exact h ▸ hm
  | (k, v) :: es, m, m', hm, hes, h => by
    simp only [VlFreeEs] at hes
    simp only [Mapping.mergeEntries] at h
    cases h1 : m.insertImpl k v (decide (k ∈ ock)) (decide (k ∈ ook)) with
    | error e => simp [h1] at h
    | ok m1 =>
      simp only [h1] at h
      exact mergeEntries_layered (insertImpl_layered hm hes.1 h1) hes.2 h

end Commute
end Reclass
