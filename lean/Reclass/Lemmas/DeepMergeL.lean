/-
  Helper lemmas for property C02 (deep merge of reference-free layers): the specification
  `Spec/DeepMerge` against the evaluator.

  1. `Plain` data is closed, well-formed, canonical and string-free.
  2. Invariants of parameter trees (`PTree`), `resolve ∘ ofValue = id`.
  3. Simulation: the accumulator of the evaluator's layer loop (a mapping whose members are
     plain values or layer lists of plain values, `Semi`) abstracts to a tree (`abs`);
     `Mapping::insert_impl`, `Mapping::merge`, `Value::merge` and the fold `flatVl` commute
     with `upsert`, `deepEs`, `deep` and `merged`.
  4. The evaluator on a layer list of reference-free values settles on `deepAll`
     (`settle_main`, `vl_settles`, `semi_settles`).
  5. Only merge conflicts are ever reported.   6. Whole parameter mappings (`params_settle`).
  7. The specification key by key (`tlookup_mergedEs`, `resolveEs_lookup`, …).
  8. The binary reading (`deepAll_snoc`), mappings over mappings (`merged_maps`).
  9. Conflict paths (`BadBelow`, `deepAll_error_below`).   10. `deepParams_by_key`, finished runs.
  11. Top-level override keys (`params_settleO`, `tlookup_mergedParamsO`).
-/
import Reclass.Spec.DeepMerge
import Reclass.Lemmas.TextL
import Reclass.Lemmas.MappingL
import Reclass.Props.C10
namespace Reclass
namespace DeepMerge
open Termination (sz szL szVl szEs StrFree StrFreeL StrFreeEs)

/-! ## 1. Plain data -/

theorem flagsOf_nil (ks : List Key) : flagsOf [] ks = [] := by
  simp [flagsOf]

mutual
theorem plain_all : ∀ (v : Value), Plain v → Closed v ∧ WF v ∧ Canon v ∧ StrFree v
  | .str _, h => by simp [Plain] at h
  | .vl _, h => by simp [Plain] at h
  | .null, _ => by simp [Closed, WF, Canon, StrFree]
  | .bool _, _ => by simp [Closed, WF, Canon, StrFree]
  | .num _, _ => by simp [Closed, WF, Canon, StrFree]
  | .lit _, _ => by simp [Closed, WF, Canon, StrFree]
  | .seq l, h => by
    simp only [Plain] at h
    simpa only [Closed, WF, Canon, StrFree] using plainL_all l h
  | .map es ck ok, h => by
    simp only [Plain] at h
    obtain ⟨h1, h2, rfl, rfl⟩ := h
    obtain ⟨a, b, c, d⟩ := plainEs_all es h1
    simp only [Closed, WF, Canon, StrFree, flagsOf_nil]
    exact ⟨a, ⟨b, h2⟩, ⟨c, trivial, trivial⟩, d⟩
theorem plainL_all : ∀ (l : List Value), PlainL l → ClosedL l ∧ WFL l ∧ CanonL l ∧ StrFreeL l
  | [], _ => by simp [ClosedL, WFL, CanonL, StrFreeL]
  | v :: vs, h => by
    simp only [PlainL] at h
    obtain ⟨a, b, c, d⟩ := plain_all v h.1
    obtain ⟨a', b', c', d'⟩ := plainL_all vs h.2
    simp only [ClosedL, WFL, CanonL, StrFreeL]
    exact ⟨⟨a, a'⟩, ⟨b, b'⟩, ⟨c, c'⟩, ⟨d, d'⟩⟩
theorem plainEs_all : ∀ (es : List (Key × Value)), PlainEs es →
    ClosedEs es ∧ WFEs es ∧ CanonEs es ∧ StrFreeEs es
  | [], _ => by simp [ClosedEs, WFEs, CanonEs, StrFreeEs]
  | (k, v) :: es, h => by
    simp only [PlainEs] at h
    obtain ⟨a, b, c, d⟩ := plain_all v h.2.1
    obtain ⟨a', b', c', d'⟩ := plainEs_all es h.2.2
    simp only [ClosedEs, WFEs, CanonEs, StrFreeEs]
    exact ⟨⟨a, a'⟩, ⟨h.1, b, b'⟩, ⟨c, c'⟩, ⟨d, d'⟩⟩
end

theorem plainL_append {a b : List Value} : PlainL (a ++ b) ↔ PlainL a ∧ PlainL b := by
  induction a with
  | nil => simp [PlainL]
  | cons v vs ih => simp only [List.cons_append, PlainL, ih, and_assoc]

theorem plainEs_append {a b : List (Key × Value)} : PlainEs (a ++ b) ↔ PlainEs a ∧ PlainEs b := by
  induction a with
  | nil => simp [PlainEs]
  | cons e es ih =>
    obtain ⟨k, v⟩ := e
    simp only [List.cons_append, PlainEs, ih, and_assoc]

theorem plain_not_vl {v : Value} (h : Plain v) : v.isVl = false := by
  cases v <;> first | rfl | simp [Plain] at h

theorem plain_layersOf {v : Value} (h : Plain v) : C10.layersOf v = [v] := by
  cases v <;> first | rfl | simp [Plain] at h

/-- Interpolating plain data returns it unchanged. -/
theorem interp_plain {v : Value} (h : Plain v) {n : Nat} (hn : size v ≤ n) (root : Mapping)
    (st : RState) : interp n root v st = .ok (v, st) := by
  obtain ⟨a, b, c, _⟩ := plain_all v h
  exact interp_canon v n root st a b c hn

/-- Flattening plain data returns it unchanged. -/
theorem flat_plain {v : Value} (h : Plain v) (st : RState) : flat v st = .ok v := by
  obtain ⟨a, b, c, _⟩ := plain_all v h
  exact flat_canon v st a b c

/-! ### Reference-free data and `norm` -/

mutual
theorem norm_plain : ∀ (v : Value), Plain v → norm v = v
  | .str _, h => by simp [Plain] at h
  | .vl _, h => by simp [Plain] at h
  | .null, _ => rfl
  | .bool _, _ => rfl
  | .num _, _ => rfl
  | .lit _, _ => rfl
  | .seq l, h => by simp only [Plain] at h; simp only [norm, normL_plain l h]
  | .map es ck ok, h => by simp only [Plain] at h; simp only [norm, normEs_plain es h.1]
theorem normL_plain : ∀ (l : List Value), PlainL l → normL l = l
  | [], _ => rfl
  | v :: vs, h => by
    simp only [PlainL] at h; simp only [normL, norm_plain v h.1, normL_plain vs h.2]
theorem normEs_plain : ∀ (es : List (Key × Value)), PlainEs es → normEs es = es
  | [], _ => rfl
  | (k, v) :: es, h => by
    simp only [PlainEs] at h; simp only [normEs, norm_plain v h.2.1, normEs_plain es h.2.2]
end

theorem keys_normEs : ∀ (es : List (Key × Value)), keys (normEs es) = keys es
  | [] => rfl
  | (k, v) :: es => by
    have := keys_normEs es
    simp only [keys, normEs, List.map_cons] at this ⊢
    rw [this]

mutual
theorem refFree_norm : ∀ (v : Value), RefFree v → Plain (norm v)
  | .str _, _ => by simp [norm, Plain]
  | .vl _, h => by simp [RefFree] at h
  | .null, _ => by simp [norm, Plain]
  | .bool _, _ => by simp [norm, Plain]
  | .num _, _ => by simp [norm, Plain]
  | .lit _, _ => by simp [norm, Plain]
  | .seq l, h => by
    simp only [RefFree] at h; simp only [norm, Plain]; exact refFreeL_normL l h
  | .map es ck ok, h => by
    simp only [RefFree] at h
    simp only [norm, Plain, keys_normEs]
    exact ⟨refFreeEs_normEs es h.1, h.2⟩
theorem refFreeL_normL : ∀ (l : List Value), RefFreeL l → PlainL (normL l)
  | [], _ => trivial
  | v :: vs, h => by
    simp only [RefFreeL] at h
    exact ⟨refFree_norm v h.1, refFreeL_normL vs h.2⟩
theorem refFreeEs_normEs : ∀ (es : List (Key × Value)), RefFreeEs es → PlainEs (normEs es)
  | [], _ => trivial
  | (k, v) :: es, h => by
    simp only [RefFreeEs] at h
    exact ⟨h.1, refFree_norm v h.2.1, refFreeEs_normEs es h.2.2⟩
end

mutual
theorem plain_refFree : ∀ (v : Value), Plain v → RefFree v
  | .str _, h => by simp [Plain] at h
  | .vl _, h => by simp [Plain] at h
  | .null, _ => trivial
  | .bool _, _ => trivial
  | .num _, _ => trivial
  | .lit _, _ => trivial
  | .seq l, h => by simp only [Plain] at h; simp only [RefFree]; exact plainL_refFreeL l h
  | .map es ck ok, h => by
    simp only [Plain] at h; simp only [RefFree]; exact ⟨plainEs_refFreeEs es h.1, h.2⟩
theorem plainL_refFreeL : ∀ (l : List Value), PlainL l → RefFreeL l
  | [], _ => trivial
  | v :: vs, h => by
    simp only [PlainL] at h; exact ⟨plain_refFree v h.1, plainL_refFreeL vs h.2⟩
theorem plainEs_refFreeEs : ∀ (es : List (Key × Value)), PlainEs es → RefFreeEs es
  | [], _ => trivial
  | (k, v) :: es, h => by
    simp only [PlainEs] at h; exact ⟨h.1, plain_refFree v h.2.1, plainEs_refFreeEs es h.2.2⟩
end

theorem refFreeL_append {a b : List Value} : RefFreeL (a ++ b) ↔ RefFreeL a ∧ RefFreeL b := by
  induction a with
  | nil => simp [RefFreeL]
  | cons v vs ih => simp only [List.cons_append, RefFreeL, ih, and_assoc]

theorem normL_append : ∀ (a b : List Value), normL (a ++ b) = normL a ++ normL b
  | [], _ => rfl
  | v :: a, b => by simp only [List.cons_append, normL, normL_append a b]

theorem refFree_layersOf {v : Value} (h : RefFree v) : C10.layersOf v = [v] := by
  cases v <;> first | rfl | simp [RefFree] at h

mutual
theorem sz_norm : ∀ (v : Value), sz (norm v) = sz v
  | .str _ => rfl
  | .vl l => by simp only [norm, sz, szVl_normL l]
  | .null => rfl
  | .bool _ => rfl
  | .num _ => rfl
  | .lit _ => rfl
  | .seq l => by simp only [norm, sz, szL_normL l]
  | .map es ck ok => by simp only [norm, sz, szEs_normEs es]
theorem szL_normL : ∀ (l : List Value), szL (normL l) = szL l
  | [] => rfl
  | v :: vs => by simp only [normL, szL, sz_norm v, szL_normL vs]
theorem szVl_normL : ∀ (l : List Value), szVl (normL l) = szVl l
  | [] => rfl
  | v :: vs => by simp only [normL, szVl, sz_norm v, szVl_normL vs]
theorem szEs_normEs : ∀ (es : List (Key × Value)), szEs (normEs es) = szEs es
  | [] => rfl
  | (k, v) :: es => by simp only [normEs, szEs, sz_norm v, szEs_normEs es]
end

theorem insertImpl_fresh_plain (acc : List (Key × Value)) {k : Key} (v : Value)
    (hk : CleanKey k) (hn : k ∉ keys acc) :
    (⟨acc, [], []⟩ : Mapping).insertImpl k v (decide (k ∈ ([] : List Key)))
      (decide (k ∈ ([] : List Key))) = .ok ⟨acc ++ [(k, v)], [], []⟩ := by
  rw [insertImpl_fresh_eq ⟨acc, [], []⟩ v _ _ hk hn]
  simp

mutual
/-- **Interpolating reference-free data only turns its strings into literals.** -/
theorem interp_refFree : ∀ (v : Value) (n : Nat) (root : Mapping) (st : RState), RefFree v →
    size v ≤ n → interp n root v st = .ok (norm v, st)
  | .vl l, n, root, st, h, _ => by simp [RefFree] at h
  | .str s, n, root, st, h, hn => by
    cases n with
    | zero => simp [size] at hn
    | succ n =>
      simp only [RefFree] at h
      simp [interp, Token.parse, h, norm]
  | .null, n, root, st, _, hn => by
    cases n with
    | zero => simp [size] at hn
    | succ n => simp only [interp, norm]
  | .bool _, n, root, st, _, hn => by
    cases n with
    | zero => simp [size] at hn
    | succ n => simp only [interp, norm]
  | .num _, n, root, st, _, hn => by
    cases n with
    | zero => simp [size] at hn
    | succ n => simp only [interp, norm]
  | .lit _, n, root, st, _, hn => by
    cases n with
    | zero => simp [size] at hn
    | succ n => simp only [interp, norm]
  | .seq l, n, root, st, h, hn => by
    cases n with
    | zero => simp [size] at hn
    | succ n =>
      simp only [RefFree] at h
      simp only [size] at hn
      simp only [interp, interpL_refFree l n root 0 st h (by omega), norm]
  | .map es ck ok, n, root, st, h, hn => by
    cases n with
    | zero => simp [size] at hn
    | succ n =>
      simp only [RefFree] at h
      obtain ⟨h1, h2, rfl, rfl⟩ := h
      simp only [size] at hn
      have := interpEs_refFree es n root st [] h1 (by simpa using h2) (by omega)
      simp only [interp, this, Mapping.toValue, List.nil_append, norm]
theorem interpL_refFree : ∀ (l : List Value) (n : Nat) (root : Mapping) (idx : Nat) (st : RState),
    RefFreeL l → sizeL l ≤ n → interpL n root l idx st = .ok (normL l)
  | [], n, root, idx, st, _, hn => by
    cases n with
    | zero => simp [sizeL] at hn
    | succ n => simp only [interpL, normL]
  | v :: vs, n, root, idx, st, h, hn => by
    cases n with
    | zero => simp [sizeL] at hn
    | succ n =>
      simp only [RefFreeL] at h
      simp only [sizeL] at hn
      simp only [interpL, interp_refFree v n root _ h.1 (by omega),
        interpL_refFree vs n root (idx + 1) st h.2 (by omega), normL]
theorem interpEs_refFree : ∀ (es : List (Key × Value)) (n : Nat) (root : Mapping) (st : RState)
    (acc : List (Key × Value)), RefFreeEs es → (keys acc ++ keys es).Nodup → sizeEs es ≤ n →
    interpEs n root es [] [] st ⟨acc, [], []⟩ = .ok ⟨acc ++ normEs es, [], []⟩
  | [], n, root, st, acc, _, _, hn => by
    cases n with
    | zero => simp [sizeEs] at hn
    | succ n => simp [interpEs, normEs]
  | (k, v) :: rest, n, root, st, acc, h, hnd, hn => by
    cases n with
    | zero => simp [sizeEs] at hn
    | succ n =>
      simp only [RefFreeEs] at h
      simp only [sizeEs] at hn
      have hstep := nodup_keys_step (by simpa [keys] using hnd : (keys acc ++ k :: keys rest).Nodup)
      simp only [interpEs, interp_refFree v n root _ h.2.1 (by omega),
        flat_plain (refFree_norm v h.2.1), insertImpl_fresh_plain acc (norm v) h.1 hstep.1]
      rw [interpEs_refFree rest n root st _ h.2.2 (by simpa [keys] using hstep.2) (by omega)]
      simp [normEs]
end

/-! ## 2. Parameter trees -/

/-- The keys of a node, in order. -/
abbrev tkeys (ts : List (Key × Tree)) : List Key := ts.map Prod.fst

mutual
/-- Trees as `deep` builds them from plain layers: leaves hold plain non-mapping values, keys
are marker-free and distinct. -/
def PTree : Tree → Prop
  | .leaf v => Plain v ∧ v.isMap = false
  | .bad e => IsConflict e
  | .node ts => PTreeEs ts ∧ (tkeys ts).Nodup
def PTreeEs : List (Key × Tree) → Prop
  | [] => True
  | (k, t) :: ts => CleanKey k ∧ PTree t ∧ PTreeEs ts
end

@[simp] theorem isConflict_conflict (cur : List Str) (v : Value) (onto : Str) :
    IsConflict (conflict cur v onto) := ⟨_, _, _, rfl⟩

theorem IsConflict.ne_fuel {e : Err} (h : IsConflict e) : e ≠ .fuel := by
  obtain ⟨_, _, _, rfl⟩ := h; simp

theorem tlookup_none_iff {k : Key} {ts : List (Key × Tree)} : tlookup k ts = none ↔ k ∉ tkeys ts := by
  induction ts with
  | nil => simp [tlookup]
  | cons e ts ih =>
    obtain ⟨k', t⟩ := e
    simp only [tlookup, tkeys, List.map_cons, List.mem_cons, not_or]
    by_cases h : k' = k
    · simp [h]
    · simp only [h, if_false]
      rw [ih]
      exact ⟨fun h2 => ⟨fun e => h e.symm, h2⟩, fun h2 => h2.2⟩

theorem tkeys_upsert (k : Key) (f : Tree → Tree) (d : Tree) (ts : List (Key × Tree)) :
    tkeys (upsert k f d ts) = if k ∈ tkeys ts then tkeys ts else tkeys ts ++ [k] := by
  induction ts with
  | nil => simp [upsert, tkeys]
  | cons e ts ih =>
    obtain ⟨k', t⟩ := e
    simp only [upsert]
    by_cases h : k' = k
    · simp [h, tkeys]
    · have h' : ¬ k = k' := fun e => h e.symm
      simp only [h, if_false, tkeys, List.map_cons, List.mem_cons, h', false_or] at ih ⊢
      rw [ih]
      split <;> simp

theorem tkeys_upsert_nodup {k : Key} {f : Tree → Tree} {d : Tree} {ts : List (Key × Tree)}
    (h : (tkeys ts).Nodup) : (tkeys (upsert k f d ts)).Nodup := by
  rw [tkeys_upsert]
  split
  · exact h
  · rename_i hk
    rw [List.nodup_append]
    refine ⟨h, by simp, ?_⟩
    intro a ha b hb
    simp at hb; subst hb
    intro e; subst e; exact hk ha

theorem ptreeEs_upsert {k : Key} {f : Tree → Tree} {d : Tree} {ts : List (Key × Tree)}
    (hk : CleanKey k) (hf : ∀ t, PTree t → PTree (f t)) (hd : PTree d) (h : PTreeEs ts) :
    PTreeEs (upsert k f d ts) := by
  induction ts with
  | nil => simp only [upsert, PTreeEs]; exact ⟨hk, hd, trivial⟩
  | cons e ts ih =>
    obtain ⟨k', t⟩ := e
    simp only [PTreeEs] at h
    simp only [upsert]
    by_cases hkk : k' = k
    · simp only [hkk, if_true, PTreeEs]
      exact ⟨hk, hf t h.2.1, h.2.2⟩
    · simp only [hkk, if_false, PTreeEs]
      exact ⟨h.1, h.2.1, ih h.2.2⟩

mutual
theorem ofValue_ptree : ∀ (v : Value), Plain v → PTree (ofValue v)
  | .str _, h => by simp [Plain] at h
  | .vl _, h => by simp [Plain] at h
  | .null, h => by simp only [ofValue, PTree]; exact ⟨h, rfl⟩
  | .bool _, h => by simp only [ofValue, PTree]; exact ⟨h, rfl⟩
  | .num _, h => by simp only [ofValue, PTree]; exact ⟨h, rfl⟩
  | .lit _, h => by simp only [ofValue, PTree]; exact ⟨h, rfl⟩
  | .seq l, h => by simp only [ofValue, PTree]; exact ⟨h, rfl⟩
  | .map es ck ok, h => by
    simp only [Plain] at h
    obtain ⟨a, b⟩ := ofValueEs_ptree es h.1
    simp only [ofValue, PTree]
    exact ⟨a, by rw [b]; exact h.2.1⟩
theorem ofValueEs_ptree : ∀ (es : List (Key × Value)), PlainEs es →
    PTreeEs (ofValueEs es) ∧ tkeys (ofValueEs es) = keys es
  | [], _ => by simp [ofValueEs, PTreeEs, tkeys, keys]
  | (k, v) :: es, h => by
    simp only [PlainEs] at h
    obtain ⟨a, b⟩ := ofValueEs_ptree es h.2.2
    simp only [ofValueEs, PTreeEs]
    refine ⟨⟨h.1, ofValue_ptree v h.2.1, a⟩, ?_⟩
    simp only [tkeys, keys, List.map_cons] at b ⊢
    rw [b]
end

/-- `deep` over a poisoned parameter leaves it poisoned. -/
theorem deep_bad (cur : List Str) (e : Err) (v : Value) : deep cur (.bad e) v = .bad e := by
  cases v <;> rfl

/-- `deep` over `null` is the layer itself. -/
theorem deep_leaf_null (cur : List Str) (v : Value) : deep cur (.leaf .null) v = ofValue v := by
  cases v <;> rfl

theorem foldl_deep_bad (cur : List Str) (e : Err) (vs : List Value) :
    vs.foldl (deep cur) (.bad e) = .bad e := by
  induction vs with
  | nil => rfl
  | cons v vs ih => simp only [List.foldl_cons, deep_bad, ih]

theorem mergeLeaf_ptree (cur : List Str) {a v : Value} (ha : Plain a) (hv : Plain v) :
    PTree (mergeLeaf cur a v) := by
  cases a with
  | null => exact ofValue_ptree v hv
  | seq l =>
    cases v with
    | seq l' =>
      simp only [mergeLeaf, PTree]
      simp only [Plain] at ha hv ⊢
      exact ⟨plainL_append.2 ⟨ha, hv⟩, rfl⟩
    | null => simp [mergeLeaf, PTree]
    | bool _ => simp [mergeLeaf, PTree]
    | num _ => simp [mergeLeaf, PTree]
    | lit _ => simp [mergeLeaf, PTree]
    | str _ => simp [mergeLeaf, PTree]
    | vl _ => simp [mergeLeaf, PTree]
    | map _ _ _ => simp [mergeLeaf, PTree]
  | str _ => simp [Plain] at ha
  | vl _ => simp [Plain] at ha
  | bool _ =>
    simp only [mergeLeaf]
    split
    · simp [PTree]
    · rename_i hc
      simp only [PTree]
      exact ⟨hv, by cases v <;> simp_all [Value.isMap]⟩
  | num _ =>
    simp only [mergeLeaf]
    split
    · simp [PTree]
    · rename_i hc
      simp only [PTree]
      exact ⟨hv, by cases v <;> simp_all [Value.isMap]⟩
  | lit _ =>
    simp only [mergeLeaf]
    split
    · simp [PTree]
    · rename_i hc
      simp only [PTree]
      exact ⟨hv, by cases v <;> simp_all [Value.isMap]⟩
  | map _ _ _ =>
    simp only [mergeLeaf]
    split
    · simp [PTree]
    · rename_i hc
      simp only [PTree]
      exact ⟨hv, by cases v <;> simp_all [Value.isMap]⟩

mutual
theorem deep_ptree : ∀ (v : Value) (cur : List Str) (t : Tree), PTree t → Plain v →
    PTree (deep cur t v)
  | .str _, _, _, _, h => by simp [Plain] at h
  | .vl _, _, _, _, h => by simp [Plain] at h
  | .null, cur, t, ht, _ => by
    cases t <;> simp_all [deep, PTree, Plain, Value.isMap]
  | .bool b, cur, t, ht, hv => by
    cases t with
    | bad e => simpa [deep, PTree] using ht
    | node ts => simp [deep, PTree]
    | leaf a => simp only [deep]; exact mergeLeaf_ptree cur ht.1 hv
  | .num b, cur, t, ht, hv => by
    cases t with
    | bad e => simpa [deep, PTree] using ht
    | node ts => simp [deep, PTree]
    | leaf a => simp only [deep]; exact mergeLeaf_ptree cur ht.1 hv
  | .lit b, cur, t, ht, hv => by
    cases t with
    | bad e => simpa [deep, PTree] using ht
    | node ts => simp [deep, PTree]
    | leaf a => simp only [deep]; exact mergeLeaf_ptree cur ht.1 hv
  | .seq b, cur, t, ht, hv => by
    cases t with
    | bad e => simpa [deep, PTree] using ht
    | node ts => simp [deep, PTree]
    | leaf a => simp only [deep]; exact mergeLeaf_ptree cur ht.1 hv
  | .map es ck ok, cur, t, ht, hv => by
    cases t with
    | bad e => simpa [deep, PTree] using ht
    | leaf a => simp only [deep]; exact mergeLeaf_ptree cur ht.1 hv
    | node ts =>
      simp only [PTree] at ht
      simp only [Plain] at hv
      simp only [deep, PTree]
      exact deepEs_ptree es cur ts ht.1 ht.2 hv.1
theorem deepEs_ptree : ∀ (es : List (Key × Value)) (cur : List Str) (ts : List (Key × Tree)),
    PTreeEs ts → (tkeys ts).Nodup → PlainEs es →
    PTreeEs (deepEs cur ts es) ∧ (tkeys (deepEs cur ts es)).Nodup
  | [], _, ts, h1, h2, _ => by simp only [deepEs]; exact ⟨h1, h2⟩
  | (k, v) :: es, cur, ts, h1, h2, h3 => by
    simp only [PlainEs] at h3
    simp only [deepEs]
    exact deepEs_ptree es cur _
      (ptreeEs_upsert h3.1 (fun t ht => deep_ptree v (cur ++ [k.display]) t ht h3.2.1)
        (ofValue_ptree v h3.2.1) h1)
      (tkeys_upsert_nodup h2) h3.2.2
end

theorem merged_ptree (cur : List Str) : ∀ (vs : List Value) (t : Tree), PTree t → PlainL vs →
    PTree (vs.foldl (deep cur) t)
  | [], t, ht, _ => ht
  | v :: vs, t, ht, h => by
    simp only [PlainL] at h
    simp only [List.foldl_cons]
    exact merged_ptree cur vs _ (deep_ptree v cur t ht h.1) h.2

mutual
/-- The value of a tree built from plain layers is plain. -/
theorem resolve_plain : ∀ (t : Tree) (v : Value), PTree t → resolve t = .ok v → Plain v
  | .leaf a, v, ht, h => by
    simp only [resolve, Except.ok.injEq] at h; subst h; exact ht.1
  | .bad e, v, _, h => by simp [resolve] at h
  | .node ts, v, ht, h => by
    simp only [resolve] at h
    simp only [PTree] at ht
    cases h1 : resolveEs ts with
    | error e => simp [h1] at h
    | ok es =>
      simp only [h1, Except.ok.injEq] at h; subst h
      obtain ⟨a, b⟩ := resolveEs_plain ts es ht.1 h1
      simp only [Plain]
      exact ⟨a, by rw [b]; exact ht.2, by trivial, by trivial⟩
theorem resolveEs_plain : ∀ (ts : List (Key × Tree)) (es : List (Key × Value)), PTreeEs ts →
    resolveEs ts = .ok es → PlainEs es ∧ keys es = tkeys ts
  | [], es, _, h => by
    simp only [resolveEs, Except.ok.injEq] at h; subst h; simp [PlainEs, keys, tkeys]
  | (k, t) :: ts, es, ht, h => by
    simp only [resolveEs] at h
    simp only [PTreeEs] at ht
    cases h1 : resolve t with
    | error e => simp [h1] at h
    | ok v =>
      simp only [h1] at h
      cases h2 : resolveEs ts with
      | error e => simp [h2] at h
      | ok es' =>
        simp only [h2, Except.ok.injEq] at h; subst h
        obtain ⟨a, b⟩ := resolveEs_plain ts es' ht.2.2 h2
        simp only [PlainEs]
        refine ⟨⟨ht.1, resolve_plain t v ht.2.1 h1, a⟩, ?_⟩
        simp only [keys, tkeys, List.map_cons] at b ⊢
        rw [b]
end

mutual
/-- A plain value, seen as a tree, has itself as value. -/
theorem resolve_ofValue : ∀ (v : Value), Plain v → resolve (ofValue v) = .ok v
  | .str _, h => by simp [Plain] at h
  | .vl _, h => by simp [Plain] at h
  | .null, _ => rfl
  | .bool _, _ => rfl
  | .num _, _ => rfl
  | .lit _, _ => rfl
  | .seq _, _ => rfl
  | .map es ck ok, h => by
    simp only [Plain] at h
    obtain ⟨h1, _, rfl, rfl⟩ := h
    simp only [ofValue, resolve, resolveEs_ofValueEs es h1]
theorem resolveEs_ofValueEs : ∀ (es : List (Key × Value)), PlainEs es →
    resolveEs (ofValueEs es) = .ok es
  | [], _ => rfl
  | (k, v) :: es, h => by
    simp only [PlainEs] at h
    simp only [ofValueEs, resolveEs, resolve_ofValue v h.2.1, resolveEs_ofValueEs es h.2.2]
end

mutual
/-- Conversely a tree without poison *is* its value. -/
theorem ofValue_resolve : ∀ (t : Tree) (v : Value), PTree t → resolve t = .ok v → ofValue v = t
  | .leaf a, v, ht, h => by
    simp only [resolve, Except.ok.injEq] at h; subst h
    obtain ⟨_, hm⟩ := ht
    cases a <;> first | rfl | simp [Value.isMap] at hm
  | .bad e, v, _, h => by simp [resolve] at h
  | .node ts, v, ht, h => by
    simp only [resolve] at h
    simp only [PTree] at ht
    cases h1 : resolveEs ts with
    | error e => simp [h1] at h
    | ok es =>
      simp only [h1, Except.ok.injEq] at h; subst h
      simp only [ofValue, ofValueEs_resolveEs ts es ht.1 h1]
theorem ofValueEs_resolveEs : ∀ (ts : List (Key × Tree)) (es : List (Key × Value)), PTreeEs ts →
    resolveEs ts = .ok es → ofValueEs es = ts
  | [], es, _, h => by
    simp only [resolveEs, Except.ok.injEq] at h; subst h; rfl
  | (k, t) :: ts, es, ht, h => by
    simp only [resolveEs] at h
    simp only [PTreeEs] at ht
    cases h1 : resolve t with
    | error e => simp [h1] at h
    | ok v =>
      simp only [h1] at h
      cases h2 : resolveEs ts with
      | error e => simp [h2] at h
      | ok es' =>
        simp only [h2, Except.ok.injEq] at h; subst h
        simp only [ofValueEs, ofValue_resolve t v ht.2.1 h1, ofValueEs_resolveEs ts es' ht.2.2 h2]
end

/-! ## 3. The evaluator's accumulator as a tree -/

/-- A member of an accumulated mapping: a reference-free value (written once) or the layer list
of the reference-free values written to it. -/
def SemiV (v : Value) : Prop := RefFree v ∨ ∃ l, v = .vl l ∧ RefFreeL l

def SemiEs : List (Key × Value) → Prop
  | [] => True
  | (k, v) :: es => CleanKey k ∧ SemiV v ∧ SemiEs es

/-- What the layer loop holds after some plain layers: a plain non-mapping value, or a flag-free
mapping with clean distinct keys whose members are `SemiV`. -/
def Semi : Value → Prop
  | .map es ck ok => SemiEs es ∧ (keys es).Nodup ∧ ck = [] ∧ ok = []
  | v => Plain v

/-- The tree of a member: its (interpolated) layers merged at path `cur`. -/
def stackTree (cur : List Str) (v : Value) : Tree := merged cur (normL (C10.layersOf v))

def absEs (cur : List Str) : List (Key × Value) → List (Key × Tree)
  | [] => []
  | (k, v) :: es => (k, stackTree (cur ++ [k.display]) v) :: absEs cur es

/-- The abstraction function: accumulator ↦ tree. -/
def abs (cur : List Str) : Value → Tree
  | .map es _ _ => .node (absEs cur es)
  | v => .leaf v

theorem semiV_of_plain {v : Value} (h : Plain v) : SemiV v := Or.inl (plain_refFree v h)

theorem semiV_layers {v : Value} (h : SemiV v) : RefFreeL (C10.layersOf v) := by
  rcases h with h | ⟨l, rfl, h⟩
  · rw [refFree_layersOf h]; exact ⟨h, trivial⟩
  · exact h

theorem plainEs_semiEs : ∀ {es : List (Key × Value)}, PlainEs es → SemiEs es
  | [], _ => trivial
  | (k, v) :: es, h => by
    simp only [PlainEs] at h
    exact ⟨h.1, semiV_of_plain h.2.1, plainEs_semiEs h.2.2⟩

theorem plain_semi {v : Value} (h : Plain v) : Semi v := by
  cases v with
  | map es ck ok =>
    simp only [Plain] at h
    exact ⟨plainEs_semiEs h.1, h.2⟩
  | null => exact h
  | bool _ => exact h
  | num _ => exact h
  | lit _ => exact h
  | seq _ => exact h
  | str _ => exact h
  | vl _ => exact h

theorem semiEs_append {a b : List (Key × Value)} : SemiEs (a ++ b) ↔ SemiEs a ∧ SemiEs b := by
  induction a with
  | nil => simp [SemiEs]
  | cons e es ih =>
    obtain ⟨k, v⟩ := e
    simp only [List.cons_append, SemiEs, ih, and_assoc]

theorem semiEs_lookup {es : List (Key × Value)} {k : Key} {v : Value} (h : SemiEs es)
    (hl : lookup k es = some v) : SemiV v := by
  induction es with
  | nil => simp at hl
  | cons e es ih =>
    obtain ⟨k', v'⟩ := e
    simp only [SemiEs] at h
    simp only [lookup] at hl
    by_cases hk : k' = k
    · simp only [hk, if_true, Option.some.injEq] at hl; subst hl; exact h.2.1
    · simp only [hk, if_false] at hl; exact ih h.2.2 hl

theorem semiEs_mem {es : List (Key × Value)} {k : Key} {v : Value} (h : SemiEs es)
    (hm : (k, v) ∈ es) : CleanKey k ∧ SemiV v := by
  induction es with
  | nil => simp at hm
  | cons e es ih =>
    obtain ⟨k', v'⟩ := e
    simp only [SemiEs] at h
    rcases List.mem_cons.1 hm with heq | hm'
    · simp only [Prod.mk.injEq] at heq; obtain ⟨rfl, rfl⟩ := heq; exact ⟨h.1, h.2.1⟩
    · exact ih h.2.2 hm'

theorem semiEs_replaceVal {es : List (Key × Value)} {k : Key} {v : Value} (h : SemiEs es)
    (hv : SemiV v) : SemiEs (replaceVal k v es) := by
  induction es with
  | nil => trivial
  | cons e es ih =>
    obtain ⟨k', v'⟩ := e
    simp only [SemiEs] at h
    simp only [replaceVal]
    by_cases hk : k' = k
    · simp only [hk, if_true, SemiEs]; exact ⟨hk ▸ h.1, hv, h.2.2⟩
    · simp only [hk, if_false, SemiEs]; exact ⟨h.1, h.2.1, ih h.2.2⟩

theorem semiV_combine {old v : Value} (ho : SemiV old) (hv : RefFree v) :
    SemiV (combine old v) := by
  rw [C10.combine_is_vl]
  exact Or.inr ⟨_, rfl, refFreeL_append.2 ⟨semiV_layers ho, semiV_layers (Or.inl hv)⟩⟩

theorem stackTree_ptree (cur : List Str) {v : Value} (h : SemiV v) : PTree (stackTree cur v) :=
  merged_ptree cur _ _ ⟨trivial, rfl⟩ (refFreeL_normL _ (semiV_layers h))

theorem stackTree_refFree (cur : List Str) {v : Value} (h : RefFree v) :
    stackTree cur v = ofValue (norm v) := by
  simp only [stackTree, merged, refFree_layersOf h, normL, List.foldl_cons, List.foldl_nil,
    deep_leaf_null]

theorem stackTree_plain (cur : List Str) {v : Value} (h : Plain v) : stackTree cur v = ofValue v := by
  rw [stackTree_refFree cur (plain_refFree v h), norm_plain v h]

theorem stackTree_vl (cur : List Str) (l : List Value) :
    stackTree cur (.vl l) = merged cur (normL l) := rfl

theorem stackTree_combine (cur : List Str) {old v : Value} (hv : RefFree v) :
    stackTree cur (combine old v) = deep cur (stackTree cur old) (norm v) := by
  simp only [stackTree, merged, C10.combine_layers, refFree_layersOf hv, normL_append, normL,
    List.foldl_append, List.foldl_cons, List.foldl_nil]

theorem tkeys_absEs (cur : List Str) (es : List (Key × Value)) : tkeys (absEs cur es) = keys es := by
  induction es with
  | nil => rfl
  | cons e es ih =>
    obtain ⟨k, v⟩ := e
    simp only [absEs, tkeys, keys, List.map_cons] at ih ⊢
    rw [ih]

theorem absEs_append (cur : List Str) (a b : List (Key × Value)) :
    absEs cur (a ++ b) = absEs cur a ++ absEs cur b := by
  induction a with
  | nil => rfl
  | cons e es ih =>
    obtain ⟨k, v⟩ := e
    simp only [List.cons_append, absEs, ih]

theorem absEs_plain (cur : List Str) : ∀ {es : List (Key × Value)}, PlainEs es →
    absEs cur es = ofValueEs es
  | [], _ => rfl
  | (k, v) :: es, h => by
    simp only [PlainEs] at h
    simp only [absEs, ofValueEs, stackTree_plain _ h.2.1, absEs_plain cur h.2.2]

theorem abs_plain (cur : List Str) {v : Value} (h : Plain v) : abs cur v = ofValue v := by
  cases v with
  | map es ck ok =>
    simp only [Plain] at h
    simp only [abs, ofValue, absEs_plain cur h.1]
  | null => rfl
  | bool _ => rfl
  | num _ => rfl
  | lit _ => rfl
  | seq _ => rfl
  | str _ => rfl
  | vl _ => rfl

theorem upsert_absEs_absent (cur : List Str) {k : Key} (f : Tree → Tree) (d : Tree)
    {es : List (Key × Value)} (h : lookup k es = none) :
    upsert k f d (absEs cur es) = absEs cur es ++ [(k, d)] := by
  induction es with
  | nil => rfl
  | cons e es ih =>
    obtain ⟨k', v'⟩ := e
    simp only [lookup] at h
    by_cases hk : k' = k
    · simp [hk] at h
    · simp only [hk, if_false] at h
      simp only [absEs, upsert, hk, if_false, ih h, List.cons_append]

theorem upsert_absEs_present (cur : List Str) {k : Key} (f : Tree → Tree) (d : Tree)
    {es : List (Key × Value)} {old new : Value} (h : lookup k es = some old)
    (hf : f (stackTree (cur ++ [k.display]) old) = stackTree (cur ++ [k.display]) new) :
    upsert k f d (absEs cur es) = absEs cur (replaceVal k new es) := by
  induction es with
  | nil => simp at h
  | cons e es ih =>
    obtain ⟨k', v'⟩ := e
    simp only [lookup] at h
    by_cases hk : k' = k
    · simp only [hk, if_true, Option.some.injEq] at h
      subst h; subst hk
      simp only [absEs, upsert, replaceVal, if_true, hf]
    · simp only [hk, if_false] at h
      simp only [absEs, upsert, replaceVal, hk, if_false, ih h]

/-- `Mapping::insert_impl` of a reference-free value under a clean key, without flags, is
`upsert` (with the interpolated value). -/
theorem insert_sim (cur : List Str) {es : List (Key × Value)} {k : Key} {v : Value}
    (hk : CleanKey k) (hes : SemiEs es) (hv : RefFree v) :
    ∃ es', (⟨es, [], []⟩ : Mapping).insertImpl k v false false = .ok ⟨es', [], []⟩ ∧ SemiEs es' ∧
      absEs cur es' =
        upsert k (fun t => deep (cur ++ [k.display]) t (norm v)) (ofValue (norm v))
          (absEs cur es) := by
  have h1 : k.stripPrefix.1 = k := by rw [show k.stripPrefix = (k, none) from hk]
  have h2 : k.stripPrefix.2 = none := by rw [show k.stripPrefix = (k, none) from hk]
  cases hl : lookup k es with
  | none =>
    refine ⟨es ++ [(k, v)], ?_, ?_, ?_⟩
    · rw [insertImpl_absent v false false (by rw [h1]; exact hl)]
      simp [h1, h2]
    · exact semiEs_append.2 ⟨hes, hk, Or.inl hv, trivial⟩
    · rw [upsert_absEs_absent cur _ _ hl, absEs_append]
      simp only [absEs, stackTree_refFree _ hv]
  | some old =>
    refine ⟨replaceVal k (combine old v) es, ?_, ?_, ?_⟩
    · rw [insertImpl_present v false false (by rw [h1]; exact hl) (by simp)]
      simp [h1, h2]
    · exact semiEs_replaceVal hes (semiV_combine (semiEs_lookup hes hl) hv)
    · exact (upsert_absEs_present cur _ _ hl (stackTree_combine _ hv).symm).symm

/-- The entry loop of `Mapping::merge` for a reference-free flag-free layer is `deepEs`. -/
theorem mergeEntries_sim (cur : List Str) : ∀ (es' es : List (Key × Value)), RefFreeEs es' →
    SemiEs es →
    ∃ es'', (⟨es, [], []⟩ : Mapping).mergeEntries [] [] es' = .ok ⟨es'', [], []⟩ ∧ SemiEs es'' ∧
      absEs cur es'' = deepEs cur (absEs cur es) (normEs es')
  | [], es, _, hes => ⟨es, rfl, hes, rfl⟩
  | (k, v) :: rest, es, h, hes => by
    simp only [RefFreeEs] at h
    obtain ⟨es1, a1, b1, c1⟩ := insert_sim cur h.1 hes h.2.1
    obtain ⟨es2, a2, b2, c2⟩ := mergeEntries_sim cur rest es1 h.2.2 b1
    refine ⟨es2, ?_, b2, ?_⟩
    · rw [mergeEntries_cons]
      simp only [List.not_mem_nil, decide_false, a1, a2]
    · rw [c2, c1]; rfl

theorem conflict_eq (st : RState) (v : Value) (onto : Str) :
    Err.mergeConflict st.curKey v.kind onto = conflict st.cur v onto := rfl

/-- **`Value::merge` is `deep`.**  For an accumulator `R` of the layer loop and a plain layer
`x`: a successful merge is again an accumulator and abstracts to `deep (abs R) x`; a failed
merge means that `deep` poisons the parameter with that very error. -/
theorem mergeV_sim {R x : Value} (st : RState) (hR : Semi R) (hx : Plain x) :
    (∀ R', mergeV R x st = .ok R' → Semi R' ∧ deep st.cur (abs st.cur R) x = abs st.cur R') ∧
    (∀ e, mergeV R x st = .error e → deep st.cur (abs st.cur R) x = .bad e) := by
  cases x with
  | str _ => simp [Plain] at hx
  | vl _ => simp [Plain] at hx
  | null =>
    constructor
    · intro R' h
      simp only [mergeV, Except.ok.injEq] at h; subst h
      refine ⟨trivial, ?_⟩
      cases R <;> rfl
    · intro e h; simp [mergeV] at h
  | bool b =>
    cases R with
    | str _ => simp [Semi, Plain] at hR
    | vl _ => simp [Semi, Plain] at hR
    | null => simp [mergeV, mergeNonVl, Semi, Plain, abs, deep, mergeLeaf, ofValue]
    | bool _ => simp [mergeV, mergeNonVl, Semi, Plain, abs, deep, mergeLeaf, Value.isMap, Value.isSeq]
    | num _ => simp [mergeV, mergeNonVl, Semi, Plain, abs, deep, mergeLeaf, Value.isMap, Value.isSeq]
    | lit _ => simp [mergeV, mergeNonVl, Semi, Plain, abs, deep, mergeLeaf, Value.isMap, Value.isSeq]
    | seq _ => simp [mergeV, mergeNonVl, abs, deep, mergeLeaf, conflict_eq]
    | map _ _ _ => simp [mergeV, mergeNonVl, abs, deep, conflict_eq]
  | num b =>
    cases R with
    | str _ => simp [Semi, Plain] at hR
    | vl _ => simp [Semi, Plain] at hR
    | null => simp [mergeV, mergeNonVl, Semi, Plain, abs, deep, mergeLeaf, ofValue]
    | bool _ => simp [mergeV, mergeNonVl, Semi, Plain, abs, deep, mergeLeaf, Value.isMap, Value.isSeq]
    | num _ => simp [mergeV, mergeNonVl, Semi, Plain, abs, deep, mergeLeaf, Value.isMap, Value.isSeq]
    | lit _ => simp [mergeV, mergeNonVl, Semi, Plain, abs, deep, mergeLeaf, Value.isMap, Value.isSeq]
    | seq _ => simp [mergeV, mergeNonVl, abs, deep, mergeLeaf, conflict_eq]
    | map _ _ _ => simp [mergeV, mergeNonVl, abs, deep, conflict_eq]
  | lit b =>
    cases R with
    | str _ => simp [Semi, Plain] at hR
    | vl _ => simp [Semi, Plain] at hR
    | null => simp [mergeV, mergeNonVl, Semi, Plain, abs, deep, mergeLeaf, ofValue]
    | bool _ => simp [mergeV, mergeNonVl, Semi, Plain, abs, deep, mergeLeaf, Value.isMap, Value.isSeq]
    | num _ => simp [mergeV, mergeNonVl, Semi, Plain, abs, deep, mergeLeaf, Value.isMap, Value.isSeq]
    | lit _ => simp [mergeV, mergeNonVl, Semi, Plain, abs, deep, mergeLeaf, Value.isMap, Value.isSeq]
    | seq _ => simp [mergeV, mergeNonVl, abs, deep, mergeLeaf, conflict_eq]
    | map _ _ _ => simp [mergeV, mergeNonVl, abs, deep, conflict_eq]
  | seq l' =>
    cases R with
    | str _ => simp [Semi, Plain] at hR
    | vl _ => simp [Semi, Plain] at hR
    | null =>
      simp only [mergeV, mergeNonVl, abs, deep, mergeLeaf, ofValue]
      simp [Semi]; exact hx
    | bool _ => simp [mergeV, mergeNonVl, abs, deep, mergeLeaf, Value.isMap, Value.isSeq, conflict_eq]
    | num _ => simp [mergeV, mergeNonVl, abs, deep, mergeLeaf, Value.isMap, Value.isSeq, conflict_eq]
    | lit _ => simp [mergeV, mergeNonVl, abs, deep, mergeLeaf, Value.isMap, Value.isSeq, conflict_eq]
    | seq l =>
      simp only [mergeV, mergeNonVl, abs, deep, mergeLeaf]
      simp only [Semi, Plain] at hR hx
      simp [Semi, Plain, plainL_append, hR, hx]
    | map _ _ _ => simp [mergeV, mergeNonVl, abs, deep, conflict_eq]
  | map es' ck' ok' =>
    have hx' := hx
    simp only [Plain] at hx'
    obtain ⟨hes', hnd', rfl, rfl⟩ := hx'
    cases R with
    | str _ => simp [Semi, Plain] at hR
    | vl _ => simp [Semi, Plain] at hR
    | null =>
      constructor
      · intro R' h
        simp only [mergeV, mergeNonVl, Except.ok.injEq] at h; subst h
        exact ⟨plain_semi hx, by rw [abs_plain _ hx]; rfl⟩
      · intro e h; simp [mergeV, mergeNonVl] at h
    | bool _ => simp [mergeV, mergeNonVl, abs, deep, mergeLeaf, Value.isMap, Value.isSeq, conflict_eq]
    | num _ => simp [mergeV, mergeNonVl, abs, deep, mergeLeaf, Value.isMap, Value.isSeq, conflict_eq]
    | lit _ => simp [mergeV, mergeNonVl, abs, deep, mergeLeaf, Value.isMap, Value.isSeq, conflict_eq]
    | seq _ => simp [mergeV, mergeNonVl, abs, deep, mergeLeaf, conflict_eq]
    | map es ck ok =>
      simp only [Semi] at hR
      obtain ⟨hes, hnd, rfl, rfl⟩ := hR
      obtain ⟨es2, a, b, c⟩ := mergeEntries_sim st.cur es' es (plainEs_refFreeEs es' hes') hes
      rw [normEs_plain es' hes'] at c
      have hm : Mapping.merge ⟨es, [], []⟩ ⟨es', [], []⟩ = .ok ⟨es2, [], []⟩ := a
      have hnd2 : (keys es2).Nodup := merge_keys_nodup (m := ⟨es, [], []⟩) hnd hm
      constructor
      · intro R' h
        simp only [mergeV, mergeNonVl, hm, Except.ok.injEq] at h; subst h
        refine ⟨⟨b, hnd2, rfl, rfl⟩, ?_⟩
        simp only [abs, deep, Mapping.toValue, c]
      · intro e h
        simp [mergeV, mergeNonVl, hm] at h

/-- **The fold of `Value::merge` over plain layers is `merged`.** -/
theorem flatVl_sim (st : RState) : ∀ (l : List Value) (R : Value), Semi R → PlainL l →
    (∀ R', flatVl l R st = .ok R' →
      Semi R' ∧ l.foldl (deep st.cur) (abs st.cur R) = abs st.cur R') ∧
    (∀ e, flatVl l R st = .error e → l.foldl (deep st.cur) (abs st.cur R) = .bad e)
  | [], R, hR, _ =>
    ⟨fun R' h => by simp only [flatVl, Except.ok.injEq] at h; subst h; exact ⟨hR, rfl⟩,
     fun e h => by simp [flatVl] at h⟩
  | v :: rest, R, hR, hl => by
    simp only [PlainL] at hl
    obtain ⟨s1, s2⟩ := mergeV_sim st hR hl.1
    cases h1 : mergeV R v st with
    | error e =>
      constructor
      · intro R' h; simp [flatVl, h1] at h
      · intro e' h
        simp only [flatVl, h1, Except.error.injEq] at h; subst h
        simp only [List.foldl_cons, s2 e h1, foldl_deep_bad]
    | ok b =>
      obtain ⟨hb, hd⟩ := s1 b h1
      obtain ⟨r1, r2⟩ := flatVl_sim st rest b hb hl.2
      constructor
      · intro R' h
        simp only [flatVl, h1] at h
        simp only [List.foldl_cons, hd]; exact r1 R' h
      · intro e h
        simp only [flatVl, h1] at h
        simp only [List.foldl_cons, hd]; exact r2 e h

/-! ## 4. The evaluator settles on the specification -/

/-- The first loop of the `ValueList` arm on reference-free layers is the plain fold of
`Value::merge` over the interpolated layers. -/
theorem interpVl_refFree (root : Mapping) (st : RState) : ∀ (l : List Value) (n : Nat) (r : Value),
    RefFreeL l → sizeL l ≤ n → interpVl n root l r st = flatVl (normL l) r st
  | [], n, r, _, hn => by
    cases n with
    | zero => simp [sizeL] at hn
    | succ n => rfl
  | v :: vs, n, r, hl, hn => by
    cases n with
    | zero => simp [sizeL] at hn
    | succ n =>
      simp only [RefFreeL] at hl
      simp only [sizeL] at hn
      rw [interpVl_cons, interp_refFree v n root st hl.1 (by omega)]
      simp only [normL, flatVl]
      cases mergeV r (norm v) st with
      | error e => rfl
      | ok r' => exact interpVl_refFree root st vs n r' hl.2 (by omega)

/-- For all sufficiently large fuel the computation `f` returns `r`. -/
def Settles {α : Type} (f : Nat → R α) (r : R α) : Prop := ∃ N, ∀ n, N ≤ n → f n = r

/-- A specification outcome as an outcome of `interp` that leaves the state alone. -/
def lift (st : RState) : Except Err Value → R (Value × RState)
  | .ok v => .ok (v, st)
  | .error e => .error e

theorem lift_ne_fuel_of {st : RState} {x : Except Err Value} (h : x ≠ .error .fuel) :
    lift st x ≠ .error .fuel := by
  cases x with
  | ok v => simp [lift]
  | error e => simpa [lift] using h

/-- `Mapping::interpolate` on an accumulated mapping, given that every member settles on the
value of its tree. -/
theorem interpEs_settle (root : Mapping) (st : RState) : ∀ (es acc : List (Key × Value)),
    SemiEs es → (keys acc ++ keys es).Nodup →
    (∀ k v, (k, v) ∈ es → Settles (fun n => interp n root v (st.pushMappingKey k))
        (lift (st.pushMappingKey k) (resolve (stackTree (st.cur ++ [k.display]) v)))) →
    Settles (fun n => interpEs n root es [] [] st ⟨acc, [], []⟩)
      (match resolveEs (absEs st.cur es) with
       | .error e => .error e
       | .ok es' => .ok ⟨acc ++ es', [], []⟩)
  | [], acc, _, _, _ => ⟨1, fun n hn => by
      obtain ⟨m, rfl⟩ : ∃ m, n = m + 1 := ⟨n - 1, by omega⟩
      simp [interpEs_nil, absEs, resolveEs]⟩
  | (k, v) :: rest, acc, hes, hnd, hv => by
    simp only [SemiEs] at hes
    obtain ⟨N1, c1⟩ := hv k v (by simp)
    dsimp only at c1
    have hstep := nodup_keys_step (by simpa [keys] using hnd : (keys acc ++ k :: keys rest).Nodup)
    have hpt := stackTree_ptree (st.cur ++ [k.display]) hes.2.1
    cases hr : resolve (stackTree (st.cur ++ [k.display]) v) with
    | error e =>
      refine ⟨N1 + 1, fun n hn => ?_⟩
      obtain ⟨m, rfl⟩ : ∃ m, n = m + 1 := ⟨n - 1, by omega⟩
      dsimp only
      rw [interpEs_cons, c1 m (by omega), hr]
      simp only [lift, absEs, resolveEs, hr]
    | ok w =>
      have hw : Plain w := resolve_plain _ _ hpt hr
      obtain ⟨N2, c2⟩ := interpEs_settle root st rest (acc ++ [(k, w)]) hes.2.2
        (by simpa [keys] using hstep.2)
        (fun k' v' hm => hv k' v' (List.mem_cons_of_mem _ hm))
      dsimp only at c2
      refine ⟨N1 + N2 + 1, fun n hn => ?_⟩
      obtain ⟨m, rfl⟩ : ∃ m, n = m + 1 := ⟨n - 1, by omega⟩
      dsimp only
      rw [interpEs_cons, c1 m (by omega), hr]
      simp only [lift, flat_plain hw]
      rw [insertImpl_fresh_eq ⟨acc, [], []⟩ w _ _ hes.1 hstep.1]
      simp only [List.not_mem_nil, decide_false, Bool.false_eq_true, if_false]
      rw [c2 m (by omega)]
      simp only [absEs, resolveEs, hr]
      cases resolveEs (absEs st.cur rest) <;> simp

theorem settle_refFree (root : Mapping) {v : Value} (h : RefFree v) (st : RState) (cur : List Str) :
    Settles (fun n => interp n root v st) (lift st (resolve (stackTree cur v))) := by
  refine ⟨size v, fun n hn => ?_⟩
  rw [stackTree_refFree _ h, resolve_ofValue _ (refFree_norm v h)]
  exact interp_refFree v n root st h hn

theorem abs_null (cur : List Str) : abs cur .null = .leaf .null := rfl

/-- **Main lemma.**  By induction on the size bound `b`:
(1) a layer list of reference-free values renders to `deepAll` of its (interpolated) layers;
(2) an accumulator of the layer loop renders to the value of its tree. -/
theorem settle_main (root : Mapping) : ∀ (b : Nat),
    (∀ l, RefFreeL l → sz (.vl l) ≤ b → ∀ st,
      Settles (fun n => interp n root (.vl l) st) (lift st (deepAll st.cur (normL l)))) ∧
    (∀ R, Semi R → sz R ≤ b → ∀ st,
      Settles (fun n => interp n root R st) (lift st (resolve (abs st.cur R)))) := by
  intro b
  induction b with
  | zero =>
    constructor
    · intro l _ hb; simp [sz] at hb
    · intro R _ hb; have := Termination.sz_pos R; omega
  | succ b ih =>
    obtain ⟨ih1, ih2⟩ := ih
    constructor
    · intro l hl hb st
      have hpl : PlainL (normL l) := refFreeL_normL l hl
      obtain ⟨f1, f2⟩ := flatVl_sim st (normL l) .null (by trivial) hpl
      rw [abs_null] at f1 f2
      cases hf : flatVl (normL l) .null st with
      | error e =>
        have hm : merged st.cur (normL l) = .bad e := f2 e hf
        refine ⟨sizeL l + 1, fun n hn => ?_⟩
        obtain ⟨m, rfl⟩ : ∃ m, n = m + 1 := ⟨n - 1, by omega⟩
        dsimp only
        rw [interp_vl, interpVl_refFree root st l m .null hl (by omega), hf]
        simp only [deepAll, hm, resolve, lift]
      | ok R =>
        obtain ⟨hR, hm⟩ := f1 R hf
        have hm : merged st.cur (normL l) = abs st.cur R := hm
        have hsz := (Termination.flatVl_good (normL l) .null st R hf (plainL_all _ hpl).2.2.2
          (by simp [StrFree])).2
        have hlen := Termination.szVl_eq l
        rw [szL_normL] at hsz
        simp only [sz] at hb hsz
        obtain ⟨N2, c2⟩ := ih2 R hR (by omega) st
        dsimp only at c2
        refine ⟨sizeL l + N2 + 1, fun n hn => ?_⟩
        obtain ⟨m, rfl⟩ : ∃ m, n = m + 1 := ⟨n - 1, by omega⟩
        dsimp only
        rw [interp_vl, interpVl_refFree root st l m .null hl (by omega), hf]
        simp only [deepAll, hm]
        exact c2 m (by omega)
    · intro R hR hb st
      have plainCase : ∀ {R : Value}, Plain R →
          Settles (fun n => interp n root R st) (lift st (resolve (abs st.cur R))) := by
        intro R hP
        rw [abs_plain _ hP, resolve_ofValue _ hP]
        exact ⟨size R, fun n hn => interp_plain hP hn root st⟩
      cases R with
      | null => exact plainCase hR
      | bool _ => exact plainCase hR
      | num _ => exact plainCase hR
      | lit _ => exact plainCase hR
      | seq _ => exact plainCase hR
      | str _ => exact plainCase hR
      | vl _ => exact plainCase hR
      | map es ck ok =>
        simp only [Semi] at hR
        obtain ⟨hes, hnd, rfl, rfl⟩ := hR
        simp only [sz] at hb
        obtain ⟨N1, c1⟩ := interpEs_settle root st es [] hes (by simpa using hnd)
          (fun k v hm => by
            rcases (semiEs_mem hes hm).2 with hP | ⟨l, rfl, hl⟩
            · exact settle_refFree root hP _ _
            · have := Termination.mem_szEs hm
              exact ih1 l hl (by omega) (st.pushMappingKey k))
        dsimp only at c1
        refine ⟨N1 + 1, fun n hn => ?_⟩
        obtain ⟨m, rfl⟩ : ∃ m, n = m + 1 := ⟨n - 1, by omega⟩
        dsimp only
        rw [interp_map, c1 m (by omega)]
        simp only [abs, resolve]
        cases resolveEs (absEs st.cur es) <;> simp [lift, Mapping.toValue]

/-- A layer list of reference-free values renders to the deep merge of its layers. -/
theorem vl_settles (root : Mapping) {l : List Value} (hl : RefFreeL l) (st : RState) :
    Settles (fun n => interp n root (.vl l) st) (lift st (deepAll st.cur (normL l))) :=
  (settle_main root (sz (.vl l))).1 l hl (Nat.le_refl _) st

/-- An accumulated mapping renders to the value of its tree. -/
theorem semi_settles (root : Mapping) {R : Value} (hR : Semi R) (st : RState) :
    Settles (fun n => interp n root R st) (lift st (resolve (abs st.cur R))) :=
  (settle_main root (sz R)).2 R hR (Nat.le_refl _) st

/-! ## 5. Only conflicts are ever reported -/

mutual
theorem resolve_error_conflict : ∀ (t : Tree) (e : Err), PTree t → resolve t = .error e →
    IsConflict e
  | .leaf a, e, _, h => by simp [resolve] at h
  | .bad e', e, ht, h => by
    simp only [resolve, Except.error.injEq] at h; subst h; exact ht
  | .node ts, e, ht, h => by
    simp only [resolve] at h
    simp only [PTree] at ht
    cases h1 : resolveEs ts with
    | error e' =>
      simp only [h1, Except.error.injEq] at h; subst h
      exact resolveEs_error_conflict ts e' ht.1 h1
    | ok es => simp [h1] at h
theorem resolveEs_error_conflict : ∀ (ts : List (Key × Tree)) (e : Err), PTreeEs ts →
    resolveEs ts = .error e → IsConflict e
  | [], e, _, h => by simp [resolveEs] at h
  | (k, t) :: ts, e, ht, h => by
    simp only [resolveEs] at h
    simp only [PTreeEs] at ht
    cases h1 : resolve t with
    | error e' =>
      simp only [h1, Except.error.injEq] at h; subst h
      exact resolve_error_conflict t e' ht.2.1 h1
    | ok v =>
      simp only [h1] at h
      cases h2 : resolveEs ts with
      | error e' =>
        simp only [h2, Except.error.injEq] at h; subst h
        exact resolveEs_error_conflict ts e' ht.2.2 h2
      | ok es => simp [h2] at h
end

theorem absEs_ptree (cur : List Str) : ∀ {es : List (Key × Value)}, SemiEs es →
    PTreeEs (absEs cur es)
  | [], _ => trivial
  | (k, v) :: es, h => by
    simp only [SemiEs] at h
    exact ⟨h.1, stackTree_ptree _ h.2.1, absEs_ptree cur h.2.2⟩

theorem merged_ptree' (cur : List Str) {vs : List Value} (h : PlainL vs) : PTree (merged cur vs) :=
  merged_ptree cur vs _ ⟨trivial, rfl⟩ h

/-- `deepAll` of plain layers is a plain value or a conflict error. -/
theorem deepAll_plain (cur : List Str) {vs : List Value} (h : PlainL vs) {r : Value}
    (hr : deepAll cur vs = .ok r) : Plain r :=
  resolve_plain _ _ (merged_ptree' cur h) hr

theorem deepAll_error_conflict (cur : List Str) {vs : List Value} (h : PlainL vs) {e : Err}
    (he : deepAll cur vs = .error e) : IsConflict e :=
  resolve_error_conflict _ _ (merged_ptree' cur h) he

/-! ## 6. Whole parameter mappings -/

theorem plainLayer_iff (m : Mapping) :
    PlainLayer m ↔ PlainEs m.es ∧ (keys m.es).Nodup ∧ m.ck = [] ∧ m.ok = [] := Iff.rfl

theorem refFreeLayer_iff (m : Mapping) :
    RefFreeLayer m ↔ RefFreeEs m.es ∧ (keys m.es).Nodup ∧ m.ck = [] ∧ m.ok = [] := Iff.rfl

theorem plainLayer_refFree {m : Mapping} (h : PlainLayer m) : RefFreeLayer m :=
  plain_refFree _ h

theorem refFreeLayer_norm {m : Mapping} (h : RefFreeLayer m) : PlainLayer (normLayer m) :=
  refFree_norm _ h

theorem normLayer_plain {m : Mapping} (h : PlainLayer m) : normLayer m = m := by
  obtain ⟨es, ck, ok⟩ := m
  simp only [normLayer, normEs_plain es ((plainLayer_iff _).1 h).1]

/-- Merging reference-free layers one after the other with `Mapping::merge` never fails, and
the result abstracts to the fold of `deepEs` over the interpolated layers. -/
theorem mergeLayers_sim (cur : List Str) : ∀ (ms : List Mapping) (es : List (Key × Value)),
    (∀ m ∈ ms, RefFreeLayer m) → SemiEs es → (keys es).Nodup →
    ∃ es', mergeLayers ⟨es, [], []⟩ ms = .ok ⟨es', [], []⟩ ∧ SemiEs es' ∧ (keys es').Nodup ∧
      absEs cur es' =
        (ms.map normLayer).foldl (fun ts m => deepEs cur ts m.es) (absEs cur es)
  | [], es, _, hes, hnd => ⟨es, rfl, hes, hnd, rfl⟩
  | m :: ms, es, h, hes, hnd => by
    obtain ⟨hp, _, hck, hok⟩ := (refFreeLayer_iff m).1 (h m (by simp))
    obtain ⟨es1, a1, b1, c1⟩ := mergeEntries_sim cur m.es es hp hes
    have hm : Mapping.merge ⟨es, [], []⟩ m = .ok ⟨es1, [], []⟩ := by
      rw [merge_eq, hck, hok]; exact a1
    have hnd1 : (keys es1).Nodup := merge_keys_nodup (m := ⟨es, [], []⟩) hnd hm
    obtain ⟨es2, a2, b2, n2, c2⟩ := mergeLayers_sim cur ms es1
      (fun m' hm' => h m' (List.mem_cons_of_mem _ hm')) b1 hnd1
    refine ⟨es2, ?_, b2, n2, ?_⟩
    · simp only [mergeLayers, hm, a2]
    · rw [c2, c1]; rfl

/-- Rendering an accumulated parameter mapping settles on the values of its trees. -/
theorem renderParams_settles {es : List (Key × Value)} (hes : SemiEs es) (hnd : (keys es).Nodup) :
    Settles (fun n => renderParamsF n ⟨es, [], []⟩)
      (match resolveEs (absEs [] es) with
       | .error e => .error e
       | .ok es' => .ok ⟨es', [], []⟩) := by
  obtain ⟨N, c⟩ := semi_settles ⟨es, [], []⟩ (R := .map es [] []) ⟨hes, hnd, rfl, rfl⟩ {}
  dsimp only at c
  refine ⟨N, fun n hn => ?_⟩
  dsimp only
  unfold renderParamsF renderedF
  simp only [Mapping.toValue]
  rw [c n hn]
  simp only [abs, resolve]
  cases hr : resolveEs (absEs [] es) with
  | error e => simp [lift]
  | ok es' =>
    have hp : Plain (.map es' [] []) :=
      resolve_plain (.node (absEs [] es)) _
        ⟨absEs_ptree [] hes, by rw [tkeys_absEs]; exact hnd⟩ (by simp [resolve, hr])
    simp [lift, flat_plain hp]

/-- **Refinement, settled form.**  Merging reference-free layers with `Mapping::merge` and
rendering the result is `deepParams` of the interpolated layers. -/
theorem params_settle {ms : List Mapping} (h : ∀ m ∈ ms, RefFreeLayer m) :
    Settles (fun n => (mergeLayers {} ms).bind (renderParamsF n))
      (deepParams (ms.map normLayer)) := by
  obtain ⟨es, a, b, c, d⟩ := mergeLayers_sim [] ms [] h trivial (by simp)
  have a' : mergeLayers {} ms = .ok ⟨es, [], []⟩ := a
  obtain ⟨N, cN⟩ := renderParams_settles b c
  dsimp only at cN
  refine ⟨N, fun n hn => ?_⟩
  dsimp only
  rw [a']
  show renderParamsF n ⟨es, [], []⟩ = _
  rw [cN n hn, d]
  rfl

/-! ## 7. The specification, key by key -/

theorem tlookup_upsert_self (k : Key) (f : Tree → Tree) (d : Tree) (ts : List (Key × Tree)) :
    tlookup k (upsert k f d ts) = some (match tlookup k ts with | some t => f t | none => d) := by
  induction ts with
  | nil => simp [upsert, tlookup]
  | cons e ts ih =>
    obtain ⟨k', t⟩ := e
    by_cases h : k' = k
    · simp [upsert, tlookup, h]
    · simp [upsert, tlookup, h, ih]

theorem tlookup_upsert_ne {k k1 : Key} (hne : k1 ≠ k) (f : Tree → Tree) (d : Tree)
    (ts : List (Key × Tree)) : tlookup k1 (upsert k f d ts) = tlookup k1 ts := by
  induction ts with
  | nil => simp [upsert, tlookup, Ne.symm hne]
  | cons e ts ih =>
    obtain ⟨k', t⟩ := e
    by_cases h : k' = k
    · subst h
      simp [upsert, tlookup, Ne.symm hne]
    · simp only [upsert, h, if_false, tlookup, ih]

theorem upsert_absent {k : Key} (f : Tree → Tree) (d : Tree) {ts : List (Key × Tree)}
    (h : k ∉ tkeys ts) : upsert k f d ts = ts ++ [(k, d)] := by
  induction ts with
  | nil => rfl
  | cons e ts ih =>
    obtain ⟨k', t⟩ := e
    simp only [tkeys, List.map_cons, List.mem_cons, not_or] at h
    have hk : ¬ k' = k := fun e => h.1 e.symm
    simp only [upsert, hk, if_false, List.cons_append, ih h.2]

/-- The member `k` after a layer's entries were merged in: untouched if the layer does not
write `k`; otherwise the layer's value over the old member (or the value itself if new). -/
theorem tlookup_deepEs (cur : List Str) (k : Key) : ∀ (es : List (Key × Value))
    (ts : List (Key × Tree)), (keys es).Nodup →
    tlookup k (deepEs cur ts es) =
      match lookup k es with
      | none => tlookup k ts
      | some v => some (deep (cur ++ [k.display]) ((tlookup k ts).getD (.leaf .null)) v)
  | [], ts, _ => rfl
  | (k', v') :: rest, ts, hnd => by
    simp only [keys, List.map_cons, List.nodup_cons] at hnd
    simp only [deepEs]
    rw [tlookup_deepEs cur k rest _ hnd.2]
    by_cases h : k' = k
    · subst h
      have hl : lookup k' rest = none := lookup_none_iff.2 hnd.1
      simp only [hl, lookup, if_true, tlookup_upsert_self]
      cases tlookup k' ts with
      | none => simp [deep_leaf_null]
      | some t => rfl
    · have h' : k ≠ k' := fun e => h e.symm
      simp only [lookup, h, if_false, tlookup_upsert_ne h']

theorem addKey_eq (ks : List Key) (k : Key) :
    addKey ks k = if k ∈ ks then ks else ks ++ [k] := rfl

theorem tkeys_deepEs (cur : List Str) : ∀ (es : List (Key × Value)) (ts : List (Key × Tree)),
    tkeys (deepEs cur ts es) = (keys es).foldl addKey (tkeys ts)
  | [], ts => rfl
  | (k, v) :: rest, ts => by
    simp only [deepEs, keys, List.map_cons, List.foldl_cons]
    rw [tkeys_deepEs cur rest, tkeys_upsert, addKey_eq]

/-- One more layer value on the stack of a member that may not exist yet. -/
def ostep (cur : List Str) (o : Option Tree) (v : Value) : Option Tree :=
  some (deep cur (o.getD (.leaf .null)) v)

theorem foldl_ostep_some (cur : List Str) : ∀ (vs : List Value) (t : Tree),
    vs.foldl (ostep cur) (some t) = some (vs.foldl (deep cur) t)
  | [], _ => rfl
  | v :: vs, t => by
    simp only [List.foldl_cons, ostep, Option.getD_some]
    exact foldl_ostep_some cur vs _

theorem foldl_ostep_none (cur : List Str) (vs : List Value) :
    vs.foldl (ostep cur) none = if vs = [] then none else some (merged cur vs) := by
  cases vs with
  | nil => rfl
  | cons v vs =>
    simp only [List.foldl_cons, ostep, Option.getD_none, foldl_ostep_some, merged]
    simp

theorem tlookup_foldl_deepEs (cur : List Str) (k : Key) : ∀ (ms : List Mapping)
    (ts : List (Key × Tree)), (∀ m ∈ ms, (keys m.es).Nodup) →
    tlookup k (ms.foldl (fun ts m => deepEs cur ts m.es) ts) =
      (valuesAt k ms).foldl (ostep (cur ++ [k.display])) (tlookup k ts)
  | [], ts, _ => rfl
  | m :: ms, ts, h => by
    simp only [List.foldl_cons]
    rw [tlookup_foldl_deepEs cur k ms _ (fun m' hm' => h m' (List.mem_cons_of_mem _ hm')),
      tlookup_deepEs cur k m.es ts (h m (by simp))]
    simp only [valuesAt]
    cases lookup k m.es with
    | none => rfl
    | some v => rfl

/-- **The stack of a key.**  After merging the layers `ms`, the member `k` is the merge of the
values the layers write to `k`, in layer order — and there is no such member iff no layer
writes `k`. -/
theorem tlookup_mergedEs (cur : List Str) (k : Key) {ms : List Mapping}
    (h : ∀ m ∈ ms, (keys m.es).Nodup) :
    tlookup k (mergedEs cur ms) =
      if valuesAt k ms = [] then none else some (merged (cur ++ [k.display]) (valuesAt k ms)) := by
  unfold mergedEs
  rw [tlookup_foldl_deepEs cur k ms [] h]
  exact foldl_ostep_none _ _

theorem tkeys_foldl_deepEs (cur : List Str) : ∀ (ms : List Mapping) (ts : List (Key × Tree)),
    tkeys (ms.foldl (fun ts m => deepEs cur ts m.es) ts) =
      ms.foldl (fun ks m => (keys m.es).foldl addKey ks) (tkeys ts)
  | [], _ => rfl
  | m :: ms, ts => by
    simp only [List.foldl_cons]
    rw [tkeys_foldl_deepEs cur ms, tkeys_deepEs]

/-- The members appear in the order in which the layers first mention them. -/
theorem tkeys_mergedEs (cur : List Str) (ms : List Mapping) :
    tkeys (mergedEs cur ms) = keyOrder ms := tkeys_foldl_deepEs cur ms []

/-- If all members resolve, `lookup` in the result is `resolve` of the member. -/
theorem resolveEs_lookup (k : Key) : ∀ {ts : List (Key × Tree)} {es : List (Key × Value)},
    resolveEs ts = .ok es →
    lookup k es = match tlookup k ts with
      | none => none
      | some t => (match resolve t with | .ok v => some v | .error _ => none)
  | [], es, h => by
    simp only [resolveEs, Except.ok.injEq] at h; subst h; rfl
  | (k', t) :: ts, es, h => by
    simp only [resolveEs] at h
    cases h1 : resolve t with
    | error e => simp [h1] at h
    | ok v =>
      simp only [h1] at h
      cases h2 : resolveEs ts with
      | error e => simp [h2] at h
      | ok es' =>
        simp only [h2, Except.ok.injEq] at h; subst h
        by_cases hk : k' = k
        · simp [lookup, tlookup, hk, h1]
        · simp only [lookup, tlookup, hk, if_false]
          exact resolveEs_lookup k h2

/-- If the members do not all resolve, the error is that of some member (the first one). -/
theorem resolveEs_error_mem : ∀ {ts : List (Key × Tree)} {e : Err}, resolveEs ts = .error e →
    ∃ k t, (k, t) ∈ ts ∧ resolve t = .error e
  | [], e, h => by simp [resolveEs] at h
  | (k', t) :: ts, e, h => by
    simp only [resolveEs] at h
    cases h1 : resolve t with
    | error e' =>
      simp only [h1, Except.error.injEq] at h; subst h
      exact ⟨k', t, List.mem_cons_self, h1⟩
    | ok v =>
      simp only [h1] at h
      cases h2 : resolveEs ts with
      | error e' =>
        simp only [h2, Except.error.injEq] at h; subst h
        obtain ⟨k, t', hm, hr⟩ := resolveEs_error_mem h2
        exact ⟨k, t', List.mem_cons_of_mem _ hm, hr⟩
      | ok es => simp [h2] at h

/-- All members resolve iff `resolveEs` succeeds. -/
theorem resolveEs_ok_iff : ∀ {ts : List (Key × Tree)},
    (∃ es, resolveEs ts = .ok es) ↔ ∀ k t, (k, t) ∈ ts → ∃ v, resolve t = .ok v
  | [] => by simp [resolveEs]
  | (k', t) :: ts => by
    constructor
    · rintro ⟨es, h⟩ k t' hm
      simp only [resolveEs] at h
      cases h1 : resolve t with
      | error e => simp [h1] at h
      | ok v =>
        simp only [h1] at h
        cases h2 : resolveEs ts with
        | error e => simp [h2] at h
        | ok es' =>
          rcases List.mem_cons.1 hm with heq | hm'
          · simp only [Prod.mk.injEq] at heq; obtain ⟨rfl, rfl⟩ := heq; exact ⟨v, h1⟩
          · exact (resolveEs_ok_iff.1 ⟨es', h2⟩) k t' hm'
    · intro h
      obtain ⟨v, h1⟩ := h k' t List.mem_cons_self
      obtain ⟨es', h2⟩ := (resolveEs_ok_iff (ts := ts)).2
        (fun k t' hm => h k t' (List.mem_cons_of_mem _ hm))
      exact ⟨(k', v) :: es', by simp only [resolveEs, h1, h2]⟩

theorem tlookup_of_mem_nodup {k : Key} {t : Tree} {ts : List (Key × Tree)}
    (hn : (tkeys ts).Nodup) (h : (k, t) ∈ ts) : tlookup k ts = some t := by
  induction ts with
  | nil => simp at h
  | cons e ts ih =>
    obtain ⟨k', t'⟩ := e
    simp only [tkeys, List.map_cons, List.nodup_cons] at hn
    rcases List.mem_cons.1 h with heq | hmem
    · simp only [Prod.mk.injEq] at heq; obtain ⟨rfl, rfl⟩ := heq; simp [tlookup]
    · have hne : k' ≠ k := by
        intro e; subst e
        exact hn.1 (List.mem_map.2 ⟨(k', t), hmem, rfl⟩)
      simp only [tlookup, hne, if_false]
      exact ih hn.2 hmem

theorem tlookup_mem {k : Key} {t : Tree} {ts : List (Key × Tree)} (h : tlookup k ts = some t) :
    (k, t) ∈ ts := by
  induction ts with
  | nil => simp [tlookup] at h
  | cons e ts ih =>
    obtain ⟨k', t'⟩ := e
    simp only [tlookup] at h
    by_cases hk : k' = k
    · simp only [hk, if_true, Option.some.injEq] at h; subst h; subst hk; exact List.mem_cons_self
    · simp only [hk, if_false] at h; exact List.mem_cons_of_mem _ (ih h)

/-! ## 8. The binary reading, and mappings over mappings -/

theorem merged_snoc (cur : List Str) (vs : List Value) (v : Value) :
    merged cur (vs ++ [v]) = deep cur (merged cur vs) v := by
  simp [merged, List.foldl_append]

theorem merged_append (cur : List Str) (vs ws : List Value) :
    merged cur (vs ++ ws) = ws.foldl (deep cur) (merged cur vs) := by
  simp [merged, List.foldl_append]

/-- As long as the stack so far merges without conflict, one more layer is `merge2`. -/
theorem deepAll_snoc (cur : List Str) {vs : List Value} (h : PlainL vs) {a : Value}
    (ha : deepAll cur vs = .ok a) (v : Value) :
    deepAll cur (vs ++ [v]) = merge2 cur a v := by
  unfold deepAll merge2
  rw [merged_snoc, ofValue_resolve _ _ (merged_ptree' cur h) ha]

theorem tkeys_ofValueEs : ∀ (es : List (Key × Value)), tkeys (ofValueEs es) = keys es
  | [] => rfl
  | (k, v) :: es => by
    have := tkeys_ofValueEs es
    simp only [tkeys, keys, ofValueEs, List.map_cons] at this ⊢
    rw [this]

theorem ofValueEs_append : ∀ (a b : List (Key × Value)),
    ofValueEs (a ++ b) = ofValueEs a ++ ofValueEs b
  | [], _ => rfl
  | (k, v) :: a, b => by simp only [List.cons_append, ofValueEs, ofValueEs_append a b]

theorem deepEs_ofValueEs (cur : List Str) : ∀ (es a : List (Key × Value)),
    (keys (a ++ es)).Nodup → deepEs cur (ofValueEs a) es = ofValueEs (a ++ es)
  | [], a, _ => by simp [deepEs]
  | (k, v) :: es, a, h => by
    have hk : k ∉ tkeys (ofValueEs a) := by
      rw [tkeys_ofValueEs]
      intro hk
      simp only [keys, List.map_append, List.map_cons] at h
      rw [List.nodup_append] at h
      exact h.2.2 k hk k (by simp) rfl
    simp only [deepEs]
    rw [upsert_absent _ _ hk]
    have : ofValueEs a ++ [(k, ofValue v)] = ofValueEs (a ++ [(k, v)]) := by
      rw [ofValueEs_append]; rfl
    rw [this, deepEs_ofValueEs cur es (a ++ [(k, v)]) (by simpa using h)]
    simp

theorem foldl_deep_node (cur : List Str) : ∀ (ms : List Mapping) (ts : List (Key × Tree)),
    (ms.map Mapping.toValue).foldl (deep cur) (.node ts) =
      .node (ms.foldl (fun ts m => deepEs cur ts m.es) ts)
  | [], _ => rfl
  | m :: ms, ts => by
    simp only [List.map_cons, List.foldl_cons, Mapping.toValue, deep]
    exact foldl_deep_node cur ms _

/-- **Mappings over mappings.**  A non-empty stack of mappings merges member by member. -/
theorem merged_maps (cur : List Str) {m : Mapping} {ms : List Mapping}
    (h : (keys m.es).Nodup) :
    merged cur ((m :: ms).map Mapping.toValue) = .node (mergedEs cur (m :: ms)) := by
  have h0 : deepEs cur [] m.es = ofValueEs m.es := by
    have := deepEs_ofValueEs cur m.es [] (by simpa using h)
    simpa [ofValueEs] using this
  simp only [merged, mergedEs, List.map_cons, List.foldl_cons, deep_leaf_null]
  rw [h0]
  simp only [Mapping.toValue, ofValue]
  exact foldl_deep_node cur ms _

/-! ## 9. Every reported conflict names a parameter at or below the merged one -/

mutual
/-- Every poisoned parameter inside the tree of the parameter at `cur` carries a conflict error
whose path is the path of that very position. -/
def BadBelow : List Str → Tree → Prop
  | _, .leaf _ => True
  | cur, .bad e => ConflictBelow cur e
  | cur, .node ts => BadBelowEs cur ts
def BadBelowEs : List Str → List (Key × Tree) → Prop
  | _, [] => True
  | cur, (k, t) :: ts => BadBelow (cur ++ [k.display]) t ∧ BadBelowEs cur ts
end

theorem conflictBelow_conflict (cur : List Str) (v : Value) (onto : Str) :
    ConflictBelow cur (conflict cur v onto) :=
  ⟨[], v.kind, onto, by simp only [conflict, List.append_nil]⟩

theorem ConflictBelow.up {cur : List Str} {x : Str} {e : Err} (h : ConflictBelow (cur ++ [x]) e) :
    ConflictBelow cur e := by
  obtain ⟨ks, o, t, rfl⟩ := h
  exact ⟨x :: ks, o, t, by simp⟩

theorem ConflictBelow.isConflict {cur : List Str} {e : Err} (h : ConflictBelow cur e) :
    IsConflict e := by
  obtain ⟨ks, o, t, rfl⟩ := h
  exact ⟨_, _, _, rfl⟩

mutual
theorem ofValue_bb : ∀ (v : Value) (cur : List Str), BadBelow cur (ofValue v)
  | .map es ck ok, cur => by simp only [ofValue, BadBelow]; exact ofValueEs_bb es cur
  | .null, _ => trivial
  | .bool _, _ => trivial
  | .num _, _ => trivial
  | .str _, _ => trivial
  | .lit _, _ => trivial
  | .seq _, _ => trivial
  | .vl _, _ => trivial
theorem ofValueEs_bb : ∀ (es : List (Key × Value)) (cur : List Str), BadBelowEs cur (ofValueEs es)
  | [], _ => trivial
  | (_, v) :: es, cur => ⟨ofValue_bb v _, ofValueEs_bb es cur⟩
end

theorem upsert_bb {cur : List Str} {k : Key} {f : Tree → Tree} {d : Tree} {ts : List (Key × Tree)}
    (hf : ∀ t, BadBelow (cur ++ [k.display]) t → BadBelow (cur ++ [k.display]) (f t))
    (hd : BadBelow (cur ++ [k.display]) d) (h : BadBelowEs cur ts) :
    BadBelowEs cur (upsert k f d ts) := by
  induction ts with
  | nil => exact ⟨hd, trivial⟩
  | cons e ts ih =>
    obtain ⟨k', t⟩ := e
    simp only [BadBelowEs] at h
    simp only [upsert]
    by_cases hk : k' = k
    · subst hk
      simp only [if_true, BadBelowEs]
      exact ⟨hf t h.1, h.2⟩
    · simp only [hk, if_false, BadBelowEs]
      exact ⟨h.1, ih h.2⟩

theorem mergeLeaf_bb (cur : List Str) (a v : Value) : BadBelow cur (mergeLeaf cur a v) := by
  unfold mergeLeaf
  split
  · exact ofValue_bb v cur
  · split
    · trivial
    · exact conflictBelow_conflict _ _ _
  · split
    · exact conflictBelow_conflict _ _ _
    · trivial

mutual
theorem deep_bb : ∀ (v : Value) (cur : List Str) (t : Tree), BadBelow cur t →
    BadBelow cur (deep cur t v)
  | .null, cur, t, ht => by cases t <;> first | exact ht | trivial
  | .map es ck ok, cur, t, ht => by
    cases t with
    | bad e => exact ht
    | leaf a => exact mergeLeaf_bb cur a _
    | node ts => simp only [deep, BadBelow]; exact deepEs_bb es cur ts ht
  | .bool b, cur, t, ht => by
    cases t with
    | bad e => exact ht
    | leaf a => exact mergeLeaf_bb cur a _
    | node ts => exact conflictBelow_conflict _ _ _
  | .num b, cur, t, ht => by
    cases t with
    | bad e => exact ht
    | leaf a => exact mergeLeaf_bb cur a _
    | node ts => exact conflictBelow_conflict _ _ _
  | .str b, cur, t, ht => by
    cases t with
    | bad e => exact ht
    | leaf a => exact mergeLeaf_bb cur a _
    | node ts => exact conflictBelow_conflict _ _ _
  | .lit b, cur, t, ht => by
    cases t with
    | bad e => exact ht
    | leaf a => exact mergeLeaf_bb cur a _
    | node ts => exact conflictBelow_conflict _ _ _
  | .seq b, cur, t, ht => by
    cases t with
    | bad e => exact ht
    | leaf a => exact mergeLeaf_bb cur a _
    | node ts => exact conflictBelow_conflict _ _ _
  | .vl b, cur, t, ht => by
    cases t with
    | bad e => exact ht
    | leaf a => exact mergeLeaf_bb cur a _
    | node ts => exact conflictBelow_conflict _ _ _
theorem deepEs_bb : ∀ (es : List (Key × Value)) (cur : List Str) (ts : List (Key × Tree)),
    BadBelowEs cur ts → BadBelowEs cur (deepEs cur ts es)
  | [], _, _, h => h
  | (k, v) :: es, cur, ts, h => by
    simp only [deepEs]
    exact deepEs_bb es cur _
      (upsert_bb (fun t ht => deep_bb v (cur ++ [k.display]) t ht) (ofValue_bb v _) h)
end

theorem foldl_deep_bb (cur : List Str) : ∀ (vs : List Value) (t : Tree), BadBelow cur t →
    BadBelow cur (vs.foldl (deep cur) t)
  | [], _, h => h
  | v :: vs, t, h => foldl_deep_bb cur vs _ (deep_bb v cur t h)

theorem merged_bb (cur : List Str) (vs : List Value) : BadBelow cur (merged cur vs) :=
  foldl_deep_bb cur vs _ trivial

theorem mergedEs_bb (cur : List Str) (ms : List Mapping) : BadBelowEs cur (mergedEs cur ms) := by
  unfold mergedEs
  suffices h : ∀ (ms : List Mapping) (ts : List (Key × Tree)), BadBelowEs cur ts →
      BadBelowEs cur (ms.foldl (fun ts m => deepEs cur ts m.es) ts) from h ms [] trivial
  intro ms
  induction ms with
  | nil => intro ts h; exact h
  | cons m ms ih => intro ts h; exact ih _ (deepEs_bb m.es cur ts h)

mutual
theorem resolve_bb : ∀ (t : Tree) (cur : List Str) (e : Err), BadBelow cur t →
    resolve t = .error e → ConflictBelow cur e
  | .leaf a, _, e, _, h => by simp [resolve] at h
  | .bad e', _, e, ht, h => by
    simp only [resolve, Except.error.injEq] at h; subst h; exact ht
  | .node ts, cur, e, ht, h => by
    simp only [resolve] at h
    cases h1 : resolveEs ts with
    | error e' =>
      simp only [h1, Except.error.injEq] at h; subst h
      exact resolveEs_bb ts cur e' ht h1
    | ok es => simp [h1] at h
theorem resolveEs_bb : ∀ (ts : List (Key × Tree)) (cur : List Str) (e : Err), BadBelowEs cur ts →
    resolveEs ts = .error e → ConflictBelow cur e
  | [], _, e, _, h => by simp [resolveEs] at h
  | (k, t) :: ts, cur, e, ht, h => by
    simp only [resolveEs] at h
    simp only [BadBelowEs] at ht
    cases h1 : resolve t with
    | error e' =>
      simp only [h1, Except.error.injEq] at h; subst h
      exact (resolve_bb t _ e' ht.1 h1).up
    | ok v =>
      simp only [h1] at h
      cases h2 : resolveEs ts with
      | error e' =>
        simp only [h2, Except.error.injEq] at h; subst h
        exact resolveEs_bb ts cur e' ht.2 h2
      | ok es => simp [h2] at h
end

/-- Whatever the layers are: an error of `deepAll` is a merge conflict at `cur` or below. -/
theorem deepAll_error_below (cur : List Str) (vs : List Value) {e : Err}
    (h : deepAll cur vs = .error e) : ConflictBelow cur e :=
  resolve_bb _ cur e (merged_bb cur vs) h

theorem deepParams_error_below (ms : List Mapping) {e : Err} (h : deepParams ms = .error e) :
    ConflictBelow [] e := by
  unfold deepParams at h
  cases h1 : resolveEs (mergedParams ms) with
  | error e' =>
    simp only [h1, Except.error.injEq] at h; subst h
    exact resolveEs_bb _ [] e' (mergedEs_bb [] ms) h1
  | ok es => simp [h1] at h

/-! ## 10. `deepParams` key by key; finished runs -/

theorem resolveEs_keys : ∀ {ts : List (Key × Tree)} {es : List (Key × Value)},
    resolveEs ts = .ok es → keys es = tkeys ts
  | [], es, h => by simp only [resolveEs, Except.ok.injEq] at h; subst h; rfl
  | (k, t) :: ts, es, h => by
    simp only [resolveEs] at h
    cases h1 : resolve t with
    | error e => simp [h1] at h
    | ok v =>
      simp only [h1] at h
      cases h2 : resolveEs ts with
      | error e => simp [h2] at h
      | ok es' =>
        simp only [h2, Except.ok.injEq] at h; subst h
        have := resolveEs_keys h2
        simp only [keys, tkeys, List.map_cons] at this ⊢
        rw [this]

theorem tkeys_deepEs_nodup (cur : List Str) : ∀ (es : List (Key × Value)) (ts : List (Key × Tree)),
    (tkeys ts).Nodup → (tkeys (deepEs cur ts es)).Nodup
  | [], _, h => h
  | (k, v) :: es, ts, h => by
    simp only [deepEs]
    exact tkeys_deepEs_nodup cur es _ (tkeys_upsert_nodup h)

theorem tkeys_mergedEs_nodup (cur : List Str) (ms : List Mapping) :
    (tkeys (mergedEs cur ms)).Nodup := by
  unfold mergedEs
  suffices h : ∀ (ms : List Mapping) (ts : List (Key × Tree)), (tkeys ts).Nodup →
      (tkeys (ms.foldl (fun ts m => deepEs cur ts m.es) ts)).Nodup from h ms [] (by simp)
  intro ms
  induction ms with
  | nil => intro ts h; exact h
  | cons m ms ih => intro ts h; exact ih _ (tkeys_deepEs_nodup cur m.es ts h)

/-- The members of `mergedEs` are exactly the non-empty stacks. -/
theorem mem_mergedEs_iff (cur : List Str) {ms : List Mapping} (h : ∀ m ∈ ms, (keys m.es).Nodup)
    (k : Key) (t : Tree) :
    (k, t) ∈ mergedEs cur ms ↔
      valuesAt k ms ≠ [] ∧ t = merged (cur ++ [k.display]) (valuesAt k ms) := by
  constructor
  · intro hm
    have := tlookup_of_mem_nodup (tkeys_mergedEs_nodup cur ms) hm
    rw [tlookup_mergedEs cur k h] at this
    by_cases hv : valuesAt k ms = []
    · simp [hv] at this
    · simp only [hv, if_false, Option.some.injEq] at this
      exact ⟨hv, this.symm⟩
  · rintro ⟨hv, rfl⟩
    apply tlookup_mem
    rw [tlookup_mergedEs cur k h]
    simp [hv]

/-- **`deepParams`, key by key.** -/
theorem deepParams_by_key {ms : List Mapping} (h : ∀ m ∈ ms, (keys m.es).Nodup) :
    (∀ out, deepParams ms = .ok out →
      keys out.es = keyOrder ms ∧ out.ck = [] ∧ out.ok = [] ∧
      ∀ k, (valuesAt k ms = [] → lookup k out.es = none) ∧
        (valuesAt k ms ≠ [] →
          ∃ r, deepAll [k.display] (valuesAt k ms) = .ok r ∧ lookup k out.es = some r)) ∧
    (∀ e, deepParams ms = .error e →
      ∃ k, valuesAt k ms ≠ [] ∧ deepAll [k.display] (valuesAt k ms) = .error e) ∧
    ((∀ k, valuesAt k ms ≠ [] → ∃ r, deepAll [k.display] (valuesAt k ms) = .ok r) →
      ∃ out, deepParams ms = .ok out) := by
  refine ⟨?_, ?_, ?_⟩
  · intro out ho
    unfold deepParams at ho
    cases h1 : resolveEs (mergedParams ms) with
    | error e => simp [h1] at ho
    | ok es =>
      simp only [h1, Except.ok.injEq] at ho; subst ho
      refine ⟨by rw [resolveEs_keys h1]; exact tkeys_mergedEs [] ms, rfl, rfl, ?_⟩
      intro k
      have hl := resolveEs_lookup k h1
      have ht : tlookup k (mergedParams ms) = _ := tlookup_mergedEs [] k h
      rw [ht] at hl
      constructor
      · intro hv; simpa [hv] using hl
      · intro hv
        simp only [hv, if_false, List.nil_append] at hl
        have hmem : (k, merged [k.display] (valuesAt k ms)) ∈ mergedEs [] ms :=
          (mem_mergedEs_iff [] h k _).2 ⟨hv, rfl⟩
        obtain ⟨r, hr⟩ := (resolveEs_ok_iff.1 ⟨es, h1⟩) k _ hmem
        exact ⟨r, hr, by simpa [hr] using hl⟩
  · intro e he
    unfold deepParams at he
    cases h1 : resolveEs (mergedParams ms) with
    | ok es => simp [h1] at he
    | error e' =>
      simp only [h1, Except.error.injEq] at he; subst he
      obtain ⟨k, t, hm, hr⟩ := resolveEs_error_mem h1
      obtain ⟨hv, rfl⟩ := (mem_mergedEs_iff [] h k t).1 hm
      exact ⟨k, hv, hr⟩
  · intro hall
    have : ∃ es, resolveEs (mergedParams ms) = .ok es := by
      apply resolveEs_ok_iff.2
      intro k t hm
      obtain ⟨hv, rfl⟩ := (mem_mergedEs_iff [] h k t).1 hm
      exact hall k hv
    obtain ⟨es, hes⟩ := this
    exact ⟨⟨es, [], []⟩, by simp only [deepParams, hes]⟩

theorem tlookup_ofValueEs (k : Key) : ∀ (es : List (Key × Value)),
    tlookup k (ofValueEs es) = (lookup k es).map ofValue
  | [] => rfl
  | (k', v) :: es => by
    by_cases h : k' = k
    · simp [ofValueEs, tlookup, lookup, h]
    · simp [ofValueEs, tlookup, lookup, h, tlookup_ofValueEs k es]

theorem plainEs_lookup {es : List (Key × Value)} {k : Key} {v : Value} (h : PlainEs es)
    (hl : lookup k es = some v) : Plain v := by
  induction es with
  | nil => simp at hl
  | cons e es ih =>
    obtain ⟨k', v'⟩ := e
    simp only [PlainEs] at h
    simp only [lookup] at hl
    by_cases hk : k' = k
    · simp only [hk, if_true, Option.some.injEq] at hl; subst hl; exact h.2.1
    · simp only [hk, if_false] at hl; exact ih h.2.2 hl

/-- A settled computation that is monotone in the fuel has its settled value at every amount
of fuel at which it finishes. -/
theorem settles_finished {α : Type} {f : Nat → R α} {r : R α} (hs : Settles f r)
    (mono : ∀ n m, n ≤ m → f n ≠ .error .fuel → f m = f n) {n : Nat}
    (hn : f n ≠ .error .fuel) : f n = r := by
  obtain ⟨N, c⟩ := hs
  have h1 := mono n (max n N) (Nat.le_max_left _ _) hn
  rw [← h1]
  exact c _ (Nat.le_max_right _ _)

theorem bind_renderParams_mono (x : R Mapping) (n m : Nat) (hle : n ≤ m)
    (h : x.bind (renderParamsF n) ≠ .error .fuel) :
    x.bind (renderParamsF m) = x.bind (renderParamsF n) := by
  cases x with
  | error e => rfl
  | ok mp => exact renderParamsF_fuel_mono_le hle mp rfl h

theorem lookup_normEs (k : Key) : ∀ (es : List (Key × Value)),
    lookup k (normEs es) = (lookup k es).map norm
  | [] => rfl
  | (k', v) :: es => by
    by_cases h : k' = k
    · simp [normEs, lookup, h]
    · simp [normEs, lookup, h, lookup_normEs k es]

/-- The stack of a key in the interpolated layers is the interpolated stack. -/
theorem valuesAt_norm (k : Key) : ∀ (ms : List Mapping),
    valuesAt k (ms.map normLayer) = normL (valuesAt k ms)
  | [] => rfl
  | m :: ms => by
    simp only [List.map_cons, valuesAt, normLayer, lookup_normEs]
    cases lookup k m.es with
    | none => simpa using valuesAt_norm k ms
    | some v => simp [normL, valuesAt_norm k ms]

theorem keyOrder_norm (ms : List Mapping) : keyOrder (ms.map normLayer) = keyOrder ms := by
  unfold keyOrder
  suffices h : ∀ (ms : List Mapping) (ks : List Key),
      (ms.map normLayer).foldl (fun ks m => (keys m.es).foldl addKey ks) ks =
        ms.foldl (fun ks m => (keys m.es).foldl addKey ks) ks from h ms []
  intro ms
  induction ms with
  | nil => intro ks; rfl
  | cons m ms ih =>
    intro ks
    simp only [List.map_cons, List.foldl_cons, normLayer, keys_normEs]
    exact ih _

theorem lift_eq (st : RState) (x : Except Err Value) :
    lift st x = match x with
      | .ok r => .ok (r, st)
      | .error e => .error e := by
  cases x <;> rfl

/-! ## 11. Override keys of a layer (top level) -/

/-- `Mapping::insert_impl` of a reference-free value under a clean key with `force_override`
`fo`, into a mapping without constant keys. -/
theorem insert_simO (cur : List Str) {es : List (Key × Value)} (okb : List Key) {k : Key}
    {v : Value} (fo : Bool) (hk : CleanKey k) (hes : SemiEs es) (hv : RefFree v) :
    ∃ es' ok', (⟨es, [], okb⟩ : Mapping).insertImpl k v false fo = .ok ⟨es', [], ok'⟩ ∧
      SemiEs es' ∧
      absEs cur es' =
        upsert k (fun t => if fo = true then ofValue (norm v)
                           else deep (cur ++ [k.display]) t (norm v))
          (ofValue (norm v)) (absEs cur es) := by
  have h1 : k.stripPrefix.1 = k := by rw [show k.stripPrefix = (k, none) from hk]
  have h2 : k.stripPrefix.2 = none := by rw [show k.stripPrefix = (k, none) from hk]
  cases hl : lookup k es with
  | none =>
    refine ⟨es ++ [(k, v)], if fo then setInsert k okb else okb, ?_, ?_, ?_⟩
    · rw [insertImpl_absent v false fo (by rw [h1]; exact hl)]
      simp [h1, h2]
    · exact semiEs_append.2 ⟨hes, hk, Or.inl hv, trivial⟩
    · rw [upsert_absEs_absent cur _ _ hl, absEs_append]
      simp only [absEs, stackTree_refFree _ hv]
  | some old =>
    cases fo with
    | true =>
      refine ⟨replaceVal k v es, okb, ?_, ?_, ?_⟩
      · rw [insertImpl_present v false true (by rw [h1]; exact hl) (by simp)]
        simp [h1, h2]
      · exact semiEs_replaceVal hes (Or.inl hv)
      · exact (upsert_absEs_present cur _ _ hl (by simp [stackTree_refFree _ hv])).symm
    | false =>
      refine ⟨replaceVal k (combine old v) es, okb, ?_, ?_, ?_⟩
      · rw [insertImpl_present v false false (by rw [h1]; exact hl) (by simp)]
        simp [h1, h2]
      · exact semiEs_replaceVal hes (semiV_combine (semiEs_lookup hes hl) hv)
      · exact (upsert_absEs_present cur _ _ hl (by simp [stackTree_combine _ hv])).symm

/-- The entry loop of `Mapping::merge` for a layer with override keys `ook` is `deepEsO`. -/
theorem mergeEntries_simO (cur : List Str) (ook : List Key) : ∀ (es' es : List (Key × Value))
    (okb : List Key), RefFreeEs es' → SemiEs es →
    ∃ es'' ok'', (⟨es, [], okb⟩ : Mapping).mergeEntries [] ook es' = .ok ⟨es'', [], ok''⟩ ∧
      SemiEs es'' ∧ absEs cur es'' = deepEsO cur ook (absEs cur es) (normEs es')
  | [], es, okb, _, hes => ⟨es, okb, rfl, hes, rfl⟩
  | (k, v) :: rest, es, okb, h, hes => by
    simp only [RefFreeEs] at h
    obtain ⟨es1, ok1, a1, b1, c1⟩ := insert_simO cur okb (decide (k ∈ ook)) h.1 hes h.2.1
    obtain ⟨es2, ok2, a2, b2, c2⟩ := mergeEntries_simO cur ook rest es1 ok1 h.2.2 b1
    refine ⟨es2, ok2, ?_, b2, ?_⟩
    · rw [mergeEntries_cons]
      simp only [List.not_mem_nil, decide_false, a1, a2]
    · rw [c2, c1]
      simp only [decide_eq_true_eq, normEs, deepEsO]

theorem overrideLayer_of_refFree {m : Mapping} (h : RefFreeLayer m) : OverrideLayer m :=
  ⟨h.1, h.2.1, h.2.2.1⟩

/-- Merging layers with override keys never fails either, and abstracts to the fold of
`deepEsO` over the interpolated layers. -/
theorem mergeLayers_simO (cur : List Str) : ∀ (ms : List Mapping) (es : List (Key × Value))
    (okb : List Key), (∀ m ∈ ms, OverrideLayer m) → SemiEs es → (keys es).Nodup →
    ∃ es' ok', mergeLayers ⟨es, [], okb⟩ ms = .ok ⟨es', [], ok'⟩ ∧ SemiEs es' ∧ (keys es').Nodup ∧
      absEs cur es' =
        (ms.map normLayer).foldl (fun ts m => deepEsO cur m.ok ts m.es) (absEs cur es)
  | [], es, okb, _, hes, hnd => ⟨es, okb, rfl, hes, hnd, rfl⟩
  | m :: ms, es, okb, h, hes, hnd => by
    obtain ⟨hp, _, hck⟩ := h m (by simp)
    obtain ⟨es1, ok1, a1, b1, c1⟩ := mergeEntries_simO cur m.ok m.es es okb hp hes
    have hm : Mapping.merge ⟨es, [], okb⟩ m = .ok ⟨es1, [], ok1⟩ := by
      rw [merge_eq, hck]; exact a1
    have hnd1 : (keys es1).Nodup := merge_keys_nodup (m := ⟨es, [], okb⟩) hnd hm
    obtain ⟨es2, ok2, a2, b2, n2, c2⟩ := mergeLayers_simO cur ms es1 ok1
      (fun m' hm' => h m' (List.mem_cons_of_mem _ hm')) b1 hnd1
    refine ⟨es2, ok2, ?_, b2, n2, ?_⟩
    · simp only [mergeLayers, hm, a2]
    · rw [c2, c1]; rfl

/-- Outcome of an entry loop, up to the override flags of the result. -/
def EsOutcome (x : R Mapping) (accEs : List (Key × Value)) :
    Except Err (List (Key × Value)) → Prop
  | .error e => x = .error e
  | .ok es' => ∃ m, x = .ok m ∧ m.es = accEs ++ es' ∧ m.ck = []

/-- `Mapping::interpolate` on an accumulated mapping with override flags `okl`. -/
theorem interpEs_settleO (root : Mapping) (st : RState) (okl : List Key) :
    ∀ (es : List (Key × Value)) (acc : Mapping), acc.ck = [] → SemiEs es →
    (keys acc.es ++ keys es).Nodup →
    ∃ N, ∀ n, N ≤ n →
      EsOutcome (interpEs n root es [] okl st acc) acc.es (resolveEs (absEs st.cur es))
  | [], acc, hck, _, _ => ⟨1, fun n hn => by
      obtain ⟨m, rfl⟩ : ∃ m, n = m + 1 := ⟨n - 1, by omega⟩
      exact ⟨acc, rfl, by simp, hck⟩⟩
  | (k, v) :: rest, acc, hck, hes, hnd => by
    simp only [SemiEs] at hes
    have hmem : Settles (fun n => interp n root v (st.pushMappingKey k))
        (lift (st.pushMappingKey k) (resolve (stackTree (st.cur ++ [k.display]) v))) := by
      rcases hes.2.1 with hP | ⟨l, rfl, hl⟩
      · exact settle_refFree root hP _ _
      · exact vl_settles root hl (st.pushMappingKey k)
    obtain ⟨N1, c1⟩ := hmem
    dsimp only at c1
    have hstep := nodup_keys_step (by simpa [keys] using hnd : (keys acc.es ++ k :: keys rest).Nodup)
    have hpt := stackTree_ptree (st.cur ++ [k.display]) hes.2.1
    cases hr : resolve (stackTree (st.cur ++ [k.display]) v) with
    | error e =>
      refine ⟨N1 + 1, fun n hn => ?_⟩
      obtain ⟨m, rfl⟩ : ∃ m, n = m + 1 := ⟨n - 1, by omega⟩
      simp only [absEs, resolveEs, hr, EsOutcome]
      rw [interpEs_cons, c1 m (by omega), hr]
      rfl
    | ok w =>
      have hw : Plain w := resolve_plain _ _ hpt hr
      have hins := insertImpl_fresh_eq acc w false (decide (k ∈ okl)) hes.1 hstep.1
      obtain ⟨N2, c2⟩ := interpEs_settleO root st okl rest
        ⟨acc.es ++ [(k, w)], if false = true then setInsert k acc.ck else acc.ck,
          if decide (k ∈ okl) = true then setInsert k acc.ok else acc.ok⟩
        (by simpa using hck) hes.2.2 (by simpa [keys] using hstep.2)
      refine ⟨N1 + N2 + 1, fun n hn => ?_⟩
      obtain ⟨m, rfl⟩ : ∃ m, n = m + 1 := ⟨n - 1, by omega⟩
      have h2 := c2 m (by omega)
      have hstepEq : interpEs (m + 1) root ((k, v) :: rest) [] okl st acc =
          interpEs m root rest [] okl st
            ⟨acc.es ++ [(k, w)], if false = true then setInsert k acc.ck else acc.ck,
              if decide (k ∈ okl) = true then setInsert k acc.ok else acc.ok⟩ := by
        rw [interpEs_cons, c1 m (by omega), hr]
        simp only [lift, flat_plain hw, List.not_mem_nil, decide_false, hins]
      rw [hstepEq]
      simp only [absEs, resolveEs, hr]
      cases hrr : resolveEs (absEs st.cur rest) with
      | error e => rw [hrr] at h2; exact h2
      | ok es'' =>
        rw [hrr] at h2
        obtain ⟨mm, e1, e2, e3⟩ := h2
        exact ⟨mm, e1, by simp [e2], e3⟩

/-- `Mapping::flattened` on plain entries (any flags) keeps the entries. -/
theorem flatEs_plainEs (ck ok : List Key) (st : RState) : ∀ (es : List (Key × Value))
    (acc : Mapping), PlainEs es → (keys acc.es ++ keys es).Nodup →
    ∃ ck' ok', flatEs es ck ok st acc = .ok ⟨acc.es ++ es, ck', ok'⟩
  | [], acc, _, _ => ⟨acc.ck, acc.ok, by simp [flatEs]⟩
  | (k, v) :: rest, acc, h, hnd => by
    simp only [PlainEs] at h
    have hstep := nodup_keys_step (by simpa [keys] using hnd : (keys acc.es ++ k :: keys rest).Nodup)
    obtain ⟨ck1, ok1, h1⟩ := insertImpl_fresh acc v (decide (k ∈ ck)) (decide (k ∈ ok)) h.1 hstep.1
    obtain ⟨ck2, ok2, h2⟩ := flatEs_plainEs ck ok st rest ⟨acc.es ++ [(k, v)], ck1, ok1⟩ h.2.2
      (by simpa [keys] using hstep.2)
    refine ⟨ck2, ok2, ?_⟩
    simp only [flatEs, flat_plain h.2.1, h1, h2]
    simp

/-- Rendering an accumulated parameter mapping with override flags: the entries. -/
theorem renderParams_settlesO {es : List (Key × Value)} (okl : List Key) (hes : SemiEs es)
    (hnd : (keys es).Nodup) :
    ∃ N, ∀ n, N ≤ n →
      (renderParamsF n ⟨es, [], okl⟩).map Mapping.es = resolveEs (absEs [] es) := by
  obtain ⟨N, c⟩ := interpEs_settleO ⟨es, [], okl⟩ {} okl es {} rfl hes (by simpa using hnd)
  refine ⟨N + 1, fun n hn => ?_⟩
  obtain ⟨m, rfl⟩ : ∃ m, n = m + 1 := ⟨n - 1, by omega⟩
  have hc := c m (by omega)
  unfold renderParamsF renderedF
  simp only [Mapping.toValue]
  rw [interp_map]
  cases hr : resolveEs (absEs [] es) with
  | error e =>
    rw [show ({} : RState).cur = [] from rfl, hr] at hc
    simp only [EsOutcome] at hc
    rw [hc]; rfl
  | ok es' =>
    rw [show ({} : RState).cur = [] from rfl, hr] at hc
    obtain ⟨mm, e1, e2, e3⟩ := hc
    rw [e1]
    have e2' : mm.es = es' := by simpa using e2
    have hp : PlainEs es' :=
      (resolveEs_plain _ _ (absEs_ptree [] hes) hr).1
    have hk : keys es' = keys es := by
      rw [(resolveEs_plain _ _ (absEs_ptree [] hes) hr).2, tkeys_absEs]
    obtain ⟨ck', ok', hf⟩ := flatEs_plainEs mm.ck mm.ok {} es' {} hp (by simpa [hk] using hnd)
    simp only [Mapping.toValue, flat, e2', hf]
    simp [Except.map]

/-- **Refinement with top-level override keys, settled form.** -/
theorem params_settleO {ms : List Mapping} (h : ∀ m ∈ ms, OverrideLayer m) :
    ∃ N, ∀ n, N ≤ n →
      ((mergeLayers {} ms).bind (renderParamsF n)).map Mapping.es =
        deepParamsO (ms.map normLayer) := by
  obtain ⟨es, okl, a, b, c, d⟩ := mergeLayers_simO [] ms [] [] h trivial (by simp)
  have a' : mergeLayers {} ms = .ok ⟨es, [], okl⟩ := a
  obtain ⟨N, cN⟩ := renderParams_settlesO okl b c
  refine ⟨N, fun n hn => ?_⟩
  rw [a']
  show (renderParamsF n ⟨es, [], okl⟩).map Mapping.es = _
  rw [cN n hn, d]
  rfl

/-! ### The stack of a key with overrides -/

theorem tlookup_deepEsO (cur : List Str) (ok : List Key) (k : Key) : ∀ (es : List (Key × Value))
    (ts : List (Key × Tree)), (keys es).Nodup →
    tlookup k (deepEsO cur ok ts es) =
      match lookup k es with
      | none => tlookup k ts
      | some v => some (if k ∈ ok then ofValue v
                        else deep (cur ++ [k.display]) ((tlookup k ts).getD (.leaf .null)) v)
  | [], ts, _ => rfl
  | (k', v') :: rest, ts, hnd => by
    simp only [keys, List.map_cons, List.nodup_cons] at hnd
    simp only [deepEsO]
    rw [tlookup_deepEsO cur ok k rest _ hnd.2]
    by_cases h : k' = k
    · subst h
      have hl : lookup k' rest = none := lookup_none_iff.2 hnd.1
      simp only [hl, lookup, if_true, tlookup_upsert_self]
      cases tlookup k' ts with
      | none => by_cases ho : k' ∈ ok <;> simp [ho, deep_leaf_null]
      | some t => rfl
    · have h' : k ≠ k' := fun e => h e.symm
      simp only [lookup, h, if_false, tlookup_upsert_ne h']

theorem tkeys_deepEsO (cur : List Str) (ok : List Key) : ∀ (es : List (Key × Value))
    (ts : List (Key × Tree)), tkeys (deepEsO cur ok ts es) = (keys es).foldl addKey (tkeys ts)
  | [], ts => rfl
  | (k, v) :: rest, ts => by
    simp only [deepEsO, keys, List.map_cons, List.foldl_cons]
    rw [tkeys_deepEsO cur ok rest, tkeys_upsert, addKey_eq]

theorem tlookup_foldl_deepEsO (cur : List Str) (k : Key) : ∀ (ms : List Mapping)
    (ts : List (Key × Tree)) (acc : List Value), (∀ m ∈ ms, (keys m.es).Nodup) →
    tlookup k ts = (if acc = [] then none else some (merged (cur ++ [k.display]) acc)) →
    tlookup k (ms.foldl (fun ts m => deepEsO cur m.ok ts m.es) ts) =
      (if ms.foldl (stackStep k) acc = [] then none
       else some (merged (cur ++ [k.display]) (ms.foldl (stackStep k) acc)))
  | [], ts, acc, _, h0 => h0
  | m :: ms, ts, acc, h, h0 => by
    simp only [List.foldl_cons]
    apply tlookup_foldl_deepEsO cur k ms _ _ (fun m' hm' => h m' (List.mem_cons_of_mem _ hm'))
    rw [tlookup_deepEsO cur m.ok k m.es ts (h m (by simp)), h0]
    cases hlk : lookup k m.es with
    | none => simp only [stackStep, hlk]
    | some v =>
      by_cases ho : k ∈ m.ok
      · simp [stackStep, hlk, ho, merged, deep_leaf_null]
      · by_cases ha : acc = []
        · simp [stackStep, hlk, ho, ha, merged, deep_leaf_null]
        · simp [stackStep, hlk, ho, ha, merged_snoc]

/-- **An override restarts the stack.**  With override keys, the member `k` is the merge of the
values written to `k` from the last layer on that wrote it as `~k`. -/
theorem tlookup_mergedParamsO (k : Key) {ms : List Mapping} (h : ∀ m ∈ ms, (keys m.es).Nodup) :
    tlookup k (mergedParamsO ms) =
      if valuesAtO k ms = [] then none else some (merged [k.display] (valuesAtO k ms)) := by
  exact tlookup_foldl_deepEsO [] k ms [] [] h rfl

theorem tkeys_mergedParamsO (ms : List Mapping) : tkeys (mergedParamsO ms) = keyOrder ms := by
  unfold mergedParamsO keyOrder
  suffices h : ∀ (ms : List Mapping) (ts : List (Key × Tree)),
      tkeys (ms.foldl (fun ts m => deepEsO [] m.ok ts m.es) ts) =
        ms.foldl (fun ks m => (keys m.es).foldl addKey ks) (tkeys ts) from h ms []
  intro ms
  induction ms with
  | nil => intro ts; rfl
  | cons m ms ih => intro ts; simp only [List.foldl_cons]; rw [ih, tkeys_deepEsO]

theorem addKey_nodup {ks : List Key} (k : Key) (h : ks.Nodup) : (addKey ks k).Nodup := by
  unfold addKey
  split
  · exact h
  · rename_i hk
    rw [List.nodup_append]
    refine ⟨h, by simp, ?_⟩
    intro a ha b hb
    simp at hb; subst hb
    intro e; subst e; exact hk ha

theorem keyOrder_nodup (ms : List Mapping) : (keyOrder ms).Nodup := by
  unfold keyOrder
  suffices h : ∀ (ms : List Mapping) (ks : List Key), ks.Nodup →
      (ms.foldl (fun ks m => (keys m.es).foldl addKey ks) ks).Nodup from h ms [] (by simp)
  intro ms
  induction ms with
  | nil => intro ks h; exact h
  | cons m ms ih =>
    intro ks h
    simp only [List.foldl_cons]
    apply ih
    generalize keys m.es = l
    induction l generalizing ks with
    | nil => exact h
    | cons k l ih2 => simp only [List.foldl_cons]; exact ih2 _ (addKey_nodup k h)

/-- Member trees given by a stack function: the value, key by key. -/
theorem resolveEs_by_key {ts : List (Key × Tree)} {stack : Key → List Value} {cur : List Str}
    (hn : (tkeys ts).Nodup)
    (hl : ∀ k, tlookup k ts =
      if stack k = [] then none else some (merged (cur ++ [k.display]) (stack k))) :
    (∀ es, resolveEs ts = .ok es →
      keys es = tkeys ts ∧
      ∀ k, (stack k = [] → lookup k es = none) ∧
        (stack k ≠ [] →
          ∃ r, deepAll (cur ++ [k.display]) (stack k) = .ok r ∧ lookup k es = some r)) ∧
    (∀ e, resolveEs ts = .error e →
      ∃ k, stack k ≠ [] ∧ deepAll (cur ++ [k.display]) (stack k) = .error e) ∧
    ((∀ k, stack k ≠ [] → ∃ r, deepAll (cur ++ [k.display]) (stack k) = .ok r) →
      ∃ es, resolveEs ts = .ok es) := by
  have hmem : ∀ k t, (k, t) ∈ ts →
      stack k ≠ [] ∧ t = merged (cur ++ [k.display]) (stack k) := by
    intro k t hm
    have := tlookup_of_mem_nodup hn hm
    rw [hl k] at this
    by_cases hv : stack k = []
    · simp [hv] at this
    · simp only [hv, if_false, Option.some.injEq] at this
      exact ⟨hv, this.symm⟩
  refine ⟨?_, ?_, ?_⟩
  · intro es h1
    refine ⟨resolveEs_keys h1, fun k => ?_⟩
    have hlk := resolveEs_lookup k h1
    rw [hl k] at hlk
    constructor
    · intro hv; simpa [hv] using hlk
    · intro hv
      simp only [hv, if_false] at hlk
      have hm : (k, merged (cur ++ [k.display]) (stack k)) ∈ ts := by
        apply tlookup_mem; rw [hl k]; simp [hv]
      obtain ⟨r, hr⟩ := (resolveEs_ok_iff.1 ⟨es, h1⟩) k _ hm
      exact ⟨r, hr, by simpa [hr] using hlk⟩
  · intro e h1
    obtain ⟨k, t, hm, hr⟩ := resolveEs_error_mem h1
    obtain ⟨hv, rfl⟩ := hmem k t hm
    exact ⟨k, hv, hr⟩
  · intro hall
    apply resolveEs_ok_iff.2
    intro k t hm
    obtain ⟨hv, rfl⟩ := hmem k t hm
    exact hall k hv

theorem stackStep_norm (k : Key) (acc : List Value) (m : Mapping) :
    stackStep k (normL acc) (normLayer m) = normL (stackStep k acc m) := by
  simp only [stackStep, normLayer, lookup_normEs]
  cases lookup k m.es with
  | none => rfl
  | some v =>
    by_cases ho : k ∈ m.ok
    · simp [ho, normL]
    · simp [ho, normL_append, normL]

theorem valuesAtO_norm (k : Key) (ms : List Mapping) :
    valuesAtO k (ms.map normLayer) = normL (valuesAtO k ms) := by
  unfold valuesAtO
  suffices h : ∀ (ms : List Mapping) (acc : List Value),
      (ms.map normLayer).foldl (stackStep k) (normL acc) = normL (ms.foldl (stackStep k) acc) from
    h ms []
  intro ms
  induction ms with
  | nil => intro acc; rfl
  | cons m ms ih =>
    intro acc
    simp only [List.map_cons, List.foldl_cons, stackStep_norm]
    exact ih _

theorem normL_eq_nil {l : List Value} : normL l = [] ↔ l = [] := by
  cases l <;> simp [normL]

end DeepMerge
end Reclass
