/-
  Helper lemmas for property C02 (deep merge of reference-free layers): the specification
  `Spec/DeepMerge` against the evaluator.

  1. `Plain` data is closed, well-formed, canonical and string-free.
  2. Invariants of parameter trees (`PTree`), `resolve ∘ ofValue = id`.
  3. Simulation: the accumulator of the evaluator's layer loop (a mapping whose members are
     plain values or layer lists of plain values, `Semi`) abstracts to a tree (`abs`);
     `Mapping::insert_impl`, `Mapping::merge`, `Value::merge` and the fold `flatVl` commute
     with `upsert`, `deepEs`, `deep` and `merged`.
  4. The evaluator on a layer list of plain values settles on `deepAll` (`settle_main`).
-/
import Reclass.Spec.DeepMerge
import Reclass.Lemmas.TextL
import Reclass.Lemmas.MappingL
import Reclass.Props.C10
namespace Reclass
namespace DeepMerge
open Termination (sz szL szVl szEs StrFree StrFreeL StrFreeEs)

/-! ## 1. Plain data -/

theorem flagsOf_nil (ks : List Key) : flagsOf [] ks = [] := by
  simp [flagsOf]

mutual
theorem plain_all : ∀ (v : Value), Plain v → Closed v ∧ WF v ∧ Canon v ∧ StrFree v
  | .str _, h => by simp [Plain] at h
  | .vl _, h => by simp [Plain] at h
  | .null, _ => by simp [Closed, WF, Canon, StrFree]
  | .bool _, _ => by simp [Closed, WF, Canon, StrFree]
  | .num _, _ => by simp [Closed, WF, Canon, StrFree]
  | .lit _, _ => by simp [Closed, WF, Canon, StrFree]
  | .seq l, h => by
    simp only [Plain] at h
    simpa only [Closed, WF, Canon, StrFree] using plainL_all l h
  | .map es ck ok, h => by
    simp only [Plain] at h
    obtain ⟨h1, h2, rfl, rfl⟩ := h
    obtain ⟨a, b, c, d⟩ := plainEs_all es h1
    simp only [Closed, WF, Canon, StrFree, flagsOf_nil]
    exact ⟨a, ⟨b, h2⟩, ⟨c, trivial, trivial⟩, d⟩
theorem plainL_all : ∀ (l : List Value), PlainL l → ClosedL l ∧ WFL l ∧ CanonL l ∧ StrFreeL l
  | [], _ => by simp [ClosedL, WFL, CanonL, StrFreeL]
  | v :: vs, h => by
    simp only [PlainL] at h
    obtain ⟨a, b, c, d⟩ := plain_all v h.1
    obtain ⟨a', b', c', d'⟩ := plainL_all vs h.2
    simp only [ClosedL, WFL, CanonL, StrFreeL]
    exact ⟨⟨a, a'⟩, ⟨b, b'⟩, ⟨c, c'⟩, ⟨d, d'⟩⟩
theorem plainEs_all : ∀ (es : List (Key × Value)), PlainEs es →
    ClosedEs es ∧ WFEs es ∧ CanonEs es ∧ StrFreeEs es
  | [], _ => by simp [ClosedEs, WFEs, CanonEs, StrFreeEs]
  | (k, v) :: es, h => by
    simp only [PlainEs] at h
    obtain ⟨a, b, c, d⟩ := plain_all v h.2.1
    obtain ⟨a', b', c', d'⟩ := plainEs_all es h.2.2
    simp only [ClosedEs, WFEs, CanonEs, StrFreeEs]
    exact ⟨⟨a, a'⟩, ⟨h.1, b, b'⟩, ⟨c, c'⟩, ⟨d, d'⟩⟩
end

theorem plainL_append {a b : List Value} : PlainL (a ++ b) ↔ PlainL a ∧ PlainL b := by
  induction a with
  | nil => simp [PlainL]
  | cons v vs ih => simp only [List.cons_append, PlainL, ih, and_assoc]

theorem plainEs_append {a b : List (Key × Value)} : PlainEs (a ++ b) ↔ PlainEs a ∧ PlainEs b := by
  induction a with
  | nil => simp [PlainEs]
  | cons e es ih =>
    obtain ⟨k, v⟩ := e
    simp only [List.cons_append, PlainEs, ih, and_assoc]

theorem plain_not_vl {v : Value} (h : Plain v) : v.isVl = false := by
  cases v <;> first | rfl | simp [Plain] at h

theorem plain_layersOf {v : Value} (h : Plain v) : C10.layersOf v = [v] := by
  cases v <;> first | rfl | simp [Plain] at h

/-- Interpolating plain data returns it unchanged. -/
theorem interp_plain {v : Value} (h : Plain v) {n : Nat} (hn : size v ≤ n) (root : Mapping)
    (st : RState) : interp n root v st = .ok (v, st) := by
  obtain ⟨a, b, c, _⟩ := plain_all v h
  exact interp_canon v n root st a b c hn

/-- Flattening plain data returns it unchanged. -/
theorem flat_plain {v : Value} (h : Plain v) (st : RState) : flat v st = .ok v := by
  obtain ⟨a, b, c, _⟩ := plain_all v h
  exact flat_canon v st a b c

/-! ## 2. Parameter trees -/

/-- The keys of a node, in order. -/
abbrev tkeys (ts : List (Key × Tree)) : List Key := ts.map Prod.fst

mutual
/-- Trees as `deep` builds them from plain layers: leaves hold plain non-mapping values, keys
are marker-free and distinct. -/
def PTree : Tree → Prop
  | .leaf v => Plain v ∧ v.isMap = false
  | .bad _ => True
  | .node ts => PTreeEs ts ∧ (tkeys ts).Nodup
def PTreeEs : List (Key × Tree) → Prop
  | [] => True
  | (k, t) :: ts => CleanKey k ∧ PTree t ∧ PTreeEs ts
end

theorem tlookup_none_iff {k : Key} {ts : List (Key × Tree)} : tlookup k ts = none ↔ k ∉ tkeys ts := by
  induction ts with
  | nil => simp [tlookup]
  | cons e ts ih =>
    obtain ⟨k', t⟩ := e
    simp only [tlookup, tkeys, List.map_cons, List.mem_cons, not_or]
    by_cases h : k' = k
    · simp [h]
    · simp only [h, if_false]
      rw [ih]
      exact ⟨fun h2 => ⟨fun e => h e.symm, h2⟩, fun h2 => h2.2⟩

theorem tkeys_upsert (k : Key) (f : Tree → Tree) (d : Tree) (ts : List (Key × Tree)) :
    tkeys (upsert k f d ts) = if k ∈ tkeys ts then tkeys ts else tkeys ts ++ [k] := by
  induction ts with
  | nil => simp [upsert, tkeys]
  | cons e ts ih =>
    obtain ⟨k', t⟩ := e
    simp only [upsert]
    by_cases h : k' = k
    · simp [h, tkeys]
    · have h' : ¬ k = k' := fun e => h e.symm
      simp only [h, if_false, tkeys, List.map_cons, List.mem_cons, h', false_or] at ih ⊢
      rw [ih]
      split <;> simp

theorem tkeys_upsert_nodup {k : Key} {f : Tree → Tree} {d : Tree} {ts : List (Key × Tree)}
    (h : (tkeys ts).Nodup) : (tkeys (upsert k f d ts)).Nodup := by
  rw [tkeys_upsert]
  split
  · exact h
  · rename_i hk
    rw [List.nodup_append]
    refine ⟨h, by simp, ?_⟩
    intro a ha b hb
    simp at hb; subst hb
    intro e; subst e; exact hk ha

theorem ptreeEs_upsert {k : Key} {f : Tree → Tree} {d : Tree} {ts : List (Key × Tree)}
    (hk : CleanKey k) (hf : ∀ t, PTree t → PTree (f t)) (hd : PTree d) (h : PTreeEs ts) :
    PTreeEs (upsert k f d ts) := by
  induction ts with
  | nil => simp only [upsert, PTreeEs]; exact ⟨hk, hd, trivial⟩
  | cons e ts ih =>
    obtain ⟨k', t⟩ := e
    simp only [PTreeEs] at h
    simp only [upsert]
    by_cases hkk : k' = k
    · simp only [hkk, if_true, PTreeEs]
      exact ⟨hk, hf t h.2.1, h.2.2⟩
    · simp only [hkk, if_false, PTreeEs]
      exact ⟨h.1, h.2.1, ih h.2.2⟩

mutual
theorem ofValue_ptree : ∀ (v : Value), Plain v → PTree (ofValue v)
  | .str _, h => by simp [Plain] at h
  | .vl _, h => by simp [Plain] at h
  | .null, h => by simp only [ofValue, PTree]; exact ⟨h, rfl⟩
  | .bool _, h => by simp only [ofValue, PTree]; exact ⟨h, rfl⟩
  | .num _, h => by simp only [ofValue, PTree]; exact ⟨h, rfl⟩
  | .lit _, h => by simp only [ofValue, PTree]; exact ⟨h, rfl⟩
  | .seq l, h => by simp only [ofValue, PTree]; exact ⟨h, rfl⟩
  | .map es ck ok, h => by
    simp only [Plain] at h
    obtain ⟨a, b⟩ := ofValueEs_ptree es h.1
    simp only [ofValue, PTree]
    exact ⟨a, by rw [b]; exact h.2.1⟩
theorem ofValueEs_ptree : ∀ (es : List (Key × Value)), PlainEs es →
    PTreeEs (ofValueEs es) ∧ tkeys (ofValueEs es) = keys es
  | [], _ => by simp [ofValueEs, PTreeEs, tkeys, keys]
  | (k, v) :: es, h => by
    simp only [PlainEs] at h
    obtain ⟨a, b⟩ := ofValueEs_ptree es h.2.2
    simp only [ofValueEs, PTreeEs]
    refine ⟨⟨h.1, ofValue_ptree v h.2.1, a⟩, ?_⟩
    simp only [tkeys, keys, List.map_cons] at b ⊢
    rw [b]
end

/-- `deep` over a poisoned parameter leaves it poisoned. -/
theorem deep_bad (cur : List Str) (e : Err) (v : Value) : deep cur (.bad e) v = .bad e := by
  cases v <;> rfl

/-- `deep` over `null` is the layer itself. -/
theorem deep_leaf_null (cur : List Str) (v : Value) : deep cur (.leaf .null) v = ofValue v := by
  cases v <;> rfl

theorem foldl_deep_bad (cur : List Str) (e : Err) (vs : List Value) :
    vs.foldl (deep cur) (.bad e) = .bad e := by
  induction vs with
  | nil => rfl
  | cons v vs ih => simp only [List.foldl_cons, deep_bad, ih]

theorem mergeLeaf_ptree (cur : List Str) {a v : Value} (ha : Plain a) (hv : Plain v) :
    PTree (mergeLeaf cur a v) := by
  cases a with
  | null => exact ofValue_ptree v hv
  | seq l =>
    cases v <;> simp only [mergeLeaf, PTree]
    rename_i l'
    simp only [Plain] at ha hv ⊢
    exact ⟨plainL_append.2 ⟨ha, hv⟩, rfl⟩
  | str _ => simp [Plain] at ha
  | vl _ => simp [Plain] at ha
  | bool _ =>
    simp only [mergeLeaf]
    split
    · simp [PTree]
    · rename_i hc
      simp only [PTree]
      exact ⟨hv, by cases v <;> simp_all [Value.isMap]⟩
  | num _ =>
    simp only [mergeLeaf]
    split
    · simp [PTree]
    · rename_i hc
      simp only [PTree]
      exact ⟨hv, by cases v <;> simp_all [Value.isMap]⟩
  | lit _ =>
    simp only [mergeLeaf]
    split
    · simp [PTree]
    · rename_i hc
      simp only [PTree]
      exact ⟨hv, by cases v <;> simp_all [Value.isMap]⟩
  | map _ _ _ =>
    simp only [mergeLeaf]
    split
    · simp [PTree]
    · rename_i hc
      simp only [PTree]
      exact ⟨hv, by cases v <;> simp_all [Value.isMap]⟩

mutual
theorem deep_ptree : ∀ (v : Value) (cur : List Str) (t : Tree), PTree t → Plain v →
    PTree (deep cur t v)
  | .str _, _, _, _, h => by simp [Plain] at h
  | .vl _, _, _, _, h => by simp [Plain] at h
  | .null, cur, t, _, _ => by
    cases t <;> simp [deep, PTree, Plain, Value.isMap]
  | .bool b, cur, t, ht, hv => by
    cases t with
    | bad e => simp [deep, PTree]
    | node ts => simp [deep, PTree]
    | leaf a => simp only [deep]; exact mergeLeaf_ptree cur ht.1 hv
  | .num b, cur, t, ht, hv => by
    cases t with
    | bad e => simp [deep, PTree]
    | node ts => simp [deep, PTree]
    | leaf a => simp only [deep]; exact mergeLeaf_ptree cur ht.1 hv
  | .lit b, cur, t, ht, hv => by
    cases t with
    | bad e => simp [deep, PTree]
    | node ts => simp [deep, PTree]
    | leaf a => simp only [deep]; exact mergeLeaf_ptree cur ht.1 hv
  | .seq b, cur, t, ht, hv => by
    cases t with
    | bad e => simp [deep, PTree]
    | node ts => simp [deep, PTree]
    | leaf a => simp only [deep]; exact mergeLeaf_ptree cur ht.1 hv
  | .map es ck ok, cur, t, ht, hv => by
    cases t with
    | bad e => simp [deep, PTree]
    | leaf a => simp only [deep]; exact mergeLeaf_ptree cur ht.1 hv
    | node ts =>
      simp only [PTree] at ht
      simp only [Plain] at hv
      simp only [deep, PTree]
      exact deepEs_ptree es cur ts ht.1 ht.2 hv.1
theorem deepEs_ptree : ∀ (es : List (Key × Value)) (cur : List Str) (ts : List (Key × Tree)),
    PTreeEs ts → (tkeys ts).Nodup → PlainEs es →
    PTreeEs (deepEs cur ts es) ∧ (tkeys (deepEs cur ts es)).Nodup
  | [], _, ts, h1, h2, _ => by simp only [deepEs]; exact ⟨h1, h2⟩
  | (k, v) :: es, cur, ts, h1, h2, h3 => by
    simp only [PlainEs] at h3
    simp only [deepEs]
    exact deepEs_ptree es cur _
      (ptreeEs_upsert h3.1 (fun t ht => deep_ptree v (cur ++ [k.display]) t ht h3.2.1)
        (ofValue_ptree v h3.2.1) h1)
      (tkeys_upsert_nodup h2) h3.2.2
end

theorem merged_ptree (cur : List Str) : ∀ (vs : List Value) (t : Tree), PTree t → PlainL vs →
    PTree (vs.foldl (deep cur) t)
  | [], t, ht, _ => ht
  | v :: vs, t, ht, h => by
    simp only [PlainL] at h
    simp only [List.foldl_cons]
    exact merged_ptree cur vs _ (deep_ptree v cur t ht h.1) h.2

mutual
/-- The value of a tree built from plain layers is plain. -/
theorem resolve_plain : ∀ (t : Tree) (v : Value), PTree t → resolve t = .ok v → Plain v
  | .leaf a, v, ht, h => by
    simp only [resolve, Except.ok.injEq] at h; subst h; exact ht.1
  | .bad e, v, _, h => by simp [resolve] at h
  | .node ts, v, ht, h => by
    simp only [resolve] at h
    simp only [PTree] at ht
    cases h1 : resolveEs ts with
    | error e => simp [h1] at h
    | ok es =>
      simp only [h1, Except.ok.injEq] at h; subst h
      obtain ⟨a, b⟩ := resolveEs_plain ts es ht.1 h1
      simp only [Plain]
      exact ⟨a, by rw [b]; exact ht.2, by trivial, by trivial⟩
theorem resolveEs_plain : ∀ (ts : List (Key × Tree)) (es : List (Key × Value)), PTreeEs ts →
    resolveEs ts = .ok es → PlainEs es ∧ keys es = tkeys ts
  | [], es, _, h => by
    simp only [resolveEs, Except.ok.injEq] at h; subst h; simp [PlainEs, keys, tkeys]
  | (k, t) :: ts, es, ht, h => by
    simp only [resolveEs] at h
    simp only [PTreeEs] at ht
    cases h1 : resolve t with
    | error e => simp [h1] at h
    | ok v =>
      simp only [h1] at h
      cases h2 : resolveEs ts with
      | error e => simp [h2] at h
      | ok es' =>
        simp only [h2, Except.ok.injEq] at h; subst h
        obtain ⟨a, b⟩ := resolveEs_plain ts es' ht.2.2 h2
        simp only [PlainEs]
        refine ⟨⟨ht.1, resolve_plain t v ht.2.1 h1, a⟩, ?_⟩
        simp only [keys, tkeys, List.map_cons] at b ⊢
        rw [b]
end

mutual
/-- A plain value, seen as a tree, has itself as value. -/
theorem resolve_ofValue : ∀ (v : Value), Plain v → resolve (ofValue v) = .ok v
  | .str _, h => by simp [Plain] at h
  | .vl _, h => by simp [Plain] at h
  | .null, _ => rfl
  | .bool _, _ => rfl
  | .num _, _ => rfl
  | .lit _, _ => rfl
  | .seq _, _ => rfl
  | .map es ck ok, h => by
    simp only [Plain] at h
    obtain ⟨h1, _, rfl, rfl⟩ := h
    simp only [ofValue, resolve, resolveEs_ofValueEs es h1]
theorem resolveEs_ofValueEs : ∀ (es : List (Key × Value)), PlainEs es →
    resolveEs (ofValueEs es) = .ok es
  | [], _ => rfl
  | (k, v) :: es, h => by
    simp only [PlainEs] at h
    simp only [ofValueEs, resolveEs, resolve_ofValue v h.2.1, resolveEs_ofValueEs es h.2.2]
end

mutual
/-- Conversely a tree without poison *is* its value. -/
theorem ofValue_resolve : ∀ (t : Tree) (v : Value), PTree t → resolve t = .ok v → ofValue v = t
  | .leaf a, v, ht, h => by
    simp only [resolve, Except.ok.injEq] at h; subst h
    obtain ⟨_, hm⟩ := ht
    cases a <;> first | rfl | simp [Value.isMap] at hm
  | .bad e, v, _, h => by simp [resolve] at h
  | .node ts, v, ht, h => by
    simp only [resolve] at h
    simp only [PTree] at ht
    cases h1 : resolveEs ts with
    | error e => simp [h1] at h
    | ok es =>
      simp only [h1, Except.ok.injEq] at h; subst h
      simp only [ofValue, ofValueEs_resolveEs ts es ht.1 h1]
theorem ofValueEs_resolveEs : ∀ (ts : List (Key × Tree)) (es : List (Key × Value)), PTreeEs ts →
    resolveEs ts = .ok es → ofValueEs es = ts
  | [], es, _, h => by
    simp only [resolveEs, Except.ok.injEq] at h; subst h; rfl
  | (k, t) :: ts, es, ht, h => by
    simp only [resolveEs] at h
    simp only [PTreeEs] at ht
    cases h1 : resolve t with
    | error e => simp [h1] at h
    | ok v =>
      simp only [h1] at h
      cases h2 : resolveEs ts with
      | error e => simp [h2] at h
      | ok es' =>
        simp only [h2, Except.ok.injEq] at h; subst h
        simp only [ofValueEs, ofValue_resolve t v ht.2.1 h1, ofValueEs_resolveEs ts es' ht.2.2 h2]
end

end DeepMerge
end Reclass
