/-
  Reclass.Lemmas.RefsL — helper lemmas for property C03 (whole-value references).

  * `flat_st`, `mergeV_st`, … : `flattened`/`merge` use the resolve state only inside error
    values, so a success carries over verbatim to any other state.
  * `StIndep n` / `stIndep` : the 13 evaluator functions return the same *value* from any two
    states from which they succeed (seen-set, depth, current key only decide whether an error
    is raised).
  * `RootEq` / `rootEq` : the evaluator reads the root mapping only through `Mapping.get`.
  * `X_indep` : the same across different amounts of fuel (via `Lemmas/Fuel`).
  * `rawPath`, `descend_raw`, `finalLoop_cases`, `finalLoop_then_interp`, `interp_rawPath` :
    the pieces of `Token::resolve` for a path through raw mappings.
  * `lookup_perm`, `perm_of_lookup_eq`, `wf_map_perm` : `List.Perm` facts for entry lists.
  * `interpEs_entries`/`flatEs_entries` (what a successful `Mapping::interpolate`/`flattened`
    did to each entry) and the converses `interpEs_build`/`flatEs_build` (any entry order).
  Note: `Lemmas/MappingL` cannot be imported next to `Lemmas/ClosedL` (both declare
  `Reclass.mem_setInsert`), nor next to `Lemmas/Fuel` (`Reclass.lookup_mem`); the few `lookup`
  facts needed are re-proved here in namespace `Reclass.Refs`.
-/
import Reclass.Props.C07
import Reclass.Lemmas.Fuel
namespace Reclass
namespace Refs

theorem mergeNonVl_st {a b r : Value} {st : RState} (st' : RState)
    (h : mergeNonVl a b st = .ok r) : mergeNonVl a b st' = .ok r := by
  cases a <;> cases b <;> simp only [mergeNonVl] at h ⊢ <;>
    first | exact h | (simp [Value.isMap, Value.isSeq] at h ⊢ <;> exact h) | simp at h

mutual
theorem flat_st : ∀ (v : Value) (st st' : RState) (r : Value), flat v st = .ok r → flat v st' = .ok r
  | .vl l, st, st', r, h => by
    simp only [flat] at h ⊢
    exact flatVl_st l .null st st' r h
  | .map es ck ok, st, st', r, h => by
    simp only [flat] at h ⊢
    cases h1 : flatEs es ck ok st {} with
    | error e => simp [h1] at h
    | ok m =>
      simp only [h1] at h
      simp only [flatEs_st es ck ok st st' {} m h1]
      exact h
  | .seq l, st, st', r, h => by
    simp only [flat] at h ⊢
    cases h1 : flatL l st with
    | error e => simp [h1] at h
    | ok l' =>
      simp only [h1] at h
      simp only [flatL_st l st st' l' h1]
      exact h
  | .str _, st, st', r, h => by simp [flat] at h
  | .null, st, st', r, h => by simp only [flat] at h ⊢; exact h
  | .bool _, st, st', r, h => by simp only [flat] at h ⊢; exact h
  | .num _, st, st', r, h => by simp only [flat] at h ⊢; exact h
  | .lit _, st, st', r, h => by simp only [flat] at h ⊢; exact h
theorem flatVl_st : ∀ (l : List Value) (base : Value) (st st' : RState) (r : Value),
    flatVl l base st = .ok r → flatVl l base st' = .ok r
  | [], base, st, st', r, h => by simp only [flatVl] at h ⊢; exact h
  | v :: rest, base, st, st', r, h => by
    simp only [flatVl] at h ⊢
    cases h1 : mergeV base v st with
    | error e => simp [h1] at h
    | ok b =>
      simp only [h1] at h
      simp only [mergeV_st base v st st' b h1]
      exact flatVl_st rest b st st' r h
theorem mergeV_st : ∀ (self other : Value) (st st' : RState) (r : Value),
    mergeV self other st = .ok r → mergeV self other st' = .ok r
  | self, .null, st, st', r, h => by simp only [mergeV] at h ⊢; exact h
  | self, .vl l, st, st', r, h => by
    simp only [mergeV] at h ⊢
    cases h1 : flatVl l .null st with
    | error e => simp [h1] at h
    | ok o =>
      simp only [h1] at h
      simp only [flatVl_st l .null st st' o h1]
      exact mergeNonVl_st st' h
  | self, .map es ck ok, st, st', r, h => by
    simp only [mergeV] at h ⊢; exact mergeNonVl_st st' h
  | self, .seq l, st, st', r, h => by
    simp only [mergeV] at h ⊢; exact mergeNonVl_st st' h
  | self, .str _, st, st', r, h => by
    simp only [mergeV] at h ⊢; exact mergeNonVl_st st' h
  | self, .bool _, st, st', r, h => by
    simp only [mergeV] at h ⊢; exact mergeNonVl_st st' h
  | self, .num _, st, st', r, h => by
    simp only [mergeV] at h ⊢; exact mergeNonVl_st st' h
  | self, .lit _, st, st', r, h => by
    simp only [mergeV] at h ⊢; exact mergeNonVl_st st' h
theorem flatL_st : ∀ (l : List Value) (st st' : RState) (r : List Value),
    flatL l st = .ok r → flatL l st' = .ok r
  | [], st, st', r, h => by simp only [flatL] at h ⊢; exact h
  | v :: vs, st, st', r, h => by
    simp only [flatL] at h ⊢
    cases h1 : flat v st with
    | error e => simp [h1] at h
    | ok x =>
      simp only [h1] at h
      cases h2 : flatL vs st with
      | error e => simp [h2] at h
      | ok xs =>
        simp only [h2] at h
        simp only [flat_st v st st' x h1, flatL_st vs st st' xs h2]
        exact h
theorem flatEs_st : ∀ (es : List (Key × Value)) (ck ok : List Key) (st st' : RState) (acc m : Mapping),
    flatEs es ck ok st acc = .ok m → flatEs es ck ok st' acc = .ok m
  | [], ck, ok, st, st', acc, m, h => by simp only [flatEs] at h ⊢; exact h
  | (k, v) :: rest, ck, ok, st, st', acc, m, h => by
    simp only [flatEs] at h ⊢
    cases h1 : flat v st with
    | error e => simp [h1] at h
    | ok v' =>
      simp only [h1] at h
      simp only [flat_st v st st' v' h1]
      cases h2 : acc.insertImpl k v' (decide (k ∈ ck)) (decide (k ∈ ok)) with
      | error e => simp [h2] at h
      | ok acc' =>
        simp only [h2] at h ⊢
        exact flatEs_st rest ck ok st st' acc' m h
end


/-- Two successes of `flattened` from different states agree (corollary of `flat_st`). -/
theorem flat_indep {v r r' : Value} {st st' : RState} (h : flat v st = .ok r)
    (h' : flat v st' = .ok r') : r = r' := by
  rw [flat_st v st st' r h] at h'; exact Except.ok.inj h'

theorem flatVl_indep {l : List Value} {b r r' : Value} {st st' : RState}
    (h : flatVl l b st = .ok r) (h' : flatVl l b st' = .ok r') : r = r' := by
  rw [flatVl_st l b st st' r h] at h'; exact Except.ok.inj h'

theorem mergeV_indep {a b r r' : Value} {st st' : RState} (h : mergeV a b st = .ok r)
    (h' : mergeV a b st' = .ok r') : r = r' := by
  rw [mergeV_st a b st st' r h] at h'; exact Except.ok.inj h'

theorem flatL_indep {l r r' : List Value} {st st' : RState} (h : flatL l st = .ok r)
    (h' : flatL l st' = .ok r') : r = r' := by
  rw [flatL_st l st st' r h] at h'; exact Except.ok.inj h'

theorem flatEs_indep {es : List (Key × Value)} {ck ok : List Key} {acc m m' : Mapping}
    {st st' : RState} (h : flatEs es ck ok st acc = .ok m)
    (h' : flatEs es ck ok st' acc = .ok m') : m = m' := by
  rw [flatEs_st es ck ok st st' acc m h] at h'; exact Except.ok.inj h'

/-! ## State independence of the 13-way evaluator -/

/-- At fuel `n`: whenever one of the evaluator functions succeeds from two states (same root,
same arguments) the returned *values* coincide.  (`interpL` may even be started at different
list indices and `descend` with different reference texts: both only feed error messages.) -/
structure StIndep (n : Nat) : Prop where
  interp : ∀ (root : Mapping) (v : Value) (st st' : RState) (x x' : Value) (s s' : RState),
    interp n root v st = .ok (x, s) → interp n root v st' = .ok (x', s') → x = x'
  interpL : ∀ (root : Mapping) (l : List Value) (idx idx' : Nat) (st st' : RState)
    (r r' : List Value),
    interpL n root l idx st = .ok r → interpL n root l idx' st' = .ok r' → r = r'
  interpEs : ∀ (root : Mapping) (es : List (Key × Value)) (ck ok : List Key) (st st' : RState)
    (acc m m' : Mapping),
    interpEs n root es ck ok st acc = .ok m → interpEs n root es ck ok st' acc = .ok m' → m = m'
  interpVl : ∀ (root : Mapping) (l : List Value) (r0 : Value) (st st' : RState) (r r' : Value),
    interpVl n root l r0 st = .ok r → interpVl n root l r0 st' = .ok r' → r = r'
  tokRender : ∀ (root : Mapping) (t : Token) (st st' : RState) (x x' : Value) (s s' : RState),
    tokRender n root t st = .ok (x, s) → tokRender n root t st' = .ok (x', s') → x = x'
  tokResolve : ∀ (root : Mapping) (t : Token) (st st' : RState) (x x' : Value) (s s' : RState),
    tokResolve n root t st = .ok (x, s) → tokResolve n root t st' = .ok (x', s') → x = x'
  descend : ∀ (root : Mapping) (v : Value) (ks : List Str) (st st' : RState) (p p' : Str)
    (x x' : Value) (s s' : RState),
    descend n root v ks st p = .ok (x, s) → descend n root v ks st' p' = .ok (x', s') → x = x'
  finalLoop : ∀ (root : Mapping) (v : Value) (st st' : RState) (x x' : Value) (s s' : RState),
    finalLoop n root v st = .ok (x, s) → finalLoop n root v st' = .ok (x', s') → x = x'
  interpStrOrVl : ∀ (root : Mapping) (v : Value) (st st' : RState) (x x' : Value) (s s' : RState),
    interpStrOrVl n root v st = .ok (x, s) → interpStrOrVl n root v st' = .ok (x', s') → x = x'
  layersStr : ∀ (root : Mapping) (l : List Value) (st st' : RState) (r r' : List Value),
    layersStr n root l st = .ok r → layersStr n root l st' = .ok r' → r = r'
  slice : ∀ (root : Mapping) (ts : List Token) (st st' : RState) (r r' : Str),
    slice n root ts st = .ok r → slice n root ts st' = .ok r' → r = r'
  strLoop : ∀ (root : Mapping) (v : Value) (st st' : RState) (x x' : Value) (s s' : RState),
    strLoop n root v st = .ok (x, s) → strLoop n root v st' = .ok (x', s') → x = x'
  sliceFinish : ∀ (root : Mapping) (v : Value) (st st' : RState) (r r' : Str),
    sliceFinish n root v st = .ok r → sliceFinish n root v st' = .ok r' → r = r'

theorem stIndep_zero : StIndep 0 := by
  constructor <;> intros <;>
    simp_all [Reclass.interp, Reclass.interpL, Reclass.interpEs, Reclass.interpVl,
      Reclass.tokRender, Reclass.tokResolve, Reclass.descend, Reclass.finalLoop,
      Reclass.interpStrOrVl, Reclass.layersStr, Reclass.slice, Reclass.strLoop,
      Reclass.sliceFinish]

section step
variable {n : Nat} (ih : StIndep n)
include ih

theorem si_interp (root : Mapping) (v : Value) (st st' : RState) (x x' : Value) (s s' : RState)
    (h : Reclass.interp (n+1) root v st = .ok (x, s))
    (h' : Reclass.interp (n+1) root v st' = .ok (x', s')) : x = x' := by
  cases v with
  | str t =>
    rw [interp_str] at h h'
    cases hp : Token.parse t with
    | error e => simp [hp] at h
    | ok o =>
      cases o with
      | none =>
        simp only [hp, Except.ok.injEq, Prod.mk.injEq] at h h'
        rw [← h.1, ← h'.1]
      | some tk => simp only [hp] at h h'; exact ih.tokRender _ _ _ _ _ _ _ _ h h'
  | map es ck ok =>
    rw [interp_map] at h h'
    cases h1 : Reclass.interpEs n root es ck ok st {} with
    | error e => simp [h1] at h
    | ok m =>
      cases h2 : Reclass.interpEs n root es ck ok st' {} with
      | error e => simp [h2] at h'
      | ok m' =>
        simp only [h1, h2, Except.ok.injEq, Prod.mk.injEq] at h h'
        rw [← h.1, ← h'.1, ih.interpEs _ _ _ _ _ _ _ _ _ h1 h2]
  | seq l =>
    rw [interp_seq] at h h'
    cases h1 : Reclass.interpL n root l 0 st with
    | error e => simp [h1] at h
    | ok m =>
      cases h2 : Reclass.interpL n root l 0 st' with
      | error e => simp [h2] at h'
      | ok m' =>
        simp only [h1, h2, Except.ok.injEq, Prod.mk.injEq] at h h'
        rw [← h.1, ← h'.1, ih.interpL _ _ _ _ _ _ _ _ h1 h2]
  | vl l =>
    rw [interp_vl] at h h'
    cases h1 : Reclass.interpVl n root l .null st with
    | error e => simp [h1] at h
    | ok m =>
      cases h2 : Reclass.interpVl n root l .null st' with
      | error e => simp [h2] at h'
      | ok m' =>
        simp only [h1, h2] at h h'
        have := ih.interpVl _ _ _ _ _ _ _ h1 h2
        subst this
        exact ih.interp _ _ _ _ _ _ _ _ h h'
  | null => simp only [Reclass.interp, Except.ok.injEq, Prod.mk.injEq] at h h'; rw [← h.1, ← h'.1]
  | bool _ => simp only [Reclass.interp, Except.ok.injEq, Prod.mk.injEq] at h h'; rw [← h.1, ← h'.1]
  | num _ => simp only [Reclass.interp, Except.ok.injEq, Prod.mk.injEq] at h h'; rw [← h.1, ← h'.1]
  | lit _ => simp only [Reclass.interp, Except.ok.injEq, Prod.mk.injEq] at h h'; rw [← h.1, ← h'.1]

theorem si_interpL (root : Mapping) (l : List Value) (idx idx' : Nat) (st st' : RState)
    (r r' : List Value) (h : Reclass.interpL (n+1) root l idx st = .ok r)
    (h' : Reclass.interpL (n+1) root l idx' st' = .ok r') : r = r' := by
  cases l with
  | nil => simp only [interpL_nil, Except.ok.injEq] at h h'; rw [← h, ← h']
  | cons v vs =>
    rw [interpL_cons] at h h'
    rcases h1 : Reclass.interp n root v (st.pushListIndex idx) with e | ⟨x, s1⟩
    · simp [h1] at h
    rcases h2 : Reclass.interp n root v (st'.pushListIndex idx') with e | ⟨x', s1'⟩
    · simp [h2] at h'
    simp only [h1, h2] at h h'
    cases h3 : Reclass.interpL n root vs (idx + 1) st with
    | error e => simp [h3] at h
    | ok xs =>
      cases h4 : Reclass.interpL n root vs (idx' + 1) st' with
      | error e => simp [h4] at h'
      | ok xs' =>
        simp only [h3, h4, Except.ok.injEq] at h h'
        rw [← h, ← h', ih.interp _ _ _ _ _ _ _ _ h1 h2, ih.interpL _ _ _ _ _ _ _ _ h3 h4]

theorem si_interpEs (root : Mapping) (es : List (Key × Value)) (ck ok : List Key)
    (st st' : RState) (acc m m' : Mapping)
    (h : Reclass.interpEs (n+1) root es ck ok st acc = .ok m)
    (h' : Reclass.interpEs (n+1) root es ck ok st' acc = .ok m') : m = m' := by
  cases es with
  | nil => simp only [interpEs_nil, Except.ok.injEq] at h h'; rw [← h, ← h']
  | cons e rest =>
    obtain ⟨k, v⟩ := e
    rw [interpEs_cons] at h h'
    rcases h1 : Reclass.interp n root v (st.pushMappingKey k) with e | ⟨x, s1⟩
    · simp [h1] at h
    rcases h2 : Reclass.interp n root v (st'.pushMappingKey k) with e | ⟨x', s1'⟩
    · simp [h2] at h'
    simp only [h1, h2] at h h'
    have hx := ih.interp _ _ _ _ _ _ _ _ h1 h2
    subst hx
    cases h3 : flat x s1 with
    | error e => simp [h3] at h
    | ok y =>
      cases h4 : flat x s1' with
      | error e => simp [h4] at h'
      | ok y' =>
        simp only [h3, h4] at h h'
        have hy := flat_indep h3 h4
        subst hy
        cases h5 : acc.insertImpl k y (decide (k ∈ ck)) (decide (k ∈ ok)) with
        | error e => simp [h5] at h
        | ok acc' =>
          simp only [h5] at h h'
          exact ih.interpEs _ _ _ _ _ _ _ _ _ h h'

theorem si_interpVl (root : Mapping) (l : List Value) (r0 : Value) (st st' : RState)
    (r r' : Value) (h : Reclass.interpVl (n+1) root l r0 st = .ok r)
    (h' : Reclass.interpVl (n+1) root l r0 st' = .ok r') : r = r' := by
  cases l with
  | nil => simp only [interpVl_nil, Except.ok.injEq] at h h'; rw [← h, ← h']
  | cons v vs =>
    rw [interpVl_cons] at h h'
    rcases h1 : Reclass.interp n root v st with e | ⟨x, s1⟩
    · simp [h1] at h
    rcases h2 : Reclass.interp n root v st' with e | ⟨x', s1'⟩
    · simp [h2] at h'
    simp only [h1, h2] at h h'
    have hx := ih.interp _ _ _ _ _ _ _ _ h1 h2
    subst hx
    cases h3 : mergeV r0 x s1 with
    | error e => simp [h3] at h
    | ok y =>
      cases h4 : mergeV r0 x s1' with
      | error e => simp [h4] at h'
      | ok y' =>
        simp only [h3, h4] at h h'
        have hy := mergeV_indep h3 h4
        subst hy
        exact ih.interpVl _ _ _ _ _ _ _ h h'

theorem si_tokRender (root : Mapping) (t : Token) (st st' : RState) (x x' : Value)
    (s s' : RState) (h : Reclass.tokRender (n+1) root t st = .ok (x, s))
    (h' : Reclass.tokRender (n+1) root t st' = .ok (x', s')) : x = x' := by
  rw [tokRender_succ] at h h'
  rcases h1 : Reclass.tokResolve n root t st with e | ⟨v, s1⟩
  · simp [h1] at h
  rcases h2 : Reclass.tokResolve n root t st' with e | ⟨v', s1'⟩
  · simp [h2] at h'
  simp only [h1, h2] at h h'
  have hv := ih.tokResolve _ _ _ _ _ _ _ _ h1 h2
  subst hv
  cases t with
  | ref parts => exact ih.interp _ _ _ _ _ _ _ _ h h'
  | lit a =>
    simp only at h h'
    cases h3 : rawString v with
    | error e => simp [h3] at h
    | ok y =>
      simp only [h3, Except.ok.injEq, Prod.mk.injEq] at h h'
      rw [← h.1, ← h'.1]
  | combined ts =>
    simp only at h h'
    cases h3 : rawString v with
    | error e => simp [h3] at h
    | ok y =>
      simp only [h3, Except.ok.injEq, Prod.mk.injEq] at h h'
      rw [← h.1, ← h'.1]

theorem si_tokResolve (root : Mapping) (t : Token) (st st' : RState) (x x' : Value)
    (s s' : RState) (h : Reclass.tokResolve (n+1) root t st = .ok (x, s))
    (h' : Reclass.tokResolve (n+1) root t st' = .ok (x', s')) : x = x' := by
  cases t with
  | lit a =>
    simp only [tokResolve_lit, Except.ok.injEq, Prod.mk.injEq] at h h'; rw [← h.1, ← h'.1]
  | combined ts =>
    rw [tokResolve_combined] at h h'
    cases h1 : Reclass.slice n root ts st with
    | error e => simp [h1] at h
    | ok y =>
      cases h2 : Reclass.slice n root ts st' with
      | error e => simp [h2] at h'
      | ok y' =>
        simp only [h1, h2, Except.ok.injEq, Prod.mk.injEq] at h h'
        rw [← h.1, ← h'.1, ih.slice _ _ _ _ _ _ h1 h2]
  | ref parts =>
    rw [tokResolve_ref] at h h'
    by_cases hd : st.depth + 1 > maxDepth
    · simp [hd] at h
    by_cases hd' : st'.depth + 1 > maxDepth
    · simp [hd'] at h'
    simp only [hd, hd', if_false] at h h'
    cases h1 : Reclass.slice n root parts { st with depth := st.depth + 1 } with
    | error e => simp [h1] at h
    | ok path =>
      cases h2 : Reclass.slice n root parts { st' with depth := st'.depth + 1 } with
      | error e => simp [h2] at h'
      | ok path' =>
        simp only [h1, h2] at h h'
        have hp := ih.slice _ _ _ _ _ _ h1 h2
        subst hp
        by_cases hs : path ∈ st.seen
        · simp [hs] at h
        by_cases hs' : path ∈ st'.seen
        · simp [hs'] at h'
        simp only [hs, hs', if_false] at h h'
        cases hsp : splitColon path with
        | nil => simp [hsp] at h
        | cons k0 segs =>
          simp only [hsp] at h h'
          cases hg : root.get (.str k0) with
          | none => simp [hg] at h
          | some v0 =>
            simp only [hg] at h h'
            rcases h3 : Reclass.descend n root v0 segs
              { st with depth := st.depth + 1, seen := path :: st.seen } path with e | ⟨v, s3⟩
            · simp [h3] at h
            rcases h4 : Reclass.descend n root v0 segs
              { st' with depth := st'.depth + 1, seen := path :: st'.seen } path with e | ⟨v', s3'⟩
            · simp [h4] at h'
            simp only [h3, h4] at h h'
            have hv := ih.descend _ _ _ _ _ _ _ _ _ _ _ h3 h4
            subst hv
            exact ih.finalLoop _ _ _ _ _ _ _ _ h h'

theorem si_descend (root : Mapping) (v : Value) (ks : List Str) (st st' : RState) (p p' : Str)
    (x x' : Value) (s s' : RState) (h : Reclass.descend (n+1) root v ks st p = .ok (x, s))
    (h' : Reclass.descend (n+1) root v ks st' p' = .ok (x', s')) : x = x' := by
  cases ks with
  | nil => simp only [descend_nil, Except.ok.injEq, Prod.mk.injEq] at h h'; rw [← h.1, ← h'.1]
  | cons key rest =>
    rw [descend_cons] at h h'
    rcases h1 : Reclass.interpStrOrVl n root v st with e | ⟨nv, s1⟩
    · simp [h1] at h
    rcases h2 : Reclass.interpStrOrVl n root v st' with e | ⟨nv', s1'⟩
    · simp [h2] at h'
    simp only [h1, h2] at h h'
    have hv := ih.interpStrOrVl _ _ _ _ _ _ _ _ h1 h2
    subst hv
    cases nv with
    | map es ck ok =>
      simp only at h h'
      cases hl : lookup (.str key) es with
      | none => simp [hl] at h
      | some v1 =>
        simp only [hl] at h h'
        exact ih.descend _ _ _ _ _ _ _ _ _ _ _ h h'
    | _ => simp at h

theorem si_finalLoop (root : Mapping) (v : Value) (st st' : RState) (x x' : Value)
    (s s' : RState) (h : Reclass.finalLoop (n+1) root v st = .ok (x, s))
    (h' : Reclass.finalLoop (n+1) root v st' = .ok (x', s')) : x = x' := by
  rw [finalLoop_succ] at h h'
  by_cases hc : (v.isStr || v.isVl) = true
  · simp only [hc, if_true] at h h'
    rcases h1 : Reclass.interp n root v st with e | ⟨v1, s1⟩
    · simp [h1] at h
    rcases h2 : Reclass.interp n root v st' with e | ⟨v1', s1'⟩
    · simp [h2] at h'
    simp only [h1, h2] at h h'
    have hv := ih.interp _ _ _ _ _ _ _ _ h1 h2
    subst hv
    exact ih.finalLoop _ _ _ _ _ _ _ _ h h'
  · have hc' : (v.isStr || v.isVl) = false := by simpa using hc
    simp only [hc', Bool.false_eq_true, if_false, Except.ok.injEq, Prod.mk.injEq] at h h'
    rw [← h.1, ← h'.1]

theorem si_interpStrOrVl (root : Mapping) (v : Value) (st st' : RState) (x x' : Value)
    (s s' : RState) (h : Reclass.interpStrOrVl (n+1) root v st = .ok (x, s))
    (h' : Reclass.interpStrOrVl (n+1) root v st' = .ok (x', s')) : x = x' := by
  rw [interpStrOrVl_succ] at h h'
  cases v with
  | str t => simp only at h h'; exact ih.interp _ _ _ _ _ _ _ _ h h'
  | vl l =>
    simp only at h h'
    cases h1 : Reclass.layersStr n root l st with
    | error e => simp [h1] at h
    | ok i =>
      cases h2 : Reclass.layersStr n root l st' with
      | error e => simp [h2] at h'
      | ok i' =>
        simp only [h1, h2] at h h'
        have hi := ih.layersStr _ _ _ _ _ _ h1 h2
        subst hi
        cases h3 : flatVl i .null st with
        | error e => simp [h3] at h
        | ok y =>
          cases h4 : flatVl i .null st' with
          | error e => simp [h4] at h'
          | ok y' =>
            simp only [h3, h4, Except.ok.injEq, Prod.mk.injEq] at h h'
            rw [← h.1, ← h'.1, flatVl_indep h3 h4]
  | _ => simp only [Except.ok.injEq, Prod.mk.injEq] at h h'; rw [← h.1, ← h'.1]

theorem si_layersStr (root : Mapping) (l : List Value) (st st' : RState) (r r' : List Value)
    (h : Reclass.layersStr (n+1) root l st = .ok r)
    (h' : Reclass.layersStr (n+1) root l st' = .ok r') : r = r' := by
  cases l with
  | nil => simp only [layersStr_nil, Except.ok.injEq] at h h'; rw [← h, ← h']
  | cons v vs =>
    rw [layersStr_cons] at h h'
    by_cases hs : v.isStr = true
    · simp only [hs, if_true] at h h'
      rcases h1 : Reclass.interp n root v st with e | ⟨x, s1⟩
      · simp [h1] at h
      rcases h2 : Reclass.interp n root v st' with e | ⟨x', s1'⟩
      · simp [h2] at h'
      simp only [h1, h2] at h h'
      cases h3 : Reclass.layersStr n root vs st with
      | error e => simp [h3] at h
      | ok xs =>
        cases h4 : Reclass.layersStr n root vs st' with
        | error e => simp [h4] at h'
        | ok xs' =>
          simp only [h3, h4, Except.ok.injEq] at h h'
          rw [← h, ← h', ih.interp _ _ _ _ _ _ _ _ h1 h2, ih.layersStr _ _ _ _ _ _ h3 h4]
    · have hs' : v.isStr = false := by simpa using hs
      simp only [hs', Bool.false_eq_true, if_false] at h h'
      cases h3 : Reclass.layersStr n root vs st with
      | error e => simp [h3] at h
      | ok xs =>
        cases h4 : Reclass.layersStr n root vs st' with
        | error e => simp [h4] at h'
        | ok xs' =>
          simp only [h3, h4, Except.ok.injEq] at h h'
          rw [← h, ← h', ih.layersStr _ _ _ _ _ _ h3 h4]

theorem si_slice (root : Mapping) (ts : List Token) (st st' : RState) (r r' : Str)
    (h : Reclass.slice (n+1) root ts st = .ok r)
    (h' : Reclass.slice (n+1) root ts st' = .ok r') : r = r' := by
  cases ts with
  | nil => simp only [slice_nil, Except.ok.injEq] at h h'; rw [← h, ← h']
  | cons t ts =>
    rw [slice_cons] at h h'
    rcases h1 : Reclass.tokResolve n root t st with e | ⟨v, s1⟩
    · simp [h1] at h
    rcases h2 : Reclass.tokResolve n root t st' with e | ⟨v', s1'⟩
    · simp [h2] at h'
    simp only [h1, h2] at h h'
    have hv := ih.tokResolve _ _ _ _ _ _ _ _ h1 h2
    subst hv
    rcases h3 : Reclass.strLoop n root v s1 with e | ⟨w, s2⟩
    · simp [h3] at h
    rcases h4 : Reclass.strLoop n root v s1' with e | ⟨w', s2'⟩
    · simp [h4] at h'
    simp only [h3, h4] at h h'
    have hw := ih.strLoop _ _ _ _ _ _ _ _ h3 h4
    subst hw
    cases h5 : Reclass.sliceFinish n root w s2 with
    | error e => simp [h5] at h
    | ok a =>
      cases h6 : Reclass.sliceFinish n root w s2' with
      | error e => simp [h6] at h'
      | ok a' =>
        simp only [h5, h6] at h h'
        cases h7 : Reclass.slice n root ts st with
        | error e => simp [h7] at h
        | ok b =>
          cases h8 : Reclass.slice n root ts st' with
          | error e => simp [h8] at h'
          | ok b' =>
            simp only [h7, h8, Except.ok.injEq] at h h'
            rw [← h, ← h', ih.sliceFinish _ _ _ _ _ _ h5 h6, ih.slice _ _ _ _ _ _ h7 h8]

theorem si_strLoop (root : Mapping) (v : Value) (st st' : RState) (x x' : Value)
    (s s' : RState) (h : Reclass.strLoop (n+1) root v st = .ok (x, s))
    (h' : Reclass.strLoop (n+1) root v st' = .ok (x', s')) : x = x' := by
  rw [strLoop_succ] at h h'
  by_cases hc : v.isStr = true
  · simp only [hc, if_true] at h h'
    rcases h1 : Reclass.interp n root v st with e | ⟨v1, s1⟩
    · simp [h1] at h
    rcases h2 : Reclass.interp n root v st' with e | ⟨v1', s1'⟩
    · simp [h2] at h'
    simp only [h1, h2] at h h'
    have hv := ih.interp _ _ _ _ _ _ _ _ h1 h2
    subst hv
    exact ih.strLoop _ _ _ _ _ _ _ _ h h'
  · have hc' : v.isStr = false := by simpa using hc
    simp only [hc', Bool.false_eq_true, if_false, Except.ok.injEq, Prod.mk.injEq] at h h'
    rw [← h.1, ← h'.1]

theorem si_sliceFinish (root : Mapping) (v : Value) (st st' : RState) (r r' : Str)
    (h : Reclass.sliceFinish (n+1) root v st = .ok r)
    (h' : Reclass.sliceFinish (n+1) root v st' = .ok r') : r = r' := by
  rw [sliceFinish_succ] at h h'
  by_cases hc : (v.isMap || v.isSeq) = true
  · simp only [hc, if_true] at h h'
    rcases h1 : Reclass.interp n root v st with e | ⟨v1, s1⟩
    · simp [h1] at h
    rcases h2 : Reclass.interp n root v st' with e | ⟨v1', s1'⟩
    · simp [h2] at h'
    simp only [h1, h2] at h h'
    have hv := ih.interp _ _ _ _ _ _ _ _ h1 h2
    subst hv
    cases h3 : flat v1 s1 with
    | error e => simp [h3] at h
    | ok y =>
      cases h4 : flat v1 s1' with
      | error e => simp [h4] at h'
      | ok y' =>
        simp only [h3, h4] at h h'
        have hy := flat_indep h3 h4
        subst hy
        rw [h] at h'; exact Except.ok.inj h'
  · have hc' : (v.isMap || v.isSeq) = false := by simpa using hc
    simp only [hc', Bool.false_eq_true, if_false] at h h'
    rw [h] at h'; exact Except.ok.inj h'

end step

/-- State independence holds at every fuel. -/
theorem stIndep : ∀ n, StIndep n := by
  intro n
  induction n with
  | zero => exact stIndep_zero
  | succ n ih =>
    exact ⟨si_interp ih, si_interpL ih, si_interpEs ih, si_interpVl ih, si_tokRender ih,
      si_tokResolve ih, si_descend ih, si_finalLoop ih, si_interpStrOrVl ih, si_layersStr ih,
      si_slice ih, si_strLoop ih, si_sliceFinish ih⟩
/-! ## The root is read only through `Mapping.get` -/

/-- At fuel `n` all 13 evaluator functions give the same result for `root` and `root'`. -/
structure RootEq (root root' : Mapping) (n : Nat) : Prop where
  interp : ∀ v st, interp n root v st = interp n root' v st
  interpL : ∀ l idx st, interpL n root l idx st = interpL n root' l idx st
  interpEs : ∀ es ck ok st acc, interpEs n root es ck ok st acc = interpEs n root' es ck ok st acc
  interpVl : ∀ l r st, interpVl n root l r st = interpVl n root' l r st
  tokRender : ∀ t st, tokRender n root t st = tokRender n root' t st
  tokResolve : ∀ t st, tokResolve n root t st = tokResolve n root' t st
  descend : ∀ v ks st p, descend n root v ks st p = descend n root' v ks st p
  finalLoop : ∀ v st, finalLoop n root v st = finalLoop n root' v st
  interpStrOrVl : ∀ v st, interpStrOrVl n root v st = interpStrOrVl n root' v st
  layersStr : ∀ l st, layersStr n root l st = layersStr n root' l st
  slice : ∀ ts st, slice n root ts st = slice n root' ts st
  strLoop : ∀ v st, strLoop n root v st = strLoop n root' v st
  sliceFinish : ∀ v st, sliceFinish n root v st = sliceFinish n root' v st

theorem rootEq {root root' : Mapping} (hget : ∀ k, root.get k = root'.get k) :
    ∀ n, RootEq root root' n := by
  intro n
  induction n with
  | zero => constructor <;> intros <;> rfl
  | succ n ih =>
    obtain ⟨i1, i2, i3, i4, i5, i6, i7, i8, i9, i10, i11, i12, i13⟩ := ih
    constructor
    · intro v st; cases v <;> simp only [Reclass.interp, i5, i3, i2, i4, i1]
    · intro l idx st; cases l <;> simp only [Reclass.interpL, i1, i2]
    · intro es ck ok st acc
      cases es with
      | nil => rfl
      | cons e rest => obtain ⟨k, v⟩ := e; simp only [Reclass.interpEs, i1, i3]
    · intro l r st; cases l <;> simp only [Reclass.interpVl, i1, i4]
    · intro t st; simp only [Reclass.tokRender, i6, i1]
    · intro t st; cases t <;> simp only [Reclass.tokResolve, i11, hget, i7, i8]
    · intro v ks st p; cases ks <;> simp only [Reclass.descend, i9, i7]
    · intro v st; simp only [Reclass.finalLoop, i1, i8]
    · intro v st; cases v <;> simp only [Reclass.interpStrOrVl, i1, i10]
    · intro l st; cases l <;> simp only [Reclass.layersStr, i1, i10]
    · intro ts st; cases ts <;> simp only [Reclass.slice, i6, i12, i13, i11]
    · intro v st; simp only [Reclass.strLoop, i1, i12]
    · intro v st; simp only [Reclass.sliceFinish, i1]

/-! ## State *and* fuel independence (any two successful runs agree on the value) -/

theorem interp_indep {n m : Nat} {root : Mapping} {v : Value} {st st' : RState} {x x' : Value}
    {s s' : RState} (h : interp n root v st = .ok (x, s)) (h' : interp m root v st' = .ok (x', s')) :
    x = x' :=
  (stIndep (max n m)).interp _ _ _ _ _ _ _ _
    (interp_fuel_mono_le (Nat.le_max_left _ _) _ _ _ h (by simp))
    (interp_fuel_mono_le (Nat.le_max_right _ _) _ _ _ h' (by simp))

theorem interpL_indep {n m : Nat} {root : Mapping} {l : List Value} {idx idx' : Nat}
    {st st' : RState} {r r' : List Value} (h : interpL n root l idx st = .ok r)
    (h' : interpL m root l idx' st' = .ok r') : r = r' :=
  (stIndep (max n m)).interpL _ _ _ _ _ _ _ _
    (interpL_fuel_mono_le (Nat.le_max_left _ _) _ _ _ _ h (by simp))
    (interpL_fuel_mono_le (Nat.le_max_right _ _) _ _ _ _ h' (by simp))

theorem interpEs_indep {n m : Nat} {root : Mapping} {es : List (Key × Value)} {ck ok : List Key}
    {st st' : RState} {acc r r' : Mapping} (h : interpEs n root es ck ok st acc = .ok r)
    (h' : interpEs m root es ck ok st' acc = .ok r') : r = r' :=
  (stIndep (max n m)).interpEs _ _ _ _ _ _ _ _ _
    (interpEs_fuel_mono_le (Nat.le_max_left _ _) _ _ _ _ _ _ h (by simp))
    (interpEs_fuel_mono_le (Nat.le_max_right _ _) _ _ _ _ _ _ h' (by simp))

theorem interpVl_indep {n m : Nat} {root : Mapping} {l : List Value} {r0 : Value}
    {st st' : RState} {r r' : Value} (h : interpVl n root l r0 st = .ok r)
    (h' : interpVl m root l r0 st' = .ok r') : r = r' :=
  (stIndep (max n m)).interpVl _ _ _ _ _ _ _
    (interpVl_fuel_mono_le (Nat.le_max_left _ _) _ _ _ _ h (by simp))
    (interpVl_fuel_mono_le (Nat.le_max_right _ _) _ _ _ _ h' (by simp))

theorem tokRender_indep {n m : Nat} {root : Mapping} {t : Token} {st st' : RState} {x x' : Value}
    {s s' : RState} (h : tokRender n root t st = .ok (x, s))
    (h' : tokRender m root t st' = .ok (x', s')) : x = x' :=
  (stIndep (max n m)).tokRender _ _ _ _ _ _ _ _
    (tokRender_fuel_mono_le (Nat.le_max_left _ _) _ _ _ h (by simp))
    (tokRender_fuel_mono_le (Nat.le_max_right _ _) _ _ _ h' (by simp))

theorem tokResolve_indep {n m : Nat} {root : Mapping} {t : Token} {st st' : RState} {x x' : Value}
    {s s' : RState} (h : tokResolve n root t st = .ok (x, s))
    (h' : tokResolve m root t st' = .ok (x', s')) : x = x' :=
  (stIndep (max n m)).tokResolve _ _ _ _ _ _ _ _
    (tokResolve_fuel_mono_le (Nat.le_max_left _ _) _ _ _ h (by simp))
    (tokResolve_fuel_mono_le (Nat.le_max_right _ _) _ _ _ h' (by simp))

theorem descend_indep {n m : Nat} {root : Mapping} {v : Value} {ks : List Str} {st st' : RState}
    {p p' : Str} {x x' : Value} {s s' : RState} (h : descend n root v ks st p = .ok (x, s))
    (h' : descend m root v ks st' p' = .ok (x', s')) : x = x' :=
  (stIndep (max n m)).descend _ _ _ _ _ _ _ _ _ _ _
    (descend_fuel_mono_le (Nat.le_max_left _ _) _ _ _ _ _ h (by simp))
    (descend_fuel_mono_le (Nat.le_max_right _ _) _ _ _ _ _ h' (by simp))

theorem finalLoop_indep {n m : Nat} {root : Mapping} {v : Value} {st st' : RState} {x x' : Value}
    {s s' : RState} (h : finalLoop n root v st = .ok (x, s))
    (h' : finalLoop m root v st' = .ok (x', s')) : x = x' :=
  (stIndep (max n m)).finalLoop _ _ _ _ _ _ _ _
    (finalLoop_fuel_mono_le (Nat.le_max_left _ _) _ _ _ h (by simp))
    (finalLoop_fuel_mono_le (Nat.le_max_right _ _) _ _ _ h' (by simp))

theorem interpStrOrVl_indep {n m : Nat} {root : Mapping} {v : Value} {st st' : RState}
    {x x' : Value} {s s' : RState} (h : interpStrOrVl n root v st = .ok (x, s))
    (h' : interpStrOrVl m root v st' = .ok (x', s')) : x = x' :=
  (stIndep (max n m)).interpStrOrVl _ _ _ _ _ _ _ _
    (interpStrOrVl_fuel_mono_le (Nat.le_max_left _ _) _ _ _ h (by simp))
    (interpStrOrVl_fuel_mono_le (Nat.le_max_right _ _) _ _ _ h' (by simp))

theorem layersStr_indep {n m : Nat} {root : Mapping} {l : List Value} {st st' : RState}
    {r r' : List Value} (h : layersStr n root l st = .ok r)
    (h' : layersStr m root l st' = .ok r') : r = r' :=
  (stIndep (max n m)).layersStr _ _ _ _ _ _
    (layersStr_fuel_mono_le (Nat.le_max_left _ _) _ _ _ h (by simp))
    (layersStr_fuel_mono_le (Nat.le_max_right _ _) _ _ _ h' (by simp))

theorem slice_indep {n m : Nat} {root : Mapping} {ts : List Token} {st st' : RState}
    {r r' : Str} (h : slice n root ts st = .ok r) (h' : slice m root ts st' = .ok r') : r = r' :=
  (stIndep (max n m)).slice _ _ _ _ _ _
    (slice_fuel_mono_le (Nat.le_max_left _ _) _ _ _ h (by simp))
    (slice_fuel_mono_le (Nat.le_max_right _ _) _ _ _ h' (by simp))

theorem strLoop_indep {n m : Nat} {root : Mapping} {v : Value} {st st' : RState} {x x' : Value}
    {s s' : RState} (h : strLoop n root v st = .ok (x, s))
    (h' : strLoop m root v st' = .ok (x', s')) : x = x' :=
  (stIndep (max n m)).strLoop _ _ _ _ _ _ _ _
    (strLoop_fuel_mono_le (Nat.le_max_left _ _) _ _ _ h (by simp))
    (strLoop_fuel_mono_le (Nat.le_max_right _ _) _ _ _ h' (by simp))

theorem sliceFinish_indep {n m : Nat} {root : Mapping} {v : Value} {st st' : RState}
    {r r' : Str} (h : sliceFinish n root v st = .ok r) (h' : sliceFinish m root v st' = .ok r') :
    r = r' :=
  (stIndep (max n m)).sliceFinish _ _ _ _ _ _
    (sliceFinish_fuel_mono_le (Nat.le_max_left _ _) _ _ _ h (by simp))
    (sliceFinish_fuel_mono_le (Nat.le_max_right _ _) _ _ _ h' (by simp))

/-! ## Small facts (own copies, so that this file only relies on the fuel-monotonicity part and
the unfolding equations of `Lemmas/Fuel`) -/

theorem splitColon_noColon {a : Str} (h : ':' ∉ a) : splitColon a = [a] := by
  induction a with
  | nil => rfl
  | cons c cs ih =>
    have hc : c ≠ ':' := fun e => h (by simp [e])
    have hcs : ':' ∉ cs := fun m => h (List.mem_cons_of_mem _ m)
    simp [splitColon, ih hcs, hc]

/-- A path that is a single literal piece renders to itself (fuel ≥ 2). -/
theorem slice_lit (k : Nat) (root : Mapping) (a : Str) (st : RState) :
    slice (k+2) root [.lit a] st = .ok a := by
  simp [slice_cons, tokResolve_lit, strLoop_succ, sliceFinish_succ, slice_nil, rawString,
    Value.isStr, Value.isMap, Value.isSeq]

theorem mem_of_lookup {k : Key} {v : Value} {es : List (Key × Value)} (h : lookup k es = some v) :
    (k, v) ∈ es := by
  induction es with
  | nil => simp [lookup] at h
  | cons kv es ih =>
    obtain ⟨k', v'⟩ := kv
    simp only [lookup] at h
    by_cases hk : k' = k
    · simp only [hk, if_true, Option.some.injEq] at h; simp [hk, h]
    · simp only [hk, if_false] at h; exact List.mem_cons_of_mem _ (ih h)

/-! ## Pieces of `Token::resolve` -/

/-- A reference path consisting of one literal piece renders to that text. -/
theorem slice_single_lit_eq {n : Nat} {root : Mapping} {a p : Str} {st : RState}
    (h : slice n root [.lit a] st = .ok p) : p = a := by
  match n with
  | 0 => simp [slice] at h
  | 1 => simp [slice_cons, tokResolve] at h
  | k+2 => rw [slice_lit] at h; exact (Except.ok.inj h).symm

/-- The value found by walking a `:`-separated path through *raw* (unmerged, unrendered)
mappings: `none` as soon as a value on the way is not a plain mapping or lacks the key. -/
def rawPath : Value → List Str → Option Value
  | v, [] => some v
  | .map es _ _, k :: ks =>
    match lookup (.str k) es with
    | some v' => rawPath v' ks
    | none => none
  | _, _ :: _ => none

theorem rawPath_wf : ∀ (segs : List Str) (v0 v : Value), WF v0 → rawPath v0 segs = some v → WF v
  | [], v0, v, hw, h => by simp only [rawPath, Option.some.injEq] at h; exact h ▸ hw
  | k :: ks, v0, v, hw, h => by
    cases v0 with
    | map es ck ok =>
      simp only [rawPath] at h
      cases hl : lookup (.str k) es with
      | none => simp [hl] at h
      | some v' =>
        simp only [hl] at h
        simp only [WF] at hw
        exact rawPath_wf ks v' v (lookup_some_wf hw.1 hl) h
    | _ => simp [rawPath] at h

/-- Through raw mappings the lookup loop of `Token::resolve` is iterated `IndexMap::get`; the
state is not touched. -/
theorem descend_raw {root : Mapping} {path : Str} :
    ∀ (segs : List Str) (n : Nat) (v0 v : Value) (st : RState) (x : Value) (s : RState),
    rawPath v0 segs = some v → descend n root v0 segs st path = .ok (x, s) → x = v ∧ s = st
  | [], n, v0, v, st, x, s, hr, h => by
    cases n with
    | zero => simp [descend] at h
    | succ n =>
      simp only [rawPath, Option.some.injEq] at hr
      simp only [descend_nil, Except.ok.injEq, Prod.mk.injEq] at h
      exact ⟨h.1.symm.trans hr, h.2.symm⟩
  | k :: ks, n, v0, v, st, x, s, hr, h => by
    cases n with
    | zero => simp [descend] at h
    | succ n =>
      cases v0 with
      | map es ck ok =>
        simp only [rawPath] at hr
        cases hl : lookup (.str k) es with
        | none => simp [hl] at hr
        | some v' =>
          simp only [hl] at hr
          rw [descend_cons] at h
          cases n with
          | zero => simp [interpStrOrVl] at h
          | succ n =>
            rw [interpStrOrVl_succ] at h
            simp only [hl] at h
            exact descend_raw ks _ v' v st x s hr h
      | _ => simp [rawPath] at hr

/-- The trailing `while` loop of `Token::resolve` runs at most once: it returns its input if that
is neither a string nor a layer list, and otherwise what one `interpolate` of it returns. -/
theorem finalLoop_cases {n : Nat} {root : Mapping} {v x : Value} {st s : RState}
    (h : finalLoop n root v st = .ok (x, s)) :
    (x = v ∧ s = st ∧ (v.isStr || v.isVl) = false) ∨
    ((v.isStr || v.isVl) = true ∧ ∃ k, interp k root v st = .ok (x, s)) := by
  cases n with
  | zero => simp [finalLoop] at h
  | succ n =>
    rw [finalLoop_succ] at h
    by_cases hc : (v.isStr || v.isVl) = true
    · simp only [hc, if_true] at h
      rcases h1 : interp n root v st with e | ⟨v1, s1⟩
      · simp [h1] at h
      simp only [h1] at h
      have hns := C07.interp_never_str_vl h1
      cases n with
      | zero => simp [finalLoop] at h
      | succ n =>
        rw [finalLoop_succ] at h
        have hc1 : (v1.isStr || v1.isVl) = false := by
          cases v1 <;> simp [Value.isStr, Value.isVl] at hns ⊢
        simp only [hc1, Bool.false_eq_true, if_false, Except.ok.injEq, Prod.mk.injEq] at h
        exact Or.inr ⟨hc, n + 1, by rw [h1, h.1, h.2]⟩
    · have hc' : (v.isStr || v.isVl) = false := by simpa using hc
      simp only [hc', Bool.false_eq_true, if_false, Except.ok.injEq, Prod.mk.injEq] at h
      exact Or.inl ⟨h.1.symm, h.2.symm, hc'⟩

/-- **Core of "a reference yields the final value".**  What `Token::render` does with the raw
value `v0` found at the end of the path — the trailing loop (`finalLoop`) followed by one more
`interpolate` — gives, up to the flag sets, what a direct `interpolate` of `v0` gives, from any
state and with any fuel. -/
theorem finalLoop_then_interp {a b m : Nat} {root : Mapping} {v0 v r r0 : Value}
    {s s3 s' s0 s0' : RState} (hr : WF root.toValue) (hv0 : WF v0)
    (h1 : finalLoop a root v0 s = .ok (v, s3)) (h2 : interp b root v s3 = .ok (r, s'))
    (h0 : interp m root v0 s0 = .ok (r0, s0')) : erase r = erase r0 := by
  rcases finalLoop_cases h1 with ⟨hv, _, _⟩ | ⟨_, k, hk⟩
  · subst hv
    rw [interp_indep h2 h0]
  · have hv : v = r0 := interp_indep hk h0
    subst hv
    obtain ⟨hc, hw⟩ := C07.interp_closed hr hv0 hk
    obtain ⟨r', hr', he⟩ := C07.interp_closed_id (n := max b (size v)) (root := root) (st := s3)
      hc hw (Nat.le_max_right _ _)
    have := interp_indep h2 hr'
    rw [this, he]

/-! ## `lookup` facts (own copies: `Lemmas/MappingL` cannot be imported next to `Lemmas/ClosedL`) -/

theorem lookup_append (k : Key) (a b : List (Key × Value)) :
    lookup k (a ++ b) = match lookup k a with | some v => some v | none => lookup k b := by
  induction a with
  | nil => rfl
  | cons e a ih =>
    obtain ⟨k', v'⟩ := e
    by_cases h : k' = k
    · simp [lookup, h]
    · simp only [List.cons_append, lookup, h, if_false, ih]

theorem lookup_append_mem {k : Key} {a : List (Key × Value)} (b : List (Key × Value))
    (h : k ∈ keys a) : lookup k (a ++ b) = lookup k a := by
  rw [lookup_append]
  cases hl : lookup k a with
  | none => exact absurd h (lookup_none_iff.1 hl)
  | some v => rfl

theorem lookup_append_fresh {k : Key} {a : List (Key × Value)} (v : Value)
    (h : k ∉ keys a) : lookup k (a ++ [(k, v)]) = some v := by
  rw [lookup_append, lookup_none_iff.2 h]; simp [lookup]

theorem lookup_eraseEs (k : Key) (es : List (Key × Value)) :
    lookup k (eraseEs es) = (lookup k es).map erase := by
  induction es with
  | nil => rfl
  | cons e es ih =>
    obtain ⟨k', v'⟩ := e
    by_cases h : k' = k
    · simp [eraseEs, lookup, h]
    · simp only [eraseEs, lookup, h, if_false, ih]

theorem lookup_of_mem_nodup {k : Key} {v : Value} {es : List (Key × Value)}
    (hn : (keys es).Nodup) (h : (k, v) ∈ es) : lookup k es = some v := by
  induction es with
  | nil => simp at h
  | cons e es ih =>
    obtain ⟨k', v'⟩ := e
    simp only [keys, List.map_cons, List.nodup_cons] at hn
    rcases List.mem_cons.1 h with heq | hmem
    · simp only [Prod.mk.injEq] at heq
      simp [lookup, heq.1, heq.2]
    · have hne : k' ≠ k := by
        intro e; subst e
        exact hn.1 (List.mem_map.2 ⟨(k', v), hmem, rfl⟩)
      simp only [lookup, hne, if_false]
      exact ih hn.2 hmem

theorem mem_keys_of_mem {k : Key} {v : Value} {es : List (Key × Value)} (h : (k, v) ∈ es) :
    k ∈ keys es := List.mem_map.2 ⟨(k, v), h, rfl⟩

/-! ## Permuted entry lists -/

/-- With distinct keys, `IndexMap::get` does not see the order of the entries. -/
theorem lookup_perm {es es' : List (Key × Value)} (hp : es.Perm es') (hn : (keys es).Nodup)
    (k : Key) : lookup k es = lookup k es' := by
  induction hp with
  | nil => rfl
  | cons x _ ih =>
    obtain ⟨k', v'⟩ := x
    simp only [keys, List.map_cons, List.nodup_cons] at hn
    by_cases h : k' = k
    · simp [lookup, h]
    · simp only [lookup, h, if_false]; exact ih hn.2
  | swap x y l =>
    obtain ⟨kx, vx⟩ := x
    obtain ⟨ky, vy⟩ := y
    simp only [keys, List.map_cons, List.nodup_cons, List.mem_cons, not_or] at hn
    have hne : ky ≠ kx := hn.1.1
    by_cases h1 : kx = k
    · have h2 : ky ≠ k := fun e => hne (e.trans h1.symm)
      simp [lookup, h1, h2]
    · by_cases h2 : ky = k
      · simp [lookup, h1, h2]
      · simp [lookup, h1, h2]
  | trans h1 _ ih1 ih2 =>
    have hn2 := (List.Perm.nodup_iff (List.Perm.map Prod.fst h1)).1 hn
    exact (ih1 hn).trans (ih2 hn2)

theorem filterMap_congr' {α β : Type} {f g : α → Option β} :
    ∀ {l : List α}, (∀ x ∈ l, f x = g x) → l.filterMap f = l.filterMap g
  | [], _ => rfl
  | x :: l, h => by
    have hx := h x (by simp)
    have hl := filterMap_congr' (l := l) (fun y hy => h y (List.mem_cons_of_mem _ hy))
    simp only [List.filterMap_cons, hx, hl]

/-- An entry list with distinct keys is determined by its key order and its `lookup` function. -/
theorem es_eq_filterMap {es : List (Key × Value)} (hn : (keys es).Nodup) :
    es = (keys es).filterMap (fun k => (lookup k es).map (Prod.mk k)) := by
  induction es with
  | nil => rfl
  | cons e es ih =>
    obtain ⟨k', v'⟩ := e
    simp only [keys, List.map_cons, List.nodup_cons] at hn
    simp only [keys, List.map_cons, List.filterMap_cons, lookup, if_true, Option.map_some]
    congr 1
    conv => lhs; rw [ih hn.2]
    apply filterMap_congr'
    intro k hk
    have hne : k' ≠ k := fun e => hn.1 (e ▸ hk)
    simp [hne]

/-- Same keys up to order, same `lookup` function ⇒ the entry lists are permutations. -/
theorem perm_of_lookup_eq {a b : List (Key × Value)} (hk : (keys a).Perm (keys b))
    (hn : (keys a).Nodup) (hl : ∀ k, lookup k a = lookup k b) : a.Perm b := by
  have hnb : (keys b).Nodup := (List.Perm.nodup_iff hk).1 hn
  rw [es_eq_filterMap hn, es_eq_filterMap hnb]
  have : (fun k => (lookup k a).map (Prod.mk k)) = (fun k => (lookup k b).map (Prod.mk k)) := by
    funext k; rw [hl k]
  rw [this]
  exact List.Perm.filterMap _ hk

theorem wfEs_perm {es es' : List (Key × Value)} (hp : es.Perm es') (h : WFEs es) : WFEs es' := by
  induction hp with
  | nil => exact h
  | cons x _ ih => obtain ⟨k, v⟩ := x; simp only [WFEs] at h ⊢; exact ⟨h.1, h.2.1, ih h.2.2⟩
  | swap x y l =>
    obtain ⟨kx, vx⟩ := x; obtain ⟨ky, vy⟩ := y
    simp only [WFEs] at h ⊢
    exact ⟨h.2.2.1, h.2.2.2.1, h.1, h.2.1, h.2.2.2.2⟩
  | trans _ _ ih1 ih2 => exact ih2 (ih1 h)

/-- Well-formedness of a mapping does not depend on the order of its entries or on its flags. -/
theorem wf_map_perm {es es' : List (Key × Value)} {ck ok ck' ok' : List Key} (hp : es.Perm es')
    (h : WF (.map es ck ok)) : WF (.map es' ck' ok') := by
  simp only [WF] at h ⊢
  exact ⟨wfEs_perm hp h.1, (List.Perm.nodup_iff (List.Perm.map Prod.fst hp)).1 h.2⟩

/-! ## `Mapping::interpolate` / `Mapping::flattened`, entry by entry -/

/-- A successful `Mapping::interpolate` of well-formed entries (distinct marker-free keys, none
of them in the accumulator): accumulator entries are untouched and every entry `(k, v)` ends up
as `flattened(interpolate(v))`, each computed from the *incoming* state with `k` pushed. -/
theorem interpEs_entries {root : Mapping} {ck ok : List Key} {st : RState} :
    ∀ (es : List (Key × Value)) (n : Nat) (acc m : Mapping),
    WFEs es → (keys acc.es ++ keys es).Nodup → interpEs n root es ck ok st acc = .ok m →
    (∀ k, k ∈ keys acc.es → lookup k m.es = lookup k acc.es) ∧
    ∀ k v, (k, v) ∈ es → ∃ x s y, interp n root v (st.pushMappingKey k) = .ok (x, s) ∧
      flat x s = .ok y ∧ lookup k m.es = some y := by
  intro es
  induction es with
  | nil =>
    intro n acc m _ _ h
    cases n with
    | zero => simp [interpEs] at h
    | succ n =>
      simp only [interpEs_nil, Except.ok.injEq] at h
      subst h
      exact ⟨fun _ _ => rfl, fun _ _ hm => by simp at hm⟩
  | cons e rest ih =>
    obtain ⟨k0, v0⟩ := e
    intro n acc m hes hnd h
    cases n with
    | zero => simp [interpEs] at h
    | succ n =>
      rw [interpEs_cons] at h
      simp only [WFEs] at hes
      rcases h1 : interp n root v0 (st.pushMappingKey k0) with e | ⟨v1, s1⟩
      · simp [h1] at h
      simp only [h1] at h
      cases h2 : flat v1 s1 with
      | error e => simp [h2] at h
      | ok v2 =>
        simp only [h2] at h
        have hstep := nodup_keys_step (by simpa [keys] using hnd : (keys acc.es ++ k0 :: keys rest).Nodup)
        rw [insertImpl_fresh_eq acc v2 _ _ hes.1 hstep.1] at h
        simp only at h
        obtain ⟨A, B⟩ := ih n _ m hes.2.2 (by simpa [keys] using hstep.2) h
        simp only at A
        refine ⟨?_, ?_⟩
        · intro k hk
          rw [A k (by simp [keys] at hk ⊢; exact Or.inl hk), lookup_append_mem _ hk]
        · intro k v hm
          rcases List.mem_cons.1 hm with heq | hmem
          · simp only [Prod.mk.injEq] at heq
            obtain ⟨rfl, rfl⟩ := heq
            refine ⟨v1, s1, v2, interp_fuel_mono _ _ _ h1 (by simp), h2, ?_⟩
            rw [A k (by simp [keys]), lookup_append_fresh _ hstep.1]
          · obtain ⟨x, s, y, hx, hy, hl⟩ := B k v hmem
            exact ⟨x, s, y, interp_fuel_mono _ _ _ hx (by simp), hy, hl⟩

/-- The same for `Mapping::flattened`. -/
theorem flatEs_entries {ck ok : List Key} {st : RState} :
    ∀ (es : List (Key × Value)) (acc m : Mapping),
    WFEs es → (keys acc.es ++ keys es).Nodup → flatEs es ck ok st acc = .ok m →
    (∀ k, k ∈ keys acc.es → lookup k m.es = lookup k acc.es) ∧
    ∀ k v, (k, v) ∈ es → ∃ y, flat v st = .ok y ∧ lookup k m.es = some y := by
  intro es
  induction es with
  | nil =>
    intro acc m _ _ h
    simp only [flatEs, Except.ok.injEq] at h
    subst h
    exact ⟨fun _ _ => rfl, fun _ _ hm => by simp at hm⟩
  | cons e rest ih =>
    obtain ⟨k0, v0⟩ := e
    intro acc m hes hnd h
    simp only [flatEs] at h
    simp only [WFEs] at hes
    cases h2 : flat v0 st with
    | error e => simp [h2] at h
    | ok v2 =>
      simp only [h2] at h
      have hstep := nodup_keys_step (by simpa [keys] using hnd : (keys acc.es ++ k0 :: keys rest).Nodup)
      rw [insertImpl_fresh_eq acc v2 _ _ hes.1 hstep.1] at h
      simp only at h
      obtain ⟨A, B⟩ := ih _ m hes.2.2 (by simpa [keys] using hstep.2) h
      simp only at A
      refine ⟨?_, ?_⟩
      · intro k hk
        rw [A k (by simp [keys] at hk ⊢; exact Or.inl hk), lookup_append_mem _ hk]
      · intro k v hm
        rcases List.mem_cons.1 hm with heq | hmem
        · simp only [Prod.mk.injEq] at heq
          obtain ⟨rfl, rfl⟩ := heq
          exact ⟨v2, h2, by rw [A k (by simp [keys]), lookup_append_fresh _ hstep.1]⟩
        · exact B k v hmem

/-- Conversely, entries that interpolate and flatten one by one (each from the incoming state)
make the whole mapping interpolate, in *any* order of the entries; `tgt` records the results. -/
theorem interpEs_build {root : Mapping} {ck ok : List Key} {st : RState}
    {tgt : List (Key × Value)} (n : Nat) :
    ∀ (es : List (Key × Value)) (acc : Mapping),
    WFEs es → (keys acc.es ++ keys es).Nodup →
    (∀ k v, (k, v) ∈ es → ∃ x s y, interp n root v (st.pushMappingKey k) = .ok (x, s) ∧
      flat x s = .ok y ∧ lookup k tgt = some y) →
    ∃ m, interpEs (n + es.length + 1) root es ck ok st acc = .ok m ∧
      (∀ k, k ∈ keys acc.es → lookup k m.es = lookup k acc.es) ∧
      (∀ k, k ∈ keys es → lookup k m.es = lookup k tgt) := by
  intro es
  induction es with
  | nil =>
    intro acc _ _ _
    exact ⟨acc, rfl, fun _ _ => rfl, fun _ hk => by simp [keys] at hk⟩
  | cons e rest ih =>
    obtain ⟨k0, v0⟩ := e
    intro acc hes hnd hall
    simp only [WFEs] at hes
    obtain ⟨v1, s1, v2, h1, h2, h3⟩ := hall k0 v0 (by simp)
    have hstep := nodup_keys_step (by simpa [keys] using hnd : (keys acc.es ++ k0 :: keys rest).Nodup)
    obtain ⟨m, hm, A, B⟩ := ih ⟨acc.es ++ [(k0, v2)],
        if decide (k0 ∈ ck) then setInsert k0 acc.ck else acc.ck,
        if decide (k0 ∈ ok) then setInsert k0 acc.ok else acc.ok⟩
      hes.2.2 (by simpa [keys] using hstep.2)
      (fun k v hkv => hall k v (List.mem_cons_of_mem _ hkv))
    simp only at A
    refine ⟨m, ?_, ?_, ?_⟩
    · have e : n + ((k0, v0) :: rest).length + 1 = (n + rest.length + 1) + 1 := by
        simp only [List.length_cons]; omega
      rw [e, interpEs_cons]
      have h1' := interp_fuel_mono_le (m := n + rest.length + 1) (by omega) _ _ _ h1 (by simp)
      simp only [h1', h2]
      rw [insertImpl_fresh_eq acc v2 _ _ hes.1 hstep.1]
      exact hm
    · intro k hk
      rw [A k (by simp [keys] at hk ⊢; exact Or.inl hk), lookup_append_mem _ hk]
    · intro k hk
      simp only [keys, List.map_cons, List.mem_cons] at hk
      rcases hk with rfl | hk
      · rw [A k (by simp [keys]), lookup_append_fresh _ hstep.1, h3]
      · exact B k hk

/-- The same for `Mapping::flattened`. -/
theorem flatEs_build {ck ok : List Key} {st : RState} {tgt : List (Key × Value)} :
    ∀ (es : List (Key × Value)) (acc : Mapping),
    WFEs es → (keys acc.es ++ keys es).Nodup →
    (∀ k v, (k, v) ∈ es → ∃ y, flat v st = .ok y ∧ lookup k tgt = some y) →
    ∃ m, flatEs es ck ok st acc = .ok m ∧
      (∀ k, k ∈ keys acc.es → lookup k m.es = lookup k acc.es) ∧
      (∀ k, k ∈ keys es → lookup k m.es = lookup k tgt) := by
  intro es
  induction es with
  | nil =>
    intro acc _ _ _
    exact ⟨acc, rfl, fun _ _ => rfl, fun _ hk => by simp [keys] at hk⟩
  | cons e rest ih =>
    obtain ⟨k0, v0⟩ := e
    intro acc hes hnd hall
    simp only [WFEs] at hes
    obtain ⟨v2, h2, h3⟩ := hall k0 v0 (by simp)
    have hstep := nodup_keys_step (by simpa [keys] using hnd : (keys acc.es ++ k0 :: keys rest).Nodup)
    obtain ⟨m, hm, A, B⟩ := ih ⟨acc.es ++ [(k0, v2)],
        if decide (k0 ∈ ck) then setInsert k0 acc.ck else acc.ck,
        if decide (k0 ∈ ok) then setInsert k0 acc.ok else acc.ok⟩
      hes.2.2 (by simpa [keys] using hstep.2)
      (fun k v hkv => hall k v (List.mem_cons_of_mem _ hkv))
    simp only at A
    refine ⟨m, ?_, ?_, ?_⟩
    · simp only [flatEs, h2]
      rw [insertImpl_fresh_eq acc v2 _ _ hes.1 hstep.1]
      exact hm
    · intro k hk
      rw [A k (by simp [keys] at hk ⊢; exact Or.inl hk), lookup_append_mem _ hk]
    · intro k hk
      simp only [keys, List.map_cons, List.mem_cons] at hk
      rcases hk with rfl | hk
      · rw [A k (by simp [keys]), lookup_append_fresh _ hstep.1, h3]
      · exact B k hk


/-- `flattened` of closed, well-formed data: same data up to the flag sets, still closed and
well-formed (whatever the state). -/
theorem flat_erase {v y : Value} {st : RState} (hc : Closed v) (hw : WF v)
    (h : flat v st = .ok y) : erase y = erase v ∧ Closed y ∧ WF y := by
  obtain ⟨r, hr, he⟩ := C07.flat_closed_id (st := st) hc hw
  have : y = r := Except.ok.inj (h.symm.trans hr)
  subst this
  exact ⟨he, closed_of_erase_eq he hc, wf_of_erase_eq he hw⟩

/-! ## `rawPath` through erased and through interpolated values -/

theorem rawPath_erase : ∀ (segs : List Str) (v : Value),
    rawPath (erase v) segs = (rawPath v segs).map erase
  | [], v => by simp [rawPath]
  | k :: ks, v => by
    cases v with
    | map es ck ok =>
      simp only [erase, rawPath, lookup_eraseEs]
      cases hl : lookup (.str k) es with
      | none => simp
      | some v' => simp only [Option.map_some]; exact rawPath_erase ks v'
    | _ => simp [erase, rawPath]

/-- Values equal up to flag sets have the same `rawPath`s up to flag sets. -/
theorem rawPath_of_erase_eq {a b : Value} (h : erase a = erase b) {segs : List Str} {x : Value}
    (hx : rawPath b segs = some x) : ∃ y, rawPath a segs = some y ∧ erase y = erase x := by
  have := rawPath_erase segs a
  rw [h, rawPath_erase segs b, hx] at this
  cases hy : rawPath a segs with
  | none => simp [hy] at this
  | some y => exact ⟨y, rfl, by simpa [hy] using this.symm⟩

/-- Interpolation commutes with walking a path through raw mappings: if the raw value `v0` has
the raw value `vt` at `segs`, then the interpolated `v0` has at `segs` — up to flag sets — what
`vt` interpolates to. -/
theorem interp_rawPath {root : Mapping} (hr : WF root.toValue) :
    ∀ (segs : List Str) (n : Nat) (v0 vt x0 : Value) (st s : RState), WF v0 →
    rawPath v0 segs = some vt → interp n root v0 st = .ok (x0, s) →
    ∃ xt' xt j st1 s1, rawPath x0 segs = some xt' ∧ interp j root vt st1 = .ok (xt, s1) ∧
      erase xt' = erase xt
  | [], n, v0, vt, x0, st, s, _, hraw, h => by
    simp only [rawPath, Option.some.injEq] at hraw
    subst hraw
    exact ⟨x0, x0, n, st, s, by simp [rawPath], h, rfl⟩
  | k :: ks, n, v0, vt, x0, st, s, hw, hraw, h => by
    cases v0 with
    | map es ck ok =>
      simp only [rawPath] at hraw
      cases hl : lookup (.str k) es with
      | none => simp [hl] at hraw
      | some v1 =>
        simp only [hl] at hraw
        simp only [WF] at hw
        cases n with
        | zero => simp [interp] at h
        | succ n =>
          rw [interp_map] at h
          cases h1 : interpEs n root es ck ok st {} with
          | error e => simp [h1] at h
          | ok m =>
            simp only [h1, Except.ok.injEq, Prod.mk.injEq] at h
            obtain ⟨_, E⟩ := interpEs_entries es n {} m hw.1 (by simpa using hw.2) h1
            obtain ⟨x1, s1, y1, hx1, hy1, hl1⟩ := E _ _ (mem_of_lookup hl)
            have hv1 : WF v1 := lookup_some_wf hw.1 hl
            obtain ⟨hc1, hw1⟩ := C07.interp_closed hr hv1 hx1
            obtain ⟨e1, _, _⟩ := flat_erase hc1 hw1 hy1
            obtain ⟨xt', xt, j, st1, s1', hp, hi, he⟩ :=
              interp_rawPath hr ks n v1 vt x1 _ s1 hv1 hraw hx1
            obtain ⟨yt, hyt, hye⟩ := rawPath_of_erase_eq e1 hp
            refine ⟨yt, xt, j, st1, s1', ?_, hi, hye.trans he⟩
            rw [← h.1]
            simp only [Mapping.toValue, rawPath, hl1]
            exact hyt
    | _ => simp [rawPath] at hraw

end Refs
end Reclass
