/-
  Helper lemmas for the inventory aggregation loop (C12, C13):
  the string order, `indexPush`, `sortAll`, and the loop `Inventory.collect`.
-/
import Reclass.Model.Inventory
namespace Reclass

/-! ### `strLt` is a strict total order -/

theorem strLt_irrefl (a : Str) : strLt a a = false := by
  induction a with
  | nil => rfl
  | cons x xs ih => simp [strLt, ih]

theorem strLt_trans : ∀ {a b c : Str}, strLt a b = true → strLt b c = true → strLt a c = true := by
  intro a
  induction a with
  | nil =>
    intro b c h1 h2
    cases b with
    | nil => simp [strLt] at h1
    | cons y ys =>
      cases c with
      | nil => simp [strLt] at h2
      | cons z zs => simp [strLt]
  | cons x xs ih =>
    intro b c h1 h2
    cases b with
    | nil => simp [strLt] at h1
    | cons y ys =>
      cases c with
      | nil => simp [strLt] at h2
      | cons z zs =>
        simp only [strLt] at h1 h2 ⊢
        by_cases hxy : x.toNat < y.toNat
        · by_cases hyz : y.toNat < z.toNat
          · have : x.toNat < z.toNat := by omega
            simp [this]
          · by_cases hzy : z.toNat < y.toNat
            · simp [hyz, hzy] at h2
            · have : x.toNat < z.toNat := by omega
              simp [this]
        · by_cases hyx : y.toNat < x.toNat
          · simp [hxy, hyx] at h1
          · simp only [hxy, hyx, if_false] at h1
            by_cases hyz : y.toNat < z.toNat
            · have : x.toNat < z.toNat := by omega
              simp [this]
            · by_cases hzy : z.toNat < y.toNat
              · simp [hyz, hzy] at h2
              · simp only [hyz, hzy, if_false] at h2
                have h3 : ¬ x.toNat < z.toNat := by omega
                have h4 : ¬ z.toNat < x.toNat := by omega
                simp only [h3, h4, if_false]
                exact ih h1 h2

theorem strLt_trichotomy : ∀ (a b : Str), strLt a b = true ∨ a = b ∨ strLt b a = true := by
  intro a
  induction a with
  | nil =>
    intro b
    cases b with
    | nil => exact .inr (.inl rfl)
    | cons y ys => exact .inl (by simp [strLt])
  | cons x xs ih =>
    intro b
    cases b with
    | nil => exact .inr (.inr (by simp [strLt]))
    | cons y ys =>
      simp only [strLt]
      by_cases hxy : x.toNat < y.toNat
      · exact .inl (by simp [hxy])
      · by_cases hyx : y.toNat < x.toNat
        · exact .inr (.inr (by simp [hyx]))
        · have hxe : x = y := Char.toNat_inj.1 (by omega)
          subst hxe
          simp only [hxy, if_false]
          rcases ih ys with h | h | h
          · exact .inl h
          · exact .inr (.inl (by rw [h]))
          · exact .inr (.inr h)

theorem strLt_asymm {a b : Str} (h : strLt a b = true) : strLt b a = false := by
  cases h2 : strLt b a with
  | false => rfl
  | true =>
    have := strLt_trans h h2
    rw [strLt_irrefl] at this
    exact absurd this (by simp)

/-! ### `strLe` is a total order (total, transitive, antisymmetric, reflexive) -/

theorem strLe_refl (a : Str) : strLe a a = true := by simp [strLe, strLt_irrefl]

theorem strLe_total (a b : Str) : (strLe a b || strLe b a) = true := by
  simp only [strLe]
  cases h : strLt b a with
  | false => simp
  | true => simp [strLt_asymm h]

theorem strLe_trans (a b c : Str) (h1 : strLe a b = true) (h2 : strLe b c = true) :
    strLe a c = true := by
  simp only [strLe, Bool.not_eq_true'] at h1 h2 ⊢
  cases h : strLt c a with
  | false => rfl
  | true =>
    rcases strLt_trichotomy a b with hab | hab | hab
    · rw [strLt_trans h hab] at h2; exact absurd h2 (by simp)
    · subst hab; rw [h] at h2; exact absurd h2 (by simp)
    · rw [hab] at h1; exact absurd h1 (by simp)

theorem strLe_antisymm {a b : Str} (h1 : strLe a b = true) (h2 : strLe b a = true) : a = b := by
  simp only [strLe, Bool.not_eq_true'] at h1 h2
  rcases strLt_trichotomy a b with hab | hab | hab
  · rw [hab] at h2; exact absurd h2 (by simp)
  · exact hab
  · rw [hab] at h1; exact absurd h1 (by simp)

/-! ### `sortStrs` -/

theorem sortStrs_perm (l : List Str) : (sortStrs l).Perm l := List.mergeSort_perm l strLe

theorem sortStrs_sorted (l : List Str) : (sortStrs l).Pairwise (fun a b => strLe a b = true) :=
  List.pairwise_mergeSort strLe_trans strLe_total l

theorem mem_sortStrs {a : Str} {l : List Str} : a ∈ sortStrs l ↔ a ∈ l := (sortStrs_perm l).mem_iff

theorem sortStrs_nil : sortStrs [] = [] := by simp [sortStrs]

theorem sortStrs_eq_nil {l : List Str} : sortStrs l = [] ↔ l = [] := by
  constructor
  · intro h
    have := (sortStrs_perm l).length_eq
    rw [h] at this
    exact List.eq_nil_of_length_eq_zero this.symm
  · intro h; rw [h, sortStrs_nil]

/-- Two sorted lists with the same elements counted with multiplicity are the same list. -/
theorem eq_of_perm_of_sorted {l₁ l₂ : List Str} (hp : l₁.Perm l₂)
    (h1 : l₁.Pairwise (fun a b => strLe a b = true)) (h2 : l₂.Pairwise (fun a b => strLe a b = true)) :
    l₁ = l₂ :=
  List.Perm.eq_of_pairwise (le := fun a b => strLe a b = true)
    (fun _ _ _ _ hab hba => strLe_antisymm hab hba) h1 h2 hp

theorem sortStrs_eq_of_perm {l₁ l₂ : List Str} (hp : l₁.Perm l₂) : sortStrs l₁ = sortStrs l₂ :=
  eq_of_perm_of_sorted (((sortStrs_perm l₁).trans hp).trans (sortStrs_perm l₂).symm)
    (sortStrs_sorted l₁) (sortStrs_sorted l₂)

/-! ### A structurally recursive reference sort (so that closed examples evaluate by `decide`;
`List.mergeSort` is defined by well-founded recursion and does not reduce) -/

def insertStr (a : Str) : List Str → List Str
  | [] => [a]
  | b :: bs => if strLe a b then a :: b :: bs else b :: insertStr a bs

def insSort : List Str → List Str
  | [] => []
  | a :: as => insertStr a (insSort as)

theorem insertStr_perm (a : Str) (l : List Str) : (insertStr a l).Perm (a :: l) := by
  induction l with
  | nil => exact List.Perm.refl _
  | cons b bs ih =>
    simp only [insertStr]
    by_cases h : strLe a b = true
    · simp only [h, if_true]; exact List.Perm.refl _
    · simp only [h]
      exact (List.Perm.cons b ih).trans (List.Perm.swap a b bs)

theorem insertStr_sorted (a : Str) {l : List Str} (h : l.Pairwise (fun a b => strLe a b = true)) :
    (insertStr a l).Pairwise (fun a b => strLe a b = true) := by
  induction l with
  | nil => simp [insertStr]
  | cons b bs ih =>
    rw [List.pairwise_cons] at h
    simp only [insertStr]
    by_cases hab : strLe a b = true
    · simp only [hab, if_true]
      refine List.pairwise_cons.2 ⟨?_, List.pairwise_cons.2 h⟩
      intro x hx
      rcases List.mem_cons.1 hx with rfl | hx
      · exact hab
      · exact strLe_trans _ _ _ hab (h.1 x hx)
    · simp only [hab]
      have hba : strLe b a = true := by
        have := strLe_total a b
        simp only [Bool.or_eq_true] at this
        rcases this with h1 | h1
        · exact absurd h1 hab
        · exact h1
      refine List.pairwise_cons.2 ⟨?_, ih h.2⟩
      intro x hx
      rcases List.mem_cons.1 ((insertStr_perm a bs).mem_iff.1 hx) with rfl | hx
      · exact hba
      · exact h.1 x hx

theorem insSort_perm (l : List Str) : (insSort l).Perm l := by
  induction l with
  | nil => exact List.Perm.refl _
  | cons a as ih => exact (insertStr_perm a _).trans (List.Perm.cons a ih)

theorem insSort_sorted (l : List Str) : (insSort l).Pairwise (fun a b => strLe a b = true) := by
  induction l with
  | nil => exact List.Pairwise.nil
  | cons a as ih => exact insertStr_sorted a ih

/-- The sort used by the model computes the same list as insertion sort. -/
theorem sortStrs_eq_insSort : sortStrs = insSort := by
  funext l
  exact eq_of_perm_of_sorted ((sortStrs_perm l).trans (insSort_perm l).symm)
    (sortStrs_sorted l) (insSort_sorted l)

/-! ### Index lists: lookup, `indexPush`, `sortAll` -/

/-- The list stored under key `k` in an index (`[]` if the key is absent). -/
def ixLookup (k : Str) : List (Str × List Str) → List Str
  | [] => []
  | (k', ns) :: rest => if k' = k then ns else ixLookup k rest

theorem ixLookup_eq_nil_of_not_mem {k : Str} {ix : List (Str × List Str)}
    (h : k ∉ ix.map Prod.fst) : ixLookup k ix = [] := by
  induction ix with
  | nil => rfl
  | cons p rest ih =>
    obtain ⟨k0, ns⟩ := p
    simp only [List.map_cons, List.mem_cons, not_or] at h
    simp only [ixLookup, if_neg (Ne.symm h.1)]
    exact ih h.2

theorem ixLookup_mem_of_mem_keys {k : Str} {ix : List (Str × List Str)}
    (h : k ∈ ix.map Prod.fst) : (k, ixLookup k ix) ∈ ix := by
  induction ix with
  | nil => simp at h
  | cons p rest ih =>
    obtain ⟨k0, ns⟩ := p
    simp only [ixLookup]
    by_cases h0 : k0 = k
    · subst h0; simp
    · simp only [if_neg h0]
      simp only [List.map_cons, List.mem_cons] at h
      rcases h with h | h
      · exact absurd h.symm h0
      · exact List.mem_cons_of_mem _ (ih h)

theorem ixLookup_eq_of_mem {k : Str} {ns : List Str} {ix : List (Str × List Str)}
    (hn : (ix.map Prod.fst).Nodup) (h : (k, ns) ∈ ix) : ixLookup k ix = ns := by
  induction ix with
  | nil => simp at h
  | cons p rest ih =>
    obtain ⟨k0, ns0⟩ := p
    simp only [List.map_cons, List.nodup_cons] at hn
    simp only [List.mem_cons] at h
    simp only [ixLookup]
    rcases h with h | h
    · cases h; simp
    · have hk : k ∈ rest.map Prod.fst := List.mem_map.2 ⟨_, h, rfl⟩
      have h0 : k0 ≠ k := by intro he; subst he; exact hn.1 hk
      simp only [if_neg h0]
      exact ih hn.2 h

theorem ixLookup_indexPush (k' k n : Str) (ix : List (Str × List Str)) :
    ixLookup k' (indexPush k n ix) = ixLookup k' ix ++ (if k = k' then [n] else []) := by
  induction ix with
  | nil => by_cases h : k = k' <;> simp [indexPush, ixLookup, h]
  | cons p rest ih =>
    obtain ⟨k0, ns⟩ := p
    simp only [indexPush]
    by_cases h0 : k0 = k
    · subst h0
      simp only [if_true, ixLookup]
      by_cases h : k0 = k' <;> simp [h]
    · simp only [if_neg h0, ixLookup]
      by_cases h : k0 = k'
      · subst h
        simp [Ne.symm h0]
      · simp only [if_neg h]
        exact ih

theorem ixLookup_indexPush_self (k n : Str) (ix : List (Str × List Str)) :
    ixLookup k (indexPush k n ix) = ixLookup k ix ++ [n] := by
  simp [ixLookup_indexPush]

theorem ixLookup_indexPush_ne {k' k : Str} (n : Str) (ix : List (Str × List Str)) (h : k ≠ k') :
    ixLookup k' (indexPush k n ix) = ixLookup k' ix := by
  simp [ixLookup_indexPush, h]

theorem keys_indexPush (k n : Str) (ix : List (Str × List Str)) :
    (indexPush k n ix).map Prod.fst =
      if k ∈ ix.map Prod.fst then ix.map Prod.fst else ix.map Prod.fst ++ [k] := by
  induction ix with
  | nil => simp [indexPush]
  | cons p rest ih =>
    obtain ⟨k0, ns⟩ := p
    simp only [indexPush]
    by_cases h0 : k0 = k
    · subst h0; simp
    · simp only [if_neg h0, List.map_cons, ih, List.mem_cons]
      have h0' : ¬ k = k0 := Ne.symm h0
      by_cases hm : k ∈ rest.map Prod.fst
      · simp [hm]
      · simp [hm, h0']

theorem mem_keys_indexPush {k' k n : Str} {ix : List (Str × List Str)} :
    k' ∈ (indexPush k n ix).map Prod.fst ↔ k' ∈ ix.map Prod.fst ∨ k' = k := by
  rw [keys_indexPush]
  by_cases hm : k ∈ ix.map Prod.fst
  · simp only [if_pos hm]
    constructor
    · exact .inl
    · rintro (h | h)
      · exact h
      · subst h; exact hm
  · simp [if_neg hm]

theorem nodup_keys_indexPush {k n : Str} {ix : List (Str × List Str)}
    (h : (ix.map Prod.fst).Nodup) : ((indexPush k n ix).map Prod.fst).Nodup := by
  rw [keys_indexPush]
  by_cases hm : k ∈ ix.map Prod.fst
  · simpa [if_pos hm] using h
  · simp only [if_neg hm]
    rw [List.nodup_append]
    refine ⟨h, by simp, ?_⟩
    intro a ha b hb
    simp at hb
    subst hb
    intro he; subst he; exact hm ha

theorem nonempty_indexPush {k n : Str} {ix : List (Str × List Str)}
    (h : ∀ p ∈ ix, p.2 ≠ []) : ∀ p ∈ indexPush k n ix, p.2 ≠ [] := by
  induction ix with
  | nil => intro p hp; simp [indexPush] at hp; subst hp; simp
  | cons q rest ih =>
    obtain ⟨k0, ns⟩ := q
    intro p hp
    simp only [indexPush] at hp
    by_cases h0 : k0 = k
    · simp only [if_pos h0, List.mem_cons] at hp
      rcases hp with hp | hp
      · subst hp; simp
      · exact h p (List.mem_cons_of_mem _ hp)
    · simp only [if_neg h0, List.mem_cons] at hp
      rcases hp with hp | hp
      · subst hp; exact h _ List.mem_cons_self
      · exact ih (fun q hq => h q (List.mem_cons_of_mem _ hq)) p hp

/-- Push `name` under every key of `ks` (the inner `for cls in classes` loop). -/
def pushAll (name : Str) (ks : List Str) (ix : List (Str × List Str)) : List (Str × List Str) :=
  ks.foldl (fun ix c => indexPush c name ix) ix

theorem pushAll_nil (n : Str) (ix : List (Str × List Str)) : pushAll n [] ix = ix := rfl

theorem pushAll_cons (n c : Str) (cs : List Str) (ix : List (Str × List Str)) :
    pushAll n (c :: cs) ix = pushAll n cs (indexPush c n ix) := rfl

theorem ixLookup_pushAll (k' n : Str) (ks : List Str) (ix : List (Str × List Str)) :
    ixLookup k' (pushAll n ks ix) = ixLookup k' ix ++ List.replicate (ks.count k') n := by
  induction ks generalizing ix with
  | nil => simp [pushAll_nil]
  | cons c cs ih =>
    rw [pushAll_cons, ih, ixLookup_indexPush, List.count_cons]
    by_cases h : c = k'
    · subst h; simp [List.replicate_succ]
    · simp [h]

theorem mem_keys_pushAll {k' n : Str} {ks : List Str} {ix : List (Str × List Str)} :
    k' ∈ (pushAll n ks ix).map Prod.fst ↔ k' ∈ ix.map Prod.fst ∨ k' ∈ ks := by
  induction ks generalizing ix with
  | nil => simp [pushAll_nil]
  | cons c cs ih =>
    rw [pushAll_cons, ih, mem_keys_indexPush, List.mem_cons, or_assoc]

theorem nodup_keys_pushAll {n : Str} {ks : List Str} {ix : List (Str × List Str)}
    (h : (ix.map Prod.fst).Nodup) : ((pushAll n ks ix).map Prod.fst).Nodup := by
  induction ks generalizing ix with
  | nil => exact h
  | cons c cs ih => rw [pushAll_cons]; exact ih (nodup_keys_indexPush h)

theorem nonempty_pushAll {n : Str} {ks : List Str} {ix : List (Str × List Str)}
    (h : ∀ p ∈ ix, p.2 ≠ []) : ∀ p ∈ pushAll n ks ix, p.2 ≠ [] := by
  induction ks generalizing ix with
  | nil => exact h
  | cons c cs ih => rw [pushAll_cons]; exact ih (nonempty_indexPush h)

theorem keys_sortAll (ix : List (Str × List Str)) : (sortAll ix).map Prod.fst = ix.map Prod.fst := by
  simp [sortAll, List.map_map, Function.comp_def]

theorem ixLookup_sortAll (k : Str) (ix : List (Str × List Str)) :
    ixLookup k (sortAll ix) = sortStrs (ixLookup k ix) := by
  induction ix with
  | nil => simp [sortAll, ixLookup, sortStrs_nil]
  | cons p rest ih =>
    obtain ⟨k0, ns⟩ := p
    simp only [sortAll, List.map_cons, ixLookup] at ih ⊢
    by_cases h : k0 = k
    · simp [h]
    · simp only [if_neg h]; exact ih

theorem sorted_sortAll (ix : List (Str × List Str)) :
    ∀ p ∈ sortAll ix, p.2.Pairwise (fun a b => strLe a b = true) := by
  intro p hp
  simp only [sortAll, List.mem_map] at hp
  obtain ⟨q, _, rfl⟩ := hp
  exact sortStrs_sorted _

theorem nonempty_sortAll {ix : List (Str × List Str)}
    (h : ∀ p ∈ ix, p.2 ≠ []) : ∀ p ∈ sortAll ix, p.2 ≠ [] := by
  intro p hp
  simp only [sortAll, List.mem_map] at hp
  obtain ⟨q, hq, rfl⟩ := hp
  simp only [ne_eq, sortStrs_eq_nil]
  exact h q hq

/-- Each stored list is a permutation of what it was before sorting. -/
theorem ixLookup_sortAll_perm (k : Str) (ix : List (Str × List Str)) :
    (ixLookup k (sortAll ix)).Perm (ixLookup k ix) := by
  rw [ixLookup_sortAll]; exact sortStrs_perm _

/-! ### One index over the whole loop -/

/-- One iteration of the loop, for the index selected by `g` (`classes` or `apps`). -/
def ixStep (g : NodeInfoM → List Str) (ix : List (Str × List Str)) (p : Str × NodeInfoM) :
    List (Str × List Str) :=
  sortAll (pushAll p.1 (g p.2) ix)

/-- The index after all iterations. -/
def ixFold (g : NodeInfoM → List Str) (infos : List (Str × NodeInfoM)) (ix : List (Str × List Str)) :
    List (Str × List Str) :=
  infos.foldl (ixStep g) ix

/-- The node names that mention `k` (with multiplicity), in iteration order. -/
def occ (g : NodeInfoM → List Str) (k : Str) (infos : List (Str × NodeInfoM)) : List Str :=
  infos.flatMap fun p => List.replicate ((g p.2).count k) p.1

theorem ixFold_nil (g : NodeInfoM → List Str) (ix : List (Str × List Str)) : ixFold g [] ix = ix := rfl

theorem ixFold_cons (g : NodeInfoM → List Str) (p : Str × NodeInfoM) (ps : List (Str × NodeInfoM))
    (ix : List (Str × List Str)) : ixFold g (p :: ps) ix = ixFold g ps (ixStep g ix p) := rfl

theorem occ_cons (g : NodeInfoM → List Str) (k : Str) (p : Str × NodeInfoM)
    (ps : List (Str × NodeInfoM)) :
    occ g k (p :: ps) = List.replicate ((g p.2).count k) p.1 ++ occ g k ps := by
  simp [occ]

theorem mem_occ {g : NodeInfoM → List Str} {k n : Str} {infos : List (Str × NodeInfoM)} :
    n ∈ occ g k infos ↔ ∃ info, (n, info) ∈ infos ∧ k ∈ g info := by
  simp only [occ, List.mem_flatMap, List.mem_replicate]
  constructor
  · rintro ⟨⟨n', info⟩, hp, hc, rfl⟩
    exact ⟨info, hp, List.count_pos_iff.1 (Nat.pos_of_ne_zero hc)⟩
  · rintro ⟨info, hp, hk⟩
    exact ⟨(n, info), hp, Nat.ne_of_gt (List.count_pos_iff.2 hk), rfl⟩

theorem occ_perm {g : NodeInfoM → List Str} {k : Str} {infos infos' : List (Str × NodeInfoM)}
    (h : infos.Perm infos') : (occ g k infos).Perm (occ g k infos') :=
  List.Perm.flatMap_right _ h

theorem nodup_occ {g : NodeInfoM → List Str} {k : Str} {infos : List (Str × NodeInfoM)}
    (hn : (infos.map Prod.fst).Nodup) (hg : ∀ p ∈ infos, (g p.2).Nodup) : (occ g k infos).Nodup := by
  induction infos with
  | nil => simp [occ]
  | cons p ps ih =>
    simp only [List.map_cons, List.nodup_cons] at hn
    rw [occ_cons, List.nodup_append]
    refine ⟨?_, ih hn.2 (fun q hq => hg q (List.mem_cons_of_mem _ hq)), ?_⟩
    · rw [List.nodup_replicate]
      exact List.nodup_iff_count.1 (hg p List.mem_cons_self) k
    · intro a ha b hb
      rw [List.mem_replicate] at ha
      obtain ⟨info, hm, _⟩ := mem_occ.1 hb
      intro he
      apply hn.1
      rw [← ha.2, he]
      exact List.mem_map.2 ⟨_, hm, rfl⟩

theorem ixLookup_ixStep (g : NodeInfoM → List Str) (k : Str) (ix : List (Str × List Str))
    (p : Str × NodeInfoM) :
    ixLookup k (ixStep g ix p) = sortStrs (ixLookup k ix ++ List.replicate ((g p.2).count k) p.1) := by
  rw [ixStep, ixLookup_sortAll, ixLookup_pushAll]

/-- Multiset content of every entry after the loop: the old content plus one occurrence of
the node name per mention. -/
theorem ixLookup_ixFold_perm (g : NodeInfoM → List Str) (k : Str) (infos : List (Str × NodeInfoM))
    (ix : List (Str × List Str)) :
    (ixLookup k (ixFold g infos ix)).Perm (ixLookup k ix ++ occ g k infos) := by
  induction infos generalizing ix with
  | nil => simp [ixFold_nil, occ]
  | cons p ps ih =>
    rw [ixFold_cons, occ_cons, ← List.append_assoc]
    refine (ih _).trans (List.Perm.append_right _ ?_)
    rw [ixLookup_ixStep]
    exact sortStrs_perm _

theorem mem_keys_ixFold {g : NodeInfoM → List Str} {k : Str} {infos : List (Str × NodeInfoM)}
    {ix : List (Str × List Str)} :
    k ∈ (ixFold g infos ix).map Prod.fst ↔ k ∈ ix.map Prod.fst ∨ ∃ p ∈ infos, k ∈ g p.2 := by
  induction infos generalizing ix with
  | nil => simp [ixFold_nil]
  | cons p ps ih =>
    rw [ixFold_cons, ih, ixStep, keys_sortAll, mem_keys_pushAll]
    simp only [List.mem_cons, exists_eq_or_imp, or_assoc]

theorem nodup_keys_ixFold {g : NodeInfoM → List Str} {infos : List (Str × NodeInfoM)}
    {ix : List (Str × List Str)} (h : (ix.map Prod.fst).Nodup) :
    ((ixFold g infos ix).map Prod.fst).Nodup := by
  induction infos generalizing ix with
  | nil => exact h
  | cons p ps ih =>
    rw [ixFold_cons]; apply ih
    rw [ixStep, keys_sortAll]; exact nodup_keys_pushAll h

theorem nonempty_ixFold {g : NodeInfoM → List Str} {infos : List (Str × NodeInfoM)}
    {ix : List (Str × List Str)} (h : ∀ p ∈ ix, p.2 ≠ []) : ∀ p ∈ ixFold g infos ix, p.2 ≠ [] := by
  induction infos generalizing ix with
  | nil => exact h
  | cons p ps ih =>
    rw [ixFold_cons]; apply ih
    exact nonempty_sortAll (nonempty_pushAll h)

theorem sorted_ixFold {g : NodeInfoM → List Str} {infos : List (Str × NodeInfoM)}
    {ix : List (Str × List Str)} (h : ∀ p ∈ ix, p.2.Pairwise (fun a b => strLe a b = true)) :
    ∀ p ∈ ixFold g infos ix, p.2.Pairwise (fun a b => strLe a b = true) := by
  induction infos generalizing ix with
  | nil => exact h
  | cons p ps ih =>
    rw [ixFold_cons]; apply ih
    exact sorted_sortAll _

theorem sorted_ixLookup_ixFold (g : NodeInfoM → List Str) (k : Str) (infos : List (Str × NodeInfoM)) :
    (ixLookup k (ixFold g infos [])).Pairwise (fun a b => strLe a b = true) := by
  by_cases hk : k ∈ (ixFold g infos []).map Prod.fst
  · exact sorted_ixFold (ix := []) (by simp) _ (ixLookup_mem_of_mem_keys hk)
  · rw [ixLookup_eq_nil_of_not_mem hk]; exact List.Pairwise.nil

/-- **Closed form** of every entry of an index built from the empty index: the sorted list of
the names of the nodes mentioning the key. -/
theorem ixLookup_ixFold_eq (g : NodeInfoM → List Str) (k : Str) (infos : List (Str × NodeInfoM)) :
    ixLookup k (ixFold g infos []) = sortStrs (occ g k infos) := by
  apply eq_of_perm_of_sorted _ (sorted_ixLookup_ixFold g k infos) (sortStrs_sorted _)
  have := ixLookup_ixFold_perm g k infos []
  simp only [ixLookup, List.nil_append] at this
  exact this.trans (sortStrs_perm _).symm

/-! ### The loop `Inventory.collect` -/

/-- A successful per-node result as it appears in the result list. -/
def okEntry (p : Str × NodeInfoM) : Str × R NodeInfoM := (p.1, .ok p.2)

/-- The successful entries of a result list. -/
def getOk : Str × R NodeInfoM → Option (Str × NodeInfoM)
  | (n, .ok i) => some (n, i)
  | (_, .error _) => none

theorem filterMap_getOk_map_okEntry (infos : List (Str × NodeInfoM)) :
    (infos.map okEntry).filterMap getOk = infos := by
  induction infos with
  | nil => rfl
  | cons p ps ih => obtain ⟨n, i⟩ := p; simp [okEntry, getOk, ih]

theorem map_fst_map_okEntry (infos : List (Str × NodeInfoM)) :
    (infos.map okEntry).map Prod.fst = infos.map Prod.fst := by
  simp [List.map_map, Function.comp_def, okEntry]

theorem mem_map_okEntry {n : Str} {i : NodeInfoM} {infos : List (Str × NodeInfoM)} :
    (n, Except.ok i) ∈ infos.map okEntry ↔ (n, i) ∈ infos := by
  simp only [List.mem_map, okEntry]
  constructor
  · rintro ⟨⟨n', i'⟩, hm, he⟩
    simp only [Prod.mk.injEq, Except.ok.injEq] at he
    obtain ⟨rfl, rfl⟩ := he
    exact hm
  · intro hm; exact ⟨(n, i), hm, rfl⟩

/-- If every node succeeds, the loop is the three folds. -/
theorem collect_map_okEntry (infos : List (Str × NodeInfoM)) (inv : InventoryM) :
    Inventory.collect (infos.map okEntry) inv =
      .ok { apps := ixFold (·.apps) infos inv.apps,
            classes := ixFold (·.classes) infos inv.classes,
            nodes := inv.nodes ++ infos } := by
  induction infos generalizing inv with
  | nil => simp [Inventory.collect, ixFold_nil]
  | cons p ps ih =>
    obtain ⟨n, i⟩ := p
    simp only [List.map_cons, okEntry, Inventory.collect]
    have := ih { apps := sortAll (List.foldl (fun ix a => indexPush a n ix) inv.apps i.apps),
                 classes := sortAll (List.foldl (fun ix c => indexPush c n ix) inv.classes i.classes),
                 nodes := inv.nodes ++ [(n, i)] }
    rw [this]
    simp [ixFold_cons, ixStep, pushAll]

/-- The loop succeeds only if every result is a success. -/
theorem collect_ok_inv {rs : List (Str × R NodeInfoM)} {inv inv' : InventoryM}
    (h : Inventory.collect rs inv = .ok inv') : ∃ infos : List (Str × NodeInfoM), rs = infos.map okEntry := by
  induction rs generalizing inv with
  | nil => exact ⟨[], rfl⟩
  | cons p rest ih =>
    obtain ⟨n, r⟩ := p
    cases r with
    | error e => simp [Inventory.collect] at h
    | ok i =>
      simp only [Inventory.collect] at h
      obtain ⟨infos, hi⟩ := ih h
      exact ⟨(n, i) :: infos, by simp [okEntry, hi]⟩

/-- The loop fails exactly with the *first* failing entry in iteration order. -/
theorem collect_error_iff {rs : List (Str × R NodeInfoM)} {inv : InventoryM} {e : Err} :
    Inventory.collect rs inv = .error e ↔
      ∃ (pre : List (Str × NodeInfoM)) (name : Str) (e' : Err) (post : List (Str × R NodeInfoM)),
        rs = pre.map okEntry ++ (name, .error e') :: post ∧ e = .nodeFailed name e' := by
  induction rs generalizing inv with
  | nil =>
    simp only [Inventory.collect]
    constructor
    · intro h; cases h
    · rintro ⟨pre, name, e', post, h, _⟩
      have := congrArg List.length h
      simp at this
  | cons p rest ih =>
    obtain ⟨n, r⟩ := p
    cases r with
    | error e0 =>
      simp only [Inventory.collect]
      constructor
      · intro h
        cases h
        exact ⟨[], n, e0, rest, rfl, rfl⟩
      · rintro ⟨pre, name, e', post, h, he⟩
        cases pre with
        | nil =>
          simp only [List.map_nil, List.nil_append, List.cons.injEq, Prod.mk.injEq] at h
          obtain ⟨⟨rfl, h2⟩, _⟩ := h
          cases h2
          rw [he]
        | cons q qs =>
          simp only [List.map_cons, List.cons_append, List.cons.injEq, okEntry, Prod.mk.injEq] at h
          exact absurd h.1.2 (by simp)
    | ok i =>
      simp only [Inventory.collect]
      rw [ih]
      constructor
      · rintro ⟨pre, name, e', post, h, he⟩
        exact ⟨(n, i) :: pre, name, e', post, by simp [okEntry, h], he⟩
      · rintro ⟨pre, name, e', post, h, he⟩
        cases pre with
        | nil =>
          simp only [List.map_nil, List.nil_append, List.cons.injEq, Prod.mk.injEq] at h
          exact absurd h.1.2 (by simp)
        | cons q qs =>
          simp only [List.map_cons, List.cons_append, List.cons.injEq] at h
          exact ⟨qs, name, e', post, h.2, he⟩

theorem collect_ok_of_all_ok {rs : List (Str × R NodeInfoM)} (inv : InventoryM)
    (h : ∀ p ∈ rs, ∀ e, p.2 ≠ .error e) : ∃ inv', Inventory.collect rs inv = .ok inv' := by
  induction rs generalizing inv with
  | nil => exact ⟨inv, rfl⟩
  | cons p rest ih =>
    obtain ⟨n, r⟩ := p
    cases r with
    | error e => exact absurd rfl (h (n, .error e) List.mem_cons_self e)
    | ok i =>
      simp only [Inventory.collect]
      exact ih _ (fun q hq => h q (List.mem_cons_of_mem _ hq))

/-- Shape of a successful render: all entries are successes and the inventory is the closed
form of `collect_map_okEntry` started from the empty inventory. -/
theorem render_ok_inv {rs : List (Str × R NodeInfoM)} {inv : InventoryM}
    (h : Inventory.render rs = .ok inv) :
    ∃ infos : List (Str × NodeInfoM), rs = infos.map okEntry ∧ infos = rs.filterMap getOk ∧
      inv.nodes = infos ∧
      inv.classes = ixFold (·.classes) infos [] ∧
      inv.apps = ixFold (·.apps) infos [] := by
  obtain ⟨infos, hi⟩ := collect_ok_inv h
  refine ⟨infos, hi, ?_, ?_⟩
  · rw [hi, filterMap_getOk_map_okEntry]
  · rw [Inventory.render, hi, collect_map_okEntry] at h
    cases h
    simp

/-! ### Facts about an index built from the empty index -/

theorem mem_ixLookup_ixFold {g : NodeInfoM → List Str} {k n : Str} {infos : List (Str × NodeInfoM)} :
    n ∈ ixLookup k (ixFold g infos []) ↔ ∃ info, (n, info) ∈ infos ∧ k ∈ g info := by
  rw [ixLookup_ixFold_eq, mem_sortStrs, mem_occ]

theorem mem_keys_ixFold_nil {g : NodeInfoM → List Str} {k : Str} {infos : List (Str × NodeInfoM)} :
    k ∈ (ixFold g infos []).map Prod.fst ↔ ∃ n info, (n, info) ∈ infos ∧ k ∈ g info := by
  rw [mem_keys_ixFold]
  simp only [List.map_nil, List.not_mem_nil, false_or]
  constructor
  · rintro ⟨⟨n, info⟩, hp, hk⟩; exact ⟨n, info, hp, hk⟩
  · rintro ⟨n, info, hp, hk⟩; exact ⟨(n, info), hp, hk⟩

theorem nodup_keys_ixFold_nil (g : NodeInfoM → List Str) (infos : List (Str × NodeInfoM)) :
    ((ixFold g infos []).map Prod.fst).Nodup :=
  nodup_keys_ixFold (by simp)

theorem nonempty_ixFold_nil (g : NodeInfoM → List Str) (infos : List (Str × NodeInfoM)) :
    ∀ p ∈ ixFold g infos [], p.2 ≠ [] :=
  nonempty_ixFold (by simp)

theorem sorted_ixFold_nil (g : NodeInfoM → List Str) (infos : List (Str × NodeInfoM)) :
    ∀ p ∈ ixFold g infos [], p.2.Pairwise (fun a b => strLe a b = true) :=
  sorted_ixFold (by simp)

theorem entry_eq_ixLookup_ixFold {g : NodeInfoM → List Str} {infos : List (Str × NodeInfoM)}
    {p : Str × List Str} (hp : p ∈ ixFold g infos []) : p.2 = sortStrs (occ g p.1 infos) := by
  rw [← ixLookup_ixFold_eq]
  exact (ixLookup_eq_of_mem (nodup_keys_ixFold_nil g infos) (show (p.1, p.2) ∈ _ from hp)).symm

theorem nodup_entry_ixFold {g : NodeInfoM → List Str} {infos : List (Str × NodeInfoM)}
    (hn : (infos.map Prod.fst).Nodup) (hg : ∀ p ∈ infos, (g p.2).Nodup) :
    ∀ p ∈ ixFold g infos [], p.2.Nodup := by
  intro p hp
  rw [entry_eq_ixLookup_ixFold hp]
  exact (sortStrs_perm _).nodup_iff.2 (nodup_occ hn hg)

/-- If no node mentions a key twice, the mentions of `k` are the names of the nodes having `k`. -/
theorem occ_eq_filter {g : NodeInfoM → List Str} {k : Str} {infos : List (Str × NodeInfoM)}
    (hg : ∀ p ∈ infos, (g p.2).Nodup) :
    occ g k infos = (infos.filter (fun p => decide (k ∈ g p.2))).map Prod.fst := by
  induction infos with
  | nil => simp [occ]
  | cons p ps ih =>
    rw [occ_cons, ih (fun q hq => hg q (List.mem_cons_of_mem _ hq)),
      (hg p List.mem_cons_self).count, List.filter_cons]
    by_cases h : k ∈ g p.2 <;> simp [h]

/-- In an association list with distinct keys a key has one value. -/
theorem eq_of_mem_of_nodup_keys {α β : Type} {l : List (α × β)} (hn : (l.map Prod.fst).Nodup)
    {k : α} {a b : β} (ha : (k, a) ∈ l) (hb : (k, b) ∈ l) : a = b := by
  induction l with
  | nil => simp at ha
  | cons p rest ih =>
    simp only [List.map_cons, List.nodup_cons] at hn
    have hk : ∀ {c : β}, (k, c) ∈ rest → k ∈ rest.map Prod.fst :=
      fun hc => List.mem_map.2 ⟨_, hc, rfl⟩
    rcases List.mem_cons.1 ha with ha1 | ha1
    · rcases List.mem_cons.1 hb with hb1 | hb1
      · rw [← ha1] at hb1; cases hb1; rfl
      · subst ha1; exact absurd (hk hb1) hn.1
    · rcases List.mem_cons.1 hb with hb1 | hb1
      · subst hb1; exact absurd (hk ha1) hn.1
      · exact ih hn.2 ha1 hb1

end Reclass
