/-
  Reclass.Lemmas.TextL — helper lemmas for C05 (text of embedded references), C11 (the
  evaluator never panics) and C04 (a reference layer merges like the value it renders to).

  1. `jsonOf` / `rawString` are total on closed values; their only possible failures.
  2. `NotPanic`, and the invariant `NoPanicInv`: for a well-formed root without nested layer
     lists none of the 13 evaluator functions fails with a `.panic`.
  3. `mergeV`/`flatVl` use the resolve state only through `cur` (error messages).
  4. `Canon`: the exact shape of the flag lists `Mapping::interpolate` builds; `interp` returns
     canonical values and is the identity (syntactically) on closed canonical values.
-/
import Reclass.Lemmas.ClosedL
import Reclass.Lemmas.Fuel
namespace Reclass

/-! ## 1. JSON text and `raw_string` -/

namespace TextL
-- Decidable equality of errors, to check concrete outcomes by kernel evaluation.
deriving instance DecidableEq for Err

/-- The error of an outcome, if any (for `decide +kernel` checks of concrete runs; `Value` has
no decidable equality, so successful outcomes are compared through their JSON text). -/
def errOf {α : Type} : R α → Option Err
  | .error e => some e
  | .ok _ => none
end TextL

mutual
/-- `jsonOf` succeeds on every closed value. -/
theorem jsonOf_closed : ∀ (v : Value), Closed v → ∃ t, jsonOf v = .ok t
  | .null, _ => by simp only [jsonOf]; exact ⟨_, rfl⟩
  | .bool true, _ => by simp only [jsonOf]; exact ⟨_, rfl⟩
  | .bool false, _ => by simp only [jsonOf]; exact ⟨_, rfl⟩
  | .num _, _ => by simp only [jsonOf]; exact ⟨_, rfl⟩
  | .lit _, _ => by simp only [jsonOf]; exact ⟨_, rfl⟩
  | .str _, h => by simp [Closed] at h
  | .vl _, h => by simp [Closed] at h
  | .seq l, h => by
    simp only [Closed] at h
    obtain ⟨xs, hx⟩ := jsonOfL_closed l h
    simp only [jsonOf, hx]; exact ⟨_, rfl⟩
  | .map es _ _, h => by
    simp only [Closed] at h
    obtain ⟨xs, hx⟩ := jsonOfEs_closed es [] h
    simp only [jsonOf, hx]; exact ⟨_, rfl⟩
theorem jsonOfL_closed : ∀ (l : List Value), ClosedL l → ∃ t, jsonOfL l = .ok t
  | [], _ => by simp only [jsonOfL]; exact ⟨_, rfl⟩
  | v :: vs, h => by
    simp only [ClosedL] at h
    obtain ⟨x, hx⟩ := jsonOf_closed v h.1
    obtain ⟨xs, hxs⟩ := jsonOfL_closed vs h.2
    simp only [jsonOfL, hx, hxs]; exact ⟨_, rfl⟩
theorem jsonOfEs_closed : ∀ (es : List (Key × Value)) (acc : List (Str × Str)), ClosedEs es →
    ∃ t, jsonOfEs es acc = .ok t
  | [], acc, _ => by simp only [jsonOfEs]; exact ⟨_, rfl⟩
  | (k, v) :: rest, acc, h => by
    simp only [ClosedEs] at h
    obtain ⟨x, hx⟩ := jsonOf_closed v h.1
    obtain ⟨t, ht⟩ := jsonOfEs_closed rest (sortedInsert k.jsonKey x acc) h.2
    simp only [jsonOfEs, hx, ht]; exact ⟨_, rfl⟩
end

mutual
/-- The only way `jsonOf` fails is the `todo!()` on a layer list. -/
theorem jsonOf_error : ∀ (v : Value) (e : Err), jsonOf v = .error e → e = .panic .jsonVl
  | .null, e, h => by simp [jsonOf] at h
  | .bool true, e, h => by simp [jsonOf] at h
  | .bool false, e, h => by simp [jsonOf] at h
  | .num _, e, h => by simp [jsonOf] at h
  | .str _, e, h => by simp [jsonOf] at h
  | .lit _, e, h => by simp [jsonOf] at h
  | .vl _, e, h => by simp only [jsonOf, Except.error.injEq] at h; exact h.symm
  | .seq l, e, h => by
    simp only [jsonOf] at h
    cases h1 : jsonOfL l with
    | error e' => simp only [h1, Except.error.injEq] at h; subst h; exact jsonOfL_error l _ h1
    | ok xs => simp [h1] at h
  | .map es _ _, e, h => by
    simp only [jsonOf] at h
    cases h1 : jsonOfEs es [] with
    | error e' => simp only [h1, Except.error.injEq] at h; subst h; exact jsonOfEs_error es [] _ h1
    | ok xs => simp [h1] at h
theorem jsonOfL_error : ∀ (l : List Value) (e : Err), jsonOfL l = .error e → e = .panic .jsonVl
  | [], e, h => by simp [jsonOfL] at h
  | v :: vs, e, h => by
    simp only [jsonOfL] at h
    cases h1 : jsonOf v with
    | error e' => simp only [h1, Except.error.injEq] at h; subst h; exact jsonOf_error v _ h1
    | ok x =>
      simp only [h1] at h
      cases h2 : jsonOfL vs with
      | error e' => simp only [h2, Except.error.injEq] at h; subst h; exact jsonOfL_error vs _ h2
      | ok xs => simp [h2] at h
theorem jsonOfEs_error : ∀ (es : List (Key × Value)) (acc : List (Str × Str)) (e : Err),
    jsonOfEs es acc = .error e → e = .panic .jsonVl
  | [], acc, e, h => by simp [jsonOfEs] at h
  | (k, v) :: rest, acc, e, h => by
    simp only [jsonOfEs] at h
    cases h1 : jsonOf v with
    | error e' => simp only [h1, Except.error.injEq] at h; subst h; exact jsonOf_error v _ h1
    | ok x => simp only [h1] at h; exact jsonOfEs_error rest _ e h
end

/-- `raw_string` succeeds on every closed value. -/
theorem rawString_closed (v : Value) (h : Closed v) : ∃ t, rawString v = .ok t := by
  cases v with
  | lit s => exact ⟨_, rfl⟩
  | null => exact ⟨_, rfl⟩
  | bool b => cases b <;> exact ⟨_, rfl⟩
  | num n => exact ⟨_, rfl⟩
  | map es ck ok => simp only [rawString]; exact jsonOf_closed _ h
  | seq l => simp only [rawString]; exact jsonOf_closed _ h
  | str _ => simp [Closed] at h
  | vl _ => simp [Closed] at h

/-- `raw_string` of a non-container never panics: it succeeds or reports "not implemented for
String / ValueList". -/
theorem rawString_noncontainer {v : Value} {e : Err} (hm : v.isMap = false) (hs : v.isSeq = false)
    (h : rawString v = .error e) :
    e = .rawStringOf "Value::String".toList ∨ e = .rawStringOf "Value::ValueList".toList := by
  cases v with
  | lit s => simp [rawString] at h
  | null => simp [rawString] at h
  | bool b => cases b <;> simp [rawString] at h
  | num n => simp [rawString] at h
  | map es ck ok => simp [Value.isMap] at hm
  | seq l => simp [Value.isSeq] at hs
  | str _ => simp only [rawString, Except.error.injEq] at h; exact Or.inl h.symm
  | vl _ => simp only [rawString, Except.error.injEq] at h; exact Or.inr h.symm

/-! ## 2. No panic -/

/-- The error is not a Rust panic (any site). -/
def NotPanic (e : Err) : Prop := ∀ s, e ≠ .panic s

/-- `str::split(':')` always yields at least one segment. -/
theorem splitColon_ne_nil (s : Str) : splitColon s ≠ [] := by
  induction s with
  | nil => simp [splitColon]
  | cons c cs ih =>
    simp only [splitColon]
    split
    · simp
    · split <;> simp

theorem parse_np {s : Str} {e : Err} (h : Token.parse s = .error e) : NotPanic e := by
  unfold Token.parse at h
  split at h
  · simp at h
  · split at h
    · simp at h
    · simp only [Except.error.injEq] at h; subst h; intro s; simp
    · simp only [Except.error.injEq] at h; subst h; intro s; simp

theorem insertImpl_np {m : Mapping} {k : Key} {v : Value} {fc fo : Bool} {e : Err}
    (h : m.insertImpl k v fc fo = .error e) : NotPanic e := by
  unfold Mapping.insertImpl at h
  generalize k.stripPrefix = kp at h
  obtain ⟨k1, p⟩ := kp
  simp only at h
  cases hl : lookup k1 m.es with
  | none => simp [hl] at h
  | some old =>
    simp only [hl] at h
    by_cases hc : k1 ∈ m.ck
    · simp only [hc, if_true, Except.error.injEq] at h; subst h; intro s; simp
    · simp [hc] at h

theorem mergeEntries_np {ock ook : List Key} {es : List (Key × Value)} {e : Err} :
    ∀ {m : Mapping}, m.mergeEntries ock ook es = .error e → NotPanic e := by
  induction es with
  | nil => intro m h; simp [Mapping.mergeEntries] at h
  | cons x es ih =>
    obtain ⟨k, v⟩ := x
    intro m h
    simp only [Mapping.mergeEntries] at h
    cases h1 : m.insertImpl k v (decide (k ∈ ock)) (decide (k ∈ ook)) with
    | error e' => simp only [h1, Except.error.injEq] at h; subst h; exact insertImpl_np h1
    | ok m1 => simp only [h1] at h; exact ih h

/-- `Value::merge` onto a target that is neither `String` nor `ValueList` does not panic. -/
theorem mergeNonVl_np {a b : Value} {st : RState} {e : Err} (ha : NotStrVl a)
    (h : mergeNonVl a b st = .error e) : NotPanic e := by
  cases a with
  | null => simp [mergeNonVl] at h
  | map es ck ok =>
    cases b with
    | map es' ck' ok' =>
      simp only [mergeNonVl] at h
      cases h1 : Mapping.merge ⟨es, ck, ok⟩ ⟨es', ck', ok'⟩ with
      | error e' =>
        simp only [h1, Except.error.injEq] at h; subst h
        exact mergeEntries_np (m := ⟨es, ck, ok⟩) h1
      | ok m => simp [h1] at h
    | _ => simp only [mergeNonVl, Except.error.injEq] at h; subst h; intro s; simp
  | seq s =>
    cases b with
    | seq s' => simp [mergeNonVl] at h
    | _ => simp only [mergeNonVl, Except.error.injEq] at h; subst h; intro s; simp
  | str _ => simp [NotStrVl, Value.isStr] at ha
  | vl _ => simp [NotStrVl, Value.isVl] at ha
  | bool _ =>
    simp only [mergeNonVl] at h
    split at h
    · simp only [Except.error.injEq] at h; subst h; intro s; simp
    · simp at h
  | num _ =>
    simp only [mergeNonVl] at h
    split at h
    · simp only [Except.error.injEq] at h; subst h; intro s; simp
    · simp at h
  | lit _ =>
    simp only [mergeNonVl] at h
    split at h
    · simp only [Except.error.injEq] at h; subst h; intro s; simp
    · simp at h

theorem notStrVl_null : NotStrVl .null := by simp [NotStrVl, Value.isStr, Value.isVl]

mutual
/-- Folding layers none of which is an unparsed string over a base that is neither `String` nor
`ValueList` never reaches the `unreachable!`s of `Value::merge`. -/
theorem flatVl_np : ∀ (l : List Value) (base : Value) (st : RState) (e : Err),
    LayersOK l → NotStrVl base → flatVl l base st = .error e → NotPanic e
  | [], base, st, e, _, _, h => by simp [flatVl] at h
  | v :: rest, base, st, e, hl, hb, h => by
    simp only [flatVl] at h
    simp only [LayersOK] at hl
    cases h1 : mergeV base v st with
    | error e' =>
      simp only [h1, Except.error.injEq] at h; subst h
      exact mergeV_np base v st _ hl.1 hb h1
    | ok b =>
      simp only [h1] at h
      exact flatVl_np rest b st e hl.2 (mergeV_notStrVl base v st b hl.1 h1) h
theorem mergeV_np : ∀ (self other : Value) (st : RState) (e : Err),
    LayerOK other → NotStrVl self → mergeV self other st = .error e → NotPanic e
  | self, .null, st, e, _, _, h => by simp [mergeV] at h
  | self, .vl l, st, e, ho, hs, h => by
    simp only [mergeV] at h
    cases h1 : flatVl l .null st with
    | error e' =>
      simp only [h1, Except.error.injEq] at h; subst h
      exact flatVl_np l .null st _ (by simpa [LayerOK] using ho) notStrVl_null h1
    | ok o => simp only [h1] at h; exact mergeNonVl_np hs h
  | self, .map es ck ok, st, e, _, hs, h => by simp only [mergeV] at h; exact mergeNonVl_np hs h
  | self, .seq l, st, e, _, hs, h => by simp only [mergeV] at h; exact mergeNonVl_np hs h
  | self, .str _, st, e, ho, _, h => by simp [LayerOK] at ho
  | self, .bool _, st, e, _, hs, h => by simp only [mergeV] at h; exact mergeNonVl_np hs h
  | self, .num _, st, e, _, hs, h => by simp only [mergeV] at h; exact mergeNonVl_np hs h
  | self, .lit _, st, e, _, hs, h => by simp only [mergeV] at h; exact mergeNonVl_np hs h
end

/-- `Token::resolve` of a non-reference token yields a literal. -/
theorem tokResolve_nonref_lit {n : Nat} {root : Mapping} {t : Token} {st st' : RState} {v : Value}
    (ht : ∀ p, t ≠ .ref p) (h : tokResolve n root t st = .ok (v, st')) :
    ∃ s, v = .lit s ∧ st' = st := by
  cases n with
  | zero => simp [tokResolve] at h
  | succ n =>
    cases t with
    | lit s =>
      simp only [tokResolve, Except.ok.injEq, Prod.mk.injEq] at h
      exact ⟨s, h.1.symm, h.2.symm⟩
    | combined ts =>
      simp only [tokResolve] at h
      cases h1 : slice n root ts st with
      | error e => simp [h1] at h
      | ok s =>
        simp only [h1, Except.ok.injEq, Prod.mk.injEq] at h
        exact ⟨s, h.1.symm, h.2.symm⟩
    | ref p => exact absurd rfl (ht p)

/-- `while v.is_string()` ends on a non-string. -/
theorem strLoop_not_str : ∀ (n : Nat) (root : Mapping) (v : Value) (st : RState) (r : Value)
    (st' : RState), strLoop n root v st = .ok (r, st') → r.isStr = false := by
  intro n
  induction n with
  | zero => intros; simp_all [strLoop]
  | succ n ih =>
    intro root v st r st' h
    simp only [strLoop] at h
    by_cases hs : v.isStr
    · simp only [hs, if_true] at h
      cases h1 : interp n root v st with
      | error e => simp [h1] at h
      | ok p =>
        obtain ⟨v1, st1⟩ := p
        simp only [h1] at h
        exact ih _ _ _ _ _ h
    · simp only [hs, Bool.false_eq_true, if_false, Except.ok.injEq, Prod.mk.injEq] at h
      rw [← h.1]; simpa using hs

/-- The `while` loop keeps well-formedness. -/
theorem strLoop_wf : ∀ (n : Nat) (root : Mapping) (v : Value) (st : RState) (r : Value)
    (st' : RState), WF root.toValue → WF v → strLoop n root v st = .ok (r, st') → WF r := by
  intro n
  induction n with
  | zero => intros; simp_all [strLoop]
  | succ n ih =>
    intro root v st r st' hr hv h
    simp only [strLoop] at h
    by_cases hs : v.isStr
    · simp only [hs, if_true] at h
      cases h1 : interp n root v st with
      | error e => simp [h1] at h
      | ok p =>
        obtain ⟨v1, st1⟩ := p
        simp only [h1] at h
        exact ih _ _ _ _ _ hr ((interpInv n).interp _ _ _ _ _ hr hv h1).2 h
    · simp only [hs, Bool.false_eq_true, if_false, Except.ok.injEq, Prod.mk.injEq] at h
      exact h.1 ▸ hv

/-- No evaluator function fails with a panic (any site), at fuel `n`. -/
structure NoPanicInv (n : Nat) : Prop where
  interp : ∀ (root : Mapping) (v : Value) (st : RState) (e : Err),
    WFN root.toValue → WFN v → interp n root v st = .error e → NotPanic e
  interpL : ∀ (root : Mapping) (l : List Value) (idx : Nat) (st : RState) (e : Err),
    WFN root.toValue → WFL l → NoNestL l → interpL n root l idx st = .error e → NotPanic e
  interpEs : ∀ (root : Mapping) (es : List (Key × Value)) (ck ok : List Key) (st : RState)
    (acc : Mapping) (e : Err), WFN root.toValue → WFEs es → NoNestEs es →
    interpEs n root es ck ok st acc = .error e → NotPanic e
  interpVl : ∀ (root : Mapping) (l : List Value) (r0 : Value) (st : RState) (e : Err),
    WFN root.toValue → WFL l → NoNestL l → NotStrVl r0 →
    interpVl n root l r0 st = .error e → NotPanic e
  tokRender : ∀ (root : Mapping) (t : Token) (st : RState) (e : Err),
    WFN root.toValue → tokRender n root t st = .error e → NotPanic e
  tokResolve : ∀ (root : Mapping) (t : Token) (st : RState) (e : Err),
    WFN root.toValue → tokResolve n root t st = .error e → NotPanic e
  descend : ∀ (root : Mapping) (v : Value) (segs : List Str) (st : RState) (path : Str) (e : Err),
    WFN root.toValue → WFN v → descend n root v segs st path = .error e → NotPanic e
  finalLoop : ∀ (root : Mapping) (v : Value) (st : RState) (e : Err),
    WFN root.toValue → WFN v → finalLoop n root v st = .error e → NotPanic e
  interpStrOrVl : ∀ (root : Mapping) (v : Value) (st : RState) (e : Err),
    WFN root.toValue → WFN v → interpStrOrVl n root v st = .error e → NotPanic e
  layersStr : ∀ (root : Mapping) (l : List Value) (st : RState) (e : Err),
    WFN root.toValue → WFL l → NoNestL l → layersStr n root l st = .error e → NotPanic e
  slice : ∀ (root : Mapping) (ts : List Token) (st : RState) (e : Err),
    WFN root.toValue → slice n root ts st = .error e → NotPanic e
  strLoop : ∀ (root : Mapping) (v : Value) (st : RState) (e : Err),
    WFN root.toValue → WFN v → strLoop n root v st = .error e → NotPanic e
  sliceFinish : ∀ (root : Mapping) (v : Value) (st : RState) (e : Err),
    WFN root.toValue → WFN v → sliceFinish n root v st = .error e → NotPanic e

theorem noPanicInv_zero : NoPanicInv 0 := by
  constructor <;> intros <;> rename_i h <;>
    simp only [Reclass.interp, Reclass.interpL, Reclass.interpEs, Reclass.interpVl,
      Reclass.tokRender, Reclass.tokResolve, Reclass.descend, Reclass.finalLoop,
      Reclass.interpStrOrVl, Reclass.layersStr, Reclass.slice, Reclass.strLoop,
      Reclass.sliceFinish, Except.error.injEq] at h <;> subst h <;> intro s <;> simp

/-- `flattened` of what `interpolate` returned cannot fail. -/
theorem flat_after_interp_ok {n : Nat} {root : Mapping} {v v1 : Value} {st st1 st2 : RState}
    (hr : WF root.toValue) (hv : WF v) (h1 : Reclass.interp n root v st = .ok (v1, st1)) :
    ∃ v2, flat v1 st2 = .ok v2 ∧ Closed v2 ∧ WF v2 := by
  have a := (interpInv n).interp _ _ _ _ _ hr hv h1
  obtain ⟨v2, h2, _⟩ := flat_id v1 st2 a.1 a.2
  exact ⟨v2, h2, flat_closed v1 st2 v2 a.1 a.2 h2, flat_wf v1 st2 v2 a.2 h2⟩

section npstep
variable {n : Nat} (ih : NoPanicInv n)
include ih

theorem interp_np (root : Mapping) (v : Value) (st : RState) (e : Err)
    (hr : WFN root.toValue) (hv : WFN v) (h : Reclass.interp (n+1) root v st = .error e) :
    NotPanic e := by
  cases v with
  | str s =>
    simp only [Reclass.interp] at h
    cases h1 : Token.parse s with
    | error e' => simp only [h1, Except.error.injEq] at h; subst h; exact parse_np h1
    | ok o =>
      cases o with
      | none => simp [h1] at h
      | some t => simp only [h1] at h; exact ih.tokRender _ _ _ _ hr h
  | map es ck ok =>
    simp only [Reclass.interp] at h
    obtain ⟨h1, h2⟩ := hv
    simp only [WF] at h1
    simp only [NoNest] at h2
    cases h3 : Reclass.interpEs n root es ck ok st {} with
    | error e' =>
      simp only [h3, Except.error.injEq] at h; subst h
      exact ih.interpEs _ _ _ _ _ _ _ hr h1.1 h2 h3
    | ok m => simp [h3] at h
  | seq l =>
    simp only [Reclass.interp] at h
    obtain ⟨h1, h2⟩ := hv
    simp only [WF] at h1
    simp only [NoNest] at h2
    cases h3 : Reclass.interpL n root l 0 st with
    | error e' =>
      simp only [h3, Except.error.injEq] at h; subst h
      exact ih.interpL _ _ _ _ _ hr h1 h2 h3
    | ok m => simp [h3] at h
  | vl l =>
    simp only [Reclass.interp] at h
    obtain ⟨h1, h2⟩ := hv
    simp only [WF] at h1
    simp only [NoNest] at h2
    cases h3 : Reclass.interpVl n root l .null st with
    | error e' =>
      simp only [h3, Except.error.injEq] at h; subst h
      exact ih.interpVl _ _ _ _ _ hr h1 h2.1 notStrVl_null h3
    | ok x =>
      simp only [h3] at h
      refine ih.interp _ _ _ _ hr ⟨?_, ?_⟩ h
      · exact (interpInv n).interpVl _ _ _ _ _ hr.1 h1 (by simp [WF]) h3
      · exact interpVl_noNest n _ _ _ _ _ hr h1 (by simp [NoNest]) h3
  | null => simp [Reclass.interp] at h
  | bool _ => simp [Reclass.interp] at h
  | num _ => simp [Reclass.interp] at h
  | lit _ => simp [Reclass.interp] at h

theorem interpL_np (root : Mapping) (l : List Value) (idx : Nat) (st : RState) (e : Err)
    (hr : WFN root.toValue) (hl : WFL l) (hn : NoNestL l)
    (h : Reclass.interpL (n+1) root l idx st = .error e) : NotPanic e := by
  cases l with
  | nil => simp [Reclass.interpL] at h
  | cons v vs =>
    simp only [Reclass.interpL] at h
    simp only [WFL] at hl
    simp only [NoNestL] at hn
    cases h1 : Reclass.interp n root v (st.pushListIndex idx) with
    | error e' =>
      simp only [h1, Except.error.injEq] at h; subst h
      exact ih.interp _ _ _ _ hr ⟨hl.1, hn.1⟩ h1
    | ok p =>
      obtain ⟨x, st1⟩ := p
      simp only [h1] at h
      cases h2 : Reclass.interpL n root vs (idx + 1) st with
      | error e' =>
        simp only [h2, Except.error.injEq] at h; subst h
        exact ih.interpL _ _ _ _ _ hr hl.2 hn.2 h2
      | ok xs => simp [h2] at h

theorem interpEs_np (root : Mapping) (es : List (Key × Value)) (ck ok : List Key) (st : RState)
    (acc : Mapping) (e : Err) (hr : WFN root.toValue) (hes : WFEs es) (hn : NoNestEs es)
    (h : Reclass.interpEs (n+1) root es ck ok st acc = .error e) : NotPanic e := by
  cases es with
  | nil => simp [Reclass.interpEs] at h
  | cons x rest =>
    obtain ⟨k, v⟩ := x
    simp only [Reclass.interpEs] at h
    simp only [WFEs] at hes
    simp only [NoNestEs] at hn
    cases h1 : Reclass.interp n root v (st.pushMappingKey k) with
    | error e' =>
      simp only [h1, Except.error.injEq] at h; subst h
      exact ih.interp _ _ _ _ hr ⟨hes.2.1, hn.1⟩ h1
    | ok p =>
      obtain ⟨v1, st1⟩ := p
      simp only [h1] at h
      obtain ⟨v2, h2, _⟩ := flat_after_interp_ok (st2 := st1) hr.1 hes.2.1 h1
      simp only [h2] at h
      cases h3 : acc.insertImpl k v2 (decide (k ∈ ck)) (decide (k ∈ ok)) with
      | error e' => simp only [h3, Except.error.injEq] at h; subst h; exact insertImpl_np h3
      | ok acc' =>
        simp only [h3] at h
        exact ih.interpEs _ _ _ _ _ _ _ hr hes.2.2 hn.2 h

theorem interpVl_np (root : Mapping) (l : List Value) (r0 : Value) (st : RState) (e : Err)
    (hr : WFN root.toValue) (hl : WFL l) (hn : NoNestL l) (h0 : NotStrVl r0)
    (h : Reclass.interpVl (n+1) root l r0 st = .error e) : NotPanic e := by
  cases l with
  | nil => simp [Reclass.interpVl] at h
  | cons v vs =>
    simp only [Reclass.interpVl] at h
    simp only [WFL] at hl
    simp only [NoNestL] at hn
    cases h1 : Reclass.interp n root v st with
    | error e' =>
      simp only [h1, Except.error.injEq] at h; subst h
      exact ih.interp _ _ _ _ hr ⟨hl.1, hn.1⟩ h1
    | ok p =>
      obtain ⟨x, st1⟩ := p
      simp only [h1] at h
      have hx : LayerOK x := layerOK_of_notStrVl ((interp_tokRender_notStrVl n).1 _ _ _ _ _ h1)
      cases h2 : mergeV r0 x st1 with
      | error e' =>
        simp only [h2, Except.error.injEq] at h; subst h
        exact mergeV_np _ _ _ _ hx h0 h2
      | ok r1 =>
        simp only [h2] at h
        exact ih.interpVl _ _ _ _ _ hr hl.2 hn.2 (mergeV_notStrVl r0 x st1 r1 hx h2) h

theorem tokRender_np (root : Mapping) (t : Token) (st : RState) (e : Err)
    (hr : WFN root.toValue) (h : Reclass.tokRender (n+1) root t st = .error e) : NotPanic e := by
  simp only [Reclass.tokRender] at h
  cases h1 : Reclass.tokResolve n root t st with
  | error e' =>
    simp only [h1, Except.error.injEq] at h; subst h
    exact ih.tokResolve _ _ _ _ hr h1
  | ok p =>
    obtain ⟨v, st1⟩ := p
    simp only [h1] at h
    have hv : WFN v := ⟨(interpInv n).tokResolve _ _ _ _ _ hr.1 h1, (nnInv n).tokResolve _ _ _ _ _ hr h1⟩
    cases t with
    | ref parts => exact ih.interp _ _ _ _ hr hv h
    | lit s =>
      obtain ⟨s', hs', _⟩ := tokResolve_nonref_lit (by intro p; simp) h1
      subst hs'
      simp [rawString] at h
    | combined ts =>
      obtain ⟨s', hs', _⟩ := tokResolve_nonref_lit (by intro p; simp) h1
      subst hs'
      simp [rawString] at h

theorem tokResolve_np (root : Mapping) (t : Token) (st : RState) (e : Err)
    (hr : WFN root.toValue) (h : Reclass.tokResolve (n+1) root t st = .error e) : NotPanic e := by
  cases t with
  | lit s => simp [Reclass.tokResolve] at h
  | combined ts =>
    simp only [Reclass.tokResolve] at h
    cases h1 : Reclass.slice n root ts st with
    | error e' => simp only [h1, Except.error.injEq] at h; subst h; exact ih.slice _ _ _ _ hr h1
    | ok s => simp [h1] at h
  | ref parts =>
    simp only [Reclass.tokResolve] at h
    split at h
    · simp only [Except.error.injEq] at h; subst h; intro s; simp
    · cases h1 : Reclass.slice n root parts { st with depth := st.depth + 1 } with
      | error e' => simp only [h1, Except.error.injEq] at h; subst h; exact ih.slice _ _ _ _ hr h1
      | ok path =>
        simp only [h1] at h
        split at h
        · simp only [Except.error.injEq] at h; subst h; intro s; simp
        · split at h
          · rename_i heq
            exact absurd heq (splitColon_ne_nil _)
          · rename_i k0 segs _
            cases h2 : root.get (.str k0) with
            | none => simp only [h2, Except.error.injEq] at h; subst h; intro s; simp
            | some v0 =>
              simp only [h2] at h
              have hv0 : WFN v0 := wfn_lookup (ck := root.ck) (ok := root.ok) hr h2
              split at h
              · rename_i e' h3
                simp only [Except.error.injEq] at h; subst h
                exact ih.descend _ _ _ _ _ _ hr hv0 h3
              · rename_i v st3 h3
                have hv : WFN v :=
                  ⟨(interpInv n).descend _ _ _ _ _ _ _ hr.1 hv0.1 h3, (nnInv n).descend _ _ _ _ _ _ _ hr hv0 h3⟩
                exact ih.finalLoop _ _ _ _ hr hv h

theorem descend_np (root : Mapping) (v : Value) (segs : List Str) (st : RState) (path : Str)
    (e : Err) (hr : WFN root.toValue) (hv : WFN v)
    (h : Reclass.descend (n+1) root v segs st path = .error e) : NotPanic e := by
  cases segs with
  | nil => simp [Reclass.descend] at h
  | cons key rest =>
    simp only [Reclass.descend] at h
    cases h1 : Reclass.interpStrOrVl n root v st with
    | error e' =>
      simp only [h1, Except.error.injEq] at h; subst h
      exact ih.interpStrOrVl _ _ _ _ hr hv h1
    | ok p =>
      obtain ⟨newv, st1⟩ := p
      simp only [h1] at h
      have hn : WFN newv :=
        ⟨(interpInv n).interpStrOrVl _ _ _ _ _ hr.1 hv.1 h1, (nnInv n).interpStrOrVl _ _ _ _ _ hr hv h1⟩
      have hns := interpStrOrVl_notStrVl (noNest_inner hv.2) h1
      cases newv with
      | map es ck ok =>
        simp only at h
        cases h2 : lookup (.str key) es with
        | none => simp only [h2, Except.error.injEq] at h; subst h; intro s; simp
        | some v' =>
          simp only [h2] at h
          exact ih.descend _ _ _ _ _ _ hr (wfn_lookup hn h2) h
      | str _ => simp [NotStrVl, Value.isStr] at hns
      | vl _ => simp [NotStrVl, Value.isVl] at hns
      | null => simp only [Except.error.injEq] at h; subst h; intro s; simp
      | bool _ => simp only [Except.error.injEq] at h; subst h; intro s; simp
      | num _ => simp only [Except.error.injEq] at h; subst h; intro s; simp
      | lit _ => simp only [Except.error.injEq] at h; subst h; intro s; simp
      | seq _ => simp only [Except.error.injEq] at h; subst h; intro s; simp

theorem finalLoop_np (root : Mapping) (v : Value) (st : RState) (e : Err)
    (hr : WFN root.toValue) (hv : WFN v) (h : Reclass.finalLoop (n+1) root v st = .error e) :
    NotPanic e := by
  simp only [Reclass.finalLoop] at h
  split at h
  · cases h1 : Reclass.interp n root v st with
    | error e' => simp only [h1, Except.error.injEq] at h; subst h; exact ih.interp _ _ _ _ hr hv h1
    | ok p =>
      obtain ⟨v1, st1⟩ := p
      simp only [h1] at h
      exact ih.finalLoop _ _ _ _ hr (interp_wfn hr hv.1 h1) h
  · simp at h

theorem strLoop_np (root : Mapping) (v : Value) (st : RState) (e : Err)
    (hr : WFN root.toValue) (hv : WFN v) (h : Reclass.strLoop (n+1) root v st = .error e) :
    NotPanic e := by
  simp only [Reclass.strLoop] at h
  split at h
  · cases h1 : Reclass.interp n root v st with
    | error e' => simp only [h1, Except.error.injEq] at h; subst h; exact ih.interp _ _ _ _ hr hv h1
    | ok p =>
      obtain ⟨v1, st1⟩ := p
      simp only [h1] at h
      exact ih.strLoop _ _ _ _ hr (interp_wfn hr hv.1 h1) h
  · simp at h

theorem interpStrOrVl_np (root : Mapping) (v : Value) (st : RState) (e : Err)
    (hr : WFN root.toValue) (hv : WFN v)
    (h : Reclass.interpStrOrVl (n+1) root v st = .error e) : NotPanic e := by
  cases v with
  | str s => simp only [Reclass.interpStrOrVl] at h; exact ih.interp _ _ _ _ hr hv h
  | vl l =>
    simp only [Reclass.interpStrOrVl] at h
    have hinner := noNest_inner hv.2 l rfl
    obtain ⟨hv1, hv2⟩ := hv
    simp only [WF] at hv1
    simp only [NoNest] at hv2
    cases h1 : Reclass.layersStr n root l st with
    | error e' =>
      simp only [h1, Except.error.injEq] at h; subst h
      exact ih.layersStr _ _ _ _ hr hv1 hv2.1 h1
    | ok i =>
      simp only [h1] at h
      cases h2 : flatVl i .null st with
      | error e' =>
        simp only [h2, Except.error.injEq] at h; subst h
        exact flatVl_np _ _ _ _ (layersStr_layersOK l n root st i hinner h1) notStrVl_null h2
      | ok x => simp [h2] at h
  | null => simp [Reclass.interpStrOrVl] at h
  | bool _ => simp [Reclass.interpStrOrVl] at h
  | num _ => simp [Reclass.interpStrOrVl] at h
  | lit _ => simp [Reclass.interpStrOrVl] at h
  | map _ _ _ => simp [Reclass.interpStrOrVl] at h
  | seq _ => simp [Reclass.interpStrOrVl] at h

theorem layersStr_np (root : Mapping) (l : List Value) (st : RState) (e : Err)
    (hr : WFN root.toValue) (hl : WFL l) (hn : NoNestL l)
    (h : Reclass.layersStr (n+1) root l st = .error e) : NotPanic e := by
  cases l with
  | nil => simp [Reclass.layersStr] at h
  | cons v vs =>
    simp only [Reclass.layersStr] at h
    simp only [WFL] at hl
    simp only [NoNestL] at hn
    by_cases hs : v.isStr
    · simp only [hs, if_true] at h
      cases h1 : Reclass.interp n root v st with
      | error e' =>
        simp only [h1, Except.error.injEq] at h; subst h
        exact ih.interp _ _ _ _ hr ⟨hl.1, hn.1⟩ h1
      | ok p =>
        obtain ⟨x, st1⟩ := p
        simp only [h1] at h
        cases h2 : Reclass.layersStr n root vs st with
        | error e' =>
          simp only [h2, Except.error.injEq] at h; subst h
          exact ih.layersStr _ _ _ _ hr hl.2 hn.2 h2
        | ok xs => simp [h2] at h
    · simp only [hs, Bool.false_eq_true, if_false] at h
      cases h2 : Reclass.layersStr n root vs st with
      | error e' =>
        simp only [h2, Except.error.injEq] at h; subst h
        exact ih.layersStr _ _ _ _ hr hl.2 hn.2 h2
      | ok xs => simp [h2] at h

theorem slice_np (root : Mapping) (ts : List Token) (st : RState) (e : Err)
    (hr : WFN root.toValue) (h : Reclass.slice (n+1) root ts st = .error e) : NotPanic e := by
  cases ts with
  | nil => simp [Reclass.slice] at h
  | cons t ts =>
    simp only [Reclass.slice] at h
    cases h1 : Reclass.tokResolve n root t st with
    | error e' => simp only [h1, Except.error.injEq] at h; subst h; exact ih.tokResolve _ _ _ _ hr h1
    | ok p =>
      obtain ⟨v, st1⟩ := p
      simp only [h1] at h
      have hv : WFN v := ⟨(interpInv n).tokResolve _ _ _ _ _ hr.1 h1, (nnInv n).tokResolve _ _ _ _ _ hr h1⟩
      cases h2 : Reclass.strLoop n root v st1 with
      | error e' => simp only [h2, Except.error.injEq] at h; subst h; exact ih.strLoop _ _ _ _ hr hv h2
      | ok p2 =>
        obtain ⟨v', st2⟩ := p2
        simp only [h2] at h
        have hv' : WFN v' := (nnInv n).strLoop _ _ _ _ _ hr hv h2
        cases h3 : Reclass.sliceFinish n root v' st2 with
        | error e' =>
          simp only [h3, Except.error.injEq] at h; subst h
          exact ih.sliceFinish _ _ _ _ hr hv' h3
        | ok s =>
          simp only [h3] at h
          cases h4 : Reclass.slice n root ts st with
          | error e' => simp only [h4, Except.error.injEq] at h; subst h; exact ih.slice _ _ _ _ hr h4
          | ok s' => simp [h4] at h

theorem sliceFinish_np (root : Mapping) (v : Value) (st : RState) (e : Err)
    (hr : WFN root.toValue) (hv : WFN v) (h : Reclass.sliceFinish (n+1) root v st = .error e) :
    NotPanic e := by
  simp only [Reclass.sliceFinish] at h
  by_cases hc : (v.isMap || v.isSeq) = true
  · simp only [hc, if_true] at h
    cases h1 : Reclass.interp n root v st with
    | error e' => simp only [h1, Except.error.injEq] at h; subst h; exact ih.interp _ _ _ _ hr hv h1
    | ok p =>
      obtain ⟨v1, st1⟩ := p
      simp only [h1] at h
      obtain ⟨v2, h2, hc2, _⟩ := flat_after_interp_ok (st2 := st1) hr.1 hv.1 h1
      simp only [h2] at h
      obtain ⟨t, ht⟩ := rawString_closed v2 hc2
      simp [ht] at h
  · simp only [hc, Bool.false_eq_true, if_false] at h
    simp only [Bool.or_eq_true, not_or, Bool.not_eq_true] at hc
    rcases rawString_noncontainer hc.1 hc.2 h with h' | h' <;> (subst h'; intro s; simp)

end npstep

theorem noPanicInv : ∀ n, NoPanicInv n := by
  intro n
  induction n with
  | zero => exact noPanicInv_zero
  | succ n ih =>
    exact {
      interp := interp_np ih
      interpL := interpL_np ih
      interpEs := interpEs_np ih
      interpVl := interpVl_np ih
      tokRender := tokRender_np ih
      tokResolve := tokResolve_np ih
      descend := descend_np ih
      finalLoop := finalLoop_np ih
      interpStrOrVl := interpStrOrVl_np ih
      layersStr := layersStr_np ih
      slice := slice_np ih
      strLoop := strLoop_np ih
      sliceFinish := sliceFinish_np ih }

/-! ## 3. `Value::merge` looks at the resolve state only through `cur` -/

theorem curKey_congr {st st' : RState} (h : st.cur = st'.cur) : st.curKey = st'.curKey := by
  simp [RState.curKey, h]

theorem mergeNonVl_cur {a b : Value} {st st' : RState} (h : st.cur = st'.cur) :
    mergeNonVl a b st = mergeNonVl a b st' := by
  have hk := curKey_congr h
  cases a <;> cases b <;> simp [mergeNonVl, hk]

mutual
theorem flatVl_cur : ∀ (l : List Value) (base : Value) (st st' : RState), st.cur = st'.cur →
    flatVl l base st = flatVl l base st'
  | [], base, st, st', _ => by simp [flatVl]
  | v :: rest, base, st, st', h => by
    simp only [flatVl, mergeV_cur base v st st' h]
    cases mergeV base v st' with
    | error e => rfl
    | ok b => exact flatVl_cur rest b st st' h
theorem mergeV_cur : ∀ (self other : Value) (st st' : RState), st.cur = st'.cur →
    mergeV self other st = mergeV self other st'
  | self, .null, st, st', _ => by simp [mergeV]
  | self, .vl l, st, st', h => by
    simp only [mergeV, flatVl_cur l .null st st' h]
    cases flatVl l .null st' with
    | error e => rfl
    | ok o => exact mergeNonVl_cur h
  | self, .map es ck ok, st, st', h => by simp only [mergeV]; exact mergeNonVl_cur h
  | self, .seq l, st, st', h => by simp only [mergeV]; exact mergeNonVl_cur h
  | self, .str _, st, st', h => by simp only [mergeV]; exact mergeNonVl_cur h
  | self, .bool _, st, st', h => by simp only [mergeV]; exact mergeNonVl_cur h
  | self, .num _, st, st', h => by simp only [mergeV]; exact mergeNonVl_cur h
  | self, .lit _, st, st', h => by simp only [mergeV]; exact mergeNonVl_cur h
end

theorem mergeNonVl_ok_state {a b r : Value} {st st' : RState}
    (h : mergeNonVl a b st = .ok r) : mergeNonVl a b st' = .ok r := by
  cases a <;> cases b <;> simp_all [mergeNonVl, Value.isMap, Value.isSeq]

mutual
/-- A successful merge does not depend on the resolve state at all. -/
theorem flatVl_ok_state : ∀ (l : List Value) (base : Value) (st st' : RState) (r : Value),
    flatVl l base st = .ok r → flatVl l base st' = .ok r
  | [], base, st, st', r, h => by simpa [flatVl] using h
  | v :: rest, base, st, st', r, h => by
    simp only [flatVl] at h ⊢
    cases h1 : mergeV base v st with
    | error e => simp [h1] at h
    | ok b =>
      simp only [h1] at h
      rw [mergeV_ok_state base v st st' b h1]
      exact flatVl_ok_state rest b st st' r h
theorem mergeV_ok_state : ∀ (self other : Value) (st st' : RState) (r : Value),
    mergeV self other st = .ok r → mergeV self other st' = .ok r
  | self, .null, st, st', r, h => by simpa [mergeV] using h
  | self, .vl l, st, st', r, h => by
    simp only [mergeV] at h ⊢
    cases h1 : flatVl l .null st with
    | error e => simp [h1] at h
    | ok o =>
      simp only [h1] at h
      rw [flatVl_ok_state l .null st st' o h1]
      exact mergeNonVl_ok_state h
  | self, .map es ck ok, st, st', r, h => by simp only [mergeV] at h ⊢; exact mergeNonVl_ok_state h
  | self, .seq l, st, st', r, h => by simp only [mergeV] at h ⊢; exact mergeNonVl_ok_state h
  | self, .str _, st, st', r, h => by simp only [mergeV] at h ⊢; exact mergeNonVl_ok_state h
  | self, .bool _, st, st', r, h => by simp only [mergeV] at h ⊢; exact mergeNonVl_ok_state h
  | self, .num _, st, st', r, h => by simp only [mergeV] at h ⊢; exact mergeNonVl_ok_state h
  | self, .lit _, st, st', r, h => by simp only [mergeV] at h ⊢; exact mergeNonVl_ok_state h
end

/-- Swapping one layer for another that interpolates to the same value (with the same `cur`)
does not change the outcome of the layer loop.  Fuel index: the loop starts with
`n + 1 + pre.length`, so the layer in question is interpolated with fuel `n`. -/
theorem interpVl_swap_layer {n : Nat} {root : Mapping} {st s1 s2 : RState} {a b x : Value}
    (ha : interp n root a st = .ok (x, s1)) (hb : interp n root b st = .ok (x, s2))
    (hc : s1.cur = s2.cur) (post : List Value) :
    ∀ (pre : List Value) (r0 : Value),
      interpVl (n + 1 + pre.length) root (pre ++ a :: post) r0 st =
      interpVl (n + 1 + pre.length) root (pre ++ b :: post) r0 st := by
  intro pre
  induction pre with
  | nil =>
    intro r0
    simp only [List.length_nil, Nat.add_zero, List.nil_append, interpVl, ha, hb,
      mergeV_cur r0 x s1 s2 hc]
  | cons p pre ih =>
    intro r0
    have : n + 1 + (p :: pre).length = (n + 1 + pre.length) + 1 := by simp; omega
    rw [this]
    simp only [List.cons_append, interpVl]
    cases interp (n + 1 + pre.length) root p st with
    | error e => rfl
    | ok q =>
      obtain ⟨y, s⟩ := q
      simp only
      cases mergeV r0 y s with
      | error e => rfl
      | ok r1 => exact ih r1

/-! ## 4. Canonical flag lists -/

/-- The members of `s` among `ks`, in the order of `ks`: the flag list `Mapping::interpolate` /
`Mapping::flattened` build (into a fresh mapping) from the flag set `s` of a mapping with
distinct keys `ks`. -/
def flagsOf (s ks : List Key) : List Key := ks.filter (fun k => decide (k ∈ s))

mutual
/-- Canonical: in every mapping the two flag lists are exactly the flagged keys in entry order. -/
def Canon : Value → Prop
  | .map es ck ok => CanonEs es ∧ ck = flagsOf ck (keys es) ∧ ok = flagsOf ok (keys es)
  | .seq l => CanonL l
  | .vl l => CanonL l
  | _ => True
def CanonL : List Value → Prop
  | [] => True
  | v :: vs => Canon v ∧ CanonL vs
def CanonEs : List (Key × Value) → Prop
  | [] => True
  | (_, v) :: es => Canon v ∧ CanonEs es
end

theorem canonEs_append {es : List (Key × Value)} {k : Key} {v : Value} :
    CanonEs (es ++ [(k, v)]) ↔ CanonEs es ∧ Canon v := by
  induction es with
  | nil => simp [CanonEs]
  | cons e es ih =>
    obtain ⟨k', v'⟩ := e
    simp only [List.cons_append, CanonEs, ih, and_assoc]

theorem flagsOf_idem (s ks : List Key) : flagsOf (flagsOf s ks) ks = flagsOf s ks := by
  unfold flagsOf
  apply List.filter_congr
  intro x hx
  simp [List.mem_filter, hx]

theorem flag_append {k : Key} {s acc : List Key} (rest : List Key) (hk : k ∉ acc) :
    (if decide (k ∈ s) = true then setInsert k acc else acc) ++ flagsOf s rest =
      acc ++ flagsOf s (k :: rest) := by
  by_cases h : k ∈ s
  · simp [h, setInsert, hk, flagsOf]
  · simp [h, flagsOf]

theorem flag_subset {k : Key} {s acc : List Key} {es : List (Key × Value)} {v : Value}
    (h : ∀ x ∈ acc, x ∈ keys es) :
    ∀ x ∈ (if decide (k ∈ s) = true then setInsert k acc else acc), x ∈ keys (es ++ [(k, v)]) := by
  intro x hx
  simp only [keys, List.map_append, List.map_cons, List.map_nil, List.mem_append,
    List.mem_singleton]
  split at hx
  · rcases mem_setInsert.1 hx with h' | h'
    · exact Or.inl (h x h')
    · exact Or.inr h'
  · exact Or.inl (h x hx)

mutual
/-- `flattened` of closed, well-formed, canonical data returns it unchanged (syntactically). -/
theorem flat_canon : ∀ (v : Value) (st : RState), Closed v → WF v → Canon v → flat v st = .ok v
  | .vl l, st, hc, _, _ => by simp [Closed] at hc
  | .str _, st, hc, _, _ => by simp [Closed] at hc
  | .null, st, _, _, _ => by simp only [flat]
  | .bool _, st, _, _, _ => by simp only [flat]
  | .num _, st, _, _, _ => by simp only [flat]
  | .lit _, st, _, _, _ => by simp only [flat]
  | .seq l, st, hc, hv, hk => by
    simp only [Closed] at hc
    simp only [WF] at hv
    simp only [Canon] at hk
    simp only [flat, flatL_canon l st hc hv hk]
  | .map es ck ok, st, hc, hv, hk => by
    simp only [Closed] at hc
    simp only [WF] at hv
    simp only [Canon] at hk
    have := flatEs_canon es ck ok st {} hc hv.1 hk.1 (by simpa using hv.2) (by simp) (by simp)
    simp only [flat, this, Mapping.toValue, List.nil_append]
    rw [← hk.2.1, ← hk.2.2]
theorem flatL_canon : ∀ (l : List Value) (st : RState), ClosedL l → WFL l → CanonL l →
    flatL l st = .ok l
  | [], st, _, _, _ => by simp only [flatL]
  | v :: vs, st, hc, hl, hk => by
    simp only [ClosedL] at hc
    simp only [WFL] at hl
    simp only [CanonL] at hk
    simp only [flatL, flat_canon v st hc.1 hl.1 hk.1, flatL_canon vs st hc.2 hl.2 hk.2]
theorem flatEs_canon : ∀ (es : List (Key × Value)) (ck ok : List Key) (st : RState) (acc : Mapping),
    ClosedEs es → WFEs es → CanonEs es → (keys acc.es ++ keys es).Nodup →
    (∀ x ∈ acc.ck, x ∈ keys acc.es) → (∀ x ∈ acc.ok, x ∈ keys acc.es) →
    flatEs es ck ok st acc =
      .ok ⟨acc.es ++ es, acc.ck ++ flagsOf ck (keys es), acc.ok ++ flagsOf ok (keys es)⟩
  | [], ck, ok, st, acc, _, _, _, _, _, _ => by simp [flatEs, flagsOf]
  | (k, v) :: rest, ck, ok, st, acc, hc, hes, hk, hnd, hck, hok => by
    simp only [ClosedEs] at hc
    simp only [WFEs] at hes
    simp only [CanonEs] at hk
    have hstep := nodup_keys_step (by simpa [keys] using hnd : (keys acc.es ++ k :: keys rest).Nodup)
    simp only [flatEs, flat_canon v st hc.1 hes.2.1 hk.1,
      insertImpl_fresh_eq acc v _ _ hes.1 hstep.1]
    rw [flatEs_canon rest ck ok st _ hc.2 hes.2.2 hk.2 (by simpa [keys] using hstep.2)
      (flag_subset hck) (flag_subset hok)]
    simp only [List.append_assoc, List.singleton_append]
    rw [flag_append (keys rest) (fun h => hstep.1 (hck k h)),
      flag_append (keys rest) (fun h => hstep.1 (hok k h))]
    simp [keys]
end

mutual
/-- `interpolate` of closed, well-formed, canonical data returns it unchanged (syntactically)
and leaves the resolve state alone, given fuel at least its size. -/
theorem interp_canon : ∀ (v : Value) (n : Nat) (root : Mapping) (st : RState), Closed v → WF v →
    Canon v → size v ≤ n → interp n root v st = .ok (v, st)
  | .vl l, n, root, st, hc, _, _, _ => by simp [Closed] at hc
  | .str _, n, root, st, hc, _, _, _ => by simp [Closed] at hc
  | .null, n, root, st, _, _, _, hn => by
    cases n with
    | zero => simp [size] at hn
    | succ n => simp only [interp]
  | .bool _, n, root, st, _, _, _, hn => by
    cases n with
    | zero => simp [size] at hn
    | succ n => simp only [interp]
  | .num _, n, root, st, _, _, _, hn => by
    cases n with
    | zero => simp [size] at hn
    | succ n => simp only [interp]
  | .lit _, n, root, st, _, _, _, hn => by
    cases n with
    | zero => simp [size] at hn
    | succ n => simp only [interp]
  | .seq l, n, root, st, hc, hv, hk, hn => by
    cases n with
    | zero => simp [size] at hn
    | succ n =>
      simp only [Closed] at hc
      simp only [WF] at hv
      simp only [Canon] at hk
      simp only [size] at hn
      simp only [interp, interpL_canon l n root 0 st hc hv hk (by omega)]
  | .map es ck ok, n, root, st, hc, hv, hk, hn => by
    cases n with
    | zero => simp [size] at hn
    | succ n =>
      simp only [Closed] at hc
      simp only [WF] at hv
      simp only [Canon] at hk
      simp only [size] at hn
      have := interpEs_canon es n root ck ok st {} hc hv.1 hk.1 (by simpa using hv.2) (by simp)
        (by simp) (by omega)
      simp only [interp, this, Mapping.toValue, List.nil_append]
      rw [← hk.2.1, ← hk.2.2]
theorem interpL_canon : ∀ (l : List Value) (n : Nat) (root : Mapping) (idx : Nat) (st : RState),
    ClosedL l → WFL l → CanonL l → sizeL l ≤ n → interpL n root l idx st = .ok l
  | [], n, root, idx, st, _, _, _, hn => by
    cases n with
    | zero => simp [sizeL] at hn
    | succ n => simp only [interpL]
  | v :: vs, n, root, idx, st, hc, hl, hk, hn => by
    cases n with
    | zero => simp [sizeL] at hn
    | succ n =>
      simp only [ClosedL] at hc
      simp only [WFL] at hl
      simp only [CanonL] at hk
      simp only [sizeL] at hn
      simp only [interpL, interp_canon v n root _ hc.1 hl.1 hk.1 (by omega),
        interpL_canon vs n root (idx + 1) st hc.2 hl.2 hk.2 (by omega)]
theorem interpEs_canon : ∀ (es : List (Key × Value)) (n : Nat) (root : Mapping) (ck ok : List Key)
    (st : RState) (acc : Mapping), ClosedEs es → WFEs es → CanonEs es →
    (keys acc.es ++ keys es).Nodup →
    (∀ x ∈ acc.ck, x ∈ keys acc.es) → (∀ x ∈ acc.ok, x ∈ keys acc.es) → sizeEs es ≤ n →
    interpEs n root es ck ok st acc =
      .ok ⟨acc.es ++ es, acc.ck ++ flagsOf ck (keys es), acc.ok ++ flagsOf ok (keys es)⟩
  | [], n, root, ck, ok, st, acc, _, _, _, _, _, _, hn => by
    cases n with
    | zero => simp [sizeEs] at hn
    | succ n => simp [interpEs, flagsOf]
  | (k, v) :: rest, n, root, ck, ok, st, acc, hc, hes, hk, hnd, hck, hok, hn => by
    cases n with
    | zero => simp [sizeEs] at hn
    | succ n =>
      simp only [ClosedEs] at hc
      simp only [WFEs] at hes
      simp only [CanonEs] at hk
      simp only [sizeEs] at hn
      have hstep := nodup_keys_step (by simpa [keys] using hnd : (keys acc.es ++ k :: keys rest).Nodup)
      simp only [interpEs, interp_canon v n root _ hc.1 hes.2.1 hk.1 (by omega),
        flat_canon v _ hc.1 hes.2.1 hk.1, insertImpl_fresh_eq acc v _ _ hes.1 hstep.1]
      rw [interpEs_canon rest n root ck ok st _ hc.2 hes.2.2 hk.2 (by simpa [keys] using hstep.2)
        (flag_subset hck) (flag_subset hok) (by omega)]
      simp only [List.append_assoc, List.singleton_append]
      rw [flag_append (keys rest) (fun h => hstep.1 (hck k h)),
        flag_append (keys rest) (fun h => hstep.1 (hok k h))]
      simp [keys]
end

/-- Exact shape of what `Mapping::interpolate` returns for a well-formed entry list: the new
entries are canonical, keys are appended in order, the flag lists grow by the flagged keys in
entry order. -/
structure CanonInv (n : Nat) : Prop where
  interp : ∀ (root : Mapping) (v : Value) (st : RState) (r : Value) (st' : RState),
    WF root.toValue → WF v → interp n root v st = .ok (r, st') → Canon r
  interpL : ∀ (root : Mapping) (l : List Value) (idx : Nat) (st : RState) (r : List Value),
    WF root.toValue → WFL l → interpL n root l idx st = .ok r → CanonL r
  interpEs : ∀ (root : Mapping) (es : List (Key × Value)) (ck ok : List Key) (st : RState)
    (acc m : Mapping), WF root.toValue → WFEs es → (keys acc.es ++ keys es).Nodup →
    CanonEs acc.es → (∀ x ∈ acc.ck, x ∈ keys acc.es) → (∀ x ∈ acc.ok, x ∈ keys acc.es) →
    interpEs n root es ck ok st acc = .ok m →
    CanonEs m.es ∧ keys m.es = keys acc.es ++ keys es ∧
      m.ck = acc.ck ++ flagsOf ck (keys es) ∧ m.ok = acc.ok ++ flagsOf ok (keys es)
  tokRender : ∀ (root : Mapping) (t : Token) (st : RState) (r : Value) (st' : RState),
    WF root.toValue → tokRender n root t st = .ok (r, st') → Canon r

theorem canonInv : ∀ n, CanonInv n := by
  intro n
  induction n with
  | zero => constructor <;> intros <;> simp_all [interp, interpL, interpEs, tokRender]
  | succ n ih =>
    refine ⟨?_, ?_, ?_, ?_⟩
    · -- interp
      intro root v st r st' hr hv h
      cases v with
      | str s =>
        simp only [Reclass.interp] at h
        cases h1 : Token.parse s with
        | error e => simp [h1] at h
        | ok o =>
          cases o with
          | none =>
            simp only [h1, Except.ok.injEq, Prod.mk.injEq] at h
            rw [← h.1]; simp [Canon]
          | some t => simp only [h1] at h; exact ih.tokRender _ _ _ _ _ hr h
      | map es ck ok =>
        simp only [Reclass.interp] at h
        cases h1 : Reclass.interpEs n root es ck ok st {} with
        | error e => simp [h1] at h
        | ok m =>
          simp only [h1, Except.ok.injEq, Prod.mk.injEq] at h
          rw [← h.1]
          simp only [WF] at hv
          obtain ⟨a, b, c, d⟩ := ih.interpEs root es ck ok st {} m hr hv.1 (by simpa using hv.2)
            (by simp [CanonEs]) (by simp) (by simp) h1
          simp only [List.nil_append, keys, List.map_nil] at b c d
          simp only [Mapping.toValue, Canon, keys]
          refine ⟨a, ?_, ?_⟩
          · rw [b, c]; exact (flagsOf_idem _ _).symm
          · rw [b, d]; exact (flagsOf_idem _ _).symm
      | seq l =>
        simp only [Reclass.interp] at h
        cases h1 : Reclass.interpL n root l 0 st with
        | error e => simp [h1] at h
        | ok l' =>
          simp only [h1, Except.ok.injEq, Prod.mk.injEq] at h
          rw [← h.1]
          simp only [WF] at hv
          simp only [Canon]
          exact ih.interpL root l 0 st l' hr hv h1
      | vl l =>
        simp only [Reclass.interp] at h
        cases h1 : Reclass.interpVl n root l .null st with
        | error e => simp [h1] at h
        | ok x =>
          simp only [h1] at h
          simp only [WF] at hv
          exact ih.interp _ _ _ _ _ hr
            ((interpInv n).interpVl root l .null st x hr hv (by simp [WF]) h1) h
      | null => simp only [Reclass.interp, Except.ok.injEq, Prod.mk.injEq] at h; rw [← h.1]; simp [Canon]
      | bool _ => simp only [Reclass.interp, Except.ok.injEq, Prod.mk.injEq] at h; rw [← h.1]; simp [Canon]
      | num _ => simp only [Reclass.interp, Except.ok.injEq, Prod.mk.injEq] at h; rw [← h.1]; simp [Canon]
      | lit _ => simp only [Reclass.interp, Except.ok.injEq, Prod.mk.injEq] at h; rw [← h.1]; simp [Canon]
    · -- interpL
      intro root l idx st r hr hl h
      cases l with
      | nil => simp only [Reclass.interpL, Except.ok.injEq] at h; subst h; simp [CanonL]
      | cons v vs =>
        simp only [Reclass.interpL] at h
        simp only [WFL] at hl
        cases h1 : Reclass.interp n root v (st.pushListIndex idx) with
        | error e => simp [h1] at h
        | ok p =>
          obtain ⟨x, st1⟩ := p
          simp only [h1] at h
          cases h2 : Reclass.interpL n root vs (idx + 1) st with
          | error e => simp [h2] at h
          | ok xs =>
            simp only [h2, Except.ok.injEq] at h
            subst h
            exact ⟨ih.interp _ _ _ _ _ hr hl.1 h1, ih.interpL _ _ _ _ _ hr hl.2 h2⟩
    · -- interpEs
      intro root es ck ok st acc m hr hes hnd hca hck hok h
      cases es with
      | nil =>
        simp only [Reclass.interpEs, Except.ok.injEq] at h
        subst h
        simp [hca, flagsOf, keys]
      | cons e rest =>
        obtain ⟨k, v⟩ := e
        simp only [Reclass.interpEs] at h
        simp only [WFEs] at hes
        cases h1 : Reclass.interp n root v (st.pushMappingKey k) with
        | error e => simp [h1] at h
        | ok p =>
          obtain ⟨v1, st1⟩ := p
          simp only [h1] at h
          have a := (interpInv n).interp _ _ _ _ _ hr hes.2.1 h1
          have hk1 := ih.interp _ _ _ _ _ hr hes.2.1 h1
          rw [flat_canon v1 st1 a.1 a.2 hk1] at h
          simp only at h
          have hstep := nodup_keys_step (by simpa [keys] using hnd : (keys acc.es ++ k :: keys rest).Nodup)
          rw [insertImpl_fresh_eq acc v1 _ _ hes.1 hstep.1] at h
          simp only at h
          obtain ⟨b1, b2, b3, b4⟩ := ih.interpEs root rest ck ok st _ m hr hes.2.2
            (by simpa [keys] using hstep.2) (canonEs_append.2 ⟨hca, hk1⟩)
            (flag_subset hck) (flag_subset hok) h
          refine ⟨b1, by simp [b2, keys], ?_, ?_⟩
          · rw [b3]; exact flag_append (keys rest) (fun h => hstep.1 (hck k h))
          · rw [b4]; exact flag_append (keys rest) (fun h => hstep.1 (hok k h))
    · -- tokRender
      intro root t st r st' hr h
      simp only [Reclass.tokRender] at h
      cases h1 : Reclass.tokResolve n root t st with
      | error e => simp [h1] at h
      | ok p =>
        obtain ⟨v, st1⟩ := p
        simp only [h1] at h
        have hv := (interpInv n).tokResolve _ _ _ _ _ hr h1
        cases t with
        | ref parts => exact ih.interp _ _ _ _ _ hr hv h
        | lit s =>
          simp only at h
          cases h2 : rawString v with
          | error e => simp [h2] at h
          | ok s' =>
            simp only [h2, Except.ok.injEq, Prod.mk.injEq] at h
            rw [← h.1]; simp [Canon]
        | combined ts =>
          simp only at h
          cases h2 : rawString v with
          | error e => simp [h2] at h
          | ok s' =>
            simp only [h2, Except.ok.injEq, Prod.mk.injEq] at h
            rw [← h.1]; simp [Canon]

end Reclass
