/-
  Reclass.Lemmas.DeepMergeCL — the deep-merge refinement in the presence of constant keys at
  the top level of the parameter layers (helper lemmas for `Props/C02c`).

  `Lemmas/DeepMergeL` §11 proves the refinement for stored layers without constant keys.  Here:
  * rendering an accumulated parameter mapping does not depend on its constant-key set
    (`interpEs_settleC`, `renderParams_settlesC`: as `…O`, for any `ck`);
  * a stack of layers that merges *with* its constant flags also merges with all flags erased,
    to the same entries and override set (`mergeLayers_eraseCk`, from
    `C09d.const_flags_only_reject`).
-/
import Reclass.Lemmas.DeepMergeL
import Reclass.Props.C09d
namespace Reclass
namespace DeepMerge

/-- Outcome of an entry loop, up to the flags of the result. -/
def EsOutcomeC (x : R Mapping) (accEs : List (Key × Value)) :
    Except Err (List (Key × Value)) → Prop
  | .error e => x = .error e
  | .ok es' => ∃ m, x = .ok m ∧ m.es = accEs ++ es'

/-- `Mapping::interpolate` on an accumulated mapping with arbitrary constant and override
flags: the flags only decide which flags the result carries. -/
theorem interpEs_settleC (root : Mapping) (st : RState) (ckl okl : List Key) :
    ∀ (es : List (Key × Value)) (acc : Mapping), SemiEs es →
    (keys acc.es ++ keys es).Nodup →
    ∃ N, ∀ n, N ≤ n →
      EsOutcomeC (interpEs n root es ckl okl st acc) acc.es (resolveEs (absEs st.cur es))
  | [], acc, _, _ => ⟨1, fun n hn => by
      obtain ⟨m, rfl⟩ : ∃ m, n = m + 1 := ⟨n - 1, by omega⟩
      exact ⟨acc, rfl, by simp⟩⟩
  | (k, v) :: rest, acc, hes, hnd => by
    simp only [SemiEs] at hes
    have hmem : Settles (fun n => interp n root v (st.pushMappingKey k))
        (lift (st.pushMappingKey k) (resolve (stackTree (st.cur ++ [k.display]) v))) := by
      rcases hes.2.1 with hP | ⟨l, rfl, hl⟩
      · exact settle_refFree root hP _ _
      · exact vl_settles root hl (st.pushMappingKey k)
    obtain ⟨N1, c1⟩ := hmem
    dsimp only at c1
    have hstep := nodup_keys_step (by simpa [keys] using hnd : (keys acc.es ++ k :: keys rest).Nodup)
    have hpt := stackTree_ptree (st.cur ++ [k.display]) hes.2.1
    cases hr : resolve (stackTree (st.cur ++ [k.display]) v) with
    | error e =>
      refine ⟨N1 + 1, fun n hn => ?_⟩
      obtain ⟨m, rfl⟩ : ∃ m, n = m + 1 := ⟨n - 1, by omega⟩
      simp only [absEs, resolveEs, hr, EsOutcomeC]
      rw [interpEs_cons, c1 m (by omega), hr]
      rfl
    | ok w =>
      have hw : Plain w := resolve_plain _ _ hpt hr
      have hins := insertImpl_fresh_eq acc w (decide (k ∈ ckl)) (decide (k ∈ okl)) hes.1 hstep.1
      obtain ⟨N2, c2⟩ := interpEs_settleC root st ckl okl rest
        ⟨acc.es ++ [(k, w)], if decide (k ∈ ckl) = true then setInsert k acc.ck else acc.ck,
          if decide (k ∈ okl) = true then setInsert k acc.ok else acc.ok⟩
        hes.2.2 (by simpa [keys] using hstep.2)
      refine ⟨N1 + N2 + 1, fun n hn => ?_⟩
      obtain ⟨m, rfl⟩ : ∃ m, n = m + 1 := ⟨n - 1, by omega⟩
      have h2 := c2 m (by omega)
      have hstepEq : interpEs (m + 1) root ((k, v) :: rest) ckl okl st acc =
          interpEs m root rest ckl okl st
            ⟨acc.es ++ [(k, w)], if decide (k ∈ ckl) = true then setInsert k acc.ck else acc.ck,
              if decide (k ∈ okl) = true then setInsert k acc.ok else acc.ok⟩ := by
        rw [interpEs_cons, c1 m (by omega), hr]
        simp only [lift, flat_plain hw, hins]
      rw [hstepEq]
      simp only [absEs, resolveEs, hr]
      cases hrr : resolveEs (absEs st.cur rest) with
      | error e => rw [hrr] at h2; exact h2
      | ok es'' =>
        rw [hrr] at h2
        obtain ⟨mm, e1, e2⟩ := h2
        exact ⟨mm, e1, by simp [e2]⟩

/-- Rendering an accumulated parameter mapping with any constant and override flags: the
entries are those of the specification. -/
theorem renderParams_settlesC {es : List (Key × Value)} (ckl okl : List Key) (hes : SemiEs es)
    (hnd : (keys es).Nodup) :
    ∃ N, ∀ n, N ≤ n →
      (renderParamsF n ⟨es, ckl, okl⟩).map Mapping.es = resolveEs (absEs [] es) := by
  obtain ⟨N, c⟩ := interpEs_settleC ⟨es, ckl, okl⟩ {} ckl okl es {} hes (by simpa using hnd)
  refine ⟨N + 1, fun n hn => ?_⟩
  obtain ⟨m, rfl⟩ : ∃ m, n = m + 1 := ⟨n - 1, by omega⟩
  have hc := c m (by omega)
  unfold renderParamsF renderedF
  simp only [Mapping.toValue]
  rw [interp_map]
  cases hr : resolveEs (absEs [] es) with
  | error e =>
    rw [show ({} : RState).cur = [] from rfl, hr] at hc
    simp only [EsOutcomeC] at hc
    rw [hc]; rfl
  | ok es' =>
    rw [show ({} : RState).cur = [] from rfl, hr] at hc
    obtain ⟨mm, e1, e2⟩ := hc
    rw [e1]
    have e2' : mm.es = es' := by simpa using e2
    have hp : PlainEs es' :=
      (resolveEs_plain _ _ (absEs_ptree [] hes) hr).1
    have hk : keys es' = keys es := by
      rw [(resolveEs_plain _ _ (absEs_ptree [] hes) hr).2, tkeys_absEs]
    obtain ⟨ck', ok', hf⟩ := flatEs_plainEs mm.ck mm.ok {} es' {} hp (by simpa [hk] using hnd)
    simp only [Mapping.toValue, flat, e2', hf]
    simp [Except.map]

/-- The layer with its constant flags erased. -/
def eraseCkLayer (m : Mapping) : Mapping := { m with ck := [] }

theorem refFreeEs_clean : ∀ {es : List (Key × Value)}, RefFreeEs es →
    ∀ k v, (k, v) ∈ es → CleanKey k
  | [], _, _, _, hm => by simp at hm
  | (k', v') :: rest, h, k, v, hm => by
    simp only [RefFreeEs] at h
    rcases List.mem_cons.1 hm with heq | hm'
    · cases heq; exact h.1
    · exact refFreeEs_clean h.2.2 k v hm'

/-- A stack that merges with its constant flags merges with all of them erased, to the same
entries and override set. -/
theorem mergeLayers_eraseCk : ∀ (ms : List Mapping) (b b' r : Mapping),
    (∀ m ∈ ms, RefFreeEs m.es) → C09d.SameData b b' → b'.ck = [] →
    mergeLayers b ms = .ok r →
    ∃ r', mergeLayers b' (ms.map eraseCkLayer) = .ok r' ∧ C09d.SameData r r' ∧ r'.ck = []
  | [], b, b', r, _, hd, hck, h => by
    cases h
    exact ⟨b', rfl, hd, hck⟩
  | m :: ms, b, b', r, hms, hd, hck, h => by
    rw [C09d.mergeLayers_cons] at h
    cases h1 : b.merge m with
    | error e => simp [h1] at h
    | ok b1 =>
      simp only [h1] at h
      have hclean : ∀ k v, (k, v) ∈ m.es → k.stripPrefix.2 ≠ some .const := by
        intro k v hm
        have hc : CleanKey k := refFreeEs_clean (hms m (by simp)) k v hm
        rw [show k.stripPrefix = (k, none) from hc]
        simp
      obtain ⟨n1, hn1, hd1, hck1⟩ := C09d.const_flags_only_reject b b' m b1 hd hck hclean h1
      obtain ⟨r', hr', hdr, hckr⟩ := mergeLayers_eraseCk ms b1 n1 r
        (fun m' hm' => hms m' (List.mem_cons_of_mem _ hm')) hd1 hck1 h
      refine ⟨r', ?_, hdr, hckr⟩
      simp only [List.map_cons, C09d.mergeLayers_cons]
      have : b'.merge (eraseCkLayer m) = .ok n1 := hn1
      rw [this]
      exact hr'

/-- The specification ignores constant flags. -/
theorem mergedParamsO_eraseCk (ms : List Mapping) :
    mergedParamsO ((ms.map eraseCkLayer).map normLayer) = mergedParamsO (ms.map normLayer) := by
  unfold mergedParamsO
  rw [List.map_map, List.foldl_map, List.foldl_map]
  rfl

end DeepMerge
end Reclass
