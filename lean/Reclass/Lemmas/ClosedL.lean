/-
  Reclass.Lemmas.ClosedL — helper lemmas for property C07 (see `Spec/Closed`, `Props/C07`).
-/
import Reclass.Spec.Closed
namespace Reclass

/-! ## Keys -/

theorem cleanKey_strip {k : Key} (h : CleanKey k) : k.stripPrefix = (k, none) := h

theorem cleanKey_iff (k : Key) :
    CleanKey k ↔ ∀ c cs, k = .str (c :: cs) → c ≠ '=' ∧ c ≠ '~' := by
  cases k with
  | str s =>
    cases s with
    | nil => simp [CleanKey, Key.stripPrefix]
    | cons c cs =>
      simp only [CleanKey, Key.stripPrefix, KeyPrefix.ofChar, Extracted.constMarker,
        Extracted.overrideMarker]
      by_cases h1 : c = '=' <;> by_cases h2 : c = '~' <;> simp [h1, h2]
  | _ => simp [CleanKey, Key.stripPrefix]

theorem lookup_none_iff {k : Key} {es : List (Key × Value)} :
    lookup k es = none ↔ k ∉ keys es := by
  induction es with
  | nil => simp [lookup]
  | cons e es ih =>
    obtain ⟨k', v'⟩ := e
    by_cases h : k' = k
    · simp [lookup, h]
    · simp only [lookup, h, if_false, ih]
      simp [keys, Ne.symm h]

theorem lookup_some_mem {k : Key} {es : List (Key × Value)} {v : Value}
    (h : lookup k es = some v) : k ∈ keys es := by
  by_cases hk : k ∈ keys es
  · exact hk
  · rw [lookup_none_iff.2 hk] at h; cases h

theorem keys_replaceVal (k : Key) (v : Value) (es : List (Key × Value)) :
    keys (replaceVal k v es) = keys es := by
  induction es with
  | nil => rfl
  | cons e es ih =>
    obtain ⟨k', v'⟩ := e
    by_cases h : k' = k
    · simp [replaceVal, h]
    · simp only [replaceVal, h, if_false]
      simp only [keys, List.map_cons] at ih ⊢
      rw [ih]

/-! ## WF of entry lists -/

theorem wfEs_append {es : List (Key × Value)} {k : Key} {v : Value} :
    WFEs (es ++ [(k, v)]) ↔ WFEs es ∧ CleanKey k ∧ WF v := by
  induction es with
  | nil => simp [WFEs]
  | cons e es ih =>
    obtain ⟨k', v'⟩ := e
    simp only [List.cons_append, WFEs, ih]
    constructor
    · rintro ⟨a, b, c, d, e⟩; exact ⟨⟨a, b, c⟩, d, e⟩
    · rintro ⟨⟨a, b, c⟩, d, e⟩; exact ⟨a, b, c, d, e⟩

theorem wfEs_replaceVal {es : List (Key × Value)} {k : Key} {v : Value}
    (h : WFEs es) (hv : WF v) : WFEs (replaceVal k v es) := by
  induction es with
  | nil => simp [replaceVal, WFEs]
  | cons e es ih =>
    obtain ⟨k', v'⟩ := e
    simp only [WFEs] at h
    by_cases hk : k' = k
    · simp only [replaceVal, hk, if_true, WFEs]; exact ⟨hk ▸ h.1, hv, h.2.2⟩
    · simp only [replaceVal, hk, if_false, WFEs]; exact ⟨h.1, h.2.1, ih h.2.2⟩

theorem lookup_some_wf {es : List (Key × Value)} {k : Key} {v : Value}
    (h : WFEs es) (hl : lookup k es = some v) : WF v := by
  induction es with
  | nil => simp [lookup] at hl
  | cons e es ih =>
    obtain ⟨k', v'⟩ := e
    simp only [WFEs] at h
    by_cases hk : k' = k
    · simp only [lookup, hk, if_true, Option.some.injEq] at hl; exact hl ▸ h.2.1
    · simp only [lookup, hk, if_false] at hl; exact ih h.2.2 hl

theorem wfL_append {a b : List Value} : WFL (a ++ b) ↔ WFL a ∧ WFL b := by
  induction a with
  | nil => simp [WFL]
  | cons x a ih => simp only [List.cons_append, WFL, ih, and_assoc]

theorem combine_wf {old v : Value} (h1 : WF old) (h2 : WF v) : WF (combine old v) := by
  unfold combine
  split <;> simp_all [WF, WFL, wfL_append]

/-! ## insertImpl -/

theorem stripPrefix_clean {k : Key} (h : CleanKey k) : k.stripPrefix = (k, none) := h

/-- General shape of a successful `insert_impl`. -/
theorem insertImpl_wf {m m' : Mapping} {k : Key} {v : Value} {fc fo : Bool}
    (hm : WF m.toValue) (hk : CleanKey k.stripPrefix.1) (hv : WF v)
    (h : m.insertImpl k v fc fo = .ok m') : WF m'.toValue := by
  unfold Mapping.insertImpl at h
  simp only [Mapping.toValue, WF] at hm ⊢
  obtain ⟨hes, hnd⟩ := hm
  generalize k.stripPrefix = kp at h hk
  obtain ⟨k1, p⟩ := kp
  simp only at h hk
  cases hl : lookup k1 m.es with
  | none =>
    simp only [hl, Except.ok.injEq] at h
    subst h
    refine ⟨wfEs_append.2 ⟨hes, hk, hv⟩, ?_⟩
    have := lookup_none_iff.1 hl
    simp only [keys, List.map_append, List.map_cons, List.map_nil] at this ⊢
    rw [List.nodup_append]
    refine ⟨hnd, by simp, ?_⟩
    intro a ha b hb
    simp at hb; subst hb
    intro e; subst e; exact this ha
  | some old =>
    simp only [hl] at h
    by_cases hc : k1 ∈ m.ck
    · simp [hc] at h
    · simp only [hc, if_false, Except.ok.injEq] at h
      subst h
      have hold := lookup_some_wf hes hl
      simp only
      split
      · exact ⟨wfEs_replaceVal hes hv, by rw [keys_replaceVal]; exact hnd⟩
      · exact ⟨wfEs_replaceVal hes (combine_wf hold hv), by rw [keys_replaceVal]; exact hnd⟩

/-- Inserting under a clean key that is not present appends the entry unchanged. -/
theorem insertImpl_fresh (m : Mapping) {k : Key} (v : Value) (fc fo : Bool)
    (hk : CleanKey k) (hn : k ∉ keys m.es) :
    ∃ ck' ok', m.insertImpl k v fc fo = .ok ⟨m.es ++ [(k, v)], ck', ok'⟩ := by
  unfold Mapping.insertImpl
  rw [show k.stripPrefix = (k, none) from hk]
  simp only [lookup_none_iff.2 hn]
  exact ⟨_, _, rfl⟩

/-! ## Mapping.merge -/

theorem mergeEntries_wf {ock ook : List Key} {es : List (Key × Value)} :
    ∀ {m m' : Mapping}, WF m.toValue → WFEs es →
      m.mergeEntries ock ook es = .ok m' → WF m'.toValue := by
  induction es with
  | nil => intro m m' hm _ h; simp only [Mapping.mergeEntries, Except.ok.injEq] at h; exact h ▸ hm
  | cons e es ih =>
    obtain ⟨k, v⟩ := e
    intro m m' hm hes h
    simp only [WFEs] at hes
    simp only [Mapping.mergeEntries] at h
    cases h1 : m.insertImpl k v (decide (k ∈ ock)) (decide (k ∈ ook)) with
    | error e => simp [h1] at h
    | ok m1 =>
      simp only [h1] at h
      have hk : CleanKey k.stripPrefix.1 := by rw [show k.stripPrefix = (k, none) from hes.1]; exact hes.1
      exact ih (insertImpl_wf hm hk hes.2.1 h1) hes.2.2 h

/-- `Mapping::merge` of well-formed mappings is well-formed. -/
theorem merge_wf {a b c : Mapping} (ha : WF a.toValue) (hb : WF b.toValue)
    (h : Mapping.merge a b = .ok c) : WF c.toValue := by
  unfold Mapping.merge at h
  simp only [Mapping.toValue, WF] at hb
  exact mergeEntries_wf ha hb.1 h

theorem mergeNonVl_wf {a b r : Value} {st : RState} (ha : WF a) (hb : WF b)
    (h : mergeNonVl a b st = .ok r) : WF r := by
  cases a with
  | null => simp only [mergeNonVl, Except.ok.injEq] at h; exact h ▸ hb
  | map es ck ok =>
    cases b with
    | map es' ck' ok' =>
      simp only [mergeNonVl] at h
      cases h1 : Mapping.merge ⟨es, ck, ok⟩ ⟨es', ck', ok'⟩ with
      | error e => simp [h1] at h
      | ok m =>
        simp only [h1, Except.ok.injEq] at h
        exact h ▸ merge_wf (a := ⟨es, ck, ok⟩) (b := ⟨es', ck', ok'⟩) ha hb h1
    | _ => simp [mergeNonVl] at h
  | seq s =>
    cases b with
    | seq s' =>
      simp only [mergeNonVl, Except.ok.injEq] at h
      subst h
      simp only [WF] at ha hb ⊢
      exact wfL_append.2 ⟨ha, hb⟩
    | _ => simp [mergeNonVl] at h
  | str _ => simp [mergeNonVl] at h
  | vl _ => simp [mergeNonVl] at h
  | bool _ =>
    simp only [mergeNonVl] at h
    split at h
    · simp at h
    · simp only [Except.ok.injEq] at h; exact h ▸ hb
  | num _ =>
    simp only [mergeNonVl] at h
    split at h
    · simp at h
    · simp only [Except.ok.injEq] at h; exact h ▸ hb
  | lit _ =>
    simp only [mergeNonVl] at h
    split at h
    · simp at h
    · simp only [Except.ok.injEq] at h; exact h ▸ hb

/-! ## flattened keeps WF -/

mutual
theorem flat_wf : ∀ (v : Value) (st : RState) (r : Value), WF v → flat v st = .ok r → WF r
  | .vl l, st, r, hv, h => by
    simp only [flat] at h
    exact flatVl_wf l .null st r (by simpa [WF] using hv) (by simp [WF]) h
  | .map es ck ok, st, r, hv, h => by
    simp only [flat] at h
    cases h1 : flatEs es ck ok st {} with
    | error e => simp [h1] at h
    | ok m =>
      simp only [h1, Except.ok.injEq] at h
      subst h
      simp only [WF] at hv
      exact flatEs_wf es ck ok st {} m hv.1 (by simp [Mapping.toValue, WF, WFEs]) h1
  | .seq l, st, r, hv, h => by
    simp only [flat] at h
    cases h1 : flatL l st with
    | error e => simp [h1] at h
    | ok l' =>
      simp only [h1, Except.ok.injEq] at h
      subst h
      simp only [WF] at hv ⊢
      exact flatL_wf l st l' hv h1
  | .str _, st, r, _, h => by simp [flat] at h
  | .null, st, r, hv, h => by simp only [flat, Except.ok.injEq] at h; exact h ▸ hv
  | .bool _, st, r, hv, h => by simp only [flat, Except.ok.injEq] at h; exact h ▸ hv
  | .num _, st, r, hv, h => by simp only [flat, Except.ok.injEq] at h; exact h ▸ hv
  | .lit _, st, r, hv, h => by simp only [flat, Except.ok.injEq] at h; exact h ▸ hv
theorem flatVl_wf : ∀ (l : List Value) (base : Value) (st : RState) (r : Value),
    WFL l → WF base → flatVl l base st = .ok r → WF r
  | [], base, st, r, _, hb, h => by simp only [flatVl, Except.ok.injEq] at h; exact h ▸ hb
  | v :: rest, base, st, r, hl, hb, h => by
    simp only [flatVl] at h
    simp only [WFL] at hl
    cases h1 : mergeV base v st with
    | error e => simp [h1] at h
    | ok b =>
      simp only [h1] at h
      exact flatVl_wf rest b st r hl.2 (mergeV_wf base v st b hb hl.1 h1) h
theorem mergeV_wf : ∀ (self other : Value) (st : RState) (r : Value),
    WF self → WF other → mergeV self other st = .ok r → WF r
  | self, .null, st, r, _, _, h => by
    simp only [mergeV, Except.ok.injEq] at h; subst h; simp [WF]
  | self, .vl l, st, r, hs, ho, h => by
    simp only [mergeV] at h
    cases h1 : flatVl l .null st with
    | error e => simp [h1] at h
    | ok o =>
      simp only [h1] at h
      exact mergeNonVl_wf hs (flatVl_wf l .null st o (by simpa [WF] using ho) (by simp [WF]) h1) h
  | self, .map es ck ok, st, r, hs, ho, h => by
    simp only [mergeV] at h; exact mergeNonVl_wf hs ho h
  | self, .seq l, st, r, hs, ho, h => by
    simp only [mergeV] at h; exact mergeNonVl_wf hs ho h
  | self, .str _, st, r, hs, ho, h => by
    simp only [mergeV] at h; exact mergeNonVl_wf hs ho h
  | self, .bool _, st, r, hs, ho, h => by
    simp only [mergeV] at h; exact mergeNonVl_wf hs ho h
  | self, .num _, st, r, hs, ho, h => by
    simp only [mergeV] at h; exact mergeNonVl_wf hs ho h
  | self, .lit _, st, r, hs, ho, h => by
    simp only [mergeV] at h; exact mergeNonVl_wf hs ho h
theorem flatL_wf : ∀ (l : List Value) (st : RState) (r : List Value),
    WFL l → flatL l st = .ok r → WFL r
  | [], st, r, _, h => by simp only [flatL, Except.ok.injEq] at h; subst h; simp [WFL]
  | v :: vs, st, r, hl, h => by
    simp only [flatL] at h
    simp only [WFL] at hl
    cases h1 : flat v st with
    | error e => simp [h1] at h
    | ok x =>
      simp only [h1] at h
      cases h2 : flatL vs st with
      | error e => simp [h2] at h
      | ok xs =>
        simp only [h2, Except.ok.injEq] at h
        subst h
        exact ⟨flat_wf v st x hl.1 h1, flatL_wf vs st xs hl.2 h2⟩
theorem flatEs_wf : ∀ (es : List (Key × Value)) (ck ok : List Key) (st : RState) (acc m : Mapping),
    WFEs es → WF acc.toValue → flatEs es ck ok st acc = .ok m → WF m.toValue
  | [], ck, ok, st, acc, m, _, ha, h => by simp only [flatEs, Except.ok.injEq] at h; exact h ▸ ha
  | (k, v) :: rest, ck, ok, st, acc, m, hes, ha, h => by
    simp only [flatEs] at h
    simp only [WFEs] at hes
    cases h1 : flat v st with
    | error e => simp [h1] at h
    | ok v' =>
      simp only [h1] at h
      cases h2 : acc.insertImpl k v' (decide (k ∈ ck)) (decide (k ∈ ok)) with
      | error e => simp [h2] at h
      | ok acc' =>
        simp only [h2] at h
        have hk : CleanKey k.stripPrefix.1 := by
          rw [show k.stripPrefix = (k, none) from hes.1]; exact hes.1
        exact flatEs_wf rest ck ok st acc' m hes.2.2
          (insertImpl_wf ha hk (flat_wf v st v' hes.2.1 h1) h2) h
end

/-! ## flattened of a closed value is closed -/

theorem closedEs_append {es : List (Key × Value)} {k : Key} {v : Value} :
    ClosedEs (es ++ [(k, v)]) ↔ ClosedEs es ∧ Closed v := by
  induction es with
  | nil => simp [ClosedEs]
  | cons e es ih =>
    obtain ⟨k', v'⟩ := e
    simp only [List.cons_append, ClosedEs, ih, and_assoc]

theorem nodup_keys_step {a : List Key} {k : Key} {b : List Key}
    (h : (a ++ k :: b).Nodup) : k ∉ a ∧ ((a ++ [k]) ++ b).Nodup := by
  constructor
  · intro hk
    rw [List.nodup_append] at h
    exact h.2.2 k hk k (by simp) rfl
  · simpa [List.append_assoc] using h

mutual
theorem flat_closed : ∀ (v : Value) (st : RState) (r : Value),
    Closed v → WF v → flat v st = .ok r → Closed r
  | .vl l, st, r, hc, _, _ => by simp [Closed] at hc
  | .str _, st, r, hc, _, _ => by simp [Closed] at hc
  | .map es ck ok, st, r, hc, hv, h => by
    simp only [flat] at h
    cases h1 : flatEs es ck ok st {} with
    | error e => simp [h1] at h
    | ok m =>
      simp only [h1, Except.ok.injEq] at h
      subst h
      simp only [WF] at hv
      simp only [Closed] at hc
      exact flatEs_closed es ck ok st {} m hc hv.1 (by simp [ClosedEs]) (by simpa using hv.2) h1
  | .seq l, st, r, hc, hv, h => by
    simp only [flat] at h
    cases h1 : flatL l st with
    | error e => simp [h1] at h
    | ok l' =>
      simp only [h1, Except.ok.injEq] at h
      subst h
      simp only [WF] at hv
      simp only [Closed] at hc ⊢
      exact flatL_closed l st l' hc hv h1
  | .null, st, r, hc, _, h => by simp only [flat, Except.ok.injEq] at h; exact h ▸ hc
  | .bool _, st, r, hc, _, h => by simp only [flat, Except.ok.injEq] at h; exact h ▸ hc
  | .num _, st, r, hc, _, h => by simp only [flat, Except.ok.injEq] at h; exact h ▸ hc
  | .lit _, st, r, hc, _, h => by simp only [flat, Except.ok.injEq] at h; exact h ▸ hc
theorem flatL_closed : ∀ (l : List Value) (st : RState) (r : List Value),
    ClosedL l → WFL l → flatL l st = .ok r → ClosedL r
  | [], st, r, _, _, h => by simp only [flatL, Except.ok.injEq] at h; subst h; simp [ClosedL]
  | v :: vs, st, r, hc, hl, h => by
    simp only [flatL] at h
    simp only [WFL] at hl
    simp only [ClosedL] at hc
    cases h1 : flat v st with
    | error e => simp [h1] at h
    | ok x =>
      simp only [h1] at h
      cases h2 : flatL vs st with
      | error e => simp [h2] at h
      | ok xs =>
        simp only [h2, Except.ok.injEq] at h
        subst h
        exact ⟨flat_closed v st x hc.1 hl.1 h1, flatL_closed vs st xs hc.2 hl.2 h2⟩
theorem flatEs_closed : ∀ (es : List (Key × Value)) (ck ok : List Key) (st : RState)
    (acc m : Mapping), ClosedEs es → WFEs es → ClosedEs acc.es →
    (keys acc.es ++ keys es).Nodup → flatEs es ck ok st acc = .ok m → ClosedEs m.es
  | [], ck, ok, st, acc, m, _, _, ha, _, h => by
    simp only [flatEs, Except.ok.injEq] at h; exact h ▸ ha
  | (k, v) :: rest, ck, ok, st, acc, m, hc, hes, ha, hnd, h => by
    simp only [flatEs] at h
    simp only [WFEs] at hes
    simp only [ClosedEs] at hc
    cases h1 : flat v st with
    | error e => simp [h1] at h
    | ok v' =>
      simp only [h1] at h
      have hstep := nodup_keys_step (by simpa [keys] using hnd : (keys acc.es ++ k :: keys rest).Nodup)
      obtain ⟨ck', ok', hins⟩ := insertImpl_fresh acc v' (decide (k ∈ ck)) (decide (k ∈ ok)) hes.1 hstep.1
      simp only [hins] at h
      refine flatEs_closed rest ck ok st _ m hc.2 hes.2.2 ?_ ?_ h
      · exact closedEs_append.2 ⟨ha, flat_closed v st v' hc.1 hes.2.1 h1⟩
      · simpa [keys] using hstep.2
end

/-! ## interpolate never returns an unparsed string or a layer list (no hypotheses) -/

/-- Top-level constructor is neither `Value::String` nor `Value::ValueList`. -/
def NotStrVl (v : Value) : Prop := v.isStr = false ∧ v.isVl = false

theorem notStrVl_iff (v : Value) : NotStrVl v ↔ (∀ s, v ≠ .str s) ∧ (∀ l, v ≠ .vl l) := by
  cases v <;> simp [NotStrVl, Value.isStr, Value.isVl]

theorem interp_tokRender_notStrVl : ∀ n,
    (∀ root v st r st', interp n root v st = .ok (r, st') → NotStrVl r) ∧
    (∀ root t st r st', tokRender n root t st = .ok (r, st') → NotStrVl r) := by
  intro n
  induction n with
  | zero => constructor <;> intros <;> simp_all [interp, tokRender]
  | succ n ih =>
    obtain ⟨ihV, ihT⟩ := ih
    constructor
    · intro root v st r st' h
      cases v with
      | str s =>
        simp only [interp] at h
        cases h1 : Token.parse s with
        | error e => simp [h1] at h
        | ok o =>
          cases o with
          | none =>
            simp only [h1, Except.ok.injEq, Prod.mk.injEq] at h
            rw [← h.1]; simp [NotStrVl, Value.isStr, Value.isVl]
          | some t => simp only [h1] at h; exact ihT _ _ _ _ _ h
      | map es ck ok =>
        simp only [interp] at h
        cases h1 : interpEs n root es ck ok st {} with
        | error e => simp [h1] at h
        | ok m =>
          simp only [h1, Except.ok.injEq, Prod.mk.injEq] at h
          rw [← h.1]; simp [NotStrVl, Mapping.toValue, Value.isStr, Value.isVl]
      | seq l =>
        simp only [interp] at h
        cases h1 : interpL n root l 0 st with
        | error e => simp [h1] at h
        | ok l' =>
          simp only [h1, Except.ok.injEq, Prod.mk.injEq] at h
          rw [← h.1]; simp [NotStrVl, Value.isStr, Value.isVl]
      | vl l =>
        simp only [interp] at h
        cases h1 : interpVl n root l .null st with
        | error e => simp [h1] at h
        | ok x => simp only [h1] at h; exact ihV _ _ _ _ _ h
      | null => simp only [interp, Except.ok.injEq, Prod.mk.injEq] at h; rw [← h.1]; simp [NotStrVl, Value.isStr, Value.isVl]
      | bool _ => simp only [interp, Except.ok.injEq, Prod.mk.injEq] at h; rw [← h.1]; simp [NotStrVl, Value.isStr, Value.isVl]
      | num _ => simp only [interp, Except.ok.injEq, Prod.mk.injEq] at h; rw [← h.1]; simp [NotStrVl, Value.isStr, Value.isVl]
      | lit _ => simp only [interp, Except.ok.injEq, Prod.mk.injEq] at h; rw [← h.1]; simp [NotStrVl, Value.isStr, Value.isVl]
    · intro root t st r st' h
      simp only [tokRender] at h
      cases h1 : tokResolve n root t st with
      | error e => simp [h1] at h
      | ok p =>
        obtain ⟨v, st1⟩ := p
        simp only [h1] at h
        cases t with
        | ref parts => exact ihV _ _ _ _ _ h
        | lit s =>
          simp only at h
          cases h2 : rawString v with
          | error e => simp [h2] at h
          | ok s' =>
            simp only [h2, Except.ok.injEq, Prod.mk.injEq] at h
            rw [← h.1]; simp [NotStrVl, Value.isStr, Value.isVl]
        | combined ts =>
          simp only at h
          cases h2 : rawString v with
          | error e => simp [h2] at h
          | ok s' =>
            simp only [h2, Except.ok.injEq, Prod.mk.injEq] at h
            rw [← h.1]; simp [NotStrVl, Value.isStr, Value.isVl]

theorem mergeNonVl_notStrVl {a b r : Value} {st : RState} (hb : NotStrVl b)
    (h : mergeNonVl a b st = .ok r) : NotStrVl r := by
  cases a with
  | null => simp only [mergeNonVl, Except.ok.injEq] at h; exact h ▸ hb
  | map es ck ok =>
    cases b with
    | map es' ck' ok' =>
      simp only [mergeNonVl] at h
      cases h1 : Mapping.merge ⟨es, ck, ok⟩ ⟨es', ck', ok'⟩ with
      | error e => simp [h1] at h
      | ok m =>
        simp only [h1, Except.ok.injEq] at h
        rw [← h]; simp [NotStrVl, Mapping.toValue, Value.isStr, Value.isVl]
    | _ => simp [mergeNonVl] at h
  | seq s =>
    cases b with
    | seq s' =>
      simp only [mergeNonVl, Except.ok.injEq] at h
      rw [← h]; simp [NotStrVl, Value.isStr, Value.isVl]
    | _ => simp [mergeNonVl] at h
  | str _ => simp [mergeNonVl] at h
  | vl _ => simp [mergeNonVl] at h
  | bool _ =>
    simp only [mergeNonVl] at h
    split at h
    · simp at h
    · simp only [Except.ok.injEq] at h; exact h ▸ hb
  | num _ =>
    simp only [mergeNonVl] at h
    split at h
    · simp at h
    · simp only [Except.ok.injEq] at h; exact h ▸ hb
  | lit _ =>
    simp only [mergeNonVl] at h
    split at h
    · simp at h
    · simp only [Except.ok.injEq] at h; exact h ▸ hb

mutual
theorem flatVl_notStrVl : ∀ (l : List Value) (base : Value) (st : RState) (r : Value),
    LayersOK l → NotStrVl base → flatVl l base st = .ok r → NotStrVl r
  | [], base, st, r, _, hb, h => by simp only [flatVl, Except.ok.injEq] at h; exact h ▸ hb
  | v :: rest, base, st, r, hl, hb, h => by
    simp only [flatVl] at h
    simp only [LayersOK] at hl
    cases h1 : mergeV base v st with
    | error e => simp [h1] at h
    | ok b =>
      simp only [h1] at h
      exact flatVl_notStrVl rest b st r hl.2 (mergeV_notStrVl base v st b hl.1 h1) h
theorem mergeV_notStrVl : ∀ (self other : Value) (st : RState) (r : Value),
    LayerOK other → mergeV self other st = .ok r → NotStrVl r
  | self, .null, st, r, _, h => by
    simp only [mergeV, Except.ok.injEq] at h; subst h; simp [NotStrVl, Value.isStr, Value.isVl]
  | self, .vl l, st, r, ho, h => by
    simp only [mergeV] at h
    cases h1 : flatVl l .null st with
    | error e => simp [h1] at h
    | ok o =>
      simp only [h1] at h
      refine mergeNonVl_notStrVl (flatVl_notStrVl l .null st o (by simpa [LayerOK] using ho) ?_ h1) h
      simp [NotStrVl, Value.isStr, Value.isVl]
  | self, .str _, st, r, ho, h => by simp [LayerOK] at ho
  | self, .map es ck ok, st, r, _, h => by
    simp only [mergeV] at h
    exact mergeNonVl_notStrVl (by simp [NotStrVl, Value.isStr, Value.isVl]) h
  | self, .seq l, st, r, _, h => by
    simp only [mergeV] at h
    exact mergeNonVl_notStrVl (by simp [NotStrVl, Value.isStr, Value.isVl]) h
  | self, .bool _, st, r, _, h => by
    simp only [mergeV] at h
    exact mergeNonVl_notStrVl (by simp [NotStrVl, Value.isStr, Value.isVl]) h
  | self, .num _, st, r, _, h => by
    simp only [mergeV] at h
    exact mergeNonVl_notStrVl (by simp [NotStrVl, Value.isStr, Value.isVl]) h
  | self, .lit _, st, r, _, h => by
    simp only [mergeV] at h
    exact mergeNonVl_notStrVl (by simp [NotStrVl, Value.isStr, Value.isVl]) h
end

theorem layerOK_of_notStrVl {v : Value} (h : NotStrVl v) : LayerOK v := by
  cases v <;> simp_all [NotStrVl, LayerOK, Value.isStr, Value.isVl]

/-- Every layer that is itself a layer list contains no unparsed string (recursively). -/
def InnerLayersOK (l : List Value) : Prop := ∀ x ∈ l, ∀ l', x = .vl l' → LayersOK l'

theorem layersStr_layersOK : ∀ (l : List Value) (n : Nat) (root : Mapping) (st : RState)
    (i : List Value), InnerLayersOK l → layersStr n root l st = .ok i → LayersOK i := by
  intro l
  induction l with
  | nil =>
    intro n root st i _ h
    cases n with
    | zero => simp [layersStr] at h
    | succ n => simp only [layersStr, Except.ok.injEq] at h; subst h; simp [LayersOK]
  | cons v vs ih =>
    intro n root st i hl h
    cases n with
    | zero => simp [layersStr] at h
    | succ n =>
      simp only [layersStr] at h
      have hvs : InnerLayersOK vs := fun x hx => hl x (List.mem_cons_of_mem _ hx)
      have hx : ∀ x, (if v.isStr then (match interp n root v st with
                            | .error e => .error e
                            | .ok (x, _) => .ok x) else .ok v : R Value) = .ok x → LayerOK x := by
        intro x hx
        by_cases hs : v.isStr
        · simp only [hs, if_true] at hx
          cases h1 : interp n root v st with
          | error e => simp [h1] at hx
          | ok p =>
            obtain ⟨y, st1⟩ := p
            simp only [h1, Except.ok.injEq] at hx
            subst hx
            exact layerOK_of_notStrVl ((interp_tokRender_notStrVl n).1 _ _ _ _ _ h1)
        · simp only [hs, Bool.false_eq_true, if_false, Except.ok.injEq] at hx
          subst hx
          cases v with
          | str s => simp [Value.isStr] at hs
          | vl l' => simp only [LayerOK]; exact hl _ (List.mem_cons_self) l' rfl
          | _ => simp [LayerOK]
      generalize (if v.isStr then (match interp n root v st with
                            | .error e => .error e
                            | .ok (x, _) => .ok x) else .ok v : R Value) = e at h hx
      cases e with
      | error e => simp at h
      | ok x =>
        simp only at h
        cases h2 : layersStr n root vs st with
        | error e => simp [h2] at h
        | ok xs =>
          simp only [h2, Except.ok.injEq] at h
          subst h
          exact ⟨hx x rfl, ih n root st xs hvs h2⟩

theorem interpStrOrVl_notStrVl {n : Nat} {root : Mapping} {v newv : Value} {st st' : RState}
    (hv : ∀ l, v = .vl l → InnerLayersOK l)
    (h : interpStrOrVl n root v st = .ok (newv, st')) : NotStrVl newv := by
  cases n with
  | zero => simp [interpStrOrVl] at h
  | succ n =>
    cases v with
    | str s => simp only [interpStrOrVl] at h; exact (interp_tokRender_notStrVl n).1 _ _ _ _ _ h
    | vl l =>
      simp only [interpStrOrVl] at h
      cases h1 : layersStr n root l st with
      | error e => simp [h1] at h
      | ok i =>
        simp only [h1] at h
        cases h2 : flatVl i .null st with
        | error e => simp [h2] at h
        | ok r =>
          simp only [h2, Except.ok.injEq, Prod.mk.injEq] at h
          rw [← h.1]
          exact flatVl_notStrVl i .null st r (layersStr_layersOK l n root st i (hv l rfl) h1)
            (by simp [NotStrVl, Value.isStr, Value.isVl]) h2
    | null => simp only [interpStrOrVl, Except.ok.injEq, Prod.mk.injEq] at h; rw [← h.1]; simp [NotStrVl, Value.isStr, Value.isVl]
    | bool _ => simp only [interpStrOrVl, Except.ok.injEq, Prod.mk.injEq] at h; rw [← h.1]; simp [NotStrVl, Value.isStr, Value.isVl]
    | num _ => simp only [interpStrOrVl, Except.ok.injEq, Prod.mk.injEq] at h; rw [← h.1]; simp [NotStrVl, Value.isStr, Value.isVl]
    | lit _ => simp only [interpStrOrVl, Except.ok.injEq, Prod.mk.injEq] at h; rw [← h.1]; simp [NotStrVl, Value.isStr, Value.isVl]
    | map _ _ _ => simp only [interpStrOrVl, Except.ok.injEq, Prod.mk.injEq] at h; rw [← h.1]; simp [NotStrVl, Value.isStr, Value.isVl]
    | seq _ => simp only [interpStrOrVl, Except.ok.injEq, Prod.mk.injEq] at h; rw [← h.1]; simp [NotStrVl, Value.isStr, Value.isVl]

/-! ## The invariant of the 13-way evaluator -/

/-- What every evaluator function guarantees at fuel `n`, for a well-formed root.
`interp`/`interpL`/`interpEs`/`tokRender` return closed, well-formed data; the functions that
hand out raw sub-values of the root (`tokResolve`, `descend`, `finalLoop`, `interpStrOrVl`,
`layersStr`) and the layer fold `interpVl` keep well-formedness.  (`slice`, `strLoop`,
`sliceFinish` return text, nothing to state.) -/
structure InterpInv (n : Nat) : Prop where
  interp : ∀ (root : Mapping) (v : Value) (st : RState) (r : Value) (st' : RState),
    WF root.toValue → WF v → interp n root v st = .ok (r, st') → Closed r ∧ WF r
  interpL : ∀ (root : Mapping) (l : List Value) (idx : Nat) (st : RState) (r : List Value),
    WF root.toValue → WFL l → interpL n root l idx st = .ok r → ClosedL r ∧ WFL r
  interpEs : ∀ (root : Mapping) (es : List (Key × Value)) (ck ok : List Key) (st : RState)
    (acc m : Mapping), WF root.toValue → WFEs es → ClosedEs acc.es → WFEs acc.es →
    (keys acc.es ++ keys es).Nodup → interpEs n root es ck ok st acc = .ok m →
    ClosedEs m.es ∧ WF m.toValue
  interpVl : ∀ (root : Mapping) (l : List Value) (r0 : Value) (st : RState) (r : Value),
    WF root.toValue → WFL l → WF r0 → interpVl n root l r0 st = .ok r → WF r
  tokRender : ∀ (root : Mapping) (t : Token) (st : RState) (r : Value) (st' : RState),
    WF root.toValue → tokRender n root t st = .ok (r, st') → Closed r ∧ WF r
  tokResolve : ∀ (root : Mapping) (t : Token) (st : RState) (r : Value) (st' : RState),
    WF root.toValue → tokResolve n root t st = .ok (r, st') → WF r
  descend : ∀ (root : Mapping) (v : Value) (segs : List Str) (st : RState) (path : Str)
    (r : Value) (st' : RState),
    WF root.toValue → WF v → descend n root v segs st path = .ok (r, st') → WF r
  finalLoop : ∀ (root : Mapping) (v : Value) (st : RState) (r : Value) (st' : RState),
    WF root.toValue → WF v → finalLoop n root v st = .ok (r, st') → WF r
  interpStrOrVl : ∀ (root : Mapping) (v : Value) (st : RState) (r : Value) (st' : RState),
    WF root.toValue → WF v → interpStrOrVl n root v st = .ok (r, st') → WF r
  layersStr : ∀ (root : Mapping) (l : List Value) (st : RState) (r : List Value),
    WF root.toValue → WFL l → layersStr n root l st = .ok r → WFL r

theorem interpInv_zero : InterpInv 0 := by
  constructor <;> intros <;>
    simp_all [interp, interpL, interpEs, interpVl, tokRender, tokResolve, descend, finalLoop,
      interpStrOrVl, layersStr]

section step
variable {n : Nat} (ih : InterpInv n)
include ih

theorem interp_step (root : Mapping) (v : Value) (st : RState) (r : Value) (st' : RState)
    (hr : WF root.toValue) (hv : WF v) (h : Reclass.interp (n+1) root v st = .ok (r, st')) :
    Closed r ∧ WF r := by
  cases v with
  | str s =>
    simp only [Reclass.interp] at h
    cases h1 : Token.parse s with
    | error e => simp [h1] at h
    | ok o =>
      cases o with
      | none =>
        simp only [h1, Except.ok.injEq, Prod.mk.injEq] at h
        rw [← h.1]; simp [Closed, WF]
      | some t => simp only [h1] at h; exact ih.tokRender _ _ _ _ _ hr h
  | map es ck ok =>
    simp only [Reclass.interp] at h
    cases h1 : Reclass.interpEs n root es ck ok st {} with
    | error e => simp [h1] at h
    | ok m =>
      simp only [h1, Except.ok.injEq, Prod.mk.injEq] at h
      rw [← h.1]
      simp only [WF] at hv
      have := ih.interpEs root es ck ok st {} m hr hv.1 (by simp [ClosedEs]) (by simp [WFEs])
        (by simpa using hv.2) h1
      exact ⟨by simpa [Mapping.toValue, Closed] using this.1, this.2⟩
  | seq l =>
    simp only [Reclass.interp] at h
    cases h1 : Reclass.interpL n root l 0 st with
    | error e => simp [h1] at h
    | ok l' =>
      simp only [h1, Except.ok.injEq, Prod.mk.injEq] at h
      rw [← h.1]
      simp only [WF] at hv ⊢
      simpa [Closed] using ih.interpL root l 0 st l' hr hv h1
  | vl l =>
    simp only [Reclass.interp] at h
    cases h1 : Reclass.interpVl n root l .null st with
    | error e => simp [h1] at h
    | ok x =>
      simp only [h1] at h
      simp only [WF] at hv
      exact ih.interp _ _ _ _ _ hr (ih.interpVl root l .null st x hr hv (by simp [WF]) h1) h
  | null => simp only [Reclass.interp, Except.ok.injEq, Prod.mk.injEq] at h; rw [← h.1]; simp [Closed, WF]
  | bool _ => simp only [Reclass.interp, Except.ok.injEq, Prod.mk.injEq] at h; rw [← h.1]; simp [Closed, WF]
  | num _ => simp only [Reclass.interp, Except.ok.injEq, Prod.mk.injEq] at h; rw [← h.1]; simp [Closed, WF]
  | lit _ => simp only [Reclass.interp, Except.ok.injEq, Prod.mk.injEq] at h; rw [← h.1]; simp [Closed, WF]

theorem interpL_step (root : Mapping) (l : List Value) (idx : Nat) (st : RState) (r : List Value)
    (hr : WF root.toValue) (hl : WFL l) (h : Reclass.interpL (n+1) root l idx st = .ok r) :
    ClosedL r ∧ WFL r := by
  cases l with
  | nil => simp only [Reclass.interpL, Except.ok.injEq] at h; subst h; simp [ClosedL, WFL]
  | cons v vs =>
    simp only [Reclass.interpL] at h
    simp only [WFL] at hl
    cases h1 : Reclass.interp n root v (st.pushListIndex idx) with
    | error e => simp [h1] at h
    | ok p =>
      obtain ⟨x, st1⟩ := p
      simp only [h1] at h
      cases h2 : Reclass.interpL n root vs (idx + 1) st with
      | error e => simp [h2] at h
      | ok xs =>
        simp only [h2, Except.ok.injEq] at h
        subst h
        have a := ih.interp _ _ _ _ _ hr hl.1 h1
        have b := ih.interpL _ _ _ _ _ hr hl.2 h2
        exact ⟨⟨a.1, b.1⟩, ⟨a.2, b.2⟩⟩

theorem interpEs_step (root : Mapping) (es : List (Key × Value)) (ck ok : List Key) (st : RState)
    (acc m : Mapping) (hr : WF root.toValue) (hes : WFEs es) (hca : ClosedEs acc.es)
    (hwa : WFEs acc.es) (hnd : (keys acc.es ++ keys es).Nodup)
    (h : Reclass.interpEs (n+1) root es ck ok st acc = .ok m) :
    ClosedEs m.es ∧ WF m.toValue := by
  cases es with
  | nil =>
    simp only [Reclass.interpEs, Except.ok.injEq] at h
    subst h
    exact ⟨hca, by simpa [Mapping.toValue, WF, hwa] using hnd⟩
  | cons e rest =>
    obtain ⟨k, v⟩ := e
    simp only [Reclass.interpEs] at h
    simp only [WFEs] at hes
    cases h1 : Reclass.interp n root v (st.pushMappingKey k) with
    | error e => simp [h1] at h
    | ok p =>
      obtain ⟨v1, st1⟩ := p
      simp only [h1] at h
      cases h2 : flat v1 st1 with
      | error e => simp [h2] at h
      | ok v2 =>
        simp only [h2] at h
        have a := ih.interp _ _ _ _ _ hr hes.2.1 h1
        have hc2 := flat_closed v1 st1 v2 a.1 a.2 h2
        have hw2 := flat_wf v1 st1 v2 a.2 h2
        have hstep := nodup_keys_step (by simpa [keys] using hnd : (keys acc.es ++ k :: keys rest).Nodup)
        obtain ⟨ck', ok', hins⟩ := insertImpl_fresh acc v2 (decide (k ∈ ck)) (decide (k ∈ ok)) hes.1 hstep.1
        simp only [hins] at h
        refine ih.interpEs root rest ck ok st _ m hr hes.2.2 ?_ ?_ ?_ h
        · exact closedEs_append.2 ⟨hca, hc2⟩
        · exact wfEs_append.2 ⟨hwa, hes.1, hw2⟩
        · simpa [keys] using hstep.2

theorem interpVl_step (root : Mapping) (l : List Value) (r0 : Value) (st : RState) (r : Value)
    (hr : WF root.toValue) (hl : WFL l) (h0 : WF r0)
    (h : Reclass.interpVl (n+1) root l r0 st = .ok r) : WF r := by
  cases l with
  | nil => simp only [Reclass.interpVl, Except.ok.injEq] at h; exact h ▸ h0
  | cons v vs =>
    simp only [Reclass.interpVl] at h
    simp only [WFL] at hl
    cases h1 : Reclass.interp n root v st with
    | error e => simp [h1] at h
    | ok p =>
      obtain ⟨x, st1⟩ := p
      simp only [h1] at h
      cases h2 : mergeV r0 x st1 with
      | error e => simp [h2] at h
      | ok r1 =>
        simp only [h2] at h
        have a := ih.interp _ _ _ _ _ hr hl.1 h1
        exact ih.interpVl _ _ _ _ _ hr hl.2 (mergeV_wf r0 x st1 r1 h0 a.2 h2) h

theorem tokResolve_step (root : Mapping) (t : Token) (st : RState) (r : Value) (st' : RState)
    (hr : WF root.toValue) (h : Reclass.tokResolve (n+1) root t st = .ok (r, st')) : WF r := by
  cases t with
  | lit s => simp only [Reclass.tokResolve, Except.ok.injEq, Prod.mk.injEq] at h; rw [← h.1]; simp [WF]
  | combined ts =>
    simp only [Reclass.tokResolve] at h
    cases h1 : Reclass.slice n root ts st with
    | error e => simp [h1] at h
    | ok s => simp only [h1, Except.ok.injEq, Prod.mk.injEq] at h; rw [← h.1]; simp [WF]
  | ref parts =>
    simp only [Reclass.tokResolve] at h
    split at h
    · simp at h
    · cases h1 : Reclass.slice n root parts { st with depth := st.depth + 1 } with
      | error e => simp [h1] at h
      | ok path =>
        simp only [h1] at h
        split at h
        · simp at h
        · split at h
          · simp at h
          · rename_i k0 segs _
            cases h2 : root.get (.str k0) with
            | none => simp [h2] at h
            | some v0 =>
              simp only [h2] at h
              have hv0 : WF v0 := by
                simp only [Mapping.toValue, WF] at hr
                exact lookup_some_wf hr.1 h2
              split at h
              · simp at h
              · rename_i v st3 h3
                exact ih.finalLoop _ _ _ _ _ hr (ih.descend _ _ _ _ _ _ _ hr hv0 h3) h

theorem tokRender_step (root : Mapping) (t : Token) (st : RState) (r : Value) (st' : RState)
    (hr : WF root.toValue) (h : Reclass.tokRender (n+1) root t st = .ok (r, st')) :
    Closed r ∧ WF r := by
  simp only [Reclass.tokRender] at h
  cases h1 : Reclass.tokResolve n root t st with
  | error e => simp [h1] at h
  | ok p =>
    obtain ⟨v, st1⟩ := p
    simp only [h1] at h
    have hv := ih.tokResolve _ _ _ _ _ hr h1
    cases t with
    | ref parts => exact ih.interp _ _ _ _ _ hr hv h
    | lit s =>
      simp only at h
      cases h2 : rawString v with
      | error e => simp [h2] at h
      | ok s' =>
        simp only [h2, Except.ok.injEq, Prod.mk.injEq] at h
        rw [← h.1]; simp [Closed, WF]
    | combined ts =>
      simp only at h
      cases h2 : rawString v with
      | error e => simp [h2] at h
      | ok s' =>
        simp only [h2, Except.ok.injEq, Prod.mk.injEq] at h
        rw [← h.1]; simp [Closed, WF]

theorem descend_step (root : Mapping) (v : Value) (segs : List Str) (st : RState) (path : Str)
    (r : Value) (st' : RState) (hr : WF root.toValue) (hv : WF v)
    (h : Reclass.descend (n+1) root v segs st path = .ok (r, st')) : WF r := by
  cases segs with
  | nil => simp only [Reclass.descend, Except.ok.injEq, Prod.mk.injEq] at h; exact h.1 ▸ hv
  | cons key rest =>
    simp only [Reclass.descend] at h
    cases h1 : Reclass.interpStrOrVl n root v st with
    | error e => simp [h1] at h
    | ok p =>
      obtain ⟨newv, st1⟩ := p
      simp only [h1] at h
      have hn := ih.interpStrOrVl _ _ _ _ _ hr hv h1
      cases newv with
      | map es ck ok =>
        simp only at h
        cases h2 : lookup (.str key) es with
        | none => simp [h2] at h
        | some v' =>
          simp only [h2] at h
          simp only [WF] at hn
          exact ih.descend _ _ _ _ _ _ _ hr (lookup_some_wf hn.1 h2) h
      | _ => simp at h

theorem finalLoop_step (root : Mapping) (v : Value) (st : RState) (r : Value) (st' : RState)
    (hr : WF root.toValue) (hv : WF v) (h : Reclass.finalLoop (n+1) root v st = .ok (r, st')) :
    WF r := by
  simp only [Reclass.finalLoop] at h
  split at h
  · cases h1 : Reclass.interp n root v st with
    | error e => simp [h1] at h
    | ok p =>
      obtain ⟨v1, st1⟩ := p
      simp only [h1] at h
      exact ih.finalLoop _ _ _ _ _ hr (ih.interp _ _ _ _ _ hr hv h1).2 h
  · simp only [Except.ok.injEq, Prod.mk.injEq] at h; exact h.1 ▸ hv

theorem layersStr_step (root : Mapping) (l : List Value) (st : RState) (r : List Value)
    (hr : WF root.toValue) (hl : WFL l) (h : Reclass.layersStr (n+1) root l st = .ok r) :
    WFL r := by
  cases l with
  | nil => simp only [Reclass.layersStr, Except.ok.injEq] at h; subst h; simp [WFL]
  | cons v vs =>
    simp only [Reclass.layersStr] at h
    simp only [WFL] at hl
    have hx : ∀ x, (if v.isStr then (match Reclass.interp n root v st with
                          | .error e => .error e
                          | .ok (x, _) => .ok x) else .ok v : R Value) = .ok x → WF x := by
      intro x hx
      by_cases hs : v.isStr
      · simp only [hs, if_true] at hx
        cases h1 : Reclass.interp n root v st with
        | error e => simp [h1] at hx
        | ok p =>
          obtain ⟨y, st1⟩ := p
          simp only [h1, Except.ok.injEq] at hx
          subst hx
          exact (ih.interp _ _ _ _ _ hr hl.1 h1).2
      · simp only [hs, Bool.false_eq_true, if_false, Except.ok.injEq] at hx
        exact hx ▸ hl.1
    generalize (if v.isStr then (match Reclass.interp n root v st with
                          | .error e => .error e
                          | .ok (x, _) => .ok x) else .ok v : R Value) = e at h hx
    cases e with
    | error e => simp at h
    | ok x =>
      simp only at h
      cases h2 : Reclass.layersStr n root vs st with
      | error e => simp [h2] at h
      | ok xs =>
        simp only [h2, Except.ok.injEq] at h
        subst h
        exact ⟨hx x rfl, ih.layersStr _ _ _ _ hr hl.2 h2⟩

theorem interpStrOrVl_step (root : Mapping) (v : Value) (st : RState) (r : Value) (st' : RState)
    (hr : WF root.toValue) (hv : WF v)
    (h : Reclass.interpStrOrVl (n+1) root v st = .ok (r, st')) : WF r := by
  cases v with
  | str s => simp only [Reclass.interpStrOrVl] at h; exact (ih.interp _ _ _ _ _ hr hv h).2
  | vl l =>
    simp only [Reclass.interpStrOrVl] at h
    cases h1 : Reclass.layersStr n root l st with
    | error e => simp [h1] at h
    | ok i =>
      simp only [h1] at h
      cases h2 : flatVl i .null st with
      | error e => simp [h2] at h
      | ok x =>
        simp only [h2, Except.ok.injEq, Prod.mk.injEq] at h
        rw [← h.1]
        simp only [WF] at hv
        exact flatVl_wf i .null st x (ih.layersStr _ _ _ _ hr hv h1) (by simp [WF]) h2
  | null => simp only [Reclass.interpStrOrVl, Except.ok.injEq, Prod.mk.injEq] at h; exact h.1 ▸ hv
  | bool _ => simp only [Reclass.interpStrOrVl, Except.ok.injEq, Prod.mk.injEq] at h; exact h.1 ▸ hv
  | num _ => simp only [Reclass.interpStrOrVl, Except.ok.injEq, Prod.mk.injEq] at h; exact h.1 ▸ hv
  | lit _ => simp only [Reclass.interpStrOrVl, Except.ok.injEq, Prod.mk.injEq] at h; exact h.1 ▸ hv
  | map _ _ _ => simp only [Reclass.interpStrOrVl, Except.ok.injEq, Prod.mk.injEq] at h; exact h.1 ▸ hv
  | seq _ => simp only [Reclass.interpStrOrVl, Except.ok.injEq, Prod.mk.injEq] at h; exact h.1 ▸ hv

end step

/-- The evaluator invariant holds at every fuel. -/
theorem interpInv : ∀ n, InterpInv n := by
  intro n
  induction n with
  | zero => exact interpInv_zero
  | succ n ih =>
    exact {
      interp := interp_step ih
      interpL := interpL_step ih
      interpEs := interpEs_step ih
      interpVl := interpVl_step ih
      tokRender := tokRender_step ih
      tokResolve := tokResolve_step ih
      descend := descend_step ih
      finalLoop := finalLoop_step ih
      interpStrOrVl := interpStrOrVl_step ih
      layersStr := layersStr_step ih }

/-! ## From YAML -/

theorem keyOfYaml_clean {y : Yaml} {k : Key} (hy : y.keyOK) (h : Key.ofYaml y = .ok k) :
    CleanKey k.stripPrefix.1 := by
  cases y with
  | str s => simp only [Key.ofYaml, Except.ok.injEq] at h; subst h; exact hy
  | null => simp only [Key.ofYaml, Except.ok.injEq] at h; subst h; simp [Key.stripPrefix, CleanKey]
  | bool b => simp only [Key.ofYaml, Except.ok.injEq] at h; subst h; simp [Key.stripPrefix, CleanKey]
  | num n => simp only [Key.ofYaml, Except.ok.injEq] at h; subst h; simp [Key.stripPrefix, CleanKey]
  | seq _ => simp [Key.ofYaml] at h
  | map _ => simp [Key.ofYaml] at h
  | tagged _ _ => simp [Key.ofYaml] at h

mutual
theorem ofYaml_wf : ∀ (y : Yaml) (v : Value), SingleMarker y → Value.ofYaml y = .ok v → WF v
  | .null, v, _, h => by simp only [Value.ofYaml, Except.ok.injEq] at h; subst h; simp [WF]
  | .bool _, v, _, h => by simp only [Value.ofYaml, Except.ok.injEq] at h; subst h; simp [WF]
  | .num _, v, _, h => by simp only [Value.ofYaml, Except.ok.injEq] at h; subst h; simp [WF]
  | .str _, v, _, h => by simp only [Value.ofYaml, Except.ok.injEq] at h; subst h; simp [WF]
  | .tagged _ _, v, _, h => by simp [Value.ofYaml] at h
  | .seq l, v, hy, h => by
    simp only [Value.ofYaml] at h
    cases h1 : ofYamlL l with
    | error e => simp [h1] at h
    | ok l' =>
      simp only [h1, Except.ok.injEq] at h
      subst h
      simp only [SingleMarker] at hy
      simp only [WF]
      exact ofYamlL_wf l l' hy h1
  | .map es, v, hy, h => by
    simp only [Value.ofYaml] at h
    cases h1 : ofYamlEs es {} with
    | error e => simp [h1] at h
    | ok m =>
      simp only [h1, Except.ok.injEq] at h
      subst h
      simp only [SingleMarker] at hy
      exact ofYamlEs_wf es {} m hy (by simp [Mapping.toValue, WF, WFEs]) h1
theorem ofYamlL_wf : ∀ (l : List Yaml) (r : List Value), SingleMarkerL l → ofYamlL l = .ok r → WFL r
  | [], r, _, h => by simp only [ofYamlL, Except.ok.injEq] at h; subst h; simp [WFL]
  | y :: ys, r, hy, h => by
    simp only [ofYamlL] at h
    simp only [SingleMarkerL] at hy
    cases h1 : Value.ofYaml y with
    | error e => simp [h1] at h
    | ok v =>
      simp only [h1] at h
      cases h2 : ofYamlL ys with
      | error e => simp [h2] at h
      | ok vs =>
        simp only [h2, Except.ok.injEq] at h
        subst h
        exact ⟨ofYaml_wf y v hy.1 h1, ofYamlL_wf ys vs hy.2 h2⟩
theorem ofYamlEs_wf : ∀ (es : List (Yaml × Yaml)) (m m' : Mapping), SingleMarkerEs es →
    WF m.toValue → ofYamlEs es m = .ok m' → WF m'.toValue
  | [], m, m', _, hm, h => by simp only [ofYamlEs, Except.ok.injEq] at h; exact h ▸ hm
  | (k, v) :: rest, m, m', hy, hm, h => by
    simp only [ofYamlEs] at h
    simp only [SingleMarkerEs] at hy
    cases h1 : Key.ofYaml k with
    | error e => simp [h1] at h
    | ok k' =>
      simp only [h1] at h
      cases h2 : Value.ofYaml v with
      | error e => simp [h2] at h
      | ok v' =>
        simp only [h2] at h
        cases h3 : m.insert k' v' with
        | error e => simp [h3] at h
        | ok m1 =>
          simp only [h3] at h
          exact ofYamlEs_wf rest m1 m' hy.2.2
            (insertImpl_wf hm (keyOfYaml_clean hy.1 h1) (ofYaml_wf v v' hy.2.1 h2) h3) h
end

/-! ## erase -/

theorem keys_eraseEs (es : List (Key × Value)) : keys (eraseEs es) = keys es := by
  induction es with
  | nil => rfl
  | cons e es ih =>
    obtain ⟨k, v⟩ := e
    simp only [eraseEs, keys, List.map_cons] at ih ⊢
    rw [ih]

mutual
theorem closed_erase : ∀ (v : Value), Closed (erase v) ↔ Closed v
  | .map es _ _ => by simp only [erase, Closed]; exact closedEs_erase es
  | .seq l => by simp only [erase, Closed]; exact closedL_erase l
  | .vl l => by simp [erase, Closed]
  | .str _ => by simp [erase]
  | .null => by simp [erase]
  | .bool _ => by simp [erase]
  | .num _ => by simp [erase]
  | .lit _ => by simp [erase]
theorem closedL_erase : ∀ (l : List Value), ClosedL (eraseL l) ↔ ClosedL l
  | [] => by simp [eraseL]
  | v :: vs => by simp only [eraseL, ClosedL, closed_erase v, closedL_erase vs]
theorem closedEs_erase : ∀ (es : List (Key × Value)), ClosedEs (eraseEs es) ↔ ClosedEs es
  | [] => by simp [eraseEs]
  | (k, v) :: es => by simp only [eraseEs, ClosedEs, closed_erase v, closedEs_erase es]
end

mutual
theorem wf_erase : ∀ (v : Value), WF (erase v) ↔ WF v
  | .map es _ _ => by simp only [erase, WF, keys_eraseEs, wfEs_erase es]
  | .seq l => by simp only [erase, WF]; exact wfL_erase l
  | .vl l => by simp only [erase, WF]; exact wfL_erase l
  | .str _ => by simp [erase]
  | .null => by simp [erase]
  | .bool _ => by simp [erase]
  | .num _ => by simp [erase]
  | .lit _ => by simp [erase]
theorem wfL_erase : ∀ (l : List Value), WFL (eraseL l) ↔ WFL l
  | [] => by simp [eraseL]
  | v :: vs => by simp only [eraseL, WFL, wf_erase v, wfL_erase vs]
theorem wfEs_erase : ∀ (es : List (Key × Value)), WFEs (eraseEs es) ↔ WFEs es
  | [] => by simp [eraseEs]
  | (k, v) :: es => by simp only [eraseEs, WFEs, wf_erase v, wfEs_erase es]
end

theorem closed_of_erase_eq {a b : Value} (h : erase a = erase b) (hb : Closed b) : Closed a :=
  (closed_erase a).1 (h ▸ (closed_erase b).2 hb)

theorem wf_of_erase_eq {a b : Value} (h : erase a = erase b) (hb : WF b) : WF a :=
  (wf_erase a).1 (h ▸ (wf_erase b).2 hb)

/-! ## Flattening / interpolating closed data again changes nothing but the flag sets -/

mutual
theorem flat_id : ∀ (v : Value) (st : RState), Closed v → WF v →
    ∃ r, flat v st = .ok r ∧ erase r = erase v
  | .vl l, st, hc, _ => by simp [Closed] at hc
  | .str _, st, hc, _ => by simp [Closed] at hc
  | .null, st, _, _ => ⟨_, by simp only [flat], rfl⟩
  | .bool _, st, _, _ => ⟨_, by simp only [flat], rfl⟩
  | .num _, st, _, _ => ⟨_, by simp only [flat], rfl⟩
  | .lit _, st, _, _ => ⟨_, by simp only [flat], rfl⟩
  | .seq l, st, hc, hv => by
    simp only [Closed] at hc
    simp only [WF] at hv
    obtain ⟨l', h1, h2⟩ := flatL_id l st hc hv
    exact ⟨.seq l', by simp only [flat, h1], by simp only [erase, h2]⟩
  | .map es ck ok, st, hc, hv => by
    simp only [Closed] at hc
    simp only [WF] at hv
    obtain ⟨m, es', h1, h2, h3⟩ := flatEs_id es ck ok st {} hc hv.1 (by simpa using hv.2)
    refine ⟨m.toValue, by simp only [flat, h1], ?_⟩
    simp only [Mapping.toValue, erase, h2, List.nil_append, h3]
theorem flatL_id : ∀ (l : List Value) (st : RState), ClosedL l → WFL l →
    ∃ r, flatL l st = .ok r ∧ eraseL r = eraseL l
  | [], st, _, _ => ⟨[], by simp only [flatL], rfl⟩
  | v :: vs, st, hc, hl => by
    simp only [ClosedL] at hc
    simp only [WFL] at hl
    obtain ⟨x, h1, h2⟩ := flat_id v st hc.1 hl.1
    obtain ⟨xs, h3, h4⟩ := flatL_id vs st hc.2 hl.2
    exact ⟨x :: xs, by simp only [flatL, h1, h3], by simp only [eraseL, h2, h4]⟩
theorem flatEs_id : ∀ (es : List (Key × Value)) (ck ok : List Key) (st : RState) (acc : Mapping),
    ClosedEs es → WFEs es → (keys acc.es ++ keys es).Nodup →
    ∃ m es', flatEs es ck ok st acc = .ok m ∧ m.es = acc.es ++ es' ∧ eraseEs es' = eraseEs es
  | [], ck, ok, st, acc, _, _, _ => ⟨acc, [], by simp only [flatEs], by simp, rfl⟩
  | (k, v) :: rest, ck, ok, st, acc, hc, hes, hnd => by
    simp only [ClosedEs] at hc
    simp only [WFEs] at hes
    obtain ⟨v', h1, h2⟩ := flat_id v st hc.1 hes.2.1
    have hstep := nodup_keys_step (by simpa [keys] using hnd : (keys acc.es ++ k :: keys rest).Nodup)
    obtain ⟨ck', ok', hins⟩ := insertImpl_fresh acc v' (decide (k ∈ ck)) (decide (k ∈ ok)) hes.1 hstep.1
    obtain ⟨m, es', h3, h4, h5⟩ := flatEs_id rest ck ok st ⟨acc.es ++ [(k, v')], ck', ok'⟩
      hc.2 hes.2.2 (by simpa [keys] using hstep.2)
    refine ⟨m, (k, v') :: es', by simp only [flatEs, h1, hins, h3], ?_, ?_⟩
    · simp only [h4, List.append_assoc, List.singleton_append]
    · simp only [eraseEs, h2, h5]
end

mutual
theorem interp_id : ∀ (v : Value) (n : Nat) (root : Mapping) (st : RState), Closed v → WF v →
    size v ≤ n → ∃ r, interp n root v st = .ok (r, st) ∧ erase r = erase v
  | .vl l, n, root, st, hc, _, _ => by simp [Closed] at hc
  | .str _, n, root, st, hc, _, _ => by simp [Closed] at hc
  | .null, n, root, st, _, _, hn => by
    cases n with
    | zero => simp [size] at hn
    | succ n => exact ⟨_, by simp only [interp], rfl⟩
  | .bool _, n, root, st, _, _, hn => by
    cases n with
    | zero => simp [size] at hn
    | succ n => exact ⟨_, by simp only [interp], rfl⟩
  | .num _, n, root, st, _, _, hn => by
    cases n with
    | zero => simp [size] at hn
    | succ n => exact ⟨_, by simp only [interp], rfl⟩
  | .lit _, n, root, st, _, _, hn => by
    cases n with
    | zero => simp [size] at hn
    | succ n => exact ⟨_, by simp only [interp], rfl⟩
  | .seq l, n, root, st, hc, hv, hn => by
    cases n with
    | zero => simp [size] at hn
    | succ n =>
      simp only [Closed] at hc
      simp only [WF] at hv
      simp only [size] at hn
      obtain ⟨l', h1, h2⟩ := interpL_id l n root 0 st hc hv (by omega)
      exact ⟨.seq l', by simp only [interp, h1], by simp only [erase, h2]⟩
  | .map es ck ok, n, root, st, hc, hv, hn => by
    cases n with
    | zero => simp [size] at hn
    | succ n =>
      simp only [Closed] at hc
      simp only [WF] at hv
      simp only [size] at hn
      obtain ⟨m, es', h1, h2, h3⟩ := interpEs_id es n root ck ok st {} hc hv.1
        (by simpa using hv.2) (by omega)
      refine ⟨m.toValue, by simp only [interp, h1], ?_⟩
      simp only [Mapping.toValue, erase, h2, List.nil_append, h3]
theorem interpL_id : ∀ (l : List Value) (n : Nat) (root : Mapping) (idx : Nat) (st : RState),
    ClosedL l → WFL l → sizeL l ≤ n → ∃ r, interpL n root l idx st = .ok r ∧ eraseL r = eraseL l
  | [], n, root, idx, st, _, _, hn => by
    cases n with
    | zero => simp [sizeL] at hn
    | succ n => exact ⟨[], by simp only [interpL], rfl⟩
  | v :: vs, n, root, idx, st, hc, hl, hn => by
    cases n with
    | zero => simp [sizeL] at hn
    | succ n =>
      simp only [ClosedL] at hc
      simp only [WFL] at hl
      simp only [sizeL] at hn
      obtain ⟨x, h1, h2⟩ := interp_id v n root (st.pushListIndex idx) hc.1 hl.1 (by omega)
      obtain ⟨xs, h3, h4⟩ := interpL_id vs n root (idx + 1) st hc.2 hl.2 (by omega)
      exact ⟨x :: xs, by simp only [interpL, h1, h3], by simp only [eraseL, h2, h4]⟩
theorem interpEs_id : ∀ (es : List (Key × Value)) (n : Nat) (root : Mapping) (ck ok : List Key)
    (st : RState) (acc : Mapping), ClosedEs es → WFEs es → (keys acc.es ++ keys es).Nodup →
    sizeEs es ≤ n →
    ∃ m es', interpEs n root es ck ok st acc = .ok m ∧ m.es = acc.es ++ es' ∧
      eraseEs es' = eraseEs es
  | [], n, root, ck, ok, st, acc, _, _, _, hn => by
    cases n with
    | zero => simp [sizeEs] at hn
    | succ n => exact ⟨acc, [], by simp only [interpEs], by simp, rfl⟩
  | (k, v) :: rest, n, root, ck, ok, st, acc, hc, hes, hnd, hn => by
    cases n with
    | zero => simp [sizeEs] at hn
    | succ n =>
      simp only [ClosedEs] at hc
      simp only [WFEs] at hes
      simp only [sizeEs] at hn
      obtain ⟨v1, h1, h2⟩ := interp_id v n root (st.pushMappingKey k) hc.1 hes.2.1 (by omega)
      obtain ⟨v2, h1', h2'⟩ := flat_id v1 (st.pushMappingKey k)
        (closed_of_erase_eq h2 hc.1) (wf_of_erase_eq h2 hes.2.1)
      have hstep := nodup_keys_step (by simpa [keys] using hnd : (keys acc.es ++ k :: keys rest).Nodup)
      obtain ⟨ck', ok', hins⟩ := insertImpl_fresh acc v2 (decide (k ∈ ck)) (decide (k ∈ ok)) hes.1 hstep.1
      obtain ⟨m, es', h3, h4, h5⟩ := interpEs_id rest n root ck ok st ⟨acc.es ++ [(k, v2)], ck', ok'⟩
        hc.2 hes.2.2 (by simpa [keys] using hstep.2) (by omega)
      refine ⟨m, (k, v2) :: es', by simp only [interpEs, h1, h1', hins, h3], ?_, ?_⟩
      · simp only [h4, List.append_assoc, List.singleton_append]
      · simp only [eraseEs, h2', h2, h5]
end

/-! ## Keys and flag sets of a flattened / interpolated well-formed mapping -/

theorem mem_setInsert {x k : Key} {s : List Key} : x ∈ setInsert k s ↔ x ∈ s ∨ x = k := by
  unfold setInsert
  split
  · constructor
    · exact Or.inl
    · rintro (h | h)
      · exact h
      · subst h; assumption
  · simp

/-- `insertImpl_fresh` with the flag sets spelled out. -/
theorem insertImpl_fresh_eq (m : Mapping) {k : Key} (v : Value) (fc fo : Bool)
    (hk : CleanKey k) (hn : k ∉ keys m.es) :
    m.insertImpl k v fc fo = .ok ⟨m.es ++ [(k, v)],
      if fc then setInsert k m.ck else m.ck, if fo then setInsert k m.ok else m.ok⟩ := by
  unfold Mapping.insertImpl
  rw [show k.stripPrefix = (k, none) from hk]
  simp [lookup_none_iff.2 hn]

theorem flag_step (k x : Key) (s acc rest : List Key) :
    (x ∈ (if decide (k ∈ s) = true then setInsert k acc else acc) ∨ (x ∈ rest ∧ x ∈ s)) ↔
      (x ∈ acc ∨ (x ∈ k :: rest ∧ x ∈ s)) := by
  by_cases hk : k ∈ s
  · simp only [hk, decide_true, if_true, mem_setInsert, List.mem_cons]
    constructor
    · rintro ((h | h) | h)
      · exact Or.inl h
      · exact Or.inr ⟨Or.inl h, h ▸ hk⟩
      · exact Or.inr ⟨Or.inr h.1, h.2⟩
    · rintro (h | ⟨h | h, h'⟩)
      · exact Or.inl (Or.inl h)
      · exact Or.inl (Or.inr h)
      · exact Or.inr ⟨h, h'⟩
  · simp only [hk, decide_false, Bool.false_eq_true, if_false, List.mem_cons]
    constructor
    · rintro (h | h)
      · exact Or.inl h
      · exact Or.inr ⟨Or.inr h.1, h.2⟩
    · rintro (h | ⟨h | h, h'⟩)
      · exact Or.inl h
      · exact absurd (h ▸ h') hk
      · exact Or.inr ⟨h, h'⟩

/-- Keys (in order) and flag sets after `Mapping::flattened` of a well-formed entry list. -/
theorem flatEs_shape {ck ok : List Key} {st : RState} : ∀ (es : List (Key × Value)) (acc m : Mapping),
    WFEs es → (keys acc.es ++ keys es).Nodup → flatEs es ck ok st acc = .ok m →
    keys m.es = keys acc.es ++ keys es ∧
    (∀ x, x ∈ m.ck ↔ x ∈ acc.ck ∨ (x ∈ keys es ∧ x ∈ ck)) ∧
    (∀ x, x ∈ m.ok ↔ x ∈ acc.ok ∨ (x ∈ keys es ∧ x ∈ ok)) := by
  intro es
  induction es with
  | nil =>
    intro acc m _ _ h
    simp only [flatEs, Except.ok.injEq] at h
    subst h
    simp [keys]
  | cons e rest ih =>
    obtain ⟨k, v⟩ := e
    intro acc m hes hnd h
    simp only [flatEs] at h
    simp only [WFEs] at hes
    cases h1 : flat v st with
    | error e => simp [h1] at h
    | ok v' =>
      simp only [h1] at h
      have hstep := nodup_keys_step (by simpa [keys] using hnd : (keys acc.es ++ k :: keys rest).Nodup)
      rw [insertImpl_fresh_eq acc v' _ _ hes.1 hstep.1] at h
      simp only at h
      obtain ⟨a, b, c⟩ := ih _ m hes.2.2 (by simpa [keys] using hstep.2) h
      refine ⟨by simp [a, keys], ?_, ?_⟩
      · intro x; rw [b x]; exact flag_step k x ck acc.ck (keys rest)
      · intro x; rw [c x]; exact flag_step k x ok acc.ok (keys rest)

/-- Keys (in order) and flag sets after `Mapping::interpolate` of a well-formed entry list. -/
theorem interpEs_shape {root : Mapping} {ck ok : List Key} {st : RState} :
    ∀ (es : List (Key × Value)) (n : Nat) (acc m : Mapping),
    WFEs es → (keys acc.es ++ keys es).Nodup → interpEs n root es ck ok st acc = .ok m →
    keys m.es = keys acc.es ++ keys es ∧
    (∀ x, x ∈ m.ck ↔ x ∈ acc.ck ∨ (x ∈ keys es ∧ x ∈ ck)) ∧
    (∀ x, x ∈ m.ok ↔ x ∈ acc.ok ∨ (x ∈ keys es ∧ x ∈ ok)) := by
  intro es
  induction es with
  | nil =>
    intro n acc m _ _ h
    cases n with
    | zero => simp [interpEs] at h
    | succ n =>
      simp only [interpEs, Except.ok.injEq] at h
      subst h
      simp [keys]
  | cons e rest ih =>
    obtain ⟨k, v⟩ := e
    intro n acc m hes hnd h
    cases n with
    | zero => simp [interpEs] at h
    | succ n =>
      simp only [interpEs] at h
      simp only [WFEs] at hes
      cases h1 : interp n root v (st.pushMappingKey k) with
      | error e => simp [h1] at h
      | ok p =>
        obtain ⟨v1, st1⟩ := p
        simp only [h1] at h
        cases h2 : flat v1 st1 with
        | error e => simp [h2] at h
        | ok v2 =>
          simp only [h2] at h
          have hstep := nodup_keys_step (by simpa [keys] using hnd : (keys acc.es ++ k :: keys rest).Nodup)
          rw [insertImpl_fresh_eq acc v2 _ _ hes.1 hstep.1] at h
          simp only at h
          obtain ⟨a, b, c⟩ := ih n _ m hes.2.2 (by simpa [keys] using hstep.2) h
          refine ⟨by simp [a, keys], ?_, ?_⟩
          · intro x; rw [b x]; exact flag_step k x ck acc.ck (keys rest)
          · intro x; rw [c x]; exact flag_step k x ok acc.ok (keys rest)

/-- Rendering a well-formed mapping keeps its top-level keys, in order; a key is flagged
constant/override afterwards iff it was flagged before and is present. -/
theorem renderParamsF_shape {n : Nat} {m out : Mapping} (hm : WF m.toValue)
    (h : renderParamsF n m = .ok out) :
    keys out.es = keys m.es ∧
    (∀ x, x ∈ out.ck ↔ x ∈ m.ck ∧ x ∈ keys m.es) ∧
    (∀ x, x ∈ out.ok ↔ x ∈ m.ok ∧ x ∈ keys m.es) := by
  unfold renderParamsF renderedF at h
  cases n with
  | zero => simp [interp] at h
  | succ n =>
    simp only [Mapping.toValue, interp] at h
    simp only [Mapping.toValue, WF] at hm
    cases h1 : interpEs n m m.es m.ck m.ok {} {} with
    | error e => simp [h1] at h
    | ok m1 =>
      simp only [h1, Mapping.toValue, flat] at h
      obtain ⟨a1, b1, c1⟩ := interpEs_shape m.es n {} m1 hm.1 (by simpa using hm.2) h1
      have hw1 := ((interpInv (n+1)).interp m m.toValue {} m1.toValue {}
        (by simpa [Mapping.toValue, WF] using hm) (by simpa [Mapping.toValue, WF] using hm)
        (by simp only [Mapping.toValue, interp, h1])).2
      simp only [Mapping.toValue, WF] at hw1
      cases h2 : flatEs m1.es m1.ck m1.ok {} {} with
      | error e => simp [h2] at h
      | ok m2 =>
        simp only [h2, Except.ok.injEq] at h
        obtain ⟨a2, b2, c2⟩ := flatEs_shape m1.es {} m2 hw1.1 (by simpa using hw1.2) h2
        subst h
        simp only [keys, List.map_nil, List.nil_append,
          List.not_mem_nil, false_or] at a1 b1 c1 a2 b2 c2
        refine ⟨by simp only [keys, a2, a1], ?_, ?_⟩
        · intro x; simp only [b2 x, a1, b1 x, keys]; constructor
          · rintro ⟨_, h1, h2⟩; exact ⟨h2, h1⟩
          · rintro ⟨h1, h2⟩; exact ⟨h2, h2, h1⟩
        · intro x; simp only [c2 x, a1, c1 x, keys]; constructor
          · rintro ⟨_, h1, h2⟩; exact ⟨h2, h1⟩
          · rintro ⟨h1, h2⟩; exact ⟨h2, h2, h1⟩

/-! ## Generic preservation: predicates on values that survive merging and flattening -/

/-- A family `P`/`PL`/`PEs` that is determined element-wise on sequences and mappings, passes
from a layer list to its layers, holds for `Null`, and is kept by `combine`. -/
structure ValPred where
  P : Value → Prop
  PL : List Value → Prop
  PEs : List (Key × Value) → Prop
  nilL : PL []
  consL : ∀ v vs, PL (v :: vs) ↔ P v ∧ PL vs
  nilEs : PEs []
  consEs : ∀ k v es, PEs ((k, v) :: es) ↔ P v ∧ PEs es
  map : ∀ es ck ok, P (.map es ck ok) ↔ PEs es
  seq : ∀ l, P (.seq l) ↔ PL l
  vlL : ∀ l, P (.vl l) → PL l
  null : P .null
  combine : ∀ a b, P a → P b → P (combine a b)

namespace ValPred
variable (S : ValPred)

theorem appendL {a b : List Value} : S.PL (a ++ b) ↔ S.PL a ∧ S.PL b := by
  induction a with
  | nil => simp [S.nilL]
  | cons x a ih => simp only [List.cons_append, S.consL, ih, and_assoc]

theorem appendEs {es : List (Key × Value)} {k : Key} {v : Value} :
    S.PEs (es ++ [(k, v)]) ↔ S.PEs es ∧ S.P v := by
  induction es with
  | nil => simp [S.consEs, S.nilEs]
  | cons e es ih =>
    obtain ⟨k', v'⟩ := e
    simp only [List.cons_append, S.consEs, ih, and_assoc]

theorem replaceValEs {es : List (Key × Value)} {k : Key} {v : Value}
    (h : S.PEs es) (hv : S.P v) : S.PEs (replaceVal k v es) := by
  induction es with
  | nil => simpa [replaceVal] using S.nilEs
  | cons e es ih =>
    obtain ⟨k', v'⟩ := e
    rw [S.consEs] at h
    by_cases hk : k' = k
    · simp only [replaceVal, hk, if_true, S.consEs]; exact ⟨hv, h.2⟩
    · simp only [replaceVal, hk, if_false, S.consEs]; exact ⟨h.1, ih h.2⟩

theorem lookupEs {es : List (Key × Value)} {k : Key} {v : Value}
    (h : S.PEs es) (hl : lookup k es = some v) : S.P v := by
  induction es with
  | nil => simp [lookup] at hl
  | cons e es ih =>
    obtain ⟨k', v'⟩ := e
    rw [S.consEs] at h
    by_cases hk : k' = k
    · simp only [lookup, hk, if_true, Option.some.injEq] at hl; exact hl ▸ h.1
    · simp only [lookup, hk, if_false] at hl; exact ih h.2 hl

theorem insertImpl_pres {m m' : Mapping} {k : Key} {v : Value} {fc fo : Bool}
    (hm : S.PEs m.es) (hv : S.P v) (h : m.insertImpl k v fc fo = .ok m') : S.PEs m'.es := by
  unfold Mapping.insertImpl at h
  generalize k.stripPrefix = kp at h
  obtain ⟨k1, p⟩ := kp
  simp only at h
  cases hl : lookup k1 m.es with
  | none =>
    simp only [hl, Except.ok.injEq] at h
    subst h
    exact S.appendEs.2 ⟨hm, hv⟩
  | some old =>
    simp only [hl] at h
    by_cases hc : k1 ∈ m.ck
    · simp [hc] at h
    · simp only [hc, if_false, Except.ok.injEq] at h
      subst h
      simp only
      split
      · exact S.replaceValEs hm hv
      · exact S.replaceValEs hm (S.combine _ _ (S.lookupEs hm hl) hv)

theorem mergeEntries_pres {ock ook : List Key} {es : List (Key × Value)} :
    ∀ {m m' : Mapping}, S.PEs m.es → S.PEs es →
      m.mergeEntries ock ook es = .ok m' → S.PEs m'.es := by
  induction es with
  | nil => intro m m' hm _ h; simp only [Mapping.mergeEntries, Except.ok.injEq] at h; exact h ▸ hm
  | cons e es ih =>
    obtain ⟨k, v⟩ := e
    intro m m' hm hes h
    rw [S.consEs] at hes
    simp only [Mapping.mergeEntries] at h
    cases h1 : m.insertImpl k v (decide (k ∈ ock)) (decide (k ∈ ook)) with
    | error e => simp [h1] at h
    | ok m1 =>
      simp only [h1] at h
      exact ih (S.insertImpl_pres hm hes.1 h1) hes.2 h

theorem mergeNonVl_pres {a b r : Value} {st : RState} (ha : S.P a) (hb : S.P b)
    (h : mergeNonVl a b st = .ok r) : S.P r := by
  cases a with
  | null => simp only [mergeNonVl, Except.ok.injEq] at h; exact h ▸ hb
  | map es ck ok =>
    cases b with
    | map es' ck' ok' =>
      simp only [mergeNonVl] at h
      cases h1 : Mapping.merge ⟨es, ck, ok⟩ ⟨es', ck', ok'⟩ with
      | error e => simp [h1] at h
      | ok m =>
        simp only [h1, Except.ok.injEq] at h
        subst h
        rw [S.map] at ha hb
        simp only [Mapping.toValue, S.map]
        exact S.mergeEntries_pres (m := ⟨es, ck, ok⟩) ha hb h1
    | _ => simp [mergeNonVl] at h
  | seq s =>
    cases b with
    | seq s' =>
      simp only [mergeNonVl, Except.ok.injEq] at h
      subst h
      rw [S.seq] at ha hb ⊢
      exact S.appendL.2 ⟨ha, hb⟩
    | _ => simp [mergeNonVl] at h
  | str _ => simp [mergeNonVl] at h
  | vl _ => simp [mergeNonVl] at h
  | bool _ =>
    simp only [mergeNonVl] at h
    split at h
    · simp at h
    · simp only [Except.ok.injEq] at h; exact h ▸ hb
  | num _ =>
    simp only [mergeNonVl] at h
    split at h
    · simp at h
    · simp only [Except.ok.injEq] at h; exact h ▸ hb
  | lit _ =>
    simp only [mergeNonVl] at h
    split at h
    · simp at h
    · simp only [Except.ok.injEq] at h; exact h ▸ hb

mutual
theorem flat_pres : ∀ (v : Value) (st : RState) (r : Value), S.P v → flat v st = .ok r → S.P r
  | .vl l, st, r, hv, h => by
    simp only [flat] at h
    exact flatVl_pres l .null st r (S.vlL l hv) S.null h
  | .map es ck ok, st, r, hv, h => by
    simp only [flat] at h
    cases h1 : flatEs es ck ok st {} with
    | error e => simp [h1] at h
    | ok m =>
      simp only [h1, Except.ok.injEq] at h
      subst h
      rw [S.map] at hv
      simp only [Mapping.toValue, S.map]
      exact flatEs_pres es ck ok st {} m hv S.nilEs h1
  | .seq l, st, r, hv, h => by
    simp only [flat] at h
    cases h1 : flatL l st with
    | error e => simp [h1] at h
    | ok l' =>
      simp only [h1, Except.ok.injEq] at h
      subst h
      rw [S.seq] at hv ⊢
      exact flatL_pres l st l' hv h1
  | .str _, st, r, _, h => by simp [flat] at h
  | .null, st, r, hv, h => by simp only [flat, Except.ok.injEq] at h; exact h ▸ hv
  | .bool _, st, r, hv, h => by simp only [flat, Except.ok.injEq] at h; exact h ▸ hv
  | .num _, st, r, hv, h => by simp only [flat, Except.ok.injEq] at h; exact h ▸ hv
  | .lit _, st, r, hv, h => by simp only [flat, Except.ok.injEq] at h; exact h ▸ hv
theorem flatVl_pres : ∀ (l : List Value) (base : Value) (st : RState) (r : Value),
    S.PL l → S.P base → flatVl l base st = .ok r → S.P r
  | [], base, st, r, _, hb, h => by simp only [flatVl, Except.ok.injEq] at h; exact h ▸ hb
  | v :: rest, base, st, r, hl, hb, h => by
    simp only [flatVl] at h
    rw [S.consL] at hl
    cases h1 : mergeV base v st with
    | error e => simp [h1] at h
    | ok b =>
      simp only [h1] at h
      exact flatVl_pres rest b st r hl.2 (mergeV_pres base v st b hb hl.1 h1) h
theorem mergeV_pres : ∀ (self other : Value) (st : RState) (r : Value),
    S.P self → S.P other → mergeV self other st = .ok r → S.P r
  | self, .null, st, r, _, _, h => by
    simp only [mergeV, Except.ok.injEq] at h; subst h; exact S.null
  | self, .vl l, st, r, hs, ho, h => by
    simp only [mergeV] at h
    cases h1 : flatVl l .null st with
    | error e => simp [h1] at h
    | ok o =>
      simp only [h1] at h
      exact S.mergeNonVl_pres hs (flatVl_pres l .null st o (S.vlL l ho) S.null h1) h
  | self, .map es ck ok, st, r, hs, ho, h => by
    simp only [mergeV] at h; exact S.mergeNonVl_pres hs ho h
  | self, .seq l, st, r, hs, ho, h => by
    simp only [mergeV] at h; exact S.mergeNonVl_pres hs ho h
  | self, .str _, st, r, hs, ho, h => by
    simp only [mergeV] at h; exact S.mergeNonVl_pres hs ho h
  | self, .bool _, st, r, hs, ho, h => by
    simp only [mergeV] at h; exact S.mergeNonVl_pres hs ho h
  | self, .num _, st, r, hs, ho, h => by
    simp only [mergeV] at h; exact S.mergeNonVl_pres hs ho h
  | self, .lit _, st, r, hs, ho, h => by
    simp only [mergeV] at h; exact S.mergeNonVl_pres hs ho h
theorem flatL_pres : ∀ (l : List Value) (st : RState) (r : List Value),
    S.PL l → flatL l st = .ok r → S.PL r
  | [], st, r, _, h => by simp only [flatL, Except.ok.injEq] at h; subst h; exact S.nilL
  | v :: vs, st, r, hl, h => by
    simp only [flatL] at h
    rw [S.consL] at hl
    cases h1 : flat v st with
    | error e => simp [h1] at h
    | ok x =>
      simp only [h1] at h
      cases h2 : flatL vs st with
      | error e => simp [h2] at h
      | ok xs =>
        simp only [h2, Except.ok.injEq] at h
        subst h
        exact (S.consL _ _).2 ⟨flat_pres v st x hl.1 h1, flatL_pres vs st xs hl.2 h2⟩
theorem flatEs_pres : ∀ (es : List (Key × Value)) (ck ok : List Key) (st : RState) (acc m : Mapping),
    S.PEs es → S.PEs acc.es → flatEs es ck ok st acc = .ok m → S.PEs m.es
  | [], ck, ok, st, acc, m, _, ha, h => by simp only [flatEs, Except.ok.injEq] at h; exact h ▸ ha
  | (k, v) :: rest, ck, ok, st, acc, m, hes, ha, h => by
    simp only [flatEs] at h
    rw [S.consEs] at hes
    cases h1 : flat v st with
    | error e => simp [h1] at h
    | ok v' =>
      simp only [h1] at h
      cases h2 : acc.insertImpl k v' (decide (k ∈ ck)) (decide (k ∈ ok)) with
      | error e => simp [h2] at h
      | ok acc' =>
        simp only [h2] at h
        exact flatEs_pres rest ck ok st acc' m hes.2
          (S.insertImpl_pres ha (flat_pres v st v' hes.1 h1) h2) h
end

end ValPred

/-! ### Instances: `NoStr` and `NoNest` -/

theorem noStrL_append {a b : List Value} : NoStrL (a ++ b) ↔ NoStrL a ∧ NoStrL b := by
  induction a with
  | nil => simp [NoStrL]
  | cons x a ih => simp only [List.cons_append, NoStrL, ih, and_assoc]

theorem noNestL_append {a b : List Value} : NoNestL (a ++ b) ↔ NoNestL a ∧ NoNestL b := by
  induction a with
  | nil => simp [NoNestL]
  | cons x a ih => simp only [List.cons_append, NoNestL, ih, and_assoc]

def noStrPred : ValPred where
  P := NoStr
  PL := NoStrL
  PEs := NoStrEs
  nilL := by simp [NoStrL]
  consL := by intros; simp [NoStrL]
  nilEs := by simp [NoStrEs]
  consEs := by intros; simp [NoStrEs]
  map := by intros; simp [NoStr]
  seq := by intros; simp [NoStr]
  vlL := by intro l h; simpa [NoStr] using h
  null := by simp [NoStr]
  combine := by
    intro a b ha hb
    unfold Reclass.combine
    split <;> simp_all [NoStr, NoStrL, noStrL_append]

def noNestPred : ValPred where
  P := NoNest
  PL := NoNestL
  PEs := NoNestEs
  nilL := by simp [NoNestL]
  consL := by intros; simp [NoNestL]
  nilEs := by simp [NoNestEs]
  consEs := by intros; simp [NoNestEs]
  map := by intros; simp [NoNest]
  seq := by intros; simp [NoNest]
  vlL := by intro l h; simp only [NoNest] at h; exact h.1
  null := by simp [NoNest]
  combine := by
    intro a b ha hb
    cases a <;> cases b <;>
      simp_all [Reclass.combine, NoNest, NoNestL, noNestL_append, Value.isVl] <;>
      (intro x hx; rcases hx with hx | hx <;> simp_all)

/-! ## No nested layer lists: kept by everything that hands out values -/

mutual
theorem closed_noNest : ∀ (v : Value), Closed v → NoNest v
  | .map es _ _, h => by simp only [Closed] at h; simp only [NoNest]; exact closedEs_noNest es h
  | .seq l, h => by simp only [Closed] at h; simp only [NoNest]; exact closedL_noNest l h
  | .vl l, h => by simp [Closed] at h
  | .str _, _ => by simp [NoNest]
  | .null, _ => by simp [NoNest]
  | .bool _, _ => by simp [NoNest]
  | .num _, _ => by simp [NoNest]
  | .lit _, _ => by simp [NoNest]
theorem closedL_noNest : ∀ (l : List Value), ClosedL l → NoNestL l
  | [], _ => by simp [NoNestL]
  | v :: vs, h => by
    simp only [ClosedL] at h; exact ⟨closed_noNest v h.1, closedL_noNest vs h.2⟩
theorem closedEs_noNest : ∀ (es : List (Key × Value)), ClosedEs es → NoNestEs es
  | [], _ => by simp [NoNestEs]
  | (k, v) :: es, h => by
    simp only [ClosedEs] at h; exact ⟨closed_noNest v h.1, closedEs_noNest es h.2⟩
end

/-- Well-formed and free of nested layer lists. -/
def WFN (v : Value) : Prop := WF v ∧ NoNest v

theorem wfn_lookup {es : List (Key × Value)} {ck ok : List Key} {k : Key} {v : Value}
    (h : WFN (.map es ck ok)) (hl : lookup k es = some v) : WFN v := by
  obtain ⟨h1, h2⟩ := h
  simp only [WF] at h1
  simp only [NoNest] at h2
  exact ⟨lookup_some_wf h1.1 hl, noNestPred.lookupEs h2 hl⟩

/-- `NoNest` postconditions at fuel `n` (well-formedness comes from `interpInv`). -/
structure NNInv (n : Nat) : Prop where
  tokResolve : ∀ (root : Mapping) (t : Token) (st : RState) (r : Value) (st' : RState),
    WFN root.toValue → tokResolve n root t st = .ok (r, st') → NoNest r
  descend : ∀ (root : Mapping) (v : Value) (segs : List Str) (st : RState) (path : Str)
    (r : Value) (st' : RState),
    WFN root.toValue → WFN v → descend n root v segs st path = .ok (r, st') → NoNest r
  finalLoop : ∀ (root : Mapping) (v : Value) (st : RState) (r : Value) (st' : RState),
    WFN root.toValue → WFN v → finalLoop n root v st = .ok (r, st') → NoNest r
  interpStrOrVl : ∀ (root : Mapping) (v : Value) (st : RState) (r : Value) (st' : RState),
    WFN root.toValue → WFN v → interpStrOrVl n root v st = .ok (r, st') → NoNest r
  layersStr : ∀ (root : Mapping) (l : List Value) (st : RState) (r : List Value),
    WFN root.toValue → WFL l → NoNestL l → layersStr n root l st = .ok r → NoNestL r
  strLoop : ∀ (root : Mapping) (v : Value) (st : RState) (r : Value) (st' : RState),
    WFN root.toValue → WFN v → strLoop n root v st = .ok (r, st') → WFN r

theorem interp_wfn {n : Nat} {root : Mapping} {v r : Value} {st st' : RState}
    (hr : WFN root.toValue) (hv : WF v) (h : interp n root v st = .ok (r, st')) : WFN r :=
  have := (interpInv n).interp _ _ _ _ _ hr.1 hv h
  ⟨this.2, closed_noNest r this.1⟩

theorem nnInv : ∀ n, NNInv n := by
  intro n
  induction n with
  | zero =>
    constructor <;> intros <;>
      simp_all [Reclass.tokResolve, Reclass.descend, Reclass.finalLoop, Reclass.interpStrOrVl,
        Reclass.layersStr, Reclass.strLoop]
  | succ n ih =>
    refine ⟨?_, ?_, ?_, ?_, ?_, ?_⟩
    · -- tokResolve
      intro root t st r st' hr h
      cases t with
      | lit s => simp only [Reclass.tokResolve, Except.ok.injEq, Prod.mk.injEq] at h; rw [← h.1]; simp [NoNest]
      | combined ts =>
        simp only [Reclass.tokResolve] at h
        cases h1 : Reclass.slice n root ts st with
        | error e => simp [h1] at h
        | ok s => simp only [h1, Except.ok.injEq, Prod.mk.injEq] at h; rw [← h.1]; simp [NoNest]
      | ref parts =>
        simp only [Reclass.tokResolve] at h
        split at h
        · simp at h
        · cases h1 : Reclass.slice n root parts { st with depth := st.depth + 1 } with
          | error e => simp [h1] at h
          | ok path =>
            simp only [h1] at h
            split at h
            · simp at h
            · split at h
              · simp at h
              · rename_i k0 segs _
                cases h2 : root.get (.str k0) with
                | none => simp [h2] at h
                | some v0 =>
                  simp only [h2] at h
                  have hv0 : WFN v0 := wfn_lookup (ck := root.ck) (ok := root.ok) hr h2
                  split at h
                  · simp at h
                  · rename_i v st3 h3
                    have hv : WFN v :=
                      ⟨(interpInv n).descend _ _ _ _ _ _ _ hr.1 hv0.1 h3, ih.descend _ _ _ _ _ _ _ hr hv0 h3⟩
                    exact ih.finalLoop _ _ _ _ _ hr hv h
    · -- descend
      intro root v segs st path r st' hr hv h
      cases segs with
      | nil => simp only [Reclass.descend, Except.ok.injEq, Prod.mk.injEq] at h; exact h.1 ▸ hv.2
      | cons key rest =>
        simp only [Reclass.descend] at h
        cases h1 : Reclass.interpStrOrVl n root v st with
        | error e => simp [h1] at h
        | ok p =>
          obtain ⟨newv, st1⟩ := p
          simp only [h1] at h
          have hn : WFN newv :=
            ⟨(interpInv n).interpStrOrVl _ _ _ _ _ hr.1 hv.1 h1, ih.interpStrOrVl _ _ _ _ _ hr hv h1⟩
          cases newv with
          | map es ck ok =>
            simp only at h
            cases h2 : lookup (.str key) es with
            | none => simp [h2] at h
            | some v' =>
              simp only [h2] at h
              exact ih.descend _ _ _ _ _ _ _ hr (wfn_lookup hn h2) h
          | _ => simp at h
    · -- finalLoop
      intro root v st r st' hr hv h
      simp only [Reclass.finalLoop] at h
      split at h
      · cases h1 : Reclass.interp n root v st with
        | error e => simp [h1] at h
        | ok p =>
          obtain ⟨v1, st1⟩ := p
          simp only [h1] at h
          exact ih.finalLoop _ _ _ _ _ hr (interp_wfn hr hv.1 h1) h
      · simp only [Except.ok.injEq, Prod.mk.injEq] at h; exact h.1 ▸ hv.2
    · -- interpStrOrVl
      intro root v st r st' hr hv h
      cases v with
      | str s => simp only [Reclass.interpStrOrVl] at h; exact (interp_wfn hr hv.1 h).2
      | vl l =>
        simp only [Reclass.interpStrOrVl] at h
        cases h1 : Reclass.layersStr n root l st with
        | error e => simp [h1] at h
        | ok i =>
          simp only [h1] at h
          cases h2 : flatVl i .null st with
          | error e => simp [h2] at h
          | ok x =>
            simp only [h2, Except.ok.injEq, Prod.mk.injEq] at h
            rw [← h.1]
            obtain ⟨hv1, hv2⟩ := hv
            simp only [WF] at hv1
            simp only [NoNest] at hv2
            exact noNestPred.flatVl_pres i .null st x (ih.layersStr _ _ _ _ hr hv1 hv2.1 h1)
              (by simp [noNestPred, NoNest]) h2
      | null => simp only [Reclass.interpStrOrVl, Except.ok.injEq, Prod.mk.injEq] at h; exact h.1 ▸ hv.2
      | bool _ => simp only [Reclass.interpStrOrVl, Except.ok.injEq, Prod.mk.injEq] at h; exact h.1 ▸ hv.2
      | num _ => simp only [Reclass.interpStrOrVl, Except.ok.injEq, Prod.mk.injEq] at h; exact h.1 ▸ hv.2
      | lit _ => simp only [Reclass.interpStrOrVl, Except.ok.injEq, Prod.mk.injEq] at h; exact h.1 ▸ hv.2
      | map _ _ _ => simp only [Reclass.interpStrOrVl, Except.ok.injEq, Prod.mk.injEq] at h; exact h.1 ▸ hv.2
      | seq _ => simp only [Reclass.interpStrOrVl, Except.ok.injEq, Prod.mk.injEq] at h; exact h.1 ▸ hv.2
    · -- layersStr
      intro root l st r hr hl hnl h
      cases l with
      | nil => simp only [Reclass.layersStr, Except.ok.injEq] at h; subst h; simp [NoNestL]
      | cons v vs =>
        simp only [Reclass.layersStr] at h
        simp only [WFL] at hl
        simp only [NoNestL] at hnl
        have hx : ∀ x, (if v.isStr then (match Reclass.interp n root v st with
                              | .error e => .error e
                              | .ok (x, _) => .ok x) else .ok v : R Value) = .ok x → NoNest x := by
          intro x hx
          by_cases hs : v.isStr
          · simp only [hs, if_true] at hx
            cases h1 : Reclass.interp n root v st with
            | error e => simp [h1] at hx
            | ok p =>
              obtain ⟨y, st1⟩ := p
              simp only [h1, Except.ok.injEq] at hx
              subst hx
              exact (interp_wfn hr hl.1 h1).2
          · simp only [hs, Bool.false_eq_true, if_false, Except.ok.injEq] at hx
            exact hx ▸ hnl.1
        generalize (if v.isStr then (match Reclass.interp n root v st with
                              | .error e => .error e
                              | .ok (x, _) => .ok x) else .ok v : R Value) = e at h hx
        cases e with
        | error e => simp at h
        | ok x =>
          simp only at h
          cases h2 : Reclass.layersStr n root vs st with
          | error e => simp [h2] at h
          | ok xs =>
            simp only [h2, Except.ok.injEq] at h
            subst h
            exact ⟨hx x rfl, ih.layersStr _ _ _ _ hr hl.2 hnl.2 h2⟩
    · -- strLoop
      intro root v st r st' hr hv h
      simp only [Reclass.strLoop] at h
      split at h
      · cases h1 : Reclass.interp n root v st with
        | error e => simp [h1] at h
        | ok p =>
          obtain ⟨v1, st1⟩ := p
          simp only [h1] at h
          exact ih.strLoop _ _ _ _ _ hr (interp_wfn hr hv.1 h1) h
      · simp only [Except.ok.injEq, Prod.mk.injEq] at h; exact h.1 ▸ hv


/-! ## The `unreachable!` of `Token::resolve` is unreachable -/

/-- The error is not the panic "We should have rendered Value::String and Value::ValueList
into some other variant" of `Token::resolve`. -/
def NotRP (e : Err) : Prop := e ≠ .panic .resolveNewvStrVl

theorem parse_notRP {s : Str} {e : Err} (h : Token.parse s = .error e) : NotRP e := by
  unfold Token.parse at h
  split at h
  · simp at h
  · split at h
    · simp at h
    · simp only [Except.error.injEq] at h; subst h; simp [NotRP]
    · simp only [Except.error.injEq] at h; subst h; simp [NotRP]

theorem insertImpl_notRP {m : Mapping} {k : Key} {v : Value} {fc fo : Bool} {e : Err}
    (h : m.insertImpl k v fc fo = .error e) : NotRP e := by
  unfold Mapping.insertImpl at h
  generalize k.stripPrefix = kp at h
  obtain ⟨k1, p⟩ := kp
  simp only at h
  cases hl : lookup k1 m.es with
  | none => simp [hl] at h
  | some old =>
    simp only [hl] at h
    by_cases hc : k1 ∈ m.ck
    · simp only [hc, if_true, Except.error.injEq] at h; subst h; simp [NotRP]
    · simp [hc] at h

theorem mergeEntries_notRP {ock ook : List Key} {es : List (Key × Value)} {e : Err} :
    ∀ {m : Mapping}, m.mergeEntries ock ook es = .error e → NotRP e := by
  induction es with
  | nil => intro m h; simp [Mapping.mergeEntries] at h
  | cons x es ih =>
    obtain ⟨k, v⟩ := x
    intro m h
    simp only [Mapping.mergeEntries] at h
    cases h1 : m.insertImpl k v (decide (k ∈ ock)) (decide (k ∈ ook)) with
    | error e' => simp only [h1, Except.error.injEq] at h; subst h; exact insertImpl_notRP h1
    | ok m1 => simp only [h1] at h; exact ih h

theorem mergeNonVl_notRP {a b : Value} {st : RState} {e : Err}
    (h : mergeNonVl a b st = .error e) : NotRP e := by
  cases a with
  | null => simp [mergeNonVl] at h
  | map es ck ok =>
    cases b with
    | map es' ck' ok' =>
      simp only [mergeNonVl] at h
      cases h1 : Mapping.merge ⟨es, ck, ok⟩ ⟨es', ck', ok'⟩ with
      | error e' =>
        simp only [h1, Except.error.injEq] at h; subst h
        exact mergeEntries_notRP (m := ⟨es, ck, ok⟩) h1
      | ok m => simp [h1] at h
    | _ => simp only [mergeNonVl, Except.error.injEq] at h; subst h; simp [NotRP]
  | seq s =>
    cases b with
    | seq s' => simp [mergeNonVl] at h
    | _ => simp only [mergeNonVl, Except.error.injEq] at h; subst h; simp [NotRP]
  | str _ => simp only [mergeNonVl, Except.error.injEq] at h; subst h; simp [NotRP]
  | vl _ => simp only [mergeNonVl, Except.error.injEq] at h; subst h; simp [NotRP]
  | bool _ =>
    simp only [mergeNonVl] at h
    split at h
    · simp only [Except.error.injEq] at h; subst h; simp [NotRP]
    · simp at h
  | num _ =>
    simp only [mergeNonVl] at h
    split at h
    · simp only [Except.error.injEq] at h; subst h; simp [NotRP]
    · simp at h
  | lit _ =>
    simp only [mergeNonVl] at h
    split at h
    · simp only [Except.error.injEq] at h; subst h; simp [NotRP]
    · simp at h

mutual
theorem flat_notRP : ∀ (v : Value) (st : RState) (e : Err), flat v st = .error e → NotRP e
  | .vl l, st, e, h => by simp only [flat] at h; exact flatVl_notRP l .null st e h
  | .map es ck ok, st, e, h => by
    simp only [flat] at h
    cases h1 : flatEs es ck ok st {} with
    | error e' => simp only [h1, Except.error.injEq] at h; subst h; exact flatEs_notRP es ck ok st {} _ h1
    | ok m => simp [h1] at h
  | .seq l, st, e, h => by
    simp only [flat] at h
    cases h1 : flatL l st with
    | error e' => simp only [h1, Except.error.injEq] at h; subst h; exact flatL_notRP l st _ h1
    | ok m => simp [h1] at h
  | .str _, st, e, h => by simp only [flat, Except.error.injEq] at h; subst h; simp [NotRP]
  | .null, st, e, h => by simp [flat] at h
  | .bool _, st, e, h => by simp [flat] at h
  | .num _, st, e, h => by simp [flat] at h
  | .lit _, st, e, h => by simp [flat] at h
theorem flatVl_notRP : ∀ (l : List Value) (base : Value) (st : RState) (e : Err),
    flatVl l base st = .error e → NotRP e
  | [], base, st, e, h => by simp [flatVl] at h
  | v :: rest, base, st, e, h => by
    simp only [flatVl] at h
    cases h1 : mergeV base v st with
    | error e' => simp only [h1, Except.error.injEq] at h; subst h; exact mergeV_notRP base v st _ h1
    | ok b => simp only [h1] at h; exact flatVl_notRP rest b st e h
theorem mergeV_notRP : ∀ (self other : Value) (st : RState) (e : Err),
    mergeV self other st = .error e → NotRP e
  | self, .null, st, e, h => by simp [mergeV] at h
  | self, .vl l, st, e, h => by
    simp only [mergeV] at h
    cases h1 : flatVl l .null st with
    | error e' => simp only [h1, Except.error.injEq] at h; subst h; exact flatVl_notRP l .null st _ h1
    | ok o => simp only [h1] at h; exact mergeNonVl_notRP h
  | self, .map es ck ok, st, e, h => by simp only [mergeV] at h; exact mergeNonVl_notRP h
  | self, .seq l, st, e, h => by simp only [mergeV] at h; exact mergeNonVl_notRP h
  | self, .str _, st, e, h => by simp only [mergeV] at h; exact mergeNonVl_notRP h
  | self, .bool _, st, e, h => by simp only [mergeV] at h; exact mergeNonVl_notRP h
  | self, .num _, st, e, h => by simp only [mergeV] at h; exact mergeNonVl_notRP h
  | self, .lit _, st, e, h => by simp only [mergeV] at h; exact mergeNonVl_notRP h
theorem flatL_notRP : ∀ (l : List Value) (st : RState) (e : Err), flatL l st = .error e → NotRP e
  | [], st, e, h => by simp [flatL] at h
  | v :: vs, st, e, h => by
    simp only [flatL] at h
    cases h1 : flat v st with
    | error e' => simp only [h1, Except.error.injEq] at h; subst h; exact flat_notRP v st _ h1
    | ok x =>
      simp only [h1] at h
      cases h2 : flatL vs st with
      | error e' => simp only [h2, Except.error.injEq] at h; subst h; exact flatL_notRP vs st _ h2
      | ok xs => simp [h2] at h
theorem flatEs_notRP : ∀ (es : List (Key × Value)) (ck ok : List Key) (st : RState) (acc : Mapping)
    (e : Err), flatEs es ck ok st acc = .error e → NotRP e
  | [], ck, ok, st, acc, e, h => by simp [flatEs] at h
  | (k, v) :: rest, ck, ok, st, acc, e, h => by
    simp only [flatEs] at h
    cases h1 : flat v st with
    | error e' => simp only [h1, Except.error.injEq] at h; subst h; exact flat_notRP v st _ h1
    | ok v' =>
      simp only [h1] at h
      cases h2 : acc.insertImpl k v' (decide (k ∈ ck)) (decide (k ∈ ok)) with
      | error e' => simp only [h2, Except.error.injEq] at h; subst h; exact insertImpl_notRP h2
      | ok acc' => simp only [h2] at h; exact flatEs_notRP rest ck ok st acc' e h
end

mutual
theorem jsonOf_notRP : ∀ (v : Value) (e : Err), jsonOf v = .error e → NotRP e
  | .null, e, h => by simp [jsonOf] at h
  | .bool true, e, h => by simp [jsonOf] at h
  | .bool false, e, h => by simp [jsonOf] at h
  | .num _, e, h => by simp [jsonOf] at h
  | .str _, e, h => by simp [jsonOf] at h
  | .lit _, e, h => by simp [jsonOf] at h
  | .vl _, e, h => by simp only [jsonOf, Except.error.injEq] at h; subst h; simp [NotRP]
  | .seq l, e, h => by
    simp only [jsonOf] at h
    cases h1 : jsonOfL l with
    | error e' => simp only [h1, Except.error.injEq] at h; subst h; exact jsonOfL_notRP l _ h1
    | ok xs => simp [h1] at h
  | .map es _ _, e, h => by
    simp only [jsonOf] at h
    cases h1 : jsonOfEs es [] with
    | error e' => simp only [h1, Except.error.injEq] at h; subst h; exact jsonOfEs_notRP es [] _ h1
    | ok xs => simp [h1] at h
theorem jsonOfL_notRP : ∀ (l : List Value) (e : Err), jsonOfL l = .error e → NotRP e
  | [], e, h => by simp [jsonOfL] at h
  | v :: vs, e, h => by
    simp only [jsonOfL] at h
    cases h1 : jsonOf v with
    | error e' => simp only [h1, Except.error.injEq] at h; subst h; exact jsonOf_notRP v _ h1
    | ok x =>
      simp only [h1] at h
      cases h2 : jsonOfL vs with
      | error e' => simp only [h2, Except.error.injEq] at h; subst h; exact jsonOfL_notRP vs _ h2
      | ok xs => simp [h2] at h
theorem jsonOfEs_notRP : ∀ (es : List (Key × Value)) (acc : List (Str × Str)) (e : Err),
    jsonOfEs es acc = .error e → NotRP e
  | [], acc, e, h => by simp [jsonOfEs] at h
  | (k, v) :: rest, acc, e, h => by
    simp only [jsonOfEs] at h
    cases h1 : jsonOf v with
    | error e' => simp only [h1, Except.error.injEq] at h; subst h; exact jsonOf_notRP v _ h1
    | ok x => simp only [h1] at h; exact jsonOfEs_notRP rest _ e h
end

theorem rawString_notRP {v : Value} {e : Err} (h : rawString v = .error e) : NotRP e := by
  cases v with
  | lit _ => simp [rawString] at h
  | null => simp [rawString] at h
  | bool b => cases b <;> simp [rawString] at h
  | num _ => simp [rawString] at h
  | map es ck ok => simp only [rawString] at h; exact jsonOf_notRP _ _ h
  | seq l => simp only [rawString] at h; exact jsonOf_notRP _ _ h
  | str _ => simp only [rawString, Except.error.injEq] at h; subst h; simp [NotRP]
  | vl _ => simp only [rawString, Except.error.injEq] at h; subst h; simp [NotRP]

theorem interpVl_noNest : ∀ (n : Nat) (root : Mapping) (l : List Value) (r0 : Value) (st : RState)
    (r : Value), WFN root.toValue → WFL l → NoNest r0 → interpVl n root l r0 st = .ok r →
    NoNest r := by
  intro n
  induction n with
  | zero => intros; simp_all [interpVl]
  | succ n ih =>
    intro root l r0 st r hr hl h0 h
    cases l with
    | nil => simp only [interpVl, Except.ok.injEq] at h; exact h ▸ h0
    | cons v vs =>
      simp only [interpVl] at h
      simp only [WFL] at hl
      cases h1 : interp n root v st with
      | error e => simp [h1] at h
      | ok p =>
        obtain ⟨x, st1⟩ := p
        simp only [h1] at h
        cases h2 : mergeV r0 x st1 with
        | error e => simp [h2] at h
        | ok r1 =>
          simp only [h2] at h
          exact ih _ _ _ _ _ hr hl.2
            (noNestPred.mergeV_pres r0 x st1 r1 h0 (interp_wfn hr hl.1 h1).2 h2) h

/-- No evaluator function fails with the `Token::resolve` panic, at fuel `n`. -/
structure NoRPInv (n : Nat) : Prop where
  interp : ∀ (root : Mapping) (v : Value) (st : RState) (e : Err),
    WFN root.toValue → WFN v → interp n root v st = .error e → NotRP e
  interpL : ∀ (root : Mapping) (l : List Value) (idx : Nat) (st : RState) (e : Err),
    WFN root.toValue → WFL l → NoNestL l → interpL n root l idx st = .error e → NotRP e
  interpEs : ∀ (root : Mapping) (es : List (Key × Value)) (ck ok : List Key) (st : RState)
    (acc : Mapping) (e : Err), WFN root.toValue → WFEs es → NoNestEs es →
    interpEs n root es ck ok st acc = .error e → NotRP e
  interpVl : ∀ (root : Mapping) (l : List Value) (r0 : Value) (st : RState) (e : Err),
    WFN root.toValue → WFL l → NoNestL l → interpVl n root l r0 st = .error e → NotRP e
  tokRender : ∀ (root : Mapping) (t : Token) (st : RState) (e : Err),
    WFN root.toValue → tokRender n root t st = .error e → NotRP e
  tokResolve : ∀ (root : Mapping) (t : Token) (st : RState) (e : Err),
    WFN root.toValue → tokResolve n root t st = .error e → NotRP e
  descend : ∀ (root : Mapping) (v : Value) (segs : List Str) (st : RState) (path : Str) (e : Err),
    WFN root.toValue → WFN v → descend n root v segs st path = .error e → NotRP e
  finalLoop : ∀ (root : Mapping) (v : Value) (st : RState) (e : Err),
    WFN root.toValue → WFN v → finalLoop n root v st = .error e → NotRP e
  interpStrOrVl : ∀ (root : Mapping) (v : Value) (st : RState) (e : Err),
    WFN root.toValue → WFN v → interpStrOrVl n root v st = .error e → NotRP e
  layersStr : ∀ (root : Mapping) (l : List Value) (st : RState) (e : Err),
    WFN root.toValue → WFL l → NoNestL l → layersStr n root l st = .error e → NotRP e
  slice : ∀ (root : Mapping) (ts : List Token) (st : RState) (e : Err),
    WFN root.toValue → slice n root ts st = .error e → NotRP e
  strLoop : ∀ (root : Mapping) (v : Value) (st : RState) (e : Err),
    WFN root.toValue → WFN v → strLoop n root v st = .error e → NotRP e
  sliceFinish : ∀ (root : Mapping) (v : Value) (st : RState) (e : Err),
    WFN root.toValue → WFN v → sliceFinish n root v st = .error e → NotRP e

theorem noRPInv_zero : NoRPInv 0 := by
  constructor <;> intros <;> rename_i h <;>
    simp only [Reclass.interp, Reclass.interpL, Reclass.interpEs, Reclass.interpVl,
      Reclass.tokRender, Reclass.tokResolve, Reclass.descend, Reclass.finalLoop,
      Reclass.interpStrOrVl, Reclass.layersStr, Reclass.slice, Reclass.strLoop,
      Reclass.sliceFinish, Except.error.injEq] at h <;> subst h <;> simp [NotRP]

theorem noNest_inner {v : Value} (hv : NoNest v) : ∀ l, v = .vl l → InnerLayersOK l := by
  intro l hl
  subst hl
  simp only [NoNest] at hv
  intro x hx l' hl'
  have := hv.2 x hx
  subst hl'
  simp [Value.isVl] at this

section rpstep
variable {n : Nat} (ih : NoRPInv n)
include ih

theorem interp_rp (root : Mapping) (v : Value) (st : RState) (e : Err)
    (hr : WFN root.toValue) (hv : WFN v) (h : Reclass.interp (n+1) root v st = .error e) :
    NotRP e := by
  cases v with
  | str s =>
    simp only [Reclass.interp] at h
    cases h1 : Token.parse s with
    | error e' => simp only [h1, Except.error.injEq] at h; subst h; exact parse_notRP h1
    | ok o =>
      cases o with
      | none => simp [h1] at h
      | some t => simp only [h1] at h; exact ih.tokRender _ _ _ _ hr h
  | map es ck ok =>
    simp only [Reclass.interp] at h
    obtain ⟨h1, h2⟩ := hv
    simp only [WF] at h1
    simp only [NoNest] at h2
    cases h3 : Reclass.interpEs n root es ck ok st {} with
    | error e' =>
      simp only [h3, Except.error.injEq] at h; subst h
      exact ih.interpEs _ _ _ _ _ _ _ hr h1.1 h2 h3
    | ok m => simp [h3] at h
  | seq l =>
    simp only [Reclass.interp] at h
    obtain ⟨h1, h2⟩ := hv
    simp only [WF] at h1
    simp only [NoNest] at h2
    cases h3 : Reclass.interpL n root l 0 st with
    | error e' =>
      simp only [h3, Except.error.injEq] at h; subst h
      exact ih.interpL _ _ _ _ _ hr h1 h2 h3
    | ok m => simp [h3] at h
  | vl l =>
    simp only [Reclass.interp] at h
    obtain ⟨h1, h2⟩ := hv
    simp only [WF] at h1
    simp only [NoNest] at h2
    cases h3 : Reclass.interpVl n root l .null st with
    | error e' =>
      simp only [h3, Except.error.injEq] at h; subst h
      exact ih.interpVl _ _ _ _ _ hr h1 h2.1 h3
    | ok x =>
      simp only [h3] at h
      refine ih.interp _ _ _ _ hr ⟨?_, ?_⟩ h
      · exact (interpInv n).interpVl _ _ _ _ _ hr.1 h1 (by simp [WF]) h3
      · exact interpVl_noNest n _ _ _ _ _ hr h1 (by simp [NoNest]) h3
  | null => simp [Reclass.interp] at h
  | bool _ => simp [Reclass.interp] at h
  | num _ => simp [Reclass.interp] at h
  | lit _ => simp [Reclass.interp] at h

theorem interpL_rp (root : Mapping) (l : List Value) (idx : Nat) (st : RState) (e : Err)
    (hr : WFN root.toValue) (hl : WFL l) (hn : NoNestL l)
    (h : Reclass.interpL (n+1) root l idx st = .error e) : NotRP e := by
  cases l with
  | nil => simp [Reclass.interpL] at h
  | cons v vs =>
    simp only [Reclass.interpL] at h
    simp only [WFL] at hl
    simp only [NoNestL] at hn
    cases h1 : Reclass.interp n root v (st.pushListIndex idx) with
    | error e' =>
      simp only [h1, Except.error.injEq] at h; subst h
      exact ih.interp _ _ _ _ hr ⟨hl.1, hn.1⟩ h1
    | ok p =>
      obtain ⟨x, st1⟩ := p
      simp only [h1] at h
      cases h2 : Reclass.interpL n root vs (idx + 1) st with
      | error e' =>
        simp only [h2, Except.error.injEq] at h; subst h
        exact ih.interpL _ _ _ _ _ hr hl.2 hn.2 h2
      | ok xs => simp [h2] at h

theorem interpEs_rp (root : Mapping) (es : List (Key × Value)) (ck ok : List Key) (st : RState)
    (acc : Mapping) (e : Err) (hr : WFN root.toValue) (hes : WFEs es) (hn : NoNestEs es)
    (h : Reclass.interpEs (n+1) root es ck ok st acc = .error e) : NotRP e := by
  cases es with
  | nil => simp [Reclass.interpEs] at h
  | cons x rest =>
    obtain ⟨k, v⟩ := x
    simp only [Reclass.interpEs] at h
    simp only [WFEs] at hes
    simp only [NoNestEs] at hn
    cases h1 : Reclass.interp n root v (st.pushMappingKey k) with
    | error e' =>
      simp only [h1, Except.error.injEq] at h; subst h
      exact ih.interp _ _ _ _ hr ⟨hes.2.1, hn.1⟩ h1
    | ok p =>
      obtain ⟨v1, st1⟩ := p
      simp only [h1] at h
      cases h2 : flat v1 st1 with
      | error e' => simp only [h2, Except.error.injEq] at h; subst h; exact flat_notRP _ _ _ h2
      | ok v2 =>
        simp only [h2] at h
        cases h3 : acc.insertImpl k v2 (decide (k ∈ ck)) (decide (k ∈ ok)) with
        | error e' => simp only [h3, Except.error.injEq] at h; subst h; exact insertImpl_notRP h3
        | ok acc' =>
          simp only [h3] at h
          exact ih.interpEs _ _ _ _ _ _ _ hr hes.2.2 hn.2 h

theorem interpVl_rp (root : Mapping) (l : List Value) (r0 : Value) (st : RState) (e : Err)
    (hr : WFN root.toValue) (hl : WFL l) (hn : NoNestL l)
    (h : Reclass.interpVl (n+1) root l r0 st = .error e) : NotRP e := by
  cases l with
  | nil => simp [Reclass.interpVl] at h
  | cons v vs =>
    simp only [Reclass.interpVl] at h
    simp only [WFL] at hl
    simp only [NoNestL] at hn
    cases h1 : Reclass.interp n root v st with
    | error e' =>
      simp only [h1, Except.error.injEq] at h; subst h
      exact ih.interp _ _ _ _ hr ⟨hl.1, hn.1⟩ h1
    | ok p =>
      obtain ⟨x, st1⟩ := p
      simp only [h1] at h
      cases h2 : mergeV r0 x st1 with
      | error e' => simp only [h2, Except.error.injEq] at h; subst h; exact mergeV_notRP _ _ _ _ h2
      | ok r1 =>
        simp only [h2] at h
        exact ih.interpVl _ _ _ _ _ hr hl.2 hn.2 h

theorem tokRender_rp (root : Mapping) (t : Token) (st : RState) (e : Err)
    (hr : WFN root.toValue) (h : Reclass.tokRender (n+1) root t st = .error e) : NotRP e := by
  simp only [Reclass.tokRender] at h
  cases h1 : Reclass.tokResolve n root t st with
  | error e' =>
    simp only [h1, Except.error.injEq] at h; subst h
    exact ih.tokResolve _ _ _ _ hr h1
  | ok p =>
    obtain ⟨v, st1⟩ := p
    simp only [h1] at h
    have hv : WFN v := ⟨(interpInv n).tokResolve _ _ _ _ _ hr.1 h1, (nnInv n).tokResolve _ _ _ _ _ hr h1⟩
    cases t with
    | ref parts => exact ih.interp _ _ _ _ hr hv h
    | lit s =>
      simp only at h
      cases h2 : rawString v with
      | error e' => simp only [h2, Except.error.injEq] at h; subst h; exact rawString_notRP h2
      | ok s' => simp [h2] at h
    | combined ts =>
      simp only at h
      cases h2 : rawString v with
      | error e' => simp only [h2, Except.error.injEq] at h; subst h; exact rawString_notRP h2
      | ok s' => simp [h2] at h

theorem tokResolve_rp (root : Mapping) (t : Token) (st : RState) (e : Err)
    (hr : WFN root.toValue) (h : Reclass.tokResolve (n+1) root t st = .error e) : NotRP e := by
  cases t with
  | lit s => simp [Reclass.tokResolve] at h
  | combined ts =>
    simp only [Reclass.tokResolve] at h
    cases h1 : Reclass.slice n root ts st with
    | error e' => simp only [h1, Except.error.injEq] at h; subst h; exact ih.slice _ _ _ _ hr h1
    | ok s => simp [h1] at h
  | ref parts =>
    simp only [Reclass.tokResolve] at h
    split at h
    · simp only [Except.error.injEq] at h; subst h; simp [NotRP]
    · cases h1 : Reclass.slice n root parts { st with depth := st.depth + 1 } with
      | error e' => simp only [h1, Except.error.injEq] at h; subst h; exact ih.slice _ _ _ _ hr h1
      | ok path =>
        simp only [h1] at h
        split at h
        · simp only [Except.error.injEq] at h; subst h; simp [NotRP]
        · split at h
          · simp only [Except.error.injEq] at h; subst h; simp [NotRP]
          · rename_i k0 segs _
            cases h2 : root.get (.str k0) with
            | none => simp only [h2, Except.error.injEq] at h; subst h; simp [NotRP]
            | some v0 =>
              simp only [h2] at h
              have hv0 : WFN v0 := wfn_lookup (ck := root.ck) (ok := root.ok) hr h2
              split at h
              · rename_i e' h3
                simp only [Except.error.injEq] at h; subst h
                exact ih.descend _ _ _ _ _ _ hr hv0 h3
              · rename_i v st3 h3
                have hv : WFN v :=
                  ⟨(interpInv n).descend _ _ _ _ _ _ _ hr.1 hv0.1 h3, (nnInv n).descend _ _ _ _ _ _ _ hr hv0 h3⟩
                exact ih.finalLoop _ _ _ _ hr hv h

theorem descend_rp (root : Mapping) (v : Value) (segs : List Str) (st : RState) (path : Str)
    (e : Err) (hr : WFN root.toValue) (hv : WFN v)
    (h : Reclass.descend (n+1) root v segs st path = .error e) : NotRP e := by
  cases segs with
  | nil => simp [Reclass.descend] at h
  | cons key rest =>
    simp only [Reclass.descend] at h
    cases h1 : Reclass.interpStrOrVl n root v st with
    | error e' =>
      simp only [h1, Except.error.injEq] at h; subst h
      exact ih.interpStrOrVl _ _ _ _ hr hv h1
    | ok p =>
      obtain ⟨newv, st1⟩ := p
      simp only [h1] at h
      have hn : WFN newv :=
        ⟨(interpInv n).interpStrOrVl _ _ _ _ _ hr.1 hv.1 h1, (nnInv n).interpStrOrVl _ _ _ _ _ hr hv h1⟩
      have hns := interpStrOrVl_notStrVl (noNest_inner hv.2) h1
      cases newv with
      | map es ck ok =>
        simp only at h
        cases h2 : lookup (.str key) es with
        | none => simp only [h2, Except.error.injEq] at h; subst h; simp [NotRP]
        | some v' =>
          simp only [h2] at h
          exact ih.descend _ _ _ _ _ _ hr (wfn_lookup hn h2) h
      | str _ => simp [NotStrVl, Value.isStr] at hns
      | vl _ => simp [NotStrVl, Value.isVl] at hns
      | null => simp only [Except.error.injEq] at h; subst h; simp [NotRP]
      | bool _ => simp only [Except.error.injEq] at h; subst h; simp [NotRP]
      | num _ => simp only [Except.error.injEq] at h; subst h; simp [NotRP]
      | lit _ => simp only [Except.error.injEq] at h; subst h; simp [NotRP]
      | seq _ => simp only [Except.error.injEq] at h; subst h; simp [NotRP]

theorem finalLoop_rp (root : Mapping) (v : Value) (st : RState) (e : Err)
    (hr : WFN root.toValue) (hv : WFN v) (h : Reclass.finalLoop (n+1) root v st = .error e) :
    NotRP e := by
  simp only [Reclass.finalLoop] at h
  split at h
  · cases h1 : Reclass.interp n root v st with
    | error e' => simp only [h1, Except.error.injEq] at h; subst h; exact ih.interp _ _ _ _ hr hv h1
    | ok p =>
      obtain ⟨v1, st1⟩ := p
      simp only [h1] at h
      exact ih.finalLoop _ _ _ _ hr (interp_wfn hr hv.1 h1) h
  · simp at h

theorem strLoop_rp (root : Mapping) (v : Value) (st : RState) (e : Err)
    (hr : WFN root.toValue) (hv : WFN v) (h : Reclass.strLoop (n+1) root v st = .error e) :
    NotRP e := by
  simp only [Reclass.strLoop] at h
  split at h
  · cases h1 : Reclass.interp n root v st with
    | error e' => simp only [h1, Except.error.injEq] at h; subst h; exact ih.interp _ _ _ _ hr hv h1
    | ok p =>
      obtain ⟨v1, st1⟩ := p
      simp only [h1] at h
      exact ih.strLoop _ _ _ _ hr (interp_wfn hr hv.1 h1) h
  · simp at h

theorem interpStrOrVl_rp (root : Mapping) (v : Value) (st : RState) (e : Err)
    (hr : WFN root.toValue) (hv : WFN v)
    (h : Reclass.interpStrOrVl (n+1) root v st = .error e) : NotRP e := by
  cases v with
  | str s => simp only [Reclass.interpStrOrVl] at h; exact ih.interp _ _ _ _ hr hv h
  | vl l =>
    simp only [Reclass.interpStrOrVl] at h
    obtain ⟨hv1, hv2⟩ := hv
    simp only [WF] at hv1
    simp only [NoNest] at hv2
    cases h1 : Reclass.layersStr n root l st with
    | error e' =>
      simp only [h1, Except.error.injEq] at h; subst h
      exact ih.layersStr _ _ _ _ hr hv1 hv2.1 h1
    | ok i =>
      simp only [h1] at h
      cases h2 : flatVl i .null st with
      | error e' => simp only [h2, Except.error.injEq] at h; subst h; exact flatVl_notRP _ _ _ _ h2
      | ok x => simp [h2] at h
  | null => simp [Reclass.interpStrOrVl] at h
  | bool _ => simp [Reclass.interpStrOrVl] at h
  | num _ => simp [Reclass.interpStrOrVl] at h
  | lit _ => simp [Reclass.interpStrOrVl] at h
  | map _ _ _ => simp [Reclass.interpStrOrVl] at h
  | seq _ => simp [Reclass.interpStrOrVl] at h

theorem layersStr_rp (root : Mapping) (l : List Value) (st : RState) (e : Err)
    (hr : WFN root.toValue) (hl : WFL l) (hn : NoNestL l)
    (h : Reclass.layersStr (n+1) root l st = .error e) : NotRP e := by
  cases l with
  | nil => simp [Reclass.layersStr] at h
  | cons v vs =>
    simp only [Reclass.layersStr] at h
    simp only [WFL] at hl
    simp only [NoNestL] at hn
    by_cases hs : v.isStr
    · simp only [hs, if_true] at h
      cases h1 : Reclass.interp n root v st with
      | error e' =>
        simp only [h1, Except.error.injEq] at h; subst h
        exact ih.interp _ _ _ _ hr ⟨hl.1, hn.1⟩ h1
      | ok p =>
        obtain ⟨x, st1⟩ := p
        simp only [h1] at h
        cases h2 : Reclass.layersStr n root vs st with
        | error e' =>
          simp only [h2, Except.error.injEq] at h; subst h
          exact ih.layersStr _ _ _ _ hr hl.2 hn.2 h2
        | ok xs => simp [h2] at h
    · simp only [hs, Bool.false_eq_true, if_false] at h
      cases h2 : Reclass.layersStr n root vs st with
      | error e' =>
        simp only [h2, Except.error.injEq] at h; subst h
        exact ih.layersStr _ _ _ _ hr hl.2 hn.2 h2
      | ok xs => simp [h2] at h

theorem slice_rp (root : Mapping) (ts : List Token) (st : RState) (e : Err)
    (hr : WFN root.toValue) (h : Reclass.slice (n+1) root ts st = .error e) : NotRP e := by
  cases ts with
  | nil => simp [Reclass.slice] at h
  | cons t ts =>
    simp only [Reclass.slice] at h
    cases h1 : Reclass.tokResolve n root t st with
    | error e' => simp only [h1, Except.error.injEq] at h; subst h; exact ih.tokResolve _ _ _ _ hr h1
    | ok p =>
      obtain ⟨v, st1⟩ := p
      simp only [h1] at h
      have hv : WFN v := ⟨(interpInv n).tokResolve _ _ _ _ _ hr.1 h1, (nnInv n).tokResolve _ _ _ _ _ hr h1⟩
      cases h2 : Reclass.strLoop n root v st1 with
      | error e' => simp only [h2, Except.error.injEq] at h; subst h; exact ih.strLoop _ _ _ _ hr hv h2
      | ok p2 =>
        obtain ⟨v', st2⟩ := p2
        simp only [h2] at h
        have hv' : WFN v' := (nnInv n).strLoop _ _ _ _ _ hr hv h2
        cases h3 : Reclass.sliceFinish n root v' st2 with
        | error e' =>
          simp only [h3, Except.error.injEq] at h; subst h
          exact ih.sliceFinish _ _ _ _ hr hv' h3
        | ok s =>
          simp only [h3] at h
          cases h4 : Reclass.slice n root ts st with
          | error e' => simp only [h4, Except.error.injEq] at h; subst h; exact ih.slice _ _ _ _ hr h4
          | ok s' => simp [h4] at h

theorem sliceFinish_rp (root : Mapping) (v : Value) (st : RState) (e : Err)
    (hr : WFN root.toValue) (hv : WFN v) (h : Reclass.sliceFinish (n+1) root v st = .error e) :
    NotRP e := by
  simp only [Reclass.sliceFinish] at h
  split at h
  · cases h1 : Reclass.interp n root v st with
    | error e' => simp only [h1, Except.error.injEq] at h; subst h; exact ih.interp _ _ _ _ hr hv h1
    | ok p =>
      obtain ⟨v1, st1⟩ := p
      simp only [h1] at h
      cases h2 : flat v1 st1 with
      | error e' => simp only [h2, Except.error.injEq] at h; subst h; exact flat_notRP _ _ _ h2
      | ok v2 => simp only [h2] at h; exact rawString_notRP h
  · exact rawString_notRP h

end rpstep

theorem noRPInv : ∀ n, NoRPInv n := by
  intro n
  induction n with
  | zero => exact noRPInv_zero
  | succ n ih =>
    exact {
      interp := interp_rp ih
      interpL := interpL_rp ih
      interpEs := interpEs_rp ih
      interpVl := interpVl_rp ih
      tokRender := tokRender_rp ih
      tokResolve := tokResolve_rp ih
      descend := descend_rp ih
      finalLoop := finalLoop_rp ih
      interpStrOrVl := interpStrOrVl_rp ih
      layersStr := layersStr_rp ih
      slice := slice_rp ih
      strLoop := strLoop_rp ih
      sliceFinish := sliceFinish_rp ih }

/-! ### YAML never produces nested layer lists -/

mutual
theorem ofYaml_noNest : ∀ (y : Yaml) (v : Value), Value.ofYaml y = .ok v → NoNest v
  | .null, v, h => by simp only [Value.ofYaml, Except.ok.injEq] at h; subst h; simp [NoNest]
  | .bool _, v, h => by simp only [Value.ofYaml, Except.ok.injEq] at h; subst h; simp [NoNest]
  | .num _, v, h => by simp only [Value.ofYaml, Except.ok.injEq] at h; subst h; simp [NoNest]
  | .str _, v, h => by simp only [Value.ofYaml, Except.ok.injEq] at h; subst h; simp [NoNest]
  | .tagged _ _, v, h => by simp [Value.ofYaml] at h
  | .seq l, v, h => by
    simp only [Value.ofYaml] at h
    cases h1 : ofYamlL l with
    | error e => simp [h1] at h
    | ok l' =>
      simp only [h1, Except.ok.injEq] at h
      subst h
      simp only [NoNest]
      exact ofYamlL_noNest l l' h1
  | .map es, v, h => by
    simp only [Value.ofYaml] at h
    cases h1 : ofYamlEs es {} with
    | error e => simp [h1] at h
    | ok m =>
      simp only [h1, Except.ok.injEq] at h
      subst h
      simp only [Mapping.toValue, NoNest]
      exact ofYamlEs_noNest es {} m (by simp [NoNestEs]) h1
theorem ofYamlL_noNest : ∀ (l : List Yaml) (r : List Value), ofYamlL l = .ok r → NoNestL r
  | [], r, h => by simp only [ofYamlL, Except.ok.injEq] at h; subst h; simp [NoNestL]
  | y :: ys, r, h => by
    simp only [ofYamlL] at h
    cases h1 : Value.ofYaml y with
    | error e => simp [h1] at h
    | ok v =>
      simp only [h1] at h
      cases h2 : ofYamlL ys with
      | error e => simp [h2] at h
      | ok vs =>
        simp only [h2, Except.ok.injEq] at h
        subst h
        exact ⟨ofYaml_noNest y v h1, ofYamlL_noNest ys vs h2⟩
theorem ofYamlEs_noNest : ∀ (es : List (Yaml × Yaml)) (m m' : Mapping),
    NoNestEs m.es → ofYamlEs es m = .ok m' → NoNestEs m'.es
  | [], m, m', hm, h => by simp only [ofYamlEs, Except.ok.injEq] at h; exact h ▸ hm
  | (k, v) :: rest, m, m', hm, h => by
    simp only [ofYamlEs] at h
    cases h1 : Key.ofYaml k with
    | error e => simp [h1] at h
    | ok k' =>
      simp only [h1] at h
      cases h2 : Value.ofYaml v with
      | error e => simp [h2] at h
      | ok v' =>
        simp only [h2] at h
        cases h3 : m.insert k' v' with
        | error e => simp [h3] at h
        | ok m1 =>
          simp only [h3] at h
          exact ofYamlEs_noNest rest m1 m'
            (noNestPred.insertImpl_pres (m := m) hm (ofYaml_noNest v v' h2) h3) h
end

end Reclass
