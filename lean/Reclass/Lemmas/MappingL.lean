/-
  Helper lemmas for `Reclass.Model.Mapping`: `lookup`, `replaceVal`, `setInsert`,
  `Key.stripPrefix`, the three-way case analysis of `Mapping.insertImpl`, and the
  key-uniqueness invariant of `insertImpl` / `mergeEntries` / `merge`.
-/
import Reclass.Model.Mapping
namespace Reclass

/-! ### `lookup` -/

@[simp] theorem lookup_nil (k : Key) : lookup k [] = none := rfl

theorem lookup_cons (k k' : Key) (v : Value) (es : List (Key × Value)) :
    lookup k ((k', v) :: es) = if k' = k then some v else lookup k es := rfl

theorem lookup_cons_self (k : Key) (v : Value) (es : List (Key × Value)) :
    lookup k ((k, v) :: es) = some v := by simp [lookup]

theorem lookup_cons_ne {k k' : Key} (h : k' ≠ k) (v : Value) (es : List (Key × Value)) :
    lookup k ((k', v) :: es) = lookup k es := by simp [lookup, h]

/-- `lookup` finds the first match: on a concatenation the left part wins. -/
theorem lookup_append (k : Key) (es es' : List (Key × Value)) :
    lookup k (es ++ es') = (lookup k es).or (lookup k es') := by
  induction es with
  | nil => simp
  | cons e es ih =>
    obtain ⟨k', v'⟩ := e
    simp only [List.cons_append, lookup]
    by_cases h : k' = k
    · simp [h]
    · simp [h, ih]

theorem lookup_append_of_none {k : Key} {es : List (Key × Value)} (h : lookup k es = none)
    (es' : List (Key × Value)) : lookup k (es ++ es') = lookup k es' := by
  rw [lookup_append, h]; rfl

theorem lookup_append_of_some {k : Key} {es : List (Key × Value)} {v : Value}
    (h : lookup k es = some v) (es' : List (Key × Value)) : lookup k (es ++ es') = some v := by
  rw [lookup_append, h]; rfl

theorem lookup_append_single_self {k : Key} {es : List (Key × Value)} (h : lookup k es = none)
    (v : Value) : lookup k (es ++ [(k, v)]) = some v := by
  rw [lookup_append_of_none h]; simp [lookup]

theorem lookup_append_single_ne {k k' : Key} (hne : k' ≠ k) (es : List (Key × Value)) (v : Value) :
    lookup k (es ++ [(k', v)]) = lookup k es := by
  rw [lookup_append]
  simp [lookup, hne]

theorem lookup_eq_none_iff {k : Key} {es : List (Key × Value)} :
    lookup k es = none ↔ k ∉ es.map Prod.fst := by
  induction es with
  | nil => simp
  | cons e es ih =>
    obtain ⟨k', v'⟩ := e
    simp only [lookup, List.map_cons, List.mem_cons, not_or]
    by_cases h : k' = k
    · simp [h]
    · simp only [h, if_false, ih]
      constructor
      · intro h2; exact ⟨fun e => h e.symm, h2⟩
      · intro h2; exact h2.2

theorem lookup_isSome_iff {k : Key} {es : List (Key × Value)} :
    (lookup k es).isSome ↔ k ∈ es.map Prod.fst := by
  cases h : lookup k es with
  | none => simp [lookup_eq_none_iff.1 h]
  | some v =>
    simp only [Option.isSome_some, true_iff]
    apply Classical.byContradiction
    intro hn
    rw [lookup_eq_none_iff.2 hn] at h
    cases h

theorem hasKey_iff {k : Key} {es : List (Key × Value)} : hasKey k es = true ↔ k ∈ es.map Prod.fst :=
  lookup_isSome_iff

/-- What `lookup` returns is an entry of the list. -/
theorem lookup_mem_entry {k : Key} {v : Value} {es : List (Key × Value)} (h : lookup k es = some v) :
    (k, v) ∈ es := by
  induction es with
  | nil => simp at h
  | cons e es ih =>
    obtain ⟨k', v'⟩ := e
    simp only [lookup] at h
    by_cases hk : k' = k
    · simp only [hk, if_true, Option.some.injEq] at h
      subst hk; subst h; exact List.mem_cons_self
    · simp only [hk, if_false] at h
      exact List.mem_cons_of_mem _ (ih h)

theorem mem_keys_of_mem {k : Key} {v : Value} {es : List (Key × Value)} (h : (k, v) ∈ es) :
    k ∈ es.map Prod.fst := List.mem_map.2 ⟨(k, v), h, rfl⟩

/-- With unique keys every entry is what `lookup` finds. -/
theorem lookup_of_mem_nodup {k : Key} {v : Value} {es : List (Key × Value)}
    (hn : (es.map Prod.fst).Nodup) (h : (k, v) ∈ es) : lookup k es = some v := by
  induction es with
  | nil => simp at h
  | cons e es ih =>
    obtain ⟨k', v'⟩ := e
    simp only [List.map_cons, List.nodup_cons] at hn
    rcases List.mem_cons.1 h with heq | hmem
    · cases heq; exact lookup_cons_self _ _ _
    · have hne : k' ≠ k := by
        intro e; subst e; exact hn.1 (mem_keys_of_mem hmem)
      rw [lookup_cons_ne hne]; exact ih hn.2 hmem

/-- An entry of the list makes `lookup` succeed (with the first such entry). -/
theorem lookup_isSome_of_mem {k : Key} {v : Value} {es : List (Key × Value)} (h : (k, v) ∈ es) :
    ∃ w, lookup k es = some w := by
  have := lookup_isSome_iff.2 (mem_keys_of_mem h)
  exact Option.isSome_iff_exists.1 this

/-! ### `replaceVal` -/

@[simp] theorem replaceVal_nil (k : Key) (v : Value) : replaceVal k v [] = [] := rfl

/-- `replaceVal` keeps the keys and their order. -/
theorem replaceVal_keys (k : Key) (v : Value) (es : List (Key × Value)) :
    (replaceVal k v es).map Prod.fst = es.map Prod.fst := by
  induction es with
  | nil => rfl
  | cons e es ih =>
    obtain ⟨k', v'⟩ := e
    simp only [replaceVal]
    by_cases h : k' = k
    · simp [h]
    · simp [h, ih]

theorem replaceVal_length (k : Key) (v : Value) (es : List (Key × Value)) :
    (replaceVal k v es).length = es.length := by
  have := congrArg List.length (replaceVal_keys k v es)
  simpa using this

/-- After `replaceVal` the key holds the new value (if it was there at all). -/
theorem lookup_replaceVal_self {k : Key} {es : List (Key × Value)} {old : Value}
    (h : lookup k es = some old) (v : Value) : lookup k (replaceVal k v es) = some v := by
  induction es with
  | nil => simp at h
  | cons e es ih =>
    obtain ⟨k', v'⟩ := e
    simp only [lookup, replaceVal] at h ⊢
    by_cases hk : k' = k
    · simp [hk, lookup]
    · simp only [hk, if_false] at h ⊢
      simp only [lookup, hk, if_false]
      exact ih h

/-- `replaceVal` does not touch other keys. -/
theorem lookup_replaceVal_ne {k k1 : Key} (hne : k1 ≠ k) (v : Value) (es : List (Key × Value)) :
    lookup k1 (replaceVal k v es) = lookup k1 es := by
  induction es with
  | nil => rfl
  | cons e es ih =>
    obtain ⟨k', v'⟩ := e
    simp only [replaceVal]
    by_cases hk : k' = k
    · subst hk
      have : k' ≠ k1 := fun e => hne e.symm
      simp [lookup, this]
    · simp only [hk, if_false, lookup, ih]

/-- `replaceVal` on an absent key is the identity. -/
theorem replaceVal_of_none {k : Key} {es : List (Key × Value)} (h : lookup k es = none) (v : Value) :
    replaceVal k v es = es := by
  induction es with
  | nil => rfl
  | cons e es ih =>
    obtain ⟨k', v'⟩ := e
    simp only [lookup] at h
    by_cases hk : k' = k
    · simp [hk] at h
    · simp only [hk, if_false] at h
      simp [replaceVal, hk, ih h]

/-! ### `setInsert` -/

theorem mem_setInsert_or {x k : Key} {s : List Key} : x ∈ setInsert k s ↔ x = k ∨ x ∈ s := by
  unfold setInsert
  by_cases h : k ∈ s
  · simp only [h, if_true]
    constructor
    · intro hx; exact Or.inr hx
    · intro hx; rcases hx with rfl | hx
      · exact h
      · exact hx
  · simp only [h, if_false, List.mem_append, List.mem_singleton]
    constructor
    · intro hx; exact hx.symm
    · intro hx; exact hx.symm

theorem mem_setInsert_self (k : Key) (s : List Key) : k ∈ setInsert k s :=
  mem_setInsert_or.2 (Or.inl rfl)

theorem mem_setInsert_of_mem {x : Key} (k : Key) {s : List Key} (h : x ∈ s) : x ∈ setInsert k s :=
  mem_setInsert_or.2 (Or.inr h)

theorem mem_setInsert_ne {x k : Key} (hne : x ≠ k) {s : List Key} : x ∈ setInsert k s ↔ x ∈ s := by
  rw [mem_setInsert_or]; simp [hne]

theorem setInsert_nodup {k : Key} {s : List Key} (h : s.Nodup) : (setInsert k s).Nodup := by
  unfold setInsert
  by_cases hk : k ∈ s
  · simp [hk, h]
  · simp only [hk, if_false]
    rw [List.nodup_append]
    refine ⟨h, by simp, ?_⟩
    intro a ha b hb
    simp at hb; subst hb
    intro e; subst e; exact hk ha

/-! ### `Key.stripPrefix` -/

theorem constMarker_eq : Extracted.constMarker = '=' := rfl
theorem overrideMarker_eq : Extracted.overrideMarker = '~' := rfl

theorem ofChar_const : KeyPrefix.ofChar '=' = some .const := by decide
theorem ofChar_override : KeyPrefix.ofChar '~' = some .override := by decide

theorem ofChar_eq_none {c : Char} (h1 : c ≠ '=') (h2 : c ≠ '~') : KeyPrefix.ofChar c = none := by
  simp [KeyPrefix.ofChar, constMarker_eq, overrideMarker_eq, h1, h2]

theorem ofChar_eq_some_const {c : Char} : KeyPrefix.ofChar c = some .const ↔ c = '=' := by
  unfold KeyPrefix.ofChar
  rw [constMarker_eq, overrideMarker_eq]
  by_cases h1 : c = '='
  · simp [h1]
  · by_cases h2 : c = '~' <;> simp [h1, h2]

theorem ofChar_eq_some_override {c : Char} : KeyPrefix.ofChar c = some .override ↔ c = '~' := by
  unfold KeyPrefix.ofChar
  rw [constMarker_eq, overrideMarker_eq]
  by_cases h1 : c = '='
  · subst h1; simp
  · by_cases h2 : c = '~' <;> simp [h1, h2]

/-- Keys that are not `Key.str` are never stripped. -/
theorem stripPrefix_nonstr {k : Key} (h : ∀ s, k ≠ .str s) : k.stripPrefix = (k, none) := by
  cases k with
  | str s => exact absurd rfl (h s)
  | lit s => rfl
  | bool b => rfl
  | num n => rfl
  | null => rfl

theorem stripPrefix_lit (s : Str) : (Key.lit s).stripPrefix = (.lit s, none) := rfl
theorem stripPrefix_bool (b : Bool) : (Key.bool b).stripPrefix = (.bool b, none) := rfl
theorem stripPrefix_num (n : Num) : (Key.num n).stripPrefix = (.num n, none) := rfl
theorem stripPrefix_null : Key.null.stripPrefix = (.null, none) := rfl
theorem stripPrefix_str_nil : (Key.str []).stripPrefix = (.str [], none) := rfl

/-- A string key whose text does not start with a marker is not stripped. -/
theorem stripPrefix_str_plain {c : Char} (cs : Str) (h1 : c ≠ '=') (h2 : c ≠ '~') :
    (Key.str (c :: cs)).stripPrefix = (.str (c :: cs), none) := by
  simp [Key.stripPrefix, ofChar_eq_none h1 h2]

/-- General form: a string key whose first character (if any) is not a marker. -/
theorem stripPrefix_str_of_head {s : Str} (h1 : s.head? ≠ some '=') (h2 : s.head? ≠ some '~') :
    (Key.str s).stripPrefix = (.str s, none) := by
  cases s with
  | nil => rfl
  | cons c cs =>
    apply stripPrefix_str_plain
    · intro e; subst e; simp at h1
    · intro e; subst e; simp at h2

theorem stripPrefix_const (cs : Str) : (Key.str ('=' :: cs)).stripPrefix = (.str cs, some .const) := by
  simp [Key.stripPrefix, ofChar_const]

theorem stripPrefix_override (cs : Str) :
    (Key.str ('~' :: cs)).stripPrefix = (.str cs, some .override) := by
  simp [Key.stripPrefix, ofChar_override]

/-- A stripped string key comes from a string key. -/
theorem stripPrefix_prefix_some {k : Key} {p : KeyPrefix} (h : k.stripPrefix.2 = some p) :
    ∃ c cs, k = .str (c :: cs) ∧ KeyPrefix.ofChar c = some p ∧ k.stripPrefix.1 = .str cs := by
  cases k with
  | str s =>
    cases s with
    | nil => simp [Key.stripPrefix] at h
    | cons c cs =>
      refine ⟨c, cs, rfl, ?_⟩
      simp only [Key.stripPrefix] at h ⊢
      cases hc : KeyPrefix.ofChar c with
      | none => simp [hc] at h
      | some q => simp [hc] at h ⊢; exact h
  | lit s => simp [Key.stripPrefix] at h
  | bool b => simp [Key.stripPrefix] at h
  | num n => simp [Key.stripPrefix] at h
  | null => simp [Key.stripPrefix] at h

/-! ### `Mapping.insertImpl`: the three outcomes -/

/-- `insertImpl` with the pattern-matching `let` spelled out via projections. -/
theorem insertImpl_eq (m : Mapping) (k : Key) (v : Value) (fc fo : Bool) :
    m.insertImpl k v fc fo =
      match lookup k.stripPrefix.1 m.es with
      | none =>
        .ok { es := m.es ++ [(k.stripPrefix.1, v)],
              ck := if fc then setInsert k.stripPrefix.1
                        (if k.stripPrefix.2 = some .const then setInsert k.stripPrefix.1 m.ck else m.ck)
                    else (if k.stripPrefix.2 = some .const then setInsert k.stripPrefix.1 m.ck else m.ck),
              ok := if fo then setInsert k.stripPrefix.1
                        (if k.stripPrefix.2 = some .override then setInsert k.stripPrefix.1 m.ok else m.ok)
                    else (if k.stripPrefix.2 = some .override then setInsert k.stripPrefix.1 m.ok else m.ok) }
      | some old =>
        if k.stripPrefix.1 ∈ m.ck then .error (.constKey k.stripPrefix.1)
        else
          .ok { es := if fo || k.stripPrefix.2 = some .override then replaceVal k.stripPrefix.1 v m.es
                      else replaceVal k.stripPrefix.1 (combine old v) m.es,
                ck := if fc || k.stripPrefix.2 = some .const then setInsert k.stripPrefix.1 m.ck else m.ck,
                ok := m.ok } := rfl

/-- Outcome 1: the stripped key is absent — append, record the flags. -/
theorem insertImpl_absent {m : Mapping} {k : Key} (v : Value) (fc fo : Bool)
    (h : lookup k.stripPrefix.1 m.es = none) :
    m.insertImpl k v fc fo =
      .ok { es := m.es ++ [(k.stripPrefix.1, v)],
            ck := if fc then setInsert k.stripPrefix.1
                      (if k.stripPrefix.2 = some .const then setInsert k.stripPrefix.1 m.ck else m.ck)
                  else (if k.stripPrefix.2 = some .const then setInsert k.stripPrefix.1 m.ck else m.ck),
            ok := if fo then setInsert k.stripPrefix.1
                      (if k.stripPrefix.2 = some .override then setInsert k.stripPrefix.1 m.ok else m.ok)
                  else (if k.stripPrefix.2 = some .override then setInsert k.stripPrefix.1 m.ok else m.ok) } := by
  rw [insertImpl_eq, h]

/-- Outcome 2: the stripped key is present and constant — error. -/
theorem insertImpl_const {m : Mapping} {k : Key} {old : Value} (v : Value) (fc fo : Bool)
    (h : lookup k.stripPrefix.1 m.es = some old) (hc : k.stripPrefix.1 ∈ m.ck) :
    m.insertImpl k v fc fo = .error (.constKey k.stripPrefix.1) := by
  rw [insertImpl_eq, h]; simp only [hc, if_true]

/-- Outcome 3: the stripped key is present and not constant — replace or collect. -/
theorem insertImpl_present {m : Mapping} {k : Key} {old : Value} (v : Value) (fc fo : Bool)
    (h : lookup k.stripPrefix.1 m.es = some old) (hc : k.stripPrefix.1 ∉ m.ck) :
    m.insertImpl k v fc fo =
      .ok { es := if fo || k.stripPrefix.2 = some .override then replaceVal k.stripPrefix.1 v m.es
                  else replaceVal k.stripPrefix.1 (combine old v) m.es,
            ck := if fc || k.stripPrefix.2 = some .const then setInsert k.stripPrefix.1 m.ck else m.ck,
            ok := m.ok } := by
  rw [insertImpl_eq, h]; simp only [hc, if_false]

/-- If `insertImpl` succeeds, the stripped key was absent, or present and not constant. -/
theorem insertImpl_ok_cases {m m' : Mapping} {k : Key} {v : Value} {fc fo : Bool}
    (h : m.insertImpl k v fc fo = .ok m') :
    lookup k.stripPrefix.1 m.es = none ∨
      ((∃ old, lookup k.stripPrefix.1 m.es = some old) ∧ k.stripPrefix.1 ∉ m.ck) := by
  cases hl : lookup k.stripPrefix.1 m.es with
  | none => exact Or.inl rfl
  | some old =>
    refine Or.inr ⟨⟨old, rfl⟩, ?_⟩
    intro hc
    rw [insertImpl_const v fc fo hl hc] at h
    cases h

/-- The keys after a successful `insertImpl`: unchanged, or the stripped key appended. -/
theorem insertImpl_keys {m m' : Mapping} {k : Key} {v : Value} {fc fo : Bool}
    (h : m.insertImpl k v fc fo = .ok m') :
    m'.es.map Prod.fst =
      if (lookup k.stripPrefix.1 m.es).isSome then m.es.map Prod.fst
      else m.es.map Prod.fst ++ [k.stripPrefix.1] := by
  cases hl : lookup k.stripPrefix.1 m.es with
  | none =>
    rw [insertImpl_absent v fc fo hl] at h
    injection h with h; subst h
    simp
  | some old =>
    have hc : k.stripPrefix.1 ∉ m.ck := by
      intro hc; rw [insertImpl_const v fc fo hl hc] at h; cases h
    rw [insertImpl_present v fc fo hl hc] at h
    injection h with h; subst h
    simp only [Option.isSome_some, if_true]
    split <;> exact replaceVal_keys _ _ _

/-! ### Key uniqueness is an invariant -/

theorem insertImpl_keys_nodup {m m' : Mapping} {k : Key} {v : Value} {fc fo : Bool}
    (hn : (m.es.map Prod.fst).Nodup) (h : m.insertImpl k v fc fo = .ok m') :
    (m'.es.map Prod.fst).Nodup := by
  rw [insertImpl_keys h]
  cases hl : lookup k.stripPrefix.1 m.es with
  | some old => simpa using hn
  | none =>
    simp only [Option.isSome_none, Bool.false_eq_true, if_false]
    have hx : k.stripPrefix.1 ∉ m.es.map Prod.fst := lookup_eq_none_iff.1 hl
    rw [List.nodup_append]
    refine ⟨hn, by simp, ?_⟩
    intro a ha b hb
    simp at hb; subst hb
    intro e; subst e; exact hx ha

theorem mergeEntries_keys_nodup (ock ook : List Key) (es : List (Key × Value)) :
    ∀ {m m' : Mapping}, (m.es.map Prod.fst).Nodup → m.mergeEntries ock ook es = .ok m' →
      (m'.es.map Prod.fst).Nodup := by
  induction es with
  | nil =>
    intro m m' hn h
    simp only [Mapping.mergeEntries] at h
    injection h with h; subst h; exact hn
  | cons e es ih =>
    intro m m' hn h
    obtain ⟨k, v⟩ := e
    simp only [Mapping.mergeEntries] at h
    cases h1 : m.insertImpl k v (decide (k ∈ ock)) (decide (k ∈ ook)) with
    | error e => simp [h1] at h
    | ok m1 =>
      simp only [h1] at h
      exact ih (insertImpl_keys_nodup hn h1) h

theorem merge_keys_nodup {m other m' : Mapping} (hn : (m.es.map Prod.fst).Nodup)
    (h : m.merge other = .ok m') : (m'.es.map Prod.fst).Nodup :=
  mergeEntries_keys_nodup _ _ _ hn h

/-- The flag sets stay duplicate-free as well. -/
theorem insertImpl_flags_nodup {m m' : Mapping} {k : Key} {v : Value} {fc fo : Bool}
    (hc : m.ck.Nodup) (ho : m.ok.Nodup) (h : m.insertImpl k v fc fo = .ok m') :
    m'.ck.Nodup ∧ m'.ok.Nodup := by
  rw [insertImpl_eq] at h
  split at h
  · injection h with h; subst h
    constructor
    · dsimp only; split <;> split <;> simp [setInsert_nodup, hc]
    · dsimp only; split <;> split <;> simp [setInsert_nodup, ho]
  · split at h
    · cases h
    · injection h with h; subst h
      constructor
      · dsimp only; split <;> simp [setInsert_nodup, hc]
      · exact ho

/-! ### `insertImpl` is local to the stripped key, and flags only grow -/

/-- Other keys keep their value. -/
theorem insertImpl_lookup_ne {m m' : Mapping} {k k1 : Key} {v : Value} {fc fo : Bool}
    (h : m.insertImpl k v fc fo = .ok m') (hne : k1 ≠ k.stripPrefix.1) :
    lookup k1 m'.es = lookup k1 m.es := by
  rw [insertImpl_eq] at h
  split at h
  · injection h with h; subst h
    exact lookup_append_single_ne (fun e => hne e.symm) _ _
  · split at h
    · cases h
    · injection h with h; subst h
      dsimp only
      split <;> exact lookup_replaceVal_ne hne _ _

/-- Other keys keep their constant flag. -/
theorem insertImpl_ck_ne {m m' : Mapping} {k k1 : Key} {v : Value} {fc fo : Bool}
    (h : m.insertImpl k v fc fo = .ok m') (hne : k1 ≠ k.stripPrefix.1) :
    k1 ∈ m'.ck ↔ k1 ∈ m.ck := by
  rw [insertImpl_eq] at h
  split at h
  · injection h with h; subst h
    dsimp only
    split <;> split <;> simp [mem_setInsert_ne hne]
  · split at h
    · cases h
    · injection h with h; subst h
      dsimp only
      split <;> simp [mem_setInsert_ne hne]

/-- Other keys keep their override flag. -/
theorem insertImpl_ok_ne {m m' : Mapping} {k k1 : Key} {v : Value} {fc fo : Bool}
    (h : m.insertImpl k v fc fo = .ok m') (hne : k1 ≠ k.stripPrefix.1) :
    k1 ∈ m'.ok ↔ k1 ∈ m.ok := by
  rw [insertImpl_eq] at h
  split at h
  · injection h with h; subst h
    dsimp only
    split <;> split <;> simp [mem_setInsert_ne hne]
  · split at h
    · cases h
    · injection h with h; subst h
      exact Iff.rfl

/-- Constant flags are never removed. -/
theorem insertImpl_ck_mono {m m' : Mapping} {k k0 : Key} {v : Value} {fc fo : Bool}
    (h : m.insertImpl k v fc fo = .ok m') (hk : k0 ∈ m.ck) : k0 ∈ m'.ck := by
  rw [insertImpl_eq] at h
  split at h
  · injection h with h; subst h
    dsimp only
    split <;> split <;> simp [mem_setInsert_or, hk]
  · split at h
    · cases h
    · injection h with h; subst h
      dsimp only
      split <;> simp [mem_setInsert_or, hk]

/-- Override flags are never removed. -/
theorem insertImpl_ok_mono {m m' : Mapping} {k k0 : Key} {v : Value} {fc fo : Bool}
    (h : m.insertImpl k v fc fo = .ok m') (hk : k0 ∈ m.ok) : k0 ∈ m'.ok := by
  rw [insertImpl_eq] at h
  split at h
  · injection h with h; subst h
    dsimp only
    split <;> split <;> simp [mem_setInsert_or, hk]
  · split at h
    · cases h
    · injection h with h; subst h
      exact hk

/-- Present keys stay present. -/
theorem insertImpl_keys_mono {m m' : Mapping} {k k0 : Key} {v : Value} {fc fo : Bool}
    (h : m.insertImpl k v fc fo = .ok m') (hk : k0 ∈ m.es.map Prod.fst) :
    k0 ∈ m'.es.map Prod.fst := by
  rw [insertImpl_keys h]
  split
  · exact hk
  · exact List.mem_append_left _ hk

theorem mergeEntries_ck_mono (ock ook : List Key) (es : List (Key × Value)) :
    ∀ {m m' : Mapping} {k0 : Key}, m.mergeEntries ock ook es = .ok m' → k0 ∈ m.ck → k0 ∈ m'.ck := by
  induction es with
  | nil =>
    intro m m' k0 h hk
    simp only [Mapping.mergeEntries] at h
    injection h with h; subst h; exact hk
  | cons e es ih =>
    intro m m' k0 h hk
    obtain ⟨k, v⟩ := e
    simp only [Mapping.mergeEntries] at h
    cases h1 : m.insertImpl k v (decide (k ∈ ock)) (decide (k ∈ ook)) with
    | error e => simp [h1] at h
    | ok m1 =>
      simp only [h1] at h
      exact ih h (insertImpl_ck_mono h1 hk)

theorem mergeEntries_keys_mono (ock ook : List Key) (es : List (Key × Value)) :
    ∀ {m m' : Mapping} {k0 : Key}, m.mergeEntries ock ook es = .ok m' →
      k0 ∈ m.es.map Prod.fst → k0 ∈ m'.es.map Prod.fst := by
  induction es with
  | nil =>
    intro m m' k0 h hk
    simp only [Mapping.mergeEntries] at h
    injection h with h; subst h; exact hk
  | cons e es ih =>
    intro m m' k0 h hk
    obtain ⟨k, v⟩ := e
    simp only [Mapping.mergeEntries] at h
    cases h1 : m.insertImpl k v (decide (k ∈ ock)) (decide (k ∈ ook)) with
    | error e => simp [h1] at h
    | ok m1 =>
      simp only [h1] at h
      exact ih h (insertImpl_keys_mono h1 hk)

/-! ### Unfolding `mergeEntries` / `merge` -/

theorem mergeEntries_nil (m : Mapping) (ock ook : List Key) : m.mergeEntries ock ook [] = .ok m := rfl

theorem mergeEntries_cons (m : Mapping) (ock ook : List Key) (k : Key) (v : Value)
    (rest : List (Key × Value)) :
    m.mergeEntries ock ook ((k, v) :: rest) =
      match m.insertImpl k v (decide (k ∈ ock)) (decide (k ∈ ook)) with
      | .error e => .error e
      | .ok m' => m'.mergeEntries ock ook rest := rfl

theorem mergeEntries_single (m : Mapping) (ock ook : List Key) (k : Key) (v : Value) :
    m.mergeEntries ock ook [(k, v)] = m.insertImpl k v (decide (k ∈ ock)) (decide (k ∈ ook)) := by
  rw [mergeEntries_cons]
  cases m.insertImpl k v (decide (k ∈ ock)) (decide (k ∈ ook)) <;> rfl

/-- `mergeEntries` over a concatenation: run the first part, then the second. -/
theorem mergeEntries_append (ock ook : List Key) (es1 es2 : List (Key × Value)) :
    ∀ m : Mapping, m.mergeEntries ock ook (es1 ++ es2) =
      match m.mergeEntries ock ook es1 with
      | .error e => .error e
      | .ok m1 => m1.mergeEntries ock ook es2 := by
  induction es1 with
  | nil => intro m; rfl
  | cons e es1 ih =>
    intro m
    obtain ⟨k, v⟩ := e
    simp only [List.cons_append, mergeEntries_cons]
    cases m.insertImpl k v (decide (k ∈ ock)) (decide (k ∈ ook)) with
    | error e => rfl
    | ok m1 => exact ih m1

theorem merge_eq (m other : Mapping) : m.merge other = m.mergeEntries other.ck other.ok other.es := rfl

end Reclass
