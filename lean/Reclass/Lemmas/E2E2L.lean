/-
  Reclass.Lemmas.E2E2L — helper lemmas for the second batch of END-TO-END statements about
  `renderNode` (C12b: a node's rendering depends only on the files it reads; C15b: relative
  include names can be replaced by the absolute names they denote).

  1. `renderNode_eq`: `renderNode` with its metadata named (`nodeMeta`).
  2. Congruence: the class walk, `renderNodeSrc` and `renderNode` depend on the inventory only
     through `readClass` (classes + config), the config, and the lookup of the one node.
  3. `renderImplQ` / `walkClassesQ`: the model's walk instrumented with the list of class names
     it *looks up* in `r.classes` (found or not, also on failing runs).  Erasing the list gives
     the model functions back (`renderImplQ_snd`, `walkClassesQ_snd`); two inventories that agree
     on the looked-up names give the same run (`walkQ_congr`).
  4. `findEntity` through `List.map` / `++`.

  Everything lives in the namespace `Reclass.E2E2`.
-/
import Reclass.Lemmas.E2EL
namespace Reclass
namespace E2E2

/-! ## 1. `renderNode`, with the metadata named -/

/-- The `NodeInfoMeta` that `Reclass::render_node` builds for node `name` stored at `info`. -/
def nodeMeta (cfg : NodeCfg) (name : Str) (info : EntityInfo) : MetaM :=
  { node := name, name := name,
    uri := Extracted.uriPrefix.toList ++ cfg.nodesPath ++ ['/'] ++ joinWith ['/'] info.path,
    environment := Extracted.environment.toList,
    parts :=
      if cfg.composeNodeName then
        match info.path.reverse with
        | [] => []
        | last :: revInit => revInit.reverse ++ [stemNoExt last]
      else if name.isEmpty then [] else [name] }

theorem renderNode_eq (fuel : Nat) (r : Inv) (name : Str) :
    renderNode fuel r name =
      match findEntity name r.nodes with
      | none => .error (.unknownNode name)
      | some (_, .bad w) => .error (.io w)
      | some (info, .ok src) => renderNodeSrc fuel r (nodeMeta r.cfg name info) src := rfl

/-! ## 2. Congruence in the inventory -/

/-- `readClass` depends on the inventory only through the config and the lookup of the one
(absolute) name. -/
theorem readClass_congr {r r' : Inv} (hc : r.cfg = r'.cfg) {loc : Option (List Str)} {c : Str}
    (h : findEntity (absClassName loc c) r.classes = findEntity (absClassName loc c) r'.classes) :
    readClass r loc c = readClass r' loc c := by
  unfold readClass
  simp only [h, hc]

/-- The class walk depends on the inventory only through `readClass`. -/
theorem walk_congr {r r' : Inv} (h : ∀ loc c, readClass r loc c = readClass r' loc c) : ∀ n : Nat,
    (∀ self seen root, renderImpl n r self seen root = renderImpl n r' self seen root) ∧
    (∀ loc l seen root, walkClasses n r loc l seen root = walkClasses n r' loc l seen root) := by
  intro n
  induction n with
  | zero =>
    refine ⟨fun _ _ _ => ?_, fun _ _ _ _ => ?_⟩
    · rw [renderImpl_zero, renderImpl_zero]
    · rw [walkClasses_zero, walkClasses_zero]
  | succ n ih =>
    obtain ⟨ihR, ihW⟩ := ih
    refine ⟨?_, ?_⟩
    · intro self seen root
      rw [renderImpl_succ, renderImpl_succ, ihW]
    · intro loc l seen root
      cases l with
      | nil => rw [walkClasses_nil, walkClasses_nil]
      | cons cls rest =>
        rw [walkClasses_cons, walkClasses_cons]
        simp only [h, ihR, ihW]

theorem renderImpl_congr {r r' : Inv} (h : ∀ loc c, readClass r loc c = readClass r' loc c)
    (n : Nat) (self : NodeM) (seen : List Str) (root : NodeM) :
    renderImpl n r self seen root = renderImpl n r' self seen root :=
  (walk_congr h n).1 self seen root

/-- `renderNodeSrc` depends on the inventory only through the config and `readClass`. -/
theorem renderNodeSrc_congr {r r' : Inv} (hc : r.cfg = r'.cfg)
    (h : ∀ loc c, readClass r loc c = readClass r' loc c)
    (fuel : Nat) (nmeta : MetaM) (src : ClassSrc) :
    renderNodeSrc fuel r nmeta src = renderNodeSrc fuel r' nmeta src := by
  unfold renderNodeSrc
  simp only [hc, renderImpl_congr h]

/-- `renderNodeSrc` depends on the node file only through its decoding. -/
theorem renderNodeSrc_src_congr {src src' : ClassSrc} (h : NodeM.ofSrc none src = NodeM.ofSrc none src')
    (fuel : Nat) (r : Inv) (nmeta : MetaM) :
    renderNodeSrc fuel r nmeta src = renderNodeSrc fuel r nmeta src' := by
  unfold renderNodeSrc
  rw [h]

theorem nodePrefix_congr {r r' : Inv} (hc : r.cfg = r'.cfg) (nmeta : MetaM) (src : ClassSrc) :
    nodePrefix r nmeta src = nodePrefix r' nmeta src := by
  unfold nodePrefix
  rw [hc]

/-! ## 3. The walk instrumented with the names it looks up -/

/-- Prefix the lookup list of an instrumented outcome. -/
def pre {α : Type} (q : List Str) (x : List Str × α) : List Str × α := (q ++ x.1, x.2)

@[simp] theorem pre_fst {α : Type} (q : List Str) (x : List Str × α) : (pre q x).1 = q ++ x.1 := rfl
@[simp] theorem pre_snd {α : Type} (q : List Str) (x : List Str × α) : (pre q x).2 = x.2 := rfl

mutual
/-- `renderImpl`, additionally returning the absolute class names looked up in `r.classes`
(in lookup order; found or not; also when the run fails). -/
def renderImplQ : Nat → Inv → NodeM → List Str → NodeM → List Str × R (List Str × NodeM)
  | 0, _, _, _, _ => ([], .error .fuel)
  | n+1, r, self, seen, root =>
    match walkClassesQ n r self.loc self.classes.items seen root with
    | (q, .error e) => (q, .error e)
    | (q, .ok (seen', root')) =>
      match mergeInto self root' with
      | .error e => (q, .error e)
      | .ok root'' => (q, .ok (seen', root''))
/-- `walkClasses`, additionally returning the absolute class names looked up. -/
def walkClassesQ : Nat → Inv → Option (List Str) → List Str → List Str → NodeM →
    List Str × R (List Str × NodeM)
  | 0, _, _, _, _, _ => ([], .error .fuel)
  | _+1, _, _, [], seen, root => ([], .ok (seen, root))
  | n+1, r, loc, cls :: rest, seen, root =>
    match resolveClassName defaultFuel root.params cls with
    | .error e => ([], .error e)
    | .ok c =>
      if c ∈ seen then walkClassesQ n r loc rest seen root
      else
        -- `readClass r loc c` looks up exactly `absClassName loc c`
        pre [absClassName loc c]
          (match readClass r loc c with
           | .error e => ([], .error e)
           | .ok none => walkClassesQ n r loc rest seen root
           | .ok (some cn) =>
             match renderImplQ n r cn (seen ++ [c]) root with
             | (q1, .error e) => (q1, .error e)
             | (q1, .ok (seen', root')) => pre q1 (walkClassesQ n r loc rest seen' root'))
end

theorem renderImplQ_zero (r : Inv) (self : NodeM) (seen : List Str) (root : NodeM) :
    renderImplQ 0 r self seen root = ([], .error .fuel) := by simp only [renderImplQ]

theorem renderImplQ_succ (n : Nat) (r : Inv) (self : NodeM) (seen : List Str) (root : NodeM) :
    renderImplQ (n+1) r self seen root =
      match walkClassesQ n r self.loc self.classes.items seen root with
      | (q, .error e) => (q, .error e)
      | (q, .ok (seen', root')) =>
        match mergeInto self root' with
        | .error e => (q, .error e)
        | .ok root'' => (q, .ok (seen', root'')) := by simp only [renderImplQ]

theorem walkClassesQ_zero (r : Inv) (loc : Option (List Str)) (l seen : List Str) (root : NodeM) :
    walkClassesQ 0 r loc l seen root = ([], .error .fuel) := by simp only [walkClassesQ]

theorem walkClassesQ_nil (n : Nat) (r : Inv) (loc : Option (List Str)) (seen : List Str) (root : NodeM) :
    walkClassesQ (n+1) r loc [] seen root = ([], .ok (seen, root)) := by simp only [walkClassesQ]

theorem walkClassesQ_cons (n : Nat) (r : Inv) (loc : Option (List Str)) (cls : Str) (rest seen : List Str)
    (root : NodeM) :
    walkClassesQ (n+1) r loc (cls :: rest) seen root =
      match resolveClassName defaultFuel root.params cls with
      | .error e => ([], .error e)
      | .ok c =>
        if c ∈ seen then walkClassesQ n r loc rest seen root
        else
          pre [absClassName loc c]
            (match readClass r loc c with
             | .error e => ([], .error e)
             | .ok none => walkClassesQ n r loc rest seen root
             | .ok (some cn) =>
               match renderImplQ n r cn (seen ++ [c]) root with
               | (q1, .error e) => (q1, .error e)
               | (q1, .ok (seen', root')) => pre q1 (walkClassesQ n r loc rest seen' root')) := by
  simp only [walkClassesQ]

/-- Forgetting the lookups of the instrumented walk gives exactly the model functions. -/
theorem walkQ_snd : ∀ n : Nat,
    (∀ r self seen root, (renderImplQ n r self seen root).2 = renderImpl n r self seen root) ∧
    (∀ r loc l seen root, (walkClassesQ n r loc l seen root).2 = walkClasses n r loc l seen root) := by
  intro n
  induction n with
  | zero =>
    refine ⟨fun _ _ _ _ => ?_, fun _ _ _ _ _ => ?_⟩
    · rw [renderImplQ_zero, renderImpl_zero]
    · rw [walkClassesQ_zero, walkClasses_zero]
  | succ n ih =>
    obtain ⟨ihR, ihW⟩ := ih
    refine ⟨?_, ?_⟩
    · intro r self seen root
      rw [renderImplQ_succ, renderImpl_succ, ← ihW]
      rcases walkClassesQ n r self.loc self.classes.items seen root with ⟨q, (e | ⟨s1, root1⟩)⟩
      · rfl
      · simp only []
        cases mergeInto self root1 <;> rfl
    · intro r loc l seen root
      cases l with
      | nil => rw [walkClassesQ_nil, walkClasses_nil]
      | cons cls rest =>
        rw [walkClassesQ_cons, walkClasses_cons]
        cases resolveClassName defaultFuel root.params cls with
        | error e => rfl
        | ok c =>
          simp only []
          by_cases hs : c ∈ seen
          · simp only [hs, if_true]; exact ihW ..
          · simp only [hs, if_false, pre_snd]
            cases readClass r loc c with
            | error e => rfl
            | ok o =>
              cases o with
              | none => simp only []; exact ihW ..
              | some cn =>
                simp only []
                rw [← ihR]
                rcases renderImplQ n r cn (seen ++ [c]) root with ⟨q1, (e | ⟨s1, root1⟩)⟩
                · rfl
                · simp only [pre_snd]; exact ihW ..

theorem renderImplQ_snd (n : Nat) (r : Inv) (self : NodeM) (seen : List Str) (root : NodeM) :
    (renderImplQ n r self seen root).2 = renderImpl n r self seen root :=
  (walkQ_snd n).1 r self seen root

theorem walkClassesQ_snd (n : Nat) (r : Inv) (loc : Option (List Str)) (l seen : List Str) (root : NodeM) :
    (walkClassesQ n r loc l seen root).2 = walkClasses n r loc l seen root :=
  (walkQ_snd n).2 r loc l seen root

/-- Two inventories with the same config whose class maps agree on every name the walk in `r`
looks up give the same instrumented run (same lookups, same outcome). -/
theorem walkQ_congr {r r' : Inv} (hc : r.cfg = r'.cfg) : ∀ n : Nat,
    (∀ self seen root,
      (∀ a ∈ (renderImplQ n r self seen root).1, findEntity a r.classes = findEntity a r'.classes) →
      renderImplQ n r' self seen root = renderImplQ n r self seen root) ∧
    (∀ loc l seen root,
      (∀ a ∈ (walkClassesQ n r loc l seen root).1, findEntity a r.classes = findEntity a r'.classes) →
      walkClassesQ n r' loc l seen root = walkClassesQ n r loc l seen root) := by
  intro n
  induction n with
  | zero =>
    refine ⟨fun _ _ _ _ => ?_, fun _ _ _ _ _ => ?_⟩
    · rw [renderImplQ_zero, renderImplQ_zero]
    · rw [walkClassesQ_zero, walkClassesQ_zero]
  | succ n ih =>
    obtain ⟨ihR, ihW⟩ := ih
    refine ⟨?_, ?_⟩
    · intro self seen root hq
      rw [renderImplQ_succ] at hq
      rw [renderImplQ_succ, renderImplQ_succ]
      have hw : walkClassesQ n r' self.loc self.classes.items seen root =
          walkClassesQ n r self.loc self.classes.items seen root := by
        apply ihW
        intro a ha
        apply hq
        rcases hx : walkClassesQ n r self.loc self.classes.items seen root with ⟨q, (e | ⟨s1, root1⟩)⟩
        · rw [hx] at ha; exact ha
        · rw [hx] at ha
          simp only []
          cases mergeInto self root1 <;> exact ha
      rw [hw]
    · intro loc l seen root hq
      cases l with
      | nil => rw [walkClassesQ_nil, walkClassesQ_nil]
      | cons cls rest =>
        rw [walkClassesQ_cons] at hq
        rw [walkClassesQ_cons, walkClassesQ_cons]
        cases h1 : resolveClassName defaultFuel root.params cls with
        | error e => rfl
        | ok c =>
          simp only [h1] at hq ⊢
          by_cases hs : c ∈ seen
          · simp only [hs, if_true] at hq ⊢
            exact ihW _ _ _ _ hq
          · simp only [hs, if_false] at hq ⊢
            have ha : findEntity (absClassName loc c) r.classes =
                findEntity (absClassName loc c) r'.classes :=
              hq _ (by simp)
            rw [← readClass_congr hc ha]
            cases h2 : readClass r loc c with
            | error e => rfl
            | ok o =>
              cases o with
              | none =>
                simp only [h2] at hq ⊢
                rw [ihW _ _ _ _ (fun a ha' => hq a (by simp [ha']))]
              | some cn =>
                simp only [h2] at hq ⊢
                have hR : renderImplQ n r' cn (seen ++ [c]) root = renderImplQ n r cn (seen ++ [c]) root := by
                  apply ihR
                  intro a ha'
                  apply hq
                  rcases hx : renderImplQ n r cn (seen ++ [c]) root with ⟨q1, (e | ⟨s1, root1⟩)⟩
                  · rw [hx] at ha'
                    simp only [pre_fst, List.mem_append]; exact Or.inr ha'
                  · rw [hx] at ha'
                    simp only [pre_fst, List.mem_append]; exact Or.inr (Or.inl ha')
                rw [hR]
                rcases hx : renderImplQ n r cn (seen ++ [c]) root with ⟨q1, (e | ⟨s1, root1⟩)⟩
                · rfl
                · simp only [hx] at hq ⊢
                  rw [ihW _ _ _ _ (fun a ha' => hq a (by simp [ha']))]

theorem renderImplQ_congr {r r' : Inv} (hc : r.cfg = r'.cfg) {n : Nat} {self : NodeM} {seen : List Str}
    {root : NodeM}
    (h : ∀ a ∈ (renderImplQ n r self seen root).1, findEntity a r.classes = findEntity a r'.classes) :
    renderImplQ n r' self seen root = renderImplQ n r self seen root :=
  (walkQ_congr hc n).1 self seen root h

/-! ## 4. `findEntity` through `map` and `++` -/

theorem findEntity_map (g : EntityInfo → FileRes → FileRes) (name : Str) :
    ∀ l : List (Str × EntityInfo × FileRes),
      findEntity name (l.map fun x => (x.1, x.2.1, g x.2.1 x.2.2)) =
        (findEntity name l).map fun e => (e.1, g e.1 e.2)
  | [] => rfl
  | (n, e) :: rest => by
    simp only [List.map_cons, findEntity]
    by_cases hn : n = name
    · simp only [hn, if_true, Option.map_some]
    · simp only [hn, if_false]; exact findEntity_map g name rest

theorem findEntity_append (name : Str) (l2 : List (Str × EntityInfo × FileRes)) :
    ∀ l1 : List (Str × EntityInfo × FileRes),
      findEntity name (l1 ++ l2) =
        match findEntity name l1 with
        | some e => some e
        | none => findEntity name l2
  | [] => by simp only [List.nil_append, findEntity]
  | (n, e) :: rest => by
    simp only [List.cons_append, findEntity]
    by_cases hn : n = name
    · simp only [hn, if_true]
    · simp only [hn, if_false]; exact findEntity_append name l2 rest

theorem findEntity_cons_ne {name : Str} {x : Str × EntityInfo × FileRes} (h : x.1 ≠ name)
    (l : List (Str × EntityInfo × FileRes)) : findEntity name (x :: l) = findEntity name l := by
  obtain ⟨n, e⟩ := x
  simp only [findEntity]
  simp only [show ¬ n = name from h, if_false]

/-- Dropping all entries with other names does not change the lookup of `name`. -/
theorem findEntity_filter_self (name : Str) :
    ∀ l : List (Str × EntityInfo × FileRes),
      findEntity name (l.filter fun x => decide (x.1 = name)) = findEntity name l
  | [] => rfl
  | (n, e) :: rest => by
    by_cases hn : n = name
    · simp only [List.filter_cons, hn, decide_true, if_true, findEntity]
    · simp only [List.filter_cons, hn, decide_false, findEntity, if_false, Bool.false_eq_true]
      exact findEntity_filter_self name rest

end E2E2
end Reclass
