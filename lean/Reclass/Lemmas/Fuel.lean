/-
  Reclass.Lemmas.Fuel — the fuel argument of the evaluator never changes an answer
  (`fuel_mono`), and resolution state only grows (`depth_mono`).
-/
import Reclass.Model.Eval
namespace Reclass

/-! ## Unfolding equations (all by `rfl`) -/

theorem interp_succ (n : Nat) (root : Mapping) (v : Value) (st : RState) :
    interp (n+1) root v st =
    match v with
    | .str s =>
      match Token.parse s with
      | .error e => .error e
      | .ok none => .ok (.lit s, st)
      | .ok (some t) => tokRender n root t st
    | .map es ck ok =>
      match interpEs n root es ck ok st {} with
      | .error e => .error e
      | .ok m => .ok (m.toValue, st)
    | .seq l =>
      match interpL n root l 0 st with
      | .error e => .error e
      | .ok l' => .ok (.seq l', st)
    | .vl l =>
      match interpVl n root l .null st with
      | .error e => .error e
      | .ok r => interp n root r st
    | v => .ok (v, st) := by cases v <;> rfl

theorem interp_str (n : Nat) (root : Mapping) (s : Str) (st : RState) :
    interp (n+1) root (.str s) st =
      match Token.parse s with
      | .error e => .error e
      | .ok none => .ok (.lit s, st)
      | .ok (some t) => tokRender n root t st := rfl

theorem interp_map (n : Nat) (root : Mapping) (es ck ok) (st : RState) :
    interp (n+1) root (.map es ck ok) st =
      match interpEs n root es ck ok st {} with
      | .error e => .error e
      | .ok m => .ok (m.toValue, st) := rfl

theorem interp_seq (n : Nat) (root : Mapping) (l) (st : RState) :
    interp (n+1) root (.seq l) st =
      match interpL n root l 0 st with
      | .error e => .error e
      | .ok l' => .ok (.seq l', st) := rfl

theorem interp_vl (n : Nat) (root : Mapping) (l) (st : RState) :
    interp (n+1) root (.vl l) st =
      match interpVl n root l .null st with
      | .error e => .error e
      | .ok r => interp n root r st := rfl

theorem interpL_nil (n : Nat) (root : Mapping) (idx : Nat) (st : RState) :
    interpL (n+1) root [] idx st = .ok [] := rfl

theorem interpL_cons (n : Nat) (root : Mapping) (v : Value) (vs : List Value) (idx : Nat) (st : RState) :
    interpL (n+1) root (v :: vs) idx st =
      match interp n root v (st.pushListIndex idx) with
      | .error e => .error e
      | .ok (x, _) =>
        match interpL n root vs (idx + 1) st with
        | .error e => .error e
        | .ok xs => .ok (x :: xs) := rfl

theorem interpEs_nil (n : Nat) (root : Mapping) (ck ok : List Key) (st : RState) (acc : Mapping) :
    interpEs (n+1) root [] ck ok st acc = .ok acc := rfl

theorem interpEs_cons (n : Nat) (root : Mapping) (k : Key) (v : Value) (rest : List (Key × Value))
    (ck ok : List Key) (st : RState) (acc : Mapping) :
    interpEs (n+1) root ((k, v) :: rest) ck ok st acc =
      match interp n root v (st.pushMappingKey k) with
      | .error e => .error e
      | .ok (v', st') =>
        match flat v' st' with
        | .error e => .error e
        | .ok v'' =>
          match acc.insertImpl k v'' (decide (k ∈ ck)) (decide (k ∈ ok)) with
          | .error e => .error e
          | .ok acc' => interpEs n root rest ck ok st acc' := rfl

theorem interpVl_nil (n : Nat) (root : Mapping) (r : Value) (st : RState) :
    interpVl (n+1) root [] r st = .ok r := rfl

theorem interpVl_cons (n : Nat) (root : Mapping) (v : Value) (vs : List Value) (r : Value) (st : RState) :
    interpVl (n+1) root (v :: vs) r st =
      match interp n root v st with
      | .error e => .error e
      | .ok (x, st') =>
        match mergeV r x st' with
        | .error e => .error e
        | .ok r' => interpVl n root vs r' st := rfl

theorem tokRender_succ (n : Nat) (root : Mapping) (t : Token) (st : RState) :
    tokRender (n+1) root t st =
      match tokResolve n root t st with
      | .error e => .error e
      | .ok (v, st') =>
        match t with
        | .ref _ => interp n root v st'
        | _ =>
          match rawString v with
          | .error e => .error e
          | .ok s => .ok (.lit s, st') := rfl

theorem tokResolve_lit (n : Nat) (root : Mapping) (s : Str) (st : RState) :
    tokResolve (n+1) root (.lit s) st = .ok (.lit s, st) := rfl

theorem tokResolve_combined (n : Nat) (root : Mapping) (ts : List Token) (st : RState) :
    tokResolve (n+1) root (.combined ts) st =
      match slice n root ts st with
      | .error e => .error e
      | .ok s => .ok (.lit s, st) := rfl

theorem tokResolve_ref (n : Nat) (root : Mapping) (parts : List Token) (st : RState) :
    tokResolve (n+1) root (.ref parts) st =
      if st.depth + 1 > maxDepth then .error (.depth ({ st with depth := st.depth + 1 } : RState).curKey)
      else
        match slice n root parts { st with depth := st.depth + 1 } with
        | .error e => .error e
        | .ok path =>
          if path ∈ st.seen then .error .loop
          else
            match splitColon path with
            | [] => .error (.panic .splitEmpty)
            | k0 :: segs =>
              match root.get (.str k0) with
              | none => .error (.missingKey path k0
                  ({ st with depth := st.depth + 1, seen := path :: st.seen } : RState).curKey)
              | some v0 =>
                match descend n root v0 segs { st with depth := st.depth + 1, seen := path :: st.seen } path with
                | .error e => .error e
                | .ok (v, st3) => finalLoop n root v st3 := rfl

theorem descend_nil (n : Nat) (root : Mapping) (v : Value) (st : RState) (path : Str) :
    descend (n+1) root v [] st path = .ok (v, st) := rfl

theorem descend_cons (n : Nat) (root : Mapping) (v : Value) (key : Str) (rest : List Str)
    (st : RState) (path : Str) :
    descend (n+1) root v (key :: rest) st path =
      match interpStrOrVl n root v st with
      | .error e => .error e
      | .ok (newv, st') =>
        match newv with
        | .map es _ _ =>
          match lookup (.str key) es with
          | none => .error (.missingKey path key st'.curKey)
          | some v' => descend n root v' rest st' path
        | .str _ => .error (.panic .resolveNewvStrVl)
        | .vl _ => .error (.panic .resolveNewvStrVl)
        | _ => .error (.lookupInto path key st'.curKey) := rfl

theorem finalLoop_succ (n : Nat) (root : Mapping) (v : Value) (st : RState) :
    finalLoop (n+1) root v st =
      if v.isStr || v.isVl then
        match interp n root v st with
        | .error e => .error e
        | .ok (v', st') => finalLoop n root v' st'
      else .ok (v, st) := rfl

theorem interpStrOrVl_succ (n : Nat) (root : Mapping) (v : Value) (st : RState) :
    interpStrOrVl (n+1) root v st =
      match v with
      | .str s => interp n root (.str s) st
      | .vl l =>
        match layersStr n root l st with
        | .error e => .error e
        | .ok i =>
          match flatVl i .null st with
          | .error e => .error e
          | .ok r => .ok (r, st)
      | v => .ok (v, st) := by cases v <;> rfl

theorem layersStr_nil (n : Nat) (root : Mapping) (st : RState) :
    layersStr (n+1) root [] st = .ok [] := rfl

theorem layersStr_cons (n : Nat) (root : Mapping) (v : Value) (vs : List Value) (st : RState) :
    layersStr (n+1) root (v :: vs) st =
      match (if v.isStr then (match interp n root v st with
                              | .error e => .error e
                              | .ok (x, _) => .ok x) else .ok v : R Value) with
      | .error e => .error e
      | .ok x =>
        match layersStr n root vs st with
        | .error e => .error e
        | .ok xs => .ok (x :: xs) := rfl

theorem slice_nil (n : Nat) (root : Mapping) (st : RState) :
    slice (n+1) root [] st = .ok [] := rfl

theorem slice_cons (n : Nat) (root : Mapping) (t : Token) (ts : List Token) (st : RState) :
    slice (n+1) root (t :: ts) st =
      match tokResolve n root t st with
      | .error e => .error e
      | .ok (v, st') =>
        match strLoop n root v st' with
        | .error e => .error e
        | .ok (v', st'') =>
          match sliceFinish n root v' st'' with
          | .error e => .error e
          | .ok s =>
            match slice n root ts st with
            | .error e => .error e
            | .ok s' => .ok (s ++ s') := rfl

theorem strLoop_succ (n : Nat) (root : Mapping) (v : Value) (st : RState) :
    strLoop (n+1) root v st =
      if v.isStr then
        match interp n root v st with
        | .error e => .error e
        | .ok (v', st') => strLoop n root v' st'
      else .ok (v, st) := rfl

theorem sliceFinish_succ (n : Nat) (root : Mapping) (v : Value) (st : RState) :
    sliceFinish (n+1) root v st =
      if v.isMap || v.isSeq then
        match interp n root v st with
        | .error e => .error e
        | .ok (v', st') =>
          match flat v' st' with
          | .error e => .error e
          | .ok v'' => rawString v''
      else rawString v := rfl

/-! ## Fuel monotonicity -/

/-- "One more unit of fuel does not change a non-fuel answer", for all 13 functions at fuel `n`. -/
structure MonoAt (n : Nat) : Prop where
  interp : ∀ root v st, interp n root v st ≠ .error .fuel → interp (n+1) root v st = interp n root v st
  interpL : ∀ root l idx st, interpL n root l idx st ≠ .error .fuel →
    interpL (n+1) root l idx st = interpL n root l idx st
  interpEs : ∀ root es ck ok st acc, interpEs n root es ck ok st acc ≠ .error .fuel →
    interpEs (n+1) root es ck ok st acc = interpEs n root es ck ok st acc
  interpVl : ∀ root l r st, interpVl n root l r st ≠ .error .fuel →
    interpVl (n+1) root l r st = interpVl n root l r st
  tokRender : ∀ root t st, tokRender n root t st ≠ .error .fuel →
    tokRender (n+1) root t st = tokRender n root t st
  tokResolve : ∀ root t st, tokResolve n root t st ≠ .error .fuel →
    tokResolve (n+1) root t st = tokResolve n root t st
  descend : ∀ root v ks st p, descend n root v ks st p ≠ .error .fuel →
    descend (n+1) root v ks st p = descend n root v ks st p
  finalLoop : ∀ root v st, finalLoop n root v st ≠ .error .fuel →
    finalLoop (n+1) root v st = finalLoop n root v st
  interpStrOrVl : ∀ root v st, interpStrOrVl n root v st ≠ .error .fuel →
    interpStrOrVl (n+1) root v st = interpStrOrVl n root v st
  layersStr : ∀ root l st, layersStr n root l st ≠ .error .fuel →
    layersStr (n+1) root l st = layersStr n root l st
  slice : ∀ root ts st, slice n root ts st ≠ .error .fuel →
    slice (n+1) root ts st = slice n root ts st
  strLoop : ∀ root v st, strLoop n root v st ≠ .error .fuel →
    strLoop (n+1) root v st = strLoop n root v st
  sliceFinish : ∀ root v st, sliceFinish n root v st ≠ .error .fuel →
    sliceFinish (n+1) root v st = sliceFinish n root v st

theorem monoAt_zero : MonoAt 0 := by
  constructor <;> intros <;> simp_all [interp, interpL, interpEs, interpVl, tokRender, tokResolve,
    descend, finalLoop, interpStrOrVl, layersStr, slice, strLoop, sliceFinish]

/-- One step: case on the result of the sub-call `c` at fuel `n`; if it is the fuel error the
hypothesis `h` is contradictory, otherwise rewrite the `n+1` call with the induction hypothesis. -/
local macro "fstep " h:ident " using " ih:term " on " c:term " with " x:ident : tactic =>
  `(tactic| (
    rcases hc : $c with e | $x:ident
    · by_cases hf : e = Err.fuel
      · subst hf; simp [hc] at $h:ident
      · have hne : $c ≠ .error .fuel := by rw [hc]; simp [hf]
        simp only [$ih:term hne, hc]
    have hne : $c ≠ .error .fuel := by rw [hc]; simp
    simp only [$ih:term hne, hc] at $h:ident ⊢))

/-- As `fstep`, for sub-calls returning a pair. -/
local macro "fstep2 " h:ident " using " ih:term " on " c:term " with " x:ident y:ident : tactic =>
  `(tactic| (
    rcases hc : $c with e | ⟨$x:ident, $y:ident⟩
    · by_cases hf : e = Err.fuel
      · subst hf; simp [hc] at $h:ident
      · have hne : $c ≠ .error .fuel := by rw [hc]; simp [hf]
        simp only [$ih:term hne, hc]
    have hne : $c ≠ .error .fuel := by rw [hc]; simp
    simp only [$ih:term hne, hc] at $h:ident ⊢))

theorem mono_interp_succ {n : Nat} (ih : MonoAt n) (root : Mapping) (v : Value) (st : RState)
    (h : interp (n+1) root v st ≠ .error .fuel) : interp (n+2) root v st = interp (n+1) root v st := by
  cases v with
  | str s =>
    rw [interp_str n] at h; rw [interp_str (n+1), interp_str n]
    cases hp : Token.parse s with
    | error e => simp
    | ok o =>
      cases o with
      | none => simp
      | some t =>
        simp only [hp] at h ⊢
        exact ih.tokRender _ _ _ h
  | map es ck ok =>
    rw [interp_map n] at h; rw [interp_map (n+1), interp_map n]
    fstep h using ih.interpEs _ _ _ _ _ _ on (interpEs n root es ck ok st {}) with m
  | seq l =>
    rw [interp_seq n] at h; rw [interp_seq (n+1), interp_seq n]
    fstep h using ih.interpL _ _ _ _ on (interpL n root l 0 st) with l'
  | vl l =>
    rw [interp_vl n] at h; rw [interp_vl (n+1), interp_vl n]
    fstep h using ih.interpVl _ _ _ _ on (interpVl n root l .null st) with r
    exact ih.interp _ _ _ h
  | null => rfl
  | bool b => rfl
  | num b => rfl
  | lit b => rfl

theorem mono_interpL_succ {n : Nat} (ih : MonoAt n) (root : Mapping) (l : List Value) (idx : Nat)
    (st : RState) (h : interpL (n+1) root l idx st ≠ .error .fuel) :
    interpL (n+2) root l idx st = interpL (n+1) root l idx st := by
  cases l with
  | nil => rfl
  | cons v vs =>
    rw [interpL_cons n] at h; rw [interpL_cons (n+1), interpL_cons n]
    fstep2 h using ih.interp _ _ _ on (interp n root v (st.pushListIndex idx)) with x st'
    fstep h using ih.interpL _ _ _ _ on (interpL n root vs (idx + 1) st) with xs

theorem mono_interpEs_succ {n : Nat} (ih : MonoAt n) (root : Mapping) (es : List (Key × Value))
    (ck ok : List Key) (st : RState) (acc : Mapping)
    (h : interpEs (n+1) root es ck ok st acc ≠ .error .fuel) :
    interpEs (n+2) root es ck ok st acc = interpEs (n+1) root es ck ok st acc := by
  cases es with
  | nil => rfl
  | cons kv rest =>
    obtain ⟨k, v⟩ := kv
    rw [interpEs_cons n] at h; rw [interpEs_cons (n+1), interpEs_cons n]
    fstep2 h using ih.interp _ _ _ on (interp n root v (st.pushMappingKey k)) with v' st'
    cases hfl : flat v' st' with
    | error e => simp
    | ok v'' =>
      simp only [hfl] at h ⊢
      cases hins : acc.insertImpl k v'' (decide (k ∈ ck)) (decide (k ∈ ok)) with
      | error e => simp
      | ok acc' =>
        simp only [hins] at h ⊢
        exact ih.interpEs _ _ _ _ _ _ h

theorem mono_interpVl_succ {n : Nat} (ih : MonoAt n) (root : Mapping) (l : List Value) (r : Value)
    (st : RState) (h : interpVl (n+1) root l r st ≠ .error .fuel) :
    interpVl (n+2) root l r st = interpVl (n+1) root l r st := by
  cases l with
  | nil => rfl
  | cons v vs =>
    rw [interpVl_cons n] at h; rw [interpVl_cons (n+1), interpVl_cons n]
    fstep2 h using ih.interp _ _ _ on (interp n root v st) with x st'
    cases hm : mergeV r x st' with
    | error e => simp
    | ok r' =>
      simp only [hm] at h ⊢
      exact ih.interpVl _ _ _ _ h

theorem mono_tokRender_succ {n : Nat} (ih : MonoAt n) (root : Mapping) (t : Token) (st : RState)
    (h : tokRender (n+1) root t st ≠ .error .fuel) :
    tokRender (n+2) root t st = tokRender (n+1) root t st := by
  rw [tokRender_succ n] at h; rw [tokRender_succ (n+1), tokRender_succ n]
  fstep2 h using ih.tokResolve _ _ _ on (tokResolve n root t st) with v st'
  cases t with
  | ref parts => simp only at h ⊢; exact ih.interp _ _ _ h
  | lit s => rfl
  | combined ts => rfl

theorem mono_tokResolve_succ {n : Nat} (ih : MonoAt n) (root : Mapping) (t : Token) (st : RState)
    (h : tokResolve (n+1) root t st ≠ .error .fuel) :
    tokResolve (n+2) root t st = tokResolve (n+1) root t st := by
  cases t with
  | lit s => rfl
  | combined ts =>
    rw [tokResolve_combined n] at h; rw [tokResolve_combined (n+1), tokResolve_combined n]
    fstep h using ih.slice _ _ _ on (slice n root ts st) with s
  | ref parts =>
    rw [tokResolve_ref n] at h; rw [tokResolve_ref (n+1), tokResolve_ref n]
    by_cases hd : st.depth + 1 > maxDepth
    · simp only [hd, if_true]
    · simp only [hd, if_false] at h ⊢
      fstep h using ih.slice _ _ _ on (slice n root parts { st with depth := st.depth + 1 }) with path
      by_cases hs : path ∈ st.seen
      · simp only [hs, if_true]
      · simp only [hs, if_false] at h ⊢
        cases hsp : splitColon path with
        | nil => simp
        | cons k0 segs =>
          simp only [hsp] at h ⊢
          cases hg : root.get (.str k0) with
          | none => simp
          | some v0 =>
            simp only [hg] at h ⊢
            fstep2 h using ih.descend _ _ _ _ _ on
              (descend n root v0 segs { st with depth := st.depth + 1, seen := path :: st.seen } path) with v st3
            exact ih.finalLoop _ _ _ h

theorem mono_descend_succ {n : Nat} (ih : MonoAt n) (root : Mapping) (v : Value) (ks : List Str)
    (st : RState) (p : Str) (h : descend (n+1) root v ks st p ≠ .error .fuel) :
    descend (n+2) root v ks st p = descend (n+1) root v ks st p := by
  cases ks with
  | nil => rfl
  | cons key rest =>
    rw [descend_cons n] at h; rw [descend_cons (n+1), descend_cons n]
    fstep2 h using ih.interpStrOrVl _ _ _ on (interpStrOrVl n root v st) with newv st'
    cases newv with
    | map es ck ok =>
      simp only at h ⊢
      cases hl : lookup (.str key) es with
      | none => simp
      | some v' =>
        simp only [hl] at h ⊢
        exact ih.descend _ _ _ _ _ h
    | _ => rfl

theorem mono_finalLoop_succ {n : Nat} (ih : MonoAt n) (root : Mapping) (v : Value) (st : RState)
    (h : finalLoop (n+1) root v st ≠ .error .fuel) :
    finalLoop (n+2) root v st = finalLoop (n+1) root v st := by
  rw [finalLoop_succ n] at h; rw [finalLoop_succ (n+1), finalLoop_succ n]
  by_cases hc : (v.isStr || v.isVl) = true
  · simp only [hc, if_true] at h ⊢
    fstep2 h using ih.interp _ _ _ on (interp n root v st) with v' st'
    exact ih.finalLoop _ _ _ h
  · have hc' : (v.isStr || v.isVl) = false := by simpa using hc
    simp only [hc', Bool.false_eq_true, if_false] at h ⊢

theorem mono_interpStrOrVl_succ {n : Nat} (ih : MonoAt n) (root : Mapping) (v : Value) (st : RState)
    (h : interpStrOrVl (n+1) root v st ≠ .error .fuel) :
    interpStrOrVl (n+2) root v st = interpStrOrVl (n+1) root v st := by
  rw [interpStrOrVl_succ n] at h; rw [interpStrOrVl_succ (n+1), interpStrOrVl_succ n]
  cases v with
  | str s => simp only at h ⊢; exact ih.interp _ _ _ h
  | vl l =>
    simp only at h ⊢
    fstep h using ih.layersStr _ _ _ on (layersStr n root l st) with i
  | _ => rfl

theorem mono_layersStr_succ {n : Nat} (ih : MonoAt n) (root : Mapping) (l : List Value) (st : RState)
    (h : layersStr (n+1) root l st ≠ .error .fuel) :
    layersStr (n+2) root l st = layersStr (n+1) root l st := by
  cases l with
  | nil => rfl
  | cons v vs =>
    rw [layersStr_cons n] at h; rw [layersStr_cons (n+1), layersStr_cons n]
    by_cases hs : v.isStr = true
    · simp only [hs, if_true] at h ⊢
      fstep2 h using ih.interp _ _ _ on (interp n root v st) with x st'
      fstep h using ih.layersStr _ _ _ on (layersStr n root vs st) with xs
    · have hs' : v.isStr = false := by simpa using hs
      simp only [hs', Bool.false_eq_true, if_false] at h ⊢
      fstep h using ih.layersStr _ _ _ on (layersStr n root vs st) with xs

theorem mono_slice_succ {n : Nat} (ih : MonoAt n) (root : Mapping) (ts : List Token) (st : RState)
    (h : slice (n+1) root ts st ≠ .error .fuel) :
    slice (n+2) root ts st = slice (n+1) root ts st := by
  cases ts with
  | nil => rfl
  | cons t ts =>
    rw [slice_cons n] at h; rw [slice_cons (n+1), slice_cons n]
    fstep2 h using ih.tokResolve _ _ _ on (tokResolve n root t st) with v st'
    fstep2 h using ih.strLoop _ _ _ on (strLoop n root v st') with v' st''
    fstep h using ih.sliceFinish _ _ _ on (sliceFinish n root v' st'') with s
    fstep h using ih.slice _ _ _ on (slice n root ts st) with s'

theorem mono_strLoop_succ {n : Nat} (ih : MonoAt n) (root : Mapping) (v : Value) (st : RState)
    (h : strLoop (n+1) root v st ≠ .error .fuel) :
    strLoop (n+2) root v st = strLoop (n+1) root v st := by
  rw [strLoop_succ n] at h; rw [strLoop_succ (n+1), strLoop_succ n]
  by_cases hc : v.isStr = true
  · simp only [hc, if_true] at h ⊢
    fstep2 h using ih.interp _ _ _ on (interp n root v st) with v' st'
    exact ih.strLoop _ _ _ h
  · have hc' : v.isStr = false := by simpa using hc
    simp only [hc', Bool.false_eq_true, if_false] at h ⊢

theorem mono_sliceFinish_succ {n : Nat} (ih : MonoAt n) (root : Mapping) (v : Value) (st : RState)
    (h : sliceFinish (n+1) root v st ≠ .error .fuel) :
    sliceFinish (n+2) root v st = sliceFinish (n+1) root v st := by
  rw [sliceFinish_succ n] at h; rw [sliceFinish_succ (n+1), sliceFinish_succ n]
  by_cases hc : (v.isMap || v.isSeq) = true
  · simp only [hc, if_true] at h ⊢
    fstep2 h using ih.interp _ _ _ on (interp n root v st) with v' st'
  · have hc' : (v.isMap || v.isSeq) = false := by simpa using hc
    simp only [hc', Bool.false_eq_true, if_false] at h ⊢

/-- **Fuel monotonicity**, all 13 functions at once. -/
theorem monoAt : ∀ n, MonoAt n := by
  intro n
  induction n with
  | zero => exact monoAt_zero
  | succ n ih =>
    exact ⟨mono_interp_succ ih, mono_interpL_succ ih, mono_interpEs_succ ih, mono_interpVl_succ ih,
      mono_tokRender_succ ih, mono_tokResolve_succ ih, mono_descend_succ ih, mono_finalLoop_succ ih,
      mono_interpStrOrVl_succ ih, mono_layersStr_succ ih, mono_slice_succ ih, mono_strLoop_succ ih,
      mono_sliceFinish_succ ih⟩


/-- From the one-step form to any larger amount of fuel. -/
theorem mono_le_of_step {α : Type} (f : Nat → R α)
    (step : ∀ n, f n ≠ .error .fuel → f (n+1) = f n) :
    ∀ {n m : Nat}, n ≤ m → f n ≠ .error .fuel → f m = f n := by
  intro n m hle hne
  induction hle with
  | refl => rfl
  | step _ ih => rw [step _ (by rw [ih]; exact hne), ih]

/-! ### `fuel_mono` / `fuel_mono_le` for each of the 13 functions

`X_fuel_mono`: if `X n args = r` and `r` is not the fuel error then `X (n+1) args = r`.
`X_fuel_mono_le`: the same for any `m ≥ n`. -/

theorem interp_fuel_mono {n : Nat} (root : Mapping) (v : Value) (st : RState) {r : R (Value × RState)}
    (h : interp n root v st = r) (hr : r ≠ .error .fuel) : interp (n+1) root v st = r := by
  subst h; exact (monoAt n).interp _ _ _ hr

theorem interp_fuel_mono_le {n m : Nat} (hle : n ≤ m) (root : Mapping) (v : Value) (st : RState) {r : R (Value × RState)}
    (h : interp n root v st = r) (hr : r ≠ .error .fuel) : interp m root v st = r := by
  subst h
  exact mono_le_of_step (fun k => interp k root v st) (fun k => (monoAt k).interp _ _ _ ) hle hr

theorem interpL_fuel_mono {n : Nat} (root : Mapping) (l : List Value) (idx : Nat) (st : RState) {r : R (List Value)}
    (h : interpL n root l idx st = r) (hr : r ≠ .error .fuel) : interpL (n+1) root l idx st = r := by
  subst h; exact (monoAt n).interpL _ _ _ _ hr

theorem interpL_fuel_mono_le {n m : Nat} (hle : n ≤ m) (root : Mapping) (l : List Value) (idx : Nat) (st : RState) {r : R (List Value)}
    (h : interpL n root l idx st = r) (hr : r ≠ .error .fuel) : interpL m root l idx st = r := by
  subst h
  exact mono_le_of_step (fun k => interpL k root l idx st) (fun k => (monoAt k).interpL _ _ _ _ ) hle hr

theorem interpEs_fuel_mono {n : Nat} (root : Mapping) (es : List (Key × Value)) (ck ok : List Key) (st : RState) (acc : Mapping) {r : R Mapping}
    (h : interpEs n root es ck ok st acc = r) (hr : r ≠ .error .fuel) : interpEs (n+1) root es ck ok st acc = r := by
  subst h; exact (monoAt n).interpEs _ _ _ _ _ _ hr

theorem interpEs_fuel_mono_le {n m : Nat} (hle : n ≤ m) (root : Mapping) (es : List (Key × Value)) (ck ok : List Key) (st : RState) (acc : Mapping) {r : R Mapping}
    (h : interpEs n root es ck ok st acc = r) (hr : r ≠ .error .fuel) : interpEs m root es ck ok st acc = r := by
  subst h
  exact mono_le_of_step (fun k => interpEs k root es ck ok st acc) (fun k => (monoAt k).interpEs _ _ _ _ _ _ ) hle hr

theorem interpVl_fuel_mono {n : Nat} (root : Mapping) (l : List Value) (r : Value) (st : RState) {res : R Value}
    (h : interpVl n root l r st = res) (hr : res ≠ .error .fuel) : interpVl (n+1) root l r st = res := by
  subst h; exact (monoAt n).interpVl _ _ _ _ hr

theorem interpVl_fuel_mono_le {n m : Nat} (hle : n ≤ m) (root : Mapping) (l : List Value) (r : Value) (st : RState) {res : R Value}
    (h : interpVl n root l r st = res) (hr : res ≠ .error .fuel) : interpVl m root l r st = res := by
  subst h
  exact mono_le_of_step (fun k => interpVl k root l r st) (fun k => (monoAt k).interpVl _ _ _ _ ) hle hr

theorem tokRender_fuel_mono {n : Nat} (root : Mapping) (t : Token) (st : RState) {r : R (Value × RState)}
    (h : tokRender n root t st = r) (hr : r ≠ .error .fuel) : tokRender (n+1) root t st = r := by
  subst h; exact (monoAt n).tokRender _ _ _ hr

theorem tokRender_fuel_mono_le {n m : Nat} (hle : n ≤ m) (root : Mapping) (t : Token) (st : RState) {r : R (Value × RState)}
    (h : tokRender n root t st = r) (hr : r ≠ .error .fuel) : tokRender m root t st = r := by
  subst h
  exact mono_le_of_step (fun k => tokRender k root t st) (fun k => (monoAt k).tokRender _ _ _ ) hle hr

theorem tokResolve_fuel_mono {n : Nat} (root : Mapping) (t : Token) (st : RState) {r : R (Value × RState)}
    (h : tokResolve n root t st = r) (hr : r ≠ .error .fuel) : tokResolve (n+1) root t st = r := by
  subst h; exact (monoAt n).tokResolve _ _ _ hr

theorem tokResolve_fuel_mono_le {n m : Nat} (hle : n ≤ m) (root : Mapping) (t : Token) (st : RState) {r : R (Value × RState)}
    (h : tokResolve n root t st = r) (hr : r ≠ .error .fuel) : tokResolve m root t st = r := by
  subst h
  exact mono_le_of_step (fun k => tokResolve k root t st) (fun k => (monoAt k).tokResolve _ _ _ ) hle hr

theorem descend_fuel_mono {n : Nat} (root : Mapping) (v : Value) (ks : List Str) (st : RState) (p : Str) {r : R (Value × RState)}
    (h : descend n root v ks st p = r) (hr : r ≠ .error .fuel) : descend (n+1) root v ks st p = r := by
  subst h; exact (monoAt n).descend _ _ _ _ _ hr

theorem descend_fuel_mono_le {n m : Nat} (hle : n ≤ m) (root : Mapping) (v : Value) (ks : List Str) (st : RState) (p : Str) {r : R (Value × RState)}
    (h : descend n root v ks st p = r) (hr : r ≠ .error .fuel) : descend m root v ks st p = r := by
  subst h
  exact mono_le_of_step (fun k => descend k root v ks st p) (fun k => (monoAt k).descend _ _ _ _ _ ) hle hr

theorem finalLoop_fuel_mono {n : Nat} (root : Mapping) (v : Value) (st : RState) {r : R (Value × RState)}
    (h : finalLoop n root v st = r) (hr : r ≠ .error .fuel) : finalLoop (n+1) root v st = r := by
  subst h; exact (monoAt n).finalLoop _ _ _ hr

theorem finalLoop_fuel_mono_le {n m : Nat} (hle : n ≤ m) (root : Mapping) (v : Value) (st : RState) {r : R (Value × RState)}
    (h : finalLoop n root v st = r) (hr : r ≠ .error .fuel) : finalLoop m root v st = r := by
  subst h
  exact mono_le_of_step (fun k => finalLoop k root v st) (fun k => (monoAt k).finalLoop _ _ _ ) hle hr

theorem interpStrOrVl_fuel_mono {n : Nat} (root : Mapping) (v : Value) (st : RState) {r : R (Value × RState)}
    (h : interpStrOrVl n root v st = r) (hr : r ≠ .error .fuel) : interpStrOrVl (n+1) root v st = r := by
  subst h; exact (monoAt n).interpStrOrVl _ _ _ hr

theorem interpStrOrVl_fuel_mono_le {n m : Nat} (hle : n ≤ m) (root : Mapping) (v : Value) (st : RState) {r : R (Value × RState)}
    (h : interpStrOrVl n root v st = r) (hr : r ≠ .error .fuel) : interpStrOrVl m root v st = r := by
  subst h
  exact mono_le_of_step (fun k => interpStrOrVl k root v st) (fun k => (monoAt k).interpStrOrVl _ _ _ ) hle hr

theorem layersStr_fuel_mono {n : Nat} (root : Mapping) (l : List Value) (st : RState) {r : R (List Value)}
    (h : layersStr n root l st = r) (hr : r ≠ .error .fuel) : layersStr (n+1) root l st = r := by
  subst h; exact (monoAt n).layersStr _ _ _ hr

theorem layersStr_fuel_mono_le {n m : Nat} (hle : n ≤ m) (root : Mapping) (l : List Value) (st : RState) {r : R (List Value)}
    (h : layersStr n root l st = r) (hr : r ≠ .error .fuel) : layersStr m root l st = r := by
  subst h
  exact mono_le_of_step (fun k => layersStr k root l st) (fun k => (monoAt k).layersStr _ _ _ ) hle hr

theorem slice_fuel_mono {n : Nat} (root : Mapping) (ts : List Token) (st : RState) {r : R Str}
    (h : slice n root ts st = r) (hr : r ≠ .error .fuel) : slice (n+1) root ts st = r := by
  subst h; exact (monoAt n).slice _ _ _ hr

theorem slice_fuel_mono_le {n m : Nat} (hle : n ≤ m) (root : Mapping) (ts : List Token) (st : RState) {r : R Str}
    (h : slice n root ts st = r) (hr : r ≠ .error .fuel) : slice m root ts st = r := by
  subst h
  exact mono_le_of_step (fun k => slice k root ts st) (fun k => (monoAt k).slice _ _ _ ) hle hr

theorem strLoop_fuel_mono {n : Nat} (root : Mapping) (v : Value) (st : RState) {r : R (Value × RState)}
    (h : strLoop n root v st = r) (hr : r ≠ .error .fuel) : strLoop (n+1) root v st = r := by
  subst h; exact (monoAt n).strLoop _ _ _ hr

theorem strLoop_fuel_mono_le {n m : Nat} (hle : n ≤ m) (root : Mapping) (v : Value) (st : RState) {r : R (Value × RState)}
    (h : strLoop n root v st = r) (hr : r ≠ .error .fuel) : strLoop m root v st = r := by
  subst h
  exact mono_le_of_step (fun k => strLoop k root v st) (fun k => (monoAt k).strLoop _ _ _ ) hle hr

theorem sliceFinish_fuel_mono {n : Nat} (root : Mapping) (v : Value) (st : RState) {r : R Str}
    (h : sliceFinish n root v st = r) (hr : r ≠ .error .fuel) : sliceFinish (n+1) root v st = r := by
  subst h; exact (monoAt n).sliceFinish _ _ _ hr

theorem sliceFinish_fuel_mono_le {n m : Nat} (hle : n ≤ m) (root : Mapping) (v : Value) (st : RState) {r : R Str}
    (h : sliceFinish n root v st = r) (hr : r ≠ .error .fuel) : sliceFinish m root v st = r := by
  subst h
  exact mono_le_of_step (fun k => sliceFinish k root v st) (fun k => (monoAt k).sliceFinish _ _ _ ) hle hr

/-- `renderedF`: more fuel never changes a non-fuel answer. -/
theorem renderedF_fuel_mono_le {n m : Nat} (hle : n ≤ m) (v : Value) (root : Mapping) {r : R Value}
    (h : renderedF n v root = r) (hr : r ≠ .error .fuel) : renderedF m v root = r := by
  subst h
  unfold renderedF at hr ⊢
  cases hc : interp n root v {} with
  | error e =>
    rw [hc] at hr
    have : e ≠ .fuel := by intro he; subst he; simp at hr
    rw [interp_fuel_mono_le hle root v {} hc (by simp [this])]
  | ok p => rw [interp_fuel_mono_le hle root v {} hc (by simp)]

/-- `renderParamsF`: more fuel never changes a non-fuel answer. -/
theorem renderParamsF_fuel_mono_le {n m : Nat} (hle : n ≤ m) (mp : Mapping) {r : R Mapping}
    (h : renderParamsF n mp = r) (hr : r ≠ .error .fuel) : renderParamsF m mp = r := by
  subst h
  unfold renderParamsF at hr ⊢
  cases hc : renderedF n mp.toValue mp with
  | error e =>
    rw [hc] at hr
    have : e ≠ .fuel := by intro he; subst he; simp at hr
    rw [renderedF_fuel_mono_le hle _ _ hc (by simp [this])]
  | ok p => rw [renderedF_fuel_mono_le hle _ _ hc (by simp)]

/-- Two runs with different fuel that both finish (no fuel error) agree. -/
theorem interp_fuel_indep {n m : Nat} (root : Mapping) (v : Value) (st : RState)
    (hn : interp n root v st ≠ .error .fuel) (hm : interp m root v st ≠ .error .fuel) :
    interp n root v st = interp m root v st := by
  rcases Nat.le_total n m with h | h
  · exact (interp_fuel_mono_le h root v st rfl hn).symm
  · exact interp_fuel_mono_le h root v st rfl hm


/-! ## The resolution state only grows -/

/-- `a ≼ b`: `b` is at least as deep as `a`, has seen at least the paths `a` has seen, and
talks about the same parameter. -/
def RState.Le (a b : RState) : Prop := a.depth ≤ b.depth ∧ a.seen ⊆ b.seen ∧ b.cur = a.cur

theorem RState.Le.refl (a : RState) : a.Le a := ⟨Nat.le_refl _, fun _ h => h, rfl⟩

theorem RState.Le.trans {a b c : RState} (h1 : a.Le b) (h2 : b.Le c) : a.Le c :=
  ⟨Nat.le_trans h1.1 h2.1, fun _ h => h2.2.1 (h1.2.1 h), h2.2.2.trans h1.2.2⟩

/-- Entering a reference: one level deeper, one more path seen. -/
theorem RState.Le.enter (st : RState) (path : Str) :
    st.Le { st with depth := st.depth + 1, seen := path :: st.seen } :=
  ⟨Nat.le_succ _, fun _ h => List.mem_cons_of_mem _ h, rfl⟩

/-- "The returned state extends the incoming one", for the 7 state-returning functions at fuel `n`. -/
structure GrowAt (n : Nat) : Prop where
  interp : ∀ root v st x st', interp n root v st = .ok (x, st') → st.Le st'
  tokRender : ∀ root t st x st', tokRender n root t st = .ok (x, st') → st.Le st'
  tokResolve : ∀ root t st x st', tokResolve n root t st = .ok (x, st') → st.Le st'
  descend : ∀ root v ks st p x st', descend n root v ks st p = .ok (x, st') → st.Le st'
  finalLoop : ∀ root v st x st', finalLoop n root v st = .ok (x, st') → st.Le st'
  interpStrOrVl : ∀ root v st x st', interpStrOrVl n root v st = .ok (x, st') → st.Le st'
  strLoop : ∀ root v st x st', strLoop n root v st = .ok (x, st') → st.Le st'

theorem growAt_zero : GrowAt 0 := by
  constructor <;> intros <;> simp_all [interp, tokRender, tokResolve, descend, finalLoop,
    interpStrOrVl, strLoop]

theorem grow_interp_succ {n : Nat} (ih : GrowAt n) (root : Mapping) (v : Value) (st : RState)
    (x : Value) (st' : RState) (h : interp (n+1) root v st = .ok (x, st')) : st.Le st' := by
  cases v with
  | str s =>
    rw [interp_str] at h
    cases hp : Token.parse s with
    | error e => simp [hp] at h
    | ok o =>
      cases o with
      | none => simp only [hp, Except.ok.injEq, Prod.mk.injEq] at h; rw [← h.2]; exact .refl _
      | some t => simp only [hp] at h; exact ih.tokRender _ _ _ _ _ h
  | map es ck ok =>
    rw [interp_map] at h
    cases hc : interpEs n root es ck ok st {} with
    | error e => simp [hc] at h
    | ok m => simp only [hc, Except.ok.injEq, Prod.mk.injEq] at h; rw [← h.2]; exact .refl _
  | seq l =>
    rw [interp_seq] at h
    cases hc : interpL n root l 0 st with
    | error e => simp [hc] at h
    | ok m => simp only [hc, Except.ok.injEq, Prod.mk.injEq] at h; rw [← h.2]; exact .refl _
  | vl l =>
    rw [interp_vl] at h
    cases hc : interpVl n root l .null st with
    | error e => simp [hc] at h
    | ok r => simp only [hc] at h; exact ih.interp _ _ _ _ _ h
  | null => simp only [interp, Except.ok.injEq, Prod.mk.injEq] at h; rw [← h.2]; exact .refl _
  | bool b => simp only [interp, Except.ok.injEq, Prod.mk.injEq] at h; rw [← h.2]; exact .refl _
  | num b => simp only [interp, Except.ok.injEq, Prod.mk.injEq] at h; rw [← h.2]; exact .refl _
  | lit b => simp only [interp, Except.ok.injEq, Prod.mk.injEq] at h; rw [← h.2]; exact .refl _

theorem grow_tokRender_succ {n : Nat} (ih : GrowAt n) (root : Mapping) (t : Token) (st : RState)
    (x : Value) (st' : RState) (h : tokRender (n+1) root t st = .ok (x, st')) : st.Le st' := by
  rw [tokRender_succ] at h
  rcases hc : tokResolve n root t st with e | ⟨v, st1⟩
  · simp [hc] at h
  · simp only [hc] at h
    have h1 := ih.tokResolve _ _ _ _ _ hc
    cases t with
    | ref parts => simp only at h; exact h1.trans (ih.interp _ _ _ _ _ h)
    | lit s =>
      simp only at h
      cases hr : rawString v with
      | error e => simp [hr] at h
      | ok s' => simp only [hr, Except.ok.injEq, Prod.mk.injEq] at h; rw [← h.2]; exact h1
    | combined ts =>
      simp only at h
      cases hr : rawString v with
      | error e => simp [hr] at h
      | ok s' => simp only [hr, Except.ok.injEq, Prod.mk.injEq] at h; rw [← h.2]; exact h1

theorem grow_tokResolve_succ {n : Nat} (ih : GrowAt n) (root : Mapping) (t : Token) (st : RState)
    (x : Value) (st' : RState) (h : tokResolve (n+1) root t st = .ok (x, st')) : st.Le st' := by
  cases t with
  | lit s =>
    simp only [tokResolve_lit, Except.ok.injEq, Prod.mk.injEq] at h; rw [← h.2]; exact .refl _
  | combined ts =>
    rw [tokResolve_combined] at h
    cases hc : slice n root ts st with
    | error e => simp [hc] at h
    | ok s => simp only [hc, Except.ok.injEq, Prod.mk.injEq] at h; rw [← h.2]; exact .refl _
  | ref parts =>
    rw [tokResolve_ref] at h
    by_cases hd : st.depth + 1 > maxDepth
    · simp [hd] at h
    · simp only [hd, if_false] at h
      cases hc : slice n root parts { st with depth := st.depth + 1 } with
      | error e => simp [hc] at h
      | ok path =>
        simp only [hc] at h
        by_cases hs : path ∈ st.seen
        · simp [hs] at h
        · simp only [hs, if_false] at h
          cases hsp : splitColon path with
          | nil => simp [hsp] at h
          | cons k0 segs =>
            simp only [hsp] at h
            cases hg : root.get (.str k0) with
            | none => simp [hg] at h
            | some v0 =>
              simp only [hg] at h
              rcases hdn : descend n root v0 segs
                { st with depth := st.depth + 1, seen := path :: st.seen } path with e | ⟨v, st3⟩
              · simp [hdn] at h
              · simp only [hdn] at h
                exact (RState.Le.enter st path).trans
                  ((ih.descend _ _ _ _ _ _ _ hdn).trans (ih.finalLoop _ _ _ _ _ h))

theorem grow_descend_succ {n : Nat} (ih : GrowAt n) (root : Mapping) (v : Value) (ks : List Str)
    (st : RState) (p : Str) (x : Value) (st' : RState)
    (h : descend (n+1) root v ks st p = .ok (x, st')) : st.Le st' := by
  cases ks with
  | nil => simp only [descend_nil, Except.ok.injEq, Prod.mk.injEq] at h; rw [← h.2]; exact .refl _
  | cons key rest =>
    rw [descend_cons] at h
    rcases hc : interpStrOrVl n root v st with e | ⟨newv, st1⟩
    · simp [hc] at h
    · simp only [hc] at h
      have h1 := ih.interpStrOrVl _ _ _ _ _ hc
      cases newv with
      | map es ck ok =>
        simp only at h
        cases hl : lookup (.str key) es with
        | none => simp [hl] at h
        | some v' => simp only [hl] at h; exact h1.trans (ih.descend _ _ _ _ _ _ _ h)
      | _ => simp at h

theorem grow_finalLoop_succ {n : Nat} (ih : GrowAt n) (root : Mapping) (v : Value) (st : RState)
    (x : Value) (st' : RState) (h : finalLoop (n+1) root v st = .ok (x, st')) : st.Le st' := by
  rw [finalLoop_succ] at h
  by_cases hc : (v.isStr || v.isVl) = true
  · simp only [hc, if_true] at h
    rcases hi : interp n root v st with e | ⟨v1, st1⟩
    · simp [hi] at h
    · simp only [hi] at h
      exact (ih.interp _ _ _ _ _ hi).trans (ih.finalLoop _ _ _ _ _ h)
  · have hc' : (v.isStr || v.isVl) = false := by simpa using hc
    simp only [hc', Bool.false_eq_true, if_false, Except.ok.injEq, Prod.mk.injEq] at h
    rw [← h.2]; exact .refl _

theorem grow_interpStrOrVl_succ {n : Nat} (ih : GrowAt n) (root : Mapping) (v : Value) (st : RState)
    (x : Value) (st' : RState) (h : interpStrOrVl (n+1) root v st = .ok (x, st')) : st.Le st' := by
  rw [interpStrOrVl_succ] at h
  cases v with
  | str s => simp only at h; exact ih.interp _ _ _ _ _ h
  | vl l =>
    simp only at h
    cases hc : layersStr n root l st with
    | error e => simp [hc] at h
    | ok i =>
      simp only [hc] at h
      cases hf : flatVl i .null st with
      | error e => simp [hf] at h
      | ok r => simp only [hf, Except.ok.injEq, Prod.mk.injEq] at h; rw [← h.2]; exact .refl _
  | _ => simp only [Except.ok.injEq, Prod.mk.injEq] at h; rw [← h.2]; exact .refl _

theorem grow_strLoop_succ {n : Nat} (ih : GrowAt n) (root : Mapping) (v : Value) (st : RState)
    (x : Value) (st' : RState) (h : strLoop (n+1) root v st = .ok (x, st')) : st.Le st' := by
  rw [strLoop_succ] at h
  by_cases hc : v.isStr = true
  · simp only [hc, if_true] at h
    rcases hi : interp n root v st with e | ⟨v1, st1⟩
    · simp [hi] at h
    · simp only [hi] at h
      exact (ih.interp _ _ _ _ _ hi).trans (ih.strLoop _ _ _ _ _ h)
  · have hc' : v.isStr = false := by simpa using hc
    simp only [hc', Bool.false_eq_true, if_false, Except.ok.injEq, Prod.mk.injEq] at h
    rw [← h.2]; exact .refl _

theorem growAt : ∀ n, GrowAt n := by
  intro n
  induction n with
  | zero => exact growAt_zero
  | succ n ih =>
    exact ⟨grow_interp_succ ih, grow_tokRender_succ ih, grow_tokResolve_succ ih, grow_descend_succ ih,
      grow_finalLoop_succ ih, grow_interpStrOrVl_succ ih, grow_strLoop_succ ih⟩

/-- **Depth/seen monotonicity**: whenever `interp` returns a state, that state is at least as
deep as the incoming one and has seen at least the same reference paths (and `cur` is
unchanged).  Likewise for the other six state-returning functions (`growAt`). -/
theorem depth_mono {n : Nat} {root : Mapping} {v : Value} {st : RState} {x : Value} {st' : RState}
    (h : interp n root v st = .ok (x, st')) :
    st.depth ≤ st'.depth ∧ st.seen ⊆ st'.seen ∧ st'.cur = st.cur :=
  (growAt n).interp _ _ _ _ _ h

theorem tokRender_depth_mono {n : Nat} {root : Mapping} {t : Token} {st : RState} {x : Value}
    {st' : RState} (h : tokRender n root t st = .ok (x, st')) :
    st.depth ≤ st'.depth ∧ st.seen ⊆ st'.seen ∧ st'.cur = st.cur :=
  (growAt n).tokRender _ _ _ _ _ h

theorem tokResolve_depth_mono {n : Nat} {root : Mapping} {t : Token} {st : RState} {x : Value}
    {st' : RState} (h : tokResolve n root t st = .ok (x, st')) :
    st.depth ≤ st'.depth ∧ st.seen ⊆ st'.seen ∧ st'.cur = st.cur :=
  (growAt n).tokResolve _ _ _ _ _ h

theorem descend_depth_mono {n : Nat} {root : Mapping} {v : Value} {ks : List Str} {st : RState}
    {p : Str} {x : Value} {st' : RState} (h : descend n root v ks st p = .ok (x, st')) :
    st.depth ≤ st'.depth ∧ st.seen ⊆ st'.seen ∧ st'.cur = st.cur :=
  (growAt n).descend _ _ _ _ _ _ _ h

theorem finalLoop_depth_mono {n : Nat} {root : Mapping} {v : Value} {st : RState} {x : Value}
    {st' : RState} (h : finalLoop n root v st = .ok (x, st')) :
    st.depth ≤ st'.depth ∧ st.seen ⊆ st'.seen ∧ st'.cur = st.cur :=
  (growAt n).finalLoop _ _ _ _ _ h

theorem interpStrOrVl_depth_mono {n : Nat} {root : Mapping} {v : Value} {st : RState} {x : Value}
    {st' : RState} (h : interpStrOrVl n root v st = .ok (x, st')) :
    st.depth ≤ st'.depth ∧ st.seen ⊆ st'.seen ∧ st'.cur = st.cur :=
  (growAt n).interpStrOrVl _ _ _ _ _ h

theorem strLoop_depth_mono {n : Nat} {root : Mapping} {v : Value} {st : RState} {x : Value}
    {st' : RState} (h : strLoop n root v st = .ok (x, st')) :
    st.depth ≤ st'.depth ∧ st.seen ⊆ st'.seen ∧ st'.cur = st.cur :=
  (growAt n).strLoop _ _ _ _ _ h

/-- A reference token that resolves successfully hands on a strictly deeper state which has the
resolved path among its `seen` paths. -/
theorem tokResolve_ref_depth_lt {n : Nat} {root : Mapping} {parts : List Token} {st : RState}
    {x : Value} {st' : RState} (h : tokResolve n root (.ref parts) st = .ok (x, st')) :
    st.depth + 1 ≤ st'.depth ∧ st.depth + 1 ≤ maxDepth := by
  cases n with
  | zero => simp [tokResolve] at h
  | succ n =>
    rw [tokResolve_ref] at h
    by_cases hd : st.depth + 1 > maxDepth
    · simp [hd] at h
    · simp only [hd, if_false] at h
      cases hc : slice n root parts { st with depth := st.depth + 1 } with
      | error e => simp [hc] at h
      | ok path =>
        simp only [hc] at h
        by_cases hs : path ∈ st.seen
        · simp [hs] at h
        · simp only [hs, if_false] at h
          cases hsp : splitColon path with
          | nil => simp [hsp] at h
          | cons k0 segs =>
            simp only [hsp] at h
            cases hg : root.get (.str k0) with
            | none => simp [hg] at h
            | some v0 =>
              simp only [hg] at h
              rcases hdn : descend n root v0 segs
                { st with depth := st.depth + 1, seen := path :: st.seen } path with e | ⟨v, st3⟩
              · simp [hdn] at h
              · simp only [hdn] at h
                have h1 := (descend_depth_mono hdn).1
                have h2 := (finalLoop_depth_mono h).1
                simp only at h1
                exact ⟨Nat.le_trans h1 h2, Nat.le_of_not_gt hd⟩

/-! ## Small facts used by the reference-chain theorems -/

theorem splitColon_of_not_mem {a : Str} (h : ':' ∉ a) : splitColon a = [a] := by
  induction a with
  | nil => rfl
  | cons c cs ih =>
    have hc : c ≠ ':' := fun e => h (by simp [e])
    have hcs : ':' ∉ cs := fun m => h (List.mem_cons_of_mem _ m)
    simp [splitColon, ih hcs, hc]

/-- A path that is a single literal piece renders to itself (fuel ≥ 2). -/
theorem slice_single_lit (k : Nat) (root : Mapping) (a : Str) (st : RState) :
    slice (k+2) root [.lit a] st = .ok a := by
  simp [slice_cons, tokResolve_lit, strLoop_succ, sliceFinish_succ, slice_nil, rawString,
    Value.isStr, Value.isMap, Value.isSeq]

theorem lookup_mem {k : Key} {v : Value} {es : List (Key × Value)} (h : lookup k es = some v) :
    (k, v) ∈ es := by
  induction es with
  | nil => simp [lookup] at h
  | cons kv es ih =>
    obtain ⟨k', v'⟩ := kv
    simp only [lookup] at h
    by_cases hk : k' = k
    · simp only [hk, if_true, Option.some.injEq] at h; simp [hk, h]
    · simp only [hk, if_false] at h; exact List.mem_cons_of_mem _ (ih h)

/-- One whole-value reference `${a}` (no `:` in `a`), unfolded: depth check, loop check, then the
target value is interpolated until it is no longer a string / layer list, then once more. -/
theorem interp_wholeRef (n : Nat) (root : Mapping) (s a : Str) (st : RState) (v0 : Value)
    (hparse : Token.parse s = .ok (some (.ref [.lit a]))) (hcolon : ':' ∉ a)
    (hget : root.get (.str a) = some v0) :
    interp (n+6) root (.str s) st =
      if st.depth + 1 > maxDepth then .error (.depth st.curKey)
      else if a ∈ st.seen then .error .loop
      else
        match finalLoop (n+3) root v0 { st with depth := st.depth + 1, seen := a :: st.seen } with
        | .error e => .error e
        | .ok (v, st3) => interp (n+4) root v st3 := by
  rw [interp_str, hparse]
  simp only
  rw [tokRender_succ, tokResolve_ref, slice_single_lit]
  by_cases hd : st.depth + 1 > maxDepth
  · simp only [hd, if_true]; rfl
  · simp only [hd, if_false]
    by_cases hs : a ∈ st.seen
    · simp only [hs, if_true]
    · simp only [hs, if_false, splitColon_of_not_mem hcolon, hget, descend_nil]

/-- If a mapping interpolates successfully then every entry value does (at the same fuel, by
fuel monotonicity), each starting from the *incoming* state. -/
theorem interpEs_ok_all {n : Nat} {root : Mapping} {ck ok : List Key} {st : RState} :
    ∀ {es : List (Key × Value)} {acc m : Mapping}, interpEs n root es ck ok st acc = .ok m →
    ∀ k v, (k, v) ∈ es → ∃ x st', interp n root v (st.pushMappingKey k) = .ok (x, st') := by
  induction n with
  | zero => intro es acc m h; simp [interpEs] at h
  | succ n ih =>
    intro es acc m h k v hm
    cases es with
    | nil => simp at hm
    | cons kv rest =>
      obtain ⟨k0, v0⟩ := kv
      rw [interpEs_cons] at h
      rcases hi : interp n root v0 (st.pushMappingKey k0) with e | ⟨v', st'⟩
      · simp [hi] at h
      · simp only [hi] at h
        cases hfl : flat v' st' with
        | error e => simp [hfl] at h
        | ok v'' =>
          simp only [hfl] at h
          cases hins : acc.insertImpl k0 v'' (decide (k0 ∈ ck)) (decide (k0 ∈ ok)) with
          | error e => simp [hins] at h
          | ok acc' =>
            simp only [hins] at h
            rcases List.mem_cons.1 hm with heq | hrest
            · simp only [Prod.mk.injEq] at heq
              obtain ⟨rfl, rfl⟩ := heq
              exact ⟨v', st', interp_fuel_mono _ _ _ hi (by simp)⟩
            · obtain ⟨x, st1, hx⟩ := ih h k v hrest
              exact ⟨x, st1, interp_fuel_mono _ _ _ hx (by simp)⟩

/-- If a sequence interpolates successfully then every element does, each from the incoming
state (with its own index pushed). -/
theorem interpL_ok_all {n : Nat} {root : Mapping} {st : RState} :
    ∀ {l : List Value} {idx : Nat} {xs : List Value}, interpL n root l idx st = .ok xs →
    xs.length = l.length ∧ ∀ i (h : i < l.length) (h' : i < xs.length),
      ∃ st', interp n root l[i] (st.pushListIndex (idx + i)) = .ok (xs[i], st') := by
  induction n with
  | zero => intro l idx xs h; simp [interpL] at h
  | succ n ih =>
    intro l idx xs h
    cases l with
    | nil =>
      simp only [interpL_nil, Except.ok.injEq] at h
      subst h; simp
    | cons v vs =>
      rw [interpL_cons] at h
      rcases hi : interp n root v (st.pushListIndex idx) with e | ⟨x, st'⟩
      · simp [hi] at h
      · simp only [hi] at h
        cases hr : interpL n root vs (idx + 1) st with
        | error e => simp [hr] at h
        | ok ys =>
          simp only [hr, Except.ok.injEq] at h
          subst h
          obtain ⟨hlen, hall⟩ := ih hr
          refine ⟨by simp [hlen], ?_⟩
          intro i hi1 hi2
          cases i with
          | zero => exact ⟨st', interp_fuel_mono _ _ _ hi (by simp)⟩
          | succ j =>
            simp only [List.length_cons, Nat.add_lt_add_iff_right] at hi1 hi2
            obtain ⟨st1, h1⟩ := hall j hi1 hi2
            refine ⟨st1, ?_⟩
            have : idx + (j + 1) = idx + 1 + j := by omega
            simp only [List.getElem_cons_succ, this]
            exact interp_fuel_mono _ _ _ h1 (by simp)

/-- Conversely: elements that interpolate one by one (each from the incoming state) make the
whole sequence interpolate to exactly those results — nothing one element does to its copy of
the state is visible to another. -/
theorem interpL_of_all {n : Nat} {root : Mapping} {st : RState} :
    ∀ (l : List Value) (idx : Nat) (xs : List Value), xs.length = l.length →
    (∀ i (h : i < l.length) (h' : i < xs.length),
      ∃ st', interp n root l[i] (st.pushListIndex (idx + i)) = .ok (xs[i], st')) →
    interpL (n + l.length + 1) root l idx st = .ok xs := by
  intro l
  induction l with
  | nil => intro idx xs hlen _; cases xs with
    | nil => rfl
    | cons _ _ => simp at hlen
  | cons v vs ih =>
    intro idx xs hlen hall
    cases xs with
    | nil => simp at hlen
    | cons x xs =>
      simp only [List.length_cons, Nat.add_right_cancel_iff] at hlen
      obtain ⟨st0, h0⟩ := hall 0 (by simp) (by simp)
      have hrest := ih (idx + 1) xs hlen (by
        intro i h h'
        obtain ⟨st1, h1⟩ := hall (i + 1) (by simpa using h) (by simpa using h')
        refine ⟨st1, ?_⟩
        have : idx + 1 + i = idx + (i + 1) := by omega
        rw [this]; simpa using h1)
      have e : n + (v :: vs).length + 1 = (n + vs.length + 1) + 1 := by simp; omega
      rw [e, interpL_cons]
      have h0' := interp_fuel_mono_le (m := n + vs.length + 1) (by omega) _ _ _ h0 (by simp)
      simp only [Nat.add_zero, List.getElem_cons_zero] at h0'
      simp only [h0', hrest]

end Reclass
